"""C18 - audio configuration codecs are exact over their whole domain (AacSyntax.tla, AacTrace.tla)."""
import os
import core


def run(ctx):
    q = ctx.tier == "quick"
    ctx.build_harness()
    total = 0
    for mode, cfg, kw in (("asc", "Aac_asc.cfg", {}),
                          ("adts", "Aac_adts_quick.cfg" if q else "Aac_adts_thorough.cfg", {"heap": "12g"}),
                          ("sync", "Aac_sync_quick.cfg" if q else "Aac_sync_thorough.cfg", {"stack": "512m"})):
        r = ctx.tlc_ok("AacSyntax", cfg, workers=8, timeout=3000, **kw)
        if len(r.exported) * 3 != r.distinct:
            raise core.Machinery("export count %d does not match terminal states (%d distinct)" % (len(r.exported), r.distinct))
        inp = ctx.write_ndjson("aac_%s.ndjson" % mode, r.exported)
        core.absorb(ctx, ctx.harness(["c18-replay", "-in", inp]), prefix="")
        total += len(r.exported)
    tr = os.path.join(ctx.specdir, "trace.ndjson")
    s3 = core.absorb(ctx, ctx.harness(["c18-drive", "-trace", tr, "-n", "300" if q else "3000"]))
    ctx.validate_traces_all("AacTrace", "AacTrace.cfg", tr, what="AacTrace.tla rejected a recorded encode/decode execution", stack="512m")
    ctx.cov["bounds"] = {"asc": "object types {2,5,29} x (13 table + 6 explicit frequencies) x 16 channel configs x extension frequencies",
                         "adts": "13 indices x 8 channel configs x 4 profiles x %s payload lengths" % ("24 boundary" if q else "all 8185"),
                         "junk": "all strings over {FF,FE,F1,12%s} up to length %d + long runs" % ("" if q else ",00", 4 if q else 6),
                         "trace_events": s3["extra"]["events"]}
    ctx.cov["rule"] = ("one behaviour per element of the finite domain enumerated by AacSyntax.tla (Init = domain); non-trivial = "
                       "reached the judged round-trip comparison on real code; distinct by input record")
    ctx.assumptions += ["ADTS headers with CRC / MPEG-2 id are decoder-only (the encoder cannot produce them): judged as MODEL-DRIFT diagnostics, not verdicts"]
    return ctx.finish("model_checking", exhaustive=True)
