"""C10 - cropping a progressive file yields exactly a prefix of every track (Crop.tla)."""
import core


def run(ctx):
    q = ctx.tier == "quick"
    ctx.build_harness()
    crop = ctx.build_repo_binary("./cmd/mp4ff-crop", "mp4ff-crop")
    # design check of the tool's table-cropping routines over all run-length shapes and cut points
    ctx.tlc_ok("Crop", "Crop_tables.cfg" if q else "Crop_tables_thorough.cfg", workers=14, timeout=3000, heap="16g", stack="128m")
    r = ctx.tlc_ok("Crop", "Crop_files_%s.cfg" % ("quick" if q else "thorough"), workers=14, timeout=3000, heap="16g", stack="128m")
    inp = ctx.write_ndjson("crop.ndjson", sorted(r.exported, key=lambda e: (len(e["tracks"]), str(e))))
    s = core.absorb(ctx, ctx.harness(["c10-replay", "-in", inp, "-crop", crop], timeout=3000))
    if s["extra"]["tool_ok"] < 100:
        raise core.Machinery("mp4ff-crop succeeded on fewer than 100 inputs (dead driver?)")
    ctx.cov["bounds"] = {"video": "N in %s samples, constant/alternating durations, every sync set containing sample 1 or no stss, with/without ctts, all chunkings" % ("{3,4}" if q else "{2..5}"),
                         "audio": "optional second track (3 or 7 equal samples, or 2 samples with a long last one so that the track is kept whole; timescale 500) and audio-only files", "layouts": ["stco", "co64", "mdat before moov", "edit lists", "mdat with largesize header (after and before moov)", "chunks interleaved in reverse trak order"],
                         "durations": "every sample start of the reference track in ms, +-1 ms, and past the end",
                         "tool_ok": s["extra"]["tool_ok"], "tool_failed": s["extra"]["tool_failed"]}
    ctx.cov["rule"] = ("behaviours = (file, duration) pairs of Crop.tla; the built mp4ff-crop binary runs on the materialised file; judged only when it "
                       "exits 0 and the spec defines an end time; non-trivial = tool succeeded and the output was compared sample by sample")
    ctx.cov["traces_validated_against_impl"] = 0
    return ctx.finish("model_checking", exhaustive=True)
