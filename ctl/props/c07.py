"""C07 - encrypted output is well-formed Common Encryption and matches a reference cipher (Cenc.tla, CencTrace.tla)."""
import core
from props import cenc_common


def keyfn(info):
    ev = info.get("event") or {}
    head = (info.get("trace") or [{}])[0]
    what = ev.get("ev", "?")
    if what == "sample":
        if not ev.get("cipher_ok", True):
            what = "sample/cipher-differs-from-reference"
        elif not ev.get("clear_ok", True):
            what = "sample/clear-bytes-changed"
        else:
            what = "sample/subsample-map"
    elif what == "fragment":
        what = "fragment/aux-info-or-iv-schedule"
    return "trace/%s/%s/%s" % (head.get("codec", "?"), head.get("scheme", "?"), what)


def run(ctx):
    s, t7, t6 = cenc_common.generate_and_drive(ctx)
    ctx.violations = [v for v in ctx.violations if not v["key"].startswith("roundtrip")]
    ctx.validate_traces_all("CencTrace", "CencTrace.cfg", t7, keyfn=keyfn, max_rejects=8, heap="12g", stack="64m",
                            groupfn=lambda h: (h.get("codec"), h.get("scheme")),
                            what="CencTrace.tla rejected an observed encrypted fragment")
    ctx.cov["bounds"]["trace_events"] = s["extra"]["events07"]
    ctx.cov["rule"] = ("samples = reachable states of Cenc.tla (NAL size mixes); each encrypted inside 1..3-sample fragments by the real "
                       "EncryptFragment; the encrypted bytes are parsed by the harness's walker and validated by CencTrace.tla; protected "
                       "bytes compared with an independent CTR / CBC-pattern schedule over the raw AES block function")
    ctx.assumptions += ["AES block function (crypto/aes) trusted", "cbcs video: slice-header length taken from avc.ParseSliceHeader (judged by C15)"]
    return ctx.finish("model_checking")
