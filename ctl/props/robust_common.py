"""Shared by C04 / C16: mutation operators (the enumerated malformed-input grammar), the crash-tolerant
monitor loop around the isolated worker process, and the keying of rejected events."""
import json
import os
import re
import subprocess
import core

SUBST = (0x00, 0x01, 0x7f, 0x80, 0xff)


def prefixes(b, dense=48, stride=16):
    out = []
    n = len(b)
    for k in range(0, n):
        if k < dense or k % stride == 0 or k > n - 6:
            out.append(b[:k])
    return out


def substitutions(b, first=24):
    out = []
    for p in range(min(first, len(b))):
        for v in SUBST:
            if b[p] != v:
                out.append(b[:p] + bytes([v]) + b[p + 1:])
    return out


def mutate(base, kind, ident, dense=48, first=24):
    """All single mutations of one base: identity, every prefix, byte substitutions in the head."""
    res = [(ident + "/id", kind, base)]
    for i, m in enumerate(prefixes(base, dense)):
        res.append(("%s/prefix%d" % (ident, len(m)), kind, m))
    for i, m in enumerate(substitutions(base, first)):
        res.append(("%s/subst%d" % (ident, i), kind, m))
    return res


class BitW:
    def __init__(self):
        self.bits = []

    def u(self, n, v):
        self.bits += [(v >> (n - 1 - i)) & 1 for i in range(n)]
        return self

    def ue(self, k):
        p = bin(k + 1)[2:]
        self.bits += [0] * (len(p) - 1) + [int(c) for c in p]
        return self

    def bytes_rbsp(self, hdr):
        b = self.bits + [1]
        while len(b) % 8:
            b.append(0)
        raw = bytes(int("".join(map(str, b[i:i + 8])), 2) for i in range(0, len(b), 8))
        out, z = bytearray(hdr), 0
        for c in raw:
            if z == 2 and c <= 3:
                out.append(3)
                z = 0
            out.append(c)
            z = z + 1 if c == 0 else 0
        return bytes(out)


def write_inputs(ctx, name, items):
    path = os.path.join(ctx.scratch, name)
    with open(path, "w") as f:
        for ident, kind, b in items:
            f.write(json.dumps({"id": ident, "kind": kind, "hex": b.hex()}) + "\n")
    return path


def monitor_sharded(ctx, target, items, shards=8, mem_kb=6000000, timeout=9000):
    """Splits the inputs over several isolated workers running in parallel; returns (trace path, fatal count)."""
    import threading
    shards = max(1, min(shards, len(items) // 50 or 1))
    parts = [items[i::shards] for i in range(shards)]
    results = [None] * shards
    errors = []

    def work(k):
        try:
            inp = write_inputs(ctx, "%s.shard%d.ndjson" % (target, k), parts[k])
            results[k] = monitor(ctx, target, inp, len(parts[k]), mem_kb=mem_kb, timeout=timeout, tag="s%d" % k)
        except Exception as e:      # noqa
            errors.append(e)

    ths = [threading.Thread(target=work, args=(k,)) for k in range(shards)]
    for t in ths:
        t.start()
    for t in ths:
        t.join()
    if errors:
        raise errors[0]
    trace_all = os.path.join(ctx.specdir, "trace.ndjson")
    fat = 0
    with open(trace_all, "w") as out:
        for tr, f in results:
            with open(tr) as g:
                out.write(g.read())
            fat += f
    return trace_all, fat


def monitor(ctx, target, inputs_path, n_inputs, mem_kb=8000000, timeout=9000, tag=""):
    """Runs the worker; when it dies (fatal error, watchdog) the input named in the progress file is
    recorded as fatal and the worker restarted after it."""
    trace_all = os.path.join(ctx.specdir, "trace%s.ndjson" % tag)
    open(trace_all, "w").close()
    start = 0
    fatals = 0
    part = os.path.join(ctx.scratch, "part%s.ndjson" % tag)
    progress = os.path.join(ctx.scratch, "progress%s.txt" % tag)
    summaries = []
    while start < n_inputs:
        cmd = "ulimit -v %d; exec %s robust-run -target %s -in %s -trace %s -progress %s -start %d" % (
            mem_kb, ctx.harness_bin, target, inputs_path, part, progress, start)
        try:
            p = subprocess.run(["bash", "-c", cmd], capture_output=True, text=True, env=ctx.env(), timeout=timeout, cwd=ctx.scratch)
            rc, out, err = p.returncode, p.stdout, p.stderr
        except subprocess.TimeoutExpired as e:
            rc, out, err = -9, "", "watchdog timeout"
        with open(part) as f:
            lines = f.read().splitlines()
        if rc == 0:
            with open(trace_all, "a") as f:
                f.write("\n".join(lines) + ("\n" if lines else ""))
            for ln in out.splitlines():
                try:
                    o = json.loads(ln)
                    if o.get("type") == "summary":
                        summaries.append(o)
                except ValueError:
                    pass
            break
        # worker died: attribute to the input in progress
        try:
            with open(progress) as f:
                idx_s, ident = f.read().split(None, 1)
            idx = int(idx_s)
        except (OSError, ValueError):
            raise core.Machinery("worker died (rc=%s) without progress information:\n%s" % (rc, err[-2000:]))
        # keep complete traces before the fatal input, drop the partial one
        keep = []
        for ln in lines:
            if '"ev":"reset"' in ln and ('"idx":%d,' % idx in ln or '"idx":%d}' % idx in ln):
                break
            keep.append(ln)
        cause = "fatal error"
        m = re.search(r"fatal error: ([^\n]+)", err)
        if m:
            cause = "fatal error: " + m.group(1)
        elif rc == -9:
            cause = "watchdog timeout"
        frame = "?"
        m = re.search(r"github.com/Eyevinn/mp4ff/([\w/]+\.[\w.()*]+)", err)
        if m:
            frame = m.group(1)
        m = re.search(r"watchdog: (.+?) did not return", err)
        if m:
            frame = m.group(1)
        keep.append(json.dumps({"ev": "reset", "id": ident.strip(), "kind": "?", "len": 0, "idx": idx}))
        keep.append(json.dumps({"ev": "call", "ep": "worker process died", "outcome": "fatal", "what": cause + " @ " + frame, "us": 0, "alloc_kb": 0, "len": 0}))
        with open(trace_all, "a") as f:
            f.write("\n".join(keep) + "\n")
        fatals += 1
        if fatals > 600:
            raise core.Machinery("more than 600 fatal worker crashes")
        start = idx + 1
    return trace_all, fatals


def keyfn(info):
    ev = info.get("event") or {}
    head = (info.get("trace") or [{}])[0]
    ep = ev.get("ep", "?")
    if ev.get("outcome") in ("panic", "fatal"):
        what = ev.get("what", "")
        site = what.split(" @ ")[-1].strip() if " @ " in what else "?"
        site = re.sub(r":\d+$", "", site)           # function + file, not the line number
        cls = "panic" if ev.get("outcome") == "panic" else "fatal"
        msg = what.split(" @ ")[0]
        msg = re.sub(r"\d+", "N", msg)[:60]
        return "%s/%s/%s/%s" % (cls, ep, site, msg)
    if ev.get("us", 0) > 2000000 + 20 * ev.get("len", 0):
        return "time-budget/%s" % ep
    return "alloc-budget/%s" % ep
