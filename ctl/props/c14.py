"""C14 - NAL unit framing conversions preserve the NAL unit sequence (AnnexB.tla, AnnexBTrace.tla)."""
import os
import re
import subprocess
import core


def run_lister(ctx, records, q, stats):
    """The shipped lister is a 'helper that lists NAL units' too: the built mp4ff-nallister runs on the Annex B form of the
    unit streams of AnnexB.tla; the listed sequence of (type, length) must be the unit sequence of the model."""
    nallister = ctx.build_repo_binary("./cmd/mp4ff-nallister", "mp4ff-nallister")
    path = os.path.join(ctx.scratch, "lister_in.bin")
    step = max(1, len(records) // (2500 if q else 20000))
    item = re.compile(r"_(\d+) (?:\[[^\]]*\] )?\((\d+)B\)")
    for i, e in enumerate(records):
        if i % step != ctx.seed % step:
            continue
        codec = e["codec"]
        with open(path, "wb") as f:
            f.write(bytes(e["stream"]))
        try:
            p = subprocess.run([nallister, "-annexb", "-c", codec, path], capture_output=True, text=True, timeout=10, errors="replace")
        except subprocess.TimeoutExpired:
            ctx.report("lister/hang", "mp4ff-nallister does not return within 10 s", {"stream": bytes(e["stream"]).hex()})
            continue
        stats["runs"] += 1
        if p.returncode != 0:
            stats["tool_rejects"] += 1          # e.g. a unit of type SPS whose payload is not an SPS: the tool stops, nothing to judge
            continue
        listed = [(int(t), int(n)) for line in p.stdout.splitlines() if line.startswith("Sample ") for t, n in item.findall(line)]
        want = [(t, len(u)) for t, u in zip(e["types"], e["units"])]
        stats["judged"] += 1
        if listed != want:
            what = "lister/units-missing" if len(listed) < len(want) else "lister/sequence-differs"
            ctx.report("%s/%s" % (what, codec), "mp4ff-nallister -annexb lists %s, the stream holds the units %s (type, length)" % (listed, want),
                       {"codec": codec, "stream": bytes(e["stream"]).hex(), "listed": listed, "units": want})


def run(ctx):
    q = ctx.tier == "quick"
    t = "quick" if q else "thorough"
    ctx.build_harness()
    # 1. design check of the word-at-a-time trick at scaled word size: all streams up to the bound
    ctx.tlc_ok("AnnexB", "AnnexB_design_%s.cfg" % t, workers=12, timeout=2400, heap="12g")
    lister = {"runs": 0, "judged": 0, "tool_rejects": 0}
    # 2. windows at every alignment for the real 8-byte word, 3. structured unit streams
    for cfg in ("AnnexB_windows_%s.cfg" % t, "AnnexB_units_avc_%s.cfg" % t, "AnnexB_units_hevc_%s.cfg" % t):
        r = ctx.tlc_ok("AnnexB", cfg, workers=12, timeout=2400, heap="12g")
        if not r.exported:
            raise core.Machinery("nothing exported by " + cfg)
        inp = ctx.write_ndjson(cfg + ".ndjson", r.exported)
        core.absorb(ctx, ctx.harness(["c14-replay", "-in", inp]))
        if "units" in cfg:
            run_lister(ctx, [e for e in r.exported if e.get("mode") == "units"], q, lister)
    if lister["judged"] < 500:
        raise core.Machinery("only %d listings of mp4ff-nallister judged" % lister["judged"])
    # 4. traces of long random streams
    tr = os.path.join(ctx.specdir, "trace.ndjson")
    s3 = core.absorb(ctx, ctx.harness(["c14-drive", "-trace", tr, "-n", "300" if q else "3000"]))
    ctx.validate_traces_all("AnnexBTrace", "AnnexBTrace.cfg", tr, what="AnnexBTrace.tla rejected a recorded scan/convert execution")
    ctx.cov["bounds"] = {"design": "all streams over {00,01,other} up to length %d, word size 4" % (10 if q else 13),
                         "windows": "all windows over {00,01,other}^%d at alignments 0..15 inside filler and at the very end of the stream (every length mod 8), real word size 8" % (6 if q else 8),
                         "units": "1..%d NAL units, AVC and HEVC types, lengths around word boundaries, 3/4-byte start codes, zero/escape content classes" % (2 if q else 3),
                         "lister": "the built mp4ff-nallister -annexb on %d unit streams; %d listings compared with the model's unit sequence (type, length), %d runs where the tool stops on a parameter set it cannot parse" % (lister["runs"], lister["judged"], lister["tool_rejects"]),
                         "trace_events": s3["extra"]["events"]}
    ctx.cov["rule"] = ("behaviours = reachable states of AnnexB.tla in windows/units mode; non-trivial = at least one start code; "
                       "distinct by content")
    return ctx.finish("model_checking", exhaustive=True)
