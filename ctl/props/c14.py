"""C14 - NAL unit framing conversions preserve the NAL unit sequence (AnnexB.tla, AnnexBTrace.tla)."""
import os
import core


def run(ctx):
    q = ctx.tier == "quick"
    t = "quick" if q else "thorough"
    ctx.build_harness()
    # 1. design check of the word-at-a-time trick at scaled word size: all streams up to the bound
    ctx.tlc_ok("AnnexB", "AnnexB_design_%s.cfg" % t, workers=12, timeout=2400, heap="12g")
    # 2. windows at every alignment for the real 8-byte word, 3. structured unit streams
    for cfg in ("AnnexB_windows_%s.cfg" % t, "AnnexB_units_avc_%s.cfg" % t, "AnnexB_units_hevc_%s.cfg" % t):
        r = ctx.tlc_ok("AnnexB", cfg, workers=12, timeout=2400, heap="12g")
        if not r.exported:
            raise core.Machinery("nothing exported by " + cfg)
        inp = ctx.write_ndjson(cfg + ".ndjson", r.exported)
        core.absorb(ctx, ctx.harness(["c14-replay", "-in", inp]))
    # 4. traces of long random streams
    tr = os.path.join(ctx.specdir, "trace.ndjson")
    s3 = core.absorb(ctx, ctx.harness(["c14-drive", "-trace", tr, "-n", "300" if q else "3000"]))
    ctx.validate_traces_all("AnnexBTrace", "AnnexBTrace.cfg", tr, what="AnnexBTrace.tla rejected a recorded scan/convert execution")
    ctx.cov["bounds"] = {"design": "all streams over {00,01,other} up to length %d, word size 4" % (10 if q else 13),
                         "windows": "all windows over {00,01,other}^%d at alignments 0..15 inside filler and at the very end of the stream (every length mod 8), real word size 8" % (6 if q else 8),
                         "units": "1..%d NAL units, AVC and HEVC types, lengths around word boundaries, 3/4-byte start codes, zero/escape content classes" % (2 if q else 3),
                         "trace_events": s3["extra"]["events"]}
    ctx.cov["rule"] = ("behaviours = reachable states of AnnexB.tla in windows/units mode; non-trivial = at least one start code; "
                       "distinct by content")
    return ctx.finish("model_checking", exhaustive=True)
