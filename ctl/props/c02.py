"""C02 - Size() equals bytes written equals the header size field (BoxSize.tla)."""
import os
import core


def keyfn(info):
    ev = info.get("event") or {}
    tr = info.get("trace") or [{}]
    head = tr[0]
    what = ev.get("ev", "?")
    if what == "encode":
        if ev.get("written") != ev.get("size_after"):
            what = "written-ne-size"
        elif not ev.get("wellsized", True):
            what = "not-wellsized"
        elif ev.get("size_before") != ev.get("written"):
            what = "size-before-ne-written"
        else:
            what = "bytes-or-size-changed"
    if head.get("omitted") and what == "written-ne-size":
        what += "/segment-mode-omits-top-level-boxes:" + "+".join(sorted(set(head["omitted"])))
    if head.get("kind") == "file" and what == "written-ne-size" and ev.get("enc") == "encSW" and not head.get("omitted"):
        what += "/encSW"
    return "trace/%s/%s/%s" % (head.get("kind", "?"), head.get("type", "?"), what)


def run(ctx):
    q = ctx.tier == "quick"
    ctx.build_harness()
    r = ctx.tlc_ok("BoxSize", "BoxSize_gen_quick.cfg" if q else "BoxSize_gen_thorough.cfg", workers=8, timeout=1200)
    inp = ctx.write_ndjson("hist.ndjson", r.exported)
    tr = os.path.join(ctx.specdir, "trace.ndjson")
    ri = ctx.tlc_ok("BoxLayouts", "BoxLayouts_quick.cfg", workers=14, timeout=3000, heap="12g", stack="64m")
    inst = ctx.write_ndjson("inst.ndjson", sorted(ri.exported, key=lambda e: (e["layout"], e["ver"], e["flags"], e["cnt"], str(e["pick"]), e["hdr"], e["wrap"], str(e.get("ord")))))
    s = core.absorb(ctx, ctx.harness(["c02-drive", "-in", inp, "-trace", tr, "-per", "4" if q else "16", "-instances", inst,
                                      "-instance-stride", "2" if q else "1"], timeout=3000))
    if s["extra"]["objects"] < 500:
        raise core.Machinery("object pool unexpectedly small: %d" % s["extra"]["objects"])
    if s["extra"]["layout_objects"] < 2000:
        raise core.Machinery("only %d BoxLayouts.tla instances in the pool" % s["extra"]["layout_objects"])
    ctx.validate_traces_all("BoxSize", "BoxSize_trace.cfg", tr, keyfn=keyfn, max_rejects=12, groupfn=lambda h: (h.get("type"), h.get("obj", "").split(":")[0].split("#")[0].split("(")[0]), heap="12g",
                            what="BoxSize.tla rejected recorded Size/Info/Encode numbers")
    ctx.cov["bounds"] = {"histories": "all call histories of length <= %d over {Size, Info(''), Info(all:1), Encode, EncodeSW} x optimisation" % (3 if q else 5),
                         "objects": s["extra"]["objects"], "box_shape_instances_among_them": s["extra"]["layout_objects"], "object_types": s["extra"]["object_types"],
                         "histories_per_object": 4 if q else 16, "trace_events": s["extra"]["events"]}
    ctx.cov["rule"] = ("pool = every box at every nesting level of every decodable corpus file, whole files in both encode modes, their init / "
                       "segments / fragments, the decodable instances of every BoxLayouts.tla box shape (alone and inside the parent box), API-built fragments, segments and init segments; each object executes call histories "
                       "enumerated by BoxSize.tla (rotating through all of them); non-trivial = history executed on a real object")
    return ctx.finish("model_checking")
