"""C06 - decrypting what was encrypted restores the content (Cenc.tla, CencTrace.tla)."""
import core
from props import cenc_common


def keyfn(info):
    ev = info.get("event") or {}
    head = (info.get("trace") or [{}])[0]
    what = "roundtrip"
    if ev.get("err"):
        what += "/error"
    elif not ev.get("boxes_kept", True):
        what += "/non-protection-box-lost-or-changed"
    elif not ev.get("samples_ok", True):
        what += "/samples-differ"
    elif not ev.get("entry_restored", True) or not ev.get("sinf_gone", True):
        what += "/sample-entry-not-restored"
    tl = ev.get("top_level") or {}
    if what.endswith("box-lost-or-changed") and " sidx " in (" " + tl.get("clear", "")) and " sidx " not in (" " + tl.get("decrypted", "")):
        return "roundtrip/segment-sidx-dropped/%s/%s" % (head.get("codec", "?"), head.get("scheme", "?"))
    return "trace/%s/%s/%s/extras=%s" % (head.get("codec", "?"), head.get("scheme", "?"), what, head.get("extras", "?"))


def run(ctx):
    s, t7, t6 = cenc_common.generate_and_drive(ctx)
    ctx.validate_traces_all("CencTrace", "CencTrace.cfg", t6, keyfn=keyfn, max_rejects=10, heap="12g", stack="64m",
                            groupfn=lambda h: (h.get("codec"), h.get("scheme"), h.get("extras")),
                            what="CencTrace.tla rejected an encrypt/decrypt round trip")
    ctx.cov["bounds"]["trace_events"] = s["extra"]["events06"]
    ctx.cov["rule"] = ("same generated fragments as C07; each encrypted, encoded, decoded, decrypted with DecryptInit/DecryptSegment, encoded and "
                       "read back by the independent ISO reader; samples, sample entry, non-protection boxes and data offsets compared")
    return ctx.finish("model_checking")
