"""C01 - decode -> encode is lossless outside the don't-care list, and a fixed point (BoxLayouts.tla, BoxRoundTrip.tla)."""
import os
import core


def keyfn(info):
    ev = info.get("event") or {}
    if ev.get("key"):
        return ev["key"]
    head = (info.get("trace") or [{}])[0]
    return "trace/roundtrip/%s/%s" % (ev.get("ev", "?"), head.get("obj", "?").split("/")[0])


def run(ctx):
    q = ctx.tier == "quick"
    ctx.build_harness()
    r = ctx.tlc_ok("BoxLayouts", "BoxLayouts_quick.cfg" if q else "BoxLayouts_thorough.cfg", workers=14, timeout=3000, heap="12g", stack="64m")
    if len(r.exported) < 5000:
        raise core.Machinery("too few layout instances exported: %d" % len(r.exported))
    inp = ctx.write_ndjson("inst.ndjson", r.exported)
    dc = os.path.join(core.VERIF, "dontcare.json")
    t1 = os.path.join(ctx.scratch, "inst_trace.ndjson")
    t2 = os.path.join(ctx.scratch, "corpus_trace.ndjson")
    s1 = core.absorb(ctx, ctx.harness(["c01-replay", "-in", inp, "-trace", t1, "-dontcare", dc], timeout=3000))
    s2 = core.absorb(ctx, ctx.harness(["c01-corpus", "-trace", t2, "-dontcare", dc], timeout=3000))
    acc = s1["extra"]["accepted"]
    layouts = sorted(set(k.split("/")[0] for k in acc))
    never = sorted(l for l in set(k.split("/")[0] for k in s1["extra"]["rejected"]) - set(layouts) if not l.endswith("-odd"))   # "-odd" shapes may be rejected
    if never:
        # a layout no decoder path ever accepts says nothing about the code: the oracle (or the decoder) is off
        ctx.drift.append({"key": "layout-never-accepted", "what": "no instance of these layouts is accepted by any decode path", "case": never})
    if len(layouts) < 100:
        raise core.Machinery("only %d layouts were accepted by a decoder" % len(layouts))
    tr = os.path.join(ctx.specdir, "trace.ndjson")
    with open(tr, "w") as out:
        for p in (t1, t2):
            with open(p) as f:
                for ln in f:
                    out.write(ln)
    ctx.validate_traces_all("BoxRoundTrip", "BoxRoundTrip.cfg", tr, keyfn=keyfn, max_rejects=24, groupfn=lambda h: h.get("group", ""),
                            heap="12g", what="BoxRoundTrip.tla rejected a recorded decode/encode pipeline")
    ctx.cov["bounds"] = {"layouts": len(layouts), "layout_instances": len(r.exported),
                         "shape": "every version x every subset of the defined flag bits x array counts %s x header form {32-bit, largesize} x {alone, inside its parent container}" % ("{0,1,2}" if q else "{0,1,2,3}"),
                         "values": "one field at a time at {00.., FF.., 7F FF.., 80 00..}, all other fields distinct fillers; flags {none, all%s}; counts %s" % ("" if q else ", each single flag", "{2}" if q else "{1,2,3}"),
                         "decode_paths": ["DecodeBox", "DecodeBoxSR", "DecodeFile (box-tree mode)", "DecodeFileSR (box-tree mode)"], "encoders": ["Encode", "EncodeSW"],
                         "corpus_objects": s2["evaluations"], "trace_events": s1["extra"]["events"] + s2["extra"]["events"]}
    ctx.cov["rule"] = ("instances = every initial choice of BoxLayouts.tla (layouts written from ISO/IEC 14496-12/-15/-30, 23001-7, ETSI TS 102 366); each is decoded by all four "
                       "paths and, where accepted, re-encoded by both encoders and compared with the canonical bytes outside the don't-care mask, decoded again and encoded again; "
                       "every corpus and materialised file and each of their top-level boxes goes through the same pipeline with the mask of dontcare.json; "
                       "the recorded pipelines are validated against BoxRoundTrip.tla; non-trivial = accepted by at least one decode path")
    ctx.cov["accepted_per_path"] = {p: sum(v for k, v in acc.items() if k.endswith("/" + p)) for p in ["DecodeBox", "DecodeBoxSR", "DecodeFile", "DecodeFileSR"]}
    ctx.assumptions += ["equality of the first and second decoded structure is judged on the Info(all:1) projection plus byte equality of their encodings (reflect.DeepEqual differences are reported as drift only)",
                        "box types without a layout in BoxLayouts.tla are covered only through the corpus objects"]
    return ctx.finish("model_checking", exhaustive=True)
