"""C05 - samples written into fragments are read back exactly (Fragment.tla)."""
import core


def run(ctx):
    q = ctx.tier == "quick"
    t = "quick" if q else "thorough"
    ctx.build_harness()
    for kind in ("single", "multi"):
        r = ctx.tlc_ok("Fragment", "Fragment_%s_%s.cfg" % (kind, t), workers=14, timeout=3000, heap="16g", stack="64m")
        if not r.exported:
            raise core.Machinery("nothing exported")
        inp = ctx.write_ndjson("frag_%s.ndjson" % kind, r.exported)
        core.absorb(ctx, ctx.harness(["c05-replay", "-in", inp], timeout=3000))
    ctx.cov["bounds"] = {"single_track": "all histories of <= %d adds over 5 sample classes" % (5 if q else 7),
                         "multi_track": "2 tracks, all interleavings of <= %d adds over 5 classes (incl. tracks without samples)" % (4 if q else 5),
                         "api_variants": ["AddFullSampleToTrack", "AddFullSample", "AddSample+data", "AddSampleToTrack+data", "AddSamples", "AddSampleInterval"],
                         "encode": ["Encode", "EncodeSW"], "optimize": [False, True],
                         "segment_shapes": ["1 fragment", "2 fragments with emsg/prft/free/uuid/unknown boxes before each moof"]}
    ctx.cov["rule"] = ("behaviours = encoded states of Fragment.tla (history x optimisation); each replayed through every API variant, "
                       "both encoders and both segment shapes, read back by mp4ff (both decoders) and by an independent ISO reader")
    ctx.cov["traces_validated_against_impl"] = 0
    return ctx.finish("model_checking", exhaustive=True)
