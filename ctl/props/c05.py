"""C05 - samples written into fragments are read back exactly (Fragment.tla)."""
import os
import core


def run(ctx):
    q = ctx.tier == "quick"
    t = "quick" if q else "thorough"
    ctx.build_harness()
    read_traces, traced = [], 0
    for kind in ("single", "multi"):
        r = ctx.tlc_ok("Fragment", "Fragment_%s_%s.cfg" % (kind, t), workers=14, timeout=3000, heap="16g", stack="64m")
        if not r.exported:
            raise core.Machinery("nothing exported")
        inp = ctx.write_ndjson("frag_%s.ndjson" % kind, r.exported)
        rt = os.path.join(ctx.scratch, "read_%s.ndjson" % kind)
        st = core.absorb(ctx, ctx.harness(["c05-replay", "-in", inp, "-readtrace", rt, "-readstride", "7" if q else "3"], timeout=3000))
        read_traces.append(rt)
        traced += st["extra"]["read_traced_track_fragments"]
    # code -> spec: raw box fields vs the samples the library returns, on the corpus and on the segments just written
    rc = os.path.join(ctx.scratch, "read_corpus.ndjson")
    sc = core.absorb(ctx, ctx.harness(["c05-read-trace", "-trace", rc], timeout=3000))
    tr = os.path.join(ctx.specdir, "trace.ndjson")
    with open(tr, "w") as out:
        for p in [rc] + read_traces:
            with open(p) as f:
                for ln in f:
                    out.write(ln)
    ctx.validate_traces_all("FragmentRead", "FragmentRead.cfg", tr, max_rejects=8, heap="12g", stack="64m",
                            keyfn=lambda info: "read/%s" % ("corpus" if not str((info.get("trace") or [{}])[0].get("obj", "")).startswith("hist") else "api-written"),
                            groupfn=lambda h: str(h.get("obj", "")).split("#")[0].split("/")[0],
                            what="FragmentRead.tla rejected the samples returned for a track fragment")
    ctx.cov["bounds"] = {"read_traces": "%d corpus track fragments + %d track fragments of segments written in this run, validated against FragmentRead.tla" % (sc["extra"]["track_fragments"], traced),
                         "single_track": "all histories of <= %d adds over 5 sample classes" % (5 if q else 7),
                         "multi_track": "2 tracks, all interleavings of <= %d adds over 5 classes (incl. tracks without samples)" % (4 if q else 5),
                         "api_variants": ["AddFullSampleToTrack", "AddFullSample", "AddSample+data", "AddSampleToTrack+data", "AddSamples", "AddSampleInterval"],
                         "encode": ["Encode", "EncodeSW"], "optimize": [False, True],
                         "segment_shapes": ["1 fragment", "2 fragments with emsg/prft/free/uuid/unknown boxes before each moof"]}
    ctx.cov["rule"] = ("behaviours = encoded states of Fragment.tla (history x optimisation); each replayed through every API variant, "
                       "both encoders and both segment shapes, read back by mp4ff (both decoders) and by an independent ISO reader")
    return ctx.finish("model_checking", exhaustive=True)
