"""C16 - untrusted elementary-stream bytes never crash or hang the codec helpers (Robust.tla + syntax specs)."""
import os
import core
from props import robust_common as rc

HEVC_VPS = "40010c01ffff022000000300b0000003000003007b18b024"
HEVC_SPS = "420101022000000300b0000003000003007ba0078200887db6718b92448053888892cf24a69272c9124922dc91aa48fca223ff000100016a02020201"
HEVC_PPS = "4401c0252f053240"
AVC_SPS = "6764001eacd940a02ff9610000030001000003003c8f162d96"
AVC_PPS = "68ebecb22c"


def bombs():
    """H3: count / length / id fields set far beyond what the remaining bytes can hold."""
    out = []
    B = rc.BitW
    # AVC SPS, poc type 1 with a huge num_ref_frames_in_pic_order_cnt_cycle
    for cnt in (255, 1 << 16, (1 << 31), (1 << 32) - 2):
        w = B().u(8, 66).u(8, 0).u(8, 30).ue(0).ue(0).ue(1).u(1, 0).ue(0).ue(0).ue(cnt)
        out.append(("H3/avc-sps/poc-cycle-%d" % cnt, "nal-avc", w.bytes_rbsp(b"\x67")))
    # AVC SPS high profile, scaling matrix present but truncated; huge ids
    for sid in (31, 32, 1 << 20):
        w = B().u(8, 100).u(8, 0).u(8, 40).ue(sid).ue(1).ue(0).ue(0).u(1, 0).u(1, 1).u(8, 0xff)
        out.append(("H3/avc-sps/id-%d" % sid, "nal-avc", w.bytes_rbsp(b"\x67")))
    # AVC SPS with VUI and HRD cpb_cnt huge
    for cnt in (31, 32, 1 << 16, 1 << 31):
        w = B().u(8, 66).u(8, 0).u(8, 30).ue(0).ue(0).ue(2).ue(1).u(1, 0).ue(19).ue(14).u(1, 1).u(1, 1).u(1, 0)
        w.u(1, 1).u(1, 0).u(1, 0).u(1, 0).u(1, 0).u(1, 0).u(1, 1).ue(cnt).u(4, 1).u(4, 1)
        out.append(("H3/avc-sps/hrd-cpb-%d" % cnt, "nal-avc", w.bytes_rbsp(b"\x67")))
    # AVC PPS with slice groups: huge group counts
    for ng in (7, 8, 1 << 16, 1 << 31):
        for mt in (0, 2, 6):
            w = B().ue(0).ue(0).u(1, 0).u(1, 0).ue(ng).ue(mt).ue(3).ue(3)
            out.append(("H3/avc-pps/groups-%d-type%d" % (ng, mt), "nal-avc", w.bytes_rbsp(b"\x68")))
    # AVC slice: unknown pps id, huge first_mb, weird slice types
    for pid in (0, 1, 255, 1 << 20):
        for st in (0, 9, 10, 1 << 16):
            w = B().ue(0).ue(st).ue(pid).u(16, 0xffff).u(16, 0xffff)
            out.append(("H3/avc-slice/pps%d-type%d" % (pid, st), "nal-avc", w.bytes_rbsp(b"\x65")))
            out.append(("H3/avc-slice1/pps%d-type%d" % (pid, st), "nal-avc", w.bytes_rbsp(b"\x41")))
    # HEVC SPS: huge counts after a valid profile_tier_level
    ptl = bytes.fromhex("0101022000000300b0000003000003007b")
    for field in range(6):
        for cnt in (64, 65, 1 << 16, 1 << 31):
            w = B().u(4, 0).u(3, 0).u(1, 1)
            for c in ptl[1:]:
                pass
            w2 = B().u(4, 0).u(3, 0).u(1, 1)
            for c in bytes.fromhex("01022000000300b0000003000003007b".replace("0003", "00")[:24]):
                w2.u(8, c)
            vals = [0, 1, 1920, 1080, 0, 0, 0, 4, 0]      # sps id, chroma, w, h, conf flag(1 bit), bdl, bdc, log2 poc
            w2.ue(cnt if field == 0 else 0).ue(cnt if field == 1 else 1).ue(cnt if field == 2 else 1920).ue(1080).u(1, 0).ue(0).ue(0).ue(cnt if field == 3 else 4)
            w2.u(1, 0).ue(1).ue(0).ue(0).ue(0).ue(0).ue(3).ue(0).ue(0).ue(0).u(1, 0).u(1, 0).u(1, 0).u(1, 0)
            w2.ue(cnt if field == 4 else 1)      # num_short_term_ref_pic_sets
            w2.u(1, 0).ue(cnt if field == 5 else 1).ue(0).u(1, 1)
            out.append(("H3/hevc-sps/field%d-%d" % (field, cnt), "nal-hevc", w2.bytes_rbsp(b"\x42\x01")))
    # HEVC PPS extensions: counts of the colour mapping table (F.7.3.2.3.5) and of the depth look-up tables (I.7.3.2.3.7)
    def hevc_pps_ext(ml, d3, scc):
        w = B().ue(0).ue(0).u(1, 0).u(1, 0).u(3, 0).u(1, 0).u(1, 0).ue(0).ue(0).ue(0).u(1, 0).u(1, 0).u(1, 0).ue(0).ue(0)
        w.u(1, 0).u(1, 0).u(1, 0).u(1, 0).u(1, 0).u(1, 0).u(1, 0).u(1, 0).u(1, 0).u(1, 0).ue(0).u(1, 0)
        return w.u(1, 1).u(1, 0).u(1, ml).u(1, d3).u(1, scc).u(4, 0)
    for cnt in (61, 62, 63, 254, 255, 256, 511, 65535, 65536, (1 << 32) - 1, 1 << 32):
        w = hevc_pps_ext(1, 0, 0).u(1, 0).u(1, 0).ue(0).u(1, 1).ue(cnt).u(6, 1).u(6, 2).u(2, 0).u(2, 0).ue(0).ue(0).ue(0).ue(0).u(2, 0).u(2, 0).u(4, 0)
        out.append(("H3/hevc-pps/cm-layers-%d" % cnt, "nal-hevc", w.bytes_rbsp(b"\x44\x01")))
        w = hevc_pps_ext(1, 0, 0).u(1, 0).u(1, 0).ue(cnt).u(6, 1).u(1, 0).u(1, 0).u(1, 0)
        out.append(("H3/hevc-pps/ref-loc-offsets-%d" % cnt, "nal-hevc", w.bytes_rbsp(b"\x44\x01")))
        w = hevc_pps_ext(0, 0, 1).u(1, 0).u(1, 0).u(1, 1).ue(cnt).u(1, 0).ue(0).ue(0).u(8, 255).u(8, 1)
        out.append(("H3/hevc-pps/palette-%d" % cnt, "nal-hevc", w.bytes_rbsp(b"\x44\x01")))
    for layers in (0, 1, 63):
        for depth in (0, 7, 8, 15):
            w = hevc_pps_ext(0, 1, 0).u(1, 1).u(6, layers).u(4, depth).u(1, 1).u(1, 0).u(1, 1).u(16, 0xffff)
            out.append(("H3/hevc-pps/dlt-flags-l%d-d%d" % (layers, depth), "nal-hevc", w.bytes_rbsp(b"\x44\x01")))
            nb = depth + 8
            for mindiff in (0, (1 << nb) - 1):
                w = hevc_pps_ext(0, 1, 0).u(1, 1).u(6, layers).u(4, depth).u(1, 1).u(1, 0).u(1, 0).u(nb, (1 << nb) - 1).u(nb, (1 << nb) - 1).u(nb, mindiff).u(nb, 1).u(16, 0xffff)
                out.append(("H3/hevc-pps/delta-dlt-l%d-d%d-m%d" % (layers, depth, mindiff), "nal-hevc", w.bytes_rbsp(b"\x44\x01")))
    # HEVC slice headers against the reference SPS/PPS
    for t in (1, 19, 21):
        for pid in (0, 1, 63, 1 << 16):
            for idx in (0, 1, 8, 9, 10, 15):
                w = B().u(1, 1)
                if t >= 16:
                    w.u(1, 0)
                w.ue(pid).ue(1).u(8, 0x5a).u(1, 1).u(4, idx).u(16, 0xffff).u(16, 0xffff)
                out.append(("H3/hevc-slice/t%d-pps%d-rps%d" % (t, pid, idx), "nal-hevc", w.bytes_rbsp(bytes([t << 1, 1]))))
    # the same header with every slice_pic_order_cnt_lsb width 4..16 (the width is set by the SPS in force)
    for t in (1, 19):
        for width in range(4, 17):
            for nb in (1, 2, 3, 4, 5, 6):
                for idx in range(0, 1 << nb):
                    if nb > 3 and idx not in (0, 1, (1 << nb) - 1, (1 << (nb - 1)), (1 << (nb - 1)) + 1, 9, 10, 5, 6, 7):
                        continue
                    w = B().u(1, 1)
                    if t >= 16:
                        w.u(1, 0)
                    w.ue(0).ue(1)
                    if t < 19:
                        w.u(width, 0x1555 & ((1 << width) - 1))
                    w.u(1, 1).u(nb, idx).u(16, 0xffff).u(16, 0xffff)
                    out.append(("H3/hevc-slice-w/t%d-w%d-b%d-rps%d" % (t, width, nb, idx), "nal-hevc", w.bytes_rbsp(bytes([t << 1, 1]))))
    return out


def group_of(h):
    """Traces of one input family fail for the same reason: after the first rejection the rest of the family is skipped."""
    import re
    parts = h.get("id", "").split("/")
    if len(parts) < 2:
        return h.get("id")
    if parts[0] == "H6" and len(parts) >= 3:
        return parts[1] + "/" + re.sub(r"[0-9]+", "", parts[2])
    return parts[1].rstrip("0123456789")


def lp(*nals):
    return b"".join(len(n).to_bytes(4, "big") + n for n in nals)


def ue_bomb_insertions(ident, kind, sps, pps, slc, hdrlen, q, seed):
    """H7: a huge Exp-Golomb code inserted at EVERY bit position of the SPS (and of the PPS) of a valid (SPS, PPS, slice)
    triple; the rest of the parameter set follows the bomb, and the later units are parsed against what was accepted.
    Wherever a ue(v) / se(v) element starts, the parser reads 2^32-1, 2^32, 2^63, 2^64-2, 255 or 65535 there."""
    def rbsp_bits(nal):
        raw, z = bytearray(), 0
        for c in nal[hdrlen:]:
            if z >= 2 and c == 3:
                z = 0
                continue
            raw.append(c)
            z = z + 1 if c == 0 else 0
        bits = []
        for c in raw:
            bits += [(c >> (7 - i)) & 1 for i in range(8)]
        while bits and bits[-1] == 0:
            bits.pop()
        return bits[:-1]                                   # without the rbsp stop bit
    bombs = [("ue-2^32-1", [0] * 32 + [1] + [0] * 32), ("ue-2^32", [0] * 32 + [1] + [0] * 31 + [1]),
             ("ue-2^63-1", [0] * 63 + [1] + [0] * 63), ("ue-2^64-2", [0] * 63 + [1] + [1] * 63),
             # the largest values of the narrow integer types that parsers convert counts to before looping over them
             ("ue-255", [0] * 8 + [1] + [0] * 8), ("ue-65535", [0] * 16 + [1] + [0] * 16)]
    out = []
    for target, nal in (("sps", sps), ("pps", pps)):
        bits = rbsp_bits(nal)
        step = 3 if q else 1
        for pos in range(0, len(bits) + 1):
            if pos % step != seed % step and pos > 24:
                continue
            for bname, bomb in bombs:
                w = rc.BitW()
                w.bits = bits[:pos] + bomb + bits[pos:]
                mutated = w.bytes_rbsp(nal[:hdrlen])
                seq = lp(mutated, pps, slc) if target == "sps" else lp(sps, mutated, slc)
                out.append(("H7/%s/%s-bit%d-%s" % (ident, target, pos, bname), kind, seq))
    return out


def context_bombs():
    """H6: NAL unit sequences that bring their own context: the count / range bomb sits in a parameter set and goes
    off while a LATER unit (slice header, SEI) is parsed against it."""
    out = []
    B = rc.BitW
    avc_sps = B().u(8, 66).u(8, 0).u(8, 30).ue(0).ue(0).ue(2).ue(1).u(1, 0).ue(19).ue(14).u(1, 1).u(1, 1).u(1, 0).u(1, 0).bytes_rbsp(b"\x67")

    def avc_pps(l0, l1, wpred, wbipred, groups=0, mtype=0, rate=0, redundant=0):
        w = B().ue(0).ue(0).u(1, 0).u(1, 0).ue(groups)
        if groups > 0:
            w.ue(mtype)
            if mtype in (3, 4, 5):
                w.u(1, 0).ue(rate)
        w.ue(l0).ue(l1).u(1, wpred).u(2, wbipred).ue(0).ue(0).ue(0).u(1, 1).u(1, 0).u(1, redundant)
        return w.bytes_rbsp(b"\x68")

    def avc_slice(stype, override=None, tail=24):
        w = B().ue(0).ue(stype).ue(0).u(4, 3)
        if stype % 5 == 1:
            w.u(1, 1)                                   # direct_spatial_mv_pred_flag
        if stype % 5 in (0, 1, 3):
            if override is None:
                w.u(1, 0)
            else:
                w.u(1, 1).ue(override)
                if stype % 5 == 1:
                    w.ue(override)
            w.u(1, 0)                                   # no list modification l0
            if stype % 5 == 1:
                w.u(1, 0)
        w.ue(2).ue(1)                                   # weight denominators (when a table is parsed)
        for _ in range(tail):
            w.u(1, 1).ue(3).ue(5)
        return w.bytes_rbsp(b"\x41")

    big = [31, 32, 255, 65535, (1 << 31) - 2, (1 << 32) - 2]
    for v in big:
        for st in (0, 1, 5, 6):
            out.append(("H6/avc/pps-default-refidx-%d/slice%d" % (v, st), "ctx-avc", lp(avc_sps, avc_pps(v, v, 1, 1), avc_slice(st))))
            out.append(("H6/avc/slice-override-refidx-%d/slice%d" % (v, st), "ctx-avc", lp(avc_sps, avc_pps(0, 0, 1, 1), avc_slice(st, override=v))))
    for mt in (3, 4, 5):
        for rate in (0, 1, 1 << 16, (1 << 32) - 2):
            for groups in (1, 7):
                out.append(("H6/avc/slice-groups%d-type%d-rate%d" % (groups, mt, rate), "ctx-avc", lp(avc_sps, avc_pps(0, 0, 0, 0, groups, mt, rate), avc_slice(0))))
    # HEVC: SPS with VUI timing + HRD, cpb_cnt_minus1 beyond 31; sub-picture parameters; then a pic_timing SEI and a slice
    def hevc_sps(cpbcnt, subpic, insei, nal=1, vcl=0, maxsub=0, fixed=1, lowdelay=0):
        w = B().u(4, 0).u(3, maxsub).u(1, 1)
        w.u(2, 0).u(1, 0).u(5, 1).u(32, 0x60000000).u(4, 9).u(32, 0).u(12, 0).u(8, 93)
        for _ in range(maxsub):
            w.u(1, 0).u(1, 0)
        if maxsub > 0:
            for _ in range(8 - maxsub):
                w.u(2, 0)
        w.ue(0).ue(1).ue(64).ue(64).u(1, 0).ue(0).ue(0).ue(4)
        w.u(1, 1)
        for _ in range(maxsub + 1):
            w.ue(1).ue(0).ue(0)
        w.ue(0).ue(3).ue(0).ue(3).ue(0).ue(0).u(1, 0).u(1, 0).u(1, 0).u(1, 0).ue(0).u(1, 0).u(1, 0).u(1, 0)
        w.u(1, 1)                                        # vui present
        w.u(1, 0).u(1, 0).u(1, 0).u(1, 0).u(1, 0).u(1, 0).u(1, 0).u(1, 0)
        w.u(1, 1).u(32, 1001).u(32, 60000).u(1, 0).u(1, 1)          # timing info, hrd present
        w.u(1, nal).u(1, vcl)
        if nal or vcl:
            w.u(1, subpic)
            if subpic:
                w.u(8, 5).u(5, 7).u(1, insei).u(5, 9)
            w.u(4, 1).u(4, 1)
            if subpic:
                w.u(4, 2)
            w.u(5, 23).u(5, 15).u(5, 5)
        for _ in range(maxsub + 1):
            w.u(1, fixed)
            if not fixed:
                w.u(1, 0).u(1, lowdelay)
            else:
                w.ue(10)
            if not lowdelay or fixed:
                w.ue(cpbcnt)
            for _ in range(min(cpbcnt + 1, 40) * (nal + vcl)):
                w.ue(100).ue(200)
                if subpic:
                    w.ue(3).ue(4)
                w.u(1, 0)
        w.u(1, 0).u(1, 0)
        return w.bytes_rbsp(b"\x42\x01")

    hevc_pps = B().ue(0).ue(0).u(1, 0).u(1, 0).u(3, 0).u(1, 0).u(1, 0).ue(0).ue(0).ue(0).u(1, 0).u(1, 0).u(1, 0).ue(0).ue(0).u(1, 0).u(1, 0).u(1, 0).u(1, 0) \
        .u(1, 0).u(1, 0).u(1, 1).u(1, 0).u(1, 0).u(1, 0).ue(0).u(1, 0).u(1, 0).bytes_rbsp(b"\x44\x01")
    hevc_slice = B().u(1, 1).ue(0).ue(2).u(8, 0x55).u(8, 0xaa).bytes_rbsp(b"\x02\x01")
    for cpb in (0, 31, 32, 254, 255, 256, 1 << 16):
        for subpic in (0, 1):
            for (nal, vcl) in ((1, 0), (0, 1), (1, 1)):
                sps = hevc_sps(cpb, subpic, 1, nal, vcl)
                out.append(("H6/hevc/hrd-cpbcnt%d-subpic%d-nal%d-vcl%d" % (cpb, subpic, nal, vcl), "nal-hevc", sps))
                for plen in (0, 1, 4, 9, 40):
                    for fill in (0x00, 0xff, 0x5a):
                        sei = bytes([0x4e, 0x01, 1, plen]) + bytes([fill]) * plen + b"\x80"
                        out.append(("H6/hevc/pic-timing-after-hrd-cpb%d-subpic%d-nal%d-vcl%d/len%d-%02x" % (cpb, subpic, nal, vcl, plen, fill), "ctx-hevc",
                                    lp(sps, hevc_pps, sei, hevc_slice)))
    # pic_timing payloads parsed against an SPS whose HRD switches the sub-picture fields on: a huge Exp-Golomb code at every bit
    # position of a short payload (num_decoding_units_minus1, the per-unit increments ... are ue(v) fields whose position
    # depends on the HRD lengths in force)
    bombs = [("ue-2^32-1", [0] * 32 + [1] + [0] * 32), ("ue-2^32", [0] * 32 + [1] + [0] * 31 + [1]), ("ue-2^16", [0] * 16 + [1] + [0] * 15 + [1]),
             ("ue-2^63-1", [0] * 63 + [1] + [0] * 63)]
    for (nal, vcl) in ((1, 0), (1, 1)):
        sps = hevc_sps(0, 1, 1, nal, vcl)
        for fill in (0x00, 0x5a, 0xff):
            base = []
            for _ in range(6):
                base += [(fill >> (7 - i)) & 1 for i in range(8)]
            for pos in range(0, 41):
                for bname, bomb in bombs:
                    bits = base[:pos] + bomb + base[pos:pos + 16]
                    while len(bits) % 8:
                        bits.append(0)
                    payload = bytes(int("".join(map(str, bits[i:i + 8])), 2) for i in range(0, len(bits), 8))
                    esc, z = bytearray(), 0
                    for c in bytes([1, len(payload)]) + payload + b"\x80":
                        if z == 2 and c <= 3:
                            esc.append(3)
                            z = 0
                        esc.append(c)
                        z = z + 1 if c == 0 else 0
                    out.append(("H6/hevc/pic-timing-bomb-nal%d-vcl%d/fill%02x-bit%d-%s" % (nal, vcl, fill, pos, bname), "ctx-hevc",
                                lp(sps, hevc_pps, b"\x4e\x01" + bytes(esc), hevc_slice)))
    for maxsub in (1, 6):
        out.append(("H6/hevc/hrd-sublayers%d" % maxsub, "nal-hevc", hevc_sps(3, 1, 1, 1, 1, maxsub)))
        out.append(("H6/hevc/hrd-sublayers%d-lowdelay" % maxsub, "nal-hevc", hevc_sps(3, 0, 0, 1, 0, maxsub, fixed=0, lowdelay=1)))
    return out


def run_tools(ctx, items, q, extra_streams=()):
    """The shipped listers are NAL walkers too: run the built binaries on Annex B streams (the stream inputs and the
    context sequences converted to start-code form); a Go panic (exit 2 with a goroutine dump) or a hang is a violation."""
    import re
    import subprocess
    nallister = ctx.build_repo_binary("./cmd/mp4ff-nallister", "mp4ff-nallister")
    pslister = ctx.build_repo_binary("./cmd/mp4ff-pslister", "mp4ff-pslister")
    streams = list(extra_streams)
    for ident, kind, b in items:
        if kind == "stream":
            streams.append((ident, b))
        elif kind in ("ctx-avc", "ctx-hevc", "sample"):
            out, pos = b"", 0
            while pos + 4 <= len(b):
                n = int.from_bytes(b[pos:pos + 4], "big")
                if pos + 4 + n > len(b):
                    break
                out += b"\x00\x00\x00\x01" + b[pos + 4:pos + 4 + n]
                pos += 4 + n
            if out:
                streams.append((ident, out))
    # one stream per structural signature (leading bytes, then per unit: start code length, unit length class, first
    # byte), plus a seed-dependent sample of the rest: adjacent start codes, header-only units etc. are never sampled away
    def signature(b):
        sig, pos, n = [], 0, len(b)
        starts = []
        while pos + 3 <= n:
            if b[pos] == 0 and b[pos + 1] == 0 and b[pos + 2] == 1:
                starts.append(pos)
                pos += 3
            else:
                pos += 1
        sig.append(min(starts[0], 2) if starts else -1)
        for k, st in enumerate(starts[:4]):
            end = starts[k + 1] if k + 1 < len(starts) else n
            zeros = 0
            while st - zeros - 1 >= 0 and b[st - zeros - 1] == 0 and zeros < 2:
                zeros += 1
            body = b[st + 3:end]
            sig.append((zeros, min(len(body.rstrip(b"\x00")), 3), body[0] if body else -1))
        sig.append(min(len(starts), 5))
        return tuple(sig)
    bysig = {}
    for ident, b in streams:
        bysig.setdefault(signature(b), []).append((ident, b))
    chosen = [v[ctx.seed % len(v)] for _, v in sorted(bysig.items(), key=lambda kv: str(kv[0]))]
    cap = 1500 if q else 6000
    if len(chosen) > cap:
        step = len(chosen) // cap + 1
        # signatures with an empty or header-only unit always stay
        chosen = [c for i, (c, sg) in enumerate(zip(chosen, sorted(bysig, key=str)))
                  if i % step == ctx.seed % step or any(isinstance(x, tuple) and x[1] <= 2 for x in sg)]
    step = max(1, len(streams) // (300 if q else 3000))
    seen = set(id(c[1]) for c in chosen)
    streams = chosen + [s for i, s in enumerate(streams) if i % step == ctx.seed % step and id(s[1]) not in seen]
    signatures = len(bysig)
    jobs = []          # (name, argv without the input path, file suffix, bytes, ident, description of the input kind)
    for ident, b in streams:
        for name, cmd in (("nallister-avc", [nallister, "-annexb", "-c", "avc", "-sei", "2", "-ps"]),
                          ("nallister-hevc", [nallister, "-annexb", "-c", "hevc", "-sei", "2", "-ps"]),
                          ("pslister-avc", [pslister, "-c", "avc", "-v", "-i"]),
                          ("pslister-hevc", [pslister, "-c", "hevc", "-v", "-i"])):
            jobs.append((name, cmd, ".bin", b, ident, "an Annex B stream"))
    runs = len(jobs)
    # the mp4 path of the listers: a media segment without moov (the codec then comes from -c, in all its spellings), one
    # sample = the length-prefixed NAL units; one input per structural signature of the sample
    import struct

    def box(t, *p):
        b = b"".join(p)
        return struct.pack(">I", 8 + len(b)) + t + b

    def segment(sample):
        def moof(off):
            return box(b"moof", box(b"mfhd", struct.pack(">II", 0, 1)),
                       box(b"traf", box(b"tfhd", struct.pack(">II", 0x020000, 1)), box(b"tfdt", struct.pack(">II", 0, 0)),
                           box(b"trun", struct.pack(">IIiI", 0x000201, 1, off, len(sample)))))
        return box(b"styp", b"msdh", struct.pack(">I", 0), b"msdh") + moof(len(moof(0)) + 8) + box(b"mdat", sample)

    def sample_signature(b):
        sig, pos = [], 0
        while pos + 4 <= len(b) and len(sig) < 4:
            n = int.from_bytes(b[pos:pos + 4], "big")
            body = b[pos + 4:pos + 4 + n]
            sig.append((min(n, 3), min(len(body), 3), body[0] if body else -1, body[1] >> 3 if len(body) > 1 else -1))
            if pos + 4 + n > len(b):
                break
            pos += 4 + n
        return tuple(sig)
    by = {}
    for ident, kind, b in items:
        if kind in ("sample", "ctx-avc", "ctx-hevc") and 0 < len(b) < 4000:
            by.setdefault(sample_signature(b), []).append((ident, b))
    segs = [v[ctx.seed % len(v)] for _, v in sorted(by.items(), key=lambda kv: str(kv[0]))]
    cap = 500 if q else 3000
    if len(segs) > cap:
        st = len(segs) // cap + 1
        segs = [x for i, (x, sg) in enumerate(zip(segs, sorted(by, key=str))) if i % st == ctx.seed % st or any(t[0] <= 2 for t in sg)]
    seg_runs = 0
    for ident, b in segs:
        sb = segment(b)
        for codec in ("avc", "h264", "h.264", "hevc", "h265", "h.265"):
            for name, cmd in (("nallister-mp4-%s" % codec, [nallister, "-c", codec, "-sei", "2", "-ps"]),
                              ("nallister-mp4-%s-sei1" % codec, [nallister, "-c", codec, "-sei", "1"]),
                              ("pslister-mp4-%s" % codec, [pslister, "-c", codec, "-v", "-i"])):
                if name.startswith("pslister") and codec not in ("avc", "hevc"):
                    continue
                seg_runs += 1
                jobs.append((name, cmd, ".m4s", sb, ident, "a media segment without moov (sample " + b.hex()[:200] + ")"))
    # whole fragmented files: an init segment built through the API per sample entry type (parameter sets inside the decoder
    # configuration record, or in band only: avc3 / hev1 records without any) in front of the media segments
    inits = [o for o in ctx.harness(["c16-inits", "-avcsps", AVC_SPS, "-avcpps", AVC_PPS, "-vps", HEVC_VPS, "-sps", HEVC_SPS, "-pps", HEVC_PPS])
             if o.get("type") == "init"]
    if len(inits) != 4:
        raise core.Machinery("c16-inits returned %d init segments" % len(inits))
    file_runs = 0
    nfile = 40 if q else 400
    stf = max(1, len(segs) // nfile)
    for ident, b in segs[ctx.seed % stf::stf]:
        sb = segment(b)
        for o in inits:
            data = bytes.fromhex(o["hex"]) + sb
            kind = "a fragmented file with an %s sample entry (parameter sets %s the configuration record; sample %s)" % (
                o["entry"], "in" if o["parameter_sets_in_record"] else "not in", b.hex()[:120])
            for name, cmd in (("nallister-file-%s" % o["entry"], [nallister, "-sei", "2", "-ps"]),
                              ("nallister-file-%s-sei1" % o["entry"], [nallister, "-sei", "1"]),
                              ("pslister-file-%s" % o["entry"], [pslister, "-v", "-i"])):
                file_runs += 1
                jobs.append((name, cmd, ".mp4", data, ident, kind))
    import concurrent.futures
    import threading
    tl = threading.local()
    counter = [0]
    lock = threading.Lock()

    def one(job):
        name, cmd, suffix, data, ident, kind = job
        if not hasattr(tl, "n"):
            with lock:
                counter[0] += 1
                tl.n = counter[0]
        path = os.path.join(ctx.scratch, "tool_in_%d%s" % (tl.n, suffix))
        with open(path, "wb") as f:
            f.write(data)
        try:
            p = subprocess.run(cmd + [path], capture_output=True, text=True, timeout=20, errors="replace")
        except subprocess.TimeoutExpired:
            return ("tool-hang/" + name, "%s does not return within 20 s on %s" % (name, kind), {"id": ident, "hex": data.hex()[:400]})
        if p.returncode == 2 and "goroutine " in p.stderr and "panic" in p.stderr:
            m = re.search(r"\n(main\.[A-Za-z0-9_.()*]+|github.com/Eyevinn/mp4ff/[\w/.()*]+)\(", p.stderr)
            where = m.group(1) if m else "?"
            return ("tool-panic/%s/%s" % (name, where), "%s panics on %s: %s" % (name, kind.split(" (")[0], p.stderr.splitlines()[0][:200]),
                    {"id": ident, "hex": data.hex()[:400], "cmd": " ".join(cmd[1:])})
        return None
    with concurrent.futures.ThreadPoolExecutor(max_workers=12) as ex:
        for res in ex.map(one, jobs):
            if res:
                ctx.report(*res)
    if runs < 200 or seg_runs < 200:
        raise core.Machinery("only %d + %d tool runs" % (runs, seg_runs))
    return {"inputs": len(streams), "runs": runs, "signatures": signatures, "segments": len(segs), "segment_runs": seg_runs, "file_runs": file_runs}


def run(ctx):
    q = ctx.tier == "quick"
    t = "quick" if q else "thorough"
    ctx.build_harness()
    items = []
    # H1: exhaustive grammar of length-prefixed samples (Robust.tla)
    r = ctx.tlc_ok("Robust", "Robust_gen_%s.cfg" % t, workers=12, timeout=3000, heap="12g")
    h1 = [bytes(e["bytes"]) for e in r.exported]
    if q:
        h1 = [b for i, b in enumerate(h1) if i % 4 == ctx.seed % 4]
    items += [("H1/%d" % i, "sample", b) for i, b in enumerate(h1)]
    # H2: Annex B windows and unit streams (AnnexB.tla), plus their prefixes
    r = ctx.tlc_ok("AnnexB", "AnnexB_windows_quick.cfg", workers=12, timeout=3000, heap="12g")
    all_windows = []
    for i, e in enumerate(r.exported):
        b = bytes(e["stream"])
        if i % (40 if q else 8) == ctx.seed % (40 if q else 8):
            items.append(("H2/win%d" % i, "stream", b))
            items.append(("H2/win%d/cut" % i, "stream", b[:len(b) - 2]))
        else:
            all_windows.append(("H2/win%d" % i, b))      # for the tool runs, which select by structural signature
    r = ctx.tlc_ok("AnnexB", "AnnexB_units_avc_quick.cfg", workers=12, timeout=3000, heap="12g")
    for i, e in enumerate(r.exported):
        if i % (400 if q else 60) == ctx.seed % (400 if q else 60):
            items += rc.mutate(bytes(e["stream"]), "stream", "H2/units%d" % i)
            items += rc.mutate(bytes(e["sample"]), "sample", "H2/sample%d" % i)
    # H3: syntax structures (AvcSyntax.tla) mutated, hand-made count bombs, HEVC vectors mutated
    for st in ("sps", "pps", "slice"):
        r = ctx.tlc_ok("AvcSyntax", "Avc_%s_quick.cfg" % st, workers=12, timeout=3000, heap="12g", stack="256m")
        step = {"sps": 25, "pps": 20, "slice": 250}[st] * (1 if q else 1) // (1 if q else 5) or 1
        for i, e in enumerate(r.exported):
            if i % step == ctx.seed % step:
                items += rc.mutate(bytes(e["nal"]), "nal-avc", "H3/avc-%s%d" % (st, i), dense=400 if not q else 64)
    for name, hx in (("vps", HEVC_VPS), ("sps", HEVC_SPS), ("pps", HEVC_PPS)):
        items += rc.mutate(bytes.fromhex(hx), "nal-hevc", "H3/hevc-" + name, dense=400, first=40)
    items += bombs()
    # H6: parameter sets + slice header / SEI parsed in sequence: context bombs and the (sps, pps, slice) triples of both syntax specs
    items += context_bombs()
    h7_count = 0
    for mod, cfg, kind in (("AvcSyntax", "Avc_slice_quick.cfg", "ctx-avc"), ("HevcSyntax", "Hevc_slice_quick.cfg", "ctx-hevc")):
        r = ctx.tlc_ok(mod, cfg, workers=12, timeout=3000, heap="12g", stack="256m")
        step = 60 if q else 6
        ex = sorted(r.exported, key=lambda e: str(e["nal"]) + str(e["ppsnal"]))
        for i, e in enumerate(ex):
            if i % step == ctx.seed % step:
                seq = lp(bytes(e["spsnal"]), bytes(e["ppsnal"]), bytes(e["nal"]))
                items.append(("H6/%s-triple%d" % (kind, i), kind, seq))
                items += rc.mutate(seq, kind, "H6/%s-triple%d" % (kind, i), dense=48, first=0)
        # H7 bases: one triple per PPS vector (tiles, extensions, slice groups ... differ per PPS), evenly spread over the
        # distinct PPS NAL units; plus, per PPS pair-up, whatever SPS the triple brings
        first = {}
        for i, e in enumerate(ex):
            first.setdefault(bytes(e["ppsnal"]), (i, e))
        ppss = sorted(first)
        want = 8 if q else 48
        stride = max(1, len(ppss) // want)
        for k in range(ctx.seed % stride, len(ppss), stride):
            i, e = first[ppss[k]]
            h7 = ue_bomb_insertions("%s-triple%d" % (kind, i), kind, bytes(e["spsnal"]), bytes(e["ppsnal"]), bytes(e["nal"]), 1 if kind == "ctx-avc" else 2, q, ctx.seed)
            items += h7
            h7_count += len(h7)
    # H4: SEI NAL units and typed payloads (SeiSyntax.tla) mutated
    r = ctx.tlc_ok("SeiSyntax", "Sei_list_quick.cfg", workers=12, timeout=3000, heap="12g", stack="128m")
    step = 300 if q else 40
    for i, e in enumerate(r.exported):
        if i % step == ctx.seed % step and len(e["ebsp"]) < 300:
            items += rc.mutate(b"\x06" + bytes(e["ebsp"]), "sei-nal", "H4/avc-sei%d" % i)
            items += rc.mutate(b"\x4e\x01" + bytes(e["ebsp"]), "sei-nal", "H4/hevc-sei%d" % i)
    for mode in ("timecode", "pictiming"):
        r = ctx.tlc_ok("SeiSyntax", "Sei_%s_quick.cfg" % mode, workers=12, timeout=3000, heap="12g", stack="128m")
        step = 30 if q else 5
        for i, e in enumerate(r.exported):
            if i % step == ctx.seed % step:
                items += rc.mutate(bytes(e["payload"]), "sei-payload", "H4/%s%d" % (mode, i))
    for n in range(0, 30):
        for fill in (0x00, 0xff, 0x80):
            items.append(("H4/short-%d-%02x" % (n, fill), "sei-payload", bytes([fill]) * n))
    # H5: ADTS / ASC / configuration records
    for cfg in ("Aac_asc.cfg", "Aac_adts_quick.cfg"):
        r = ctx.tlc_ok("AacSyntax", cfg, workers=12, timeout=3000, heap="12g")
        step = 600 if q else 60
        for i, e in enumerate(r.exported):
            if i % step == ctx.seed % step:
                items += rc.mutate(bytes(e["bytes"]), "config", "H5/aac%d" % i)
    sps, pps = bytes.fromhex("6764001facd9405005bb011000000300100000030320f1831960"), bytes.fromhex("68ebe3cb22c0")
    avcc = bytes([1, 0x64, 0, 0x1f, 0xff, 0xe1]) + len(sps).to_bytes(2, "big") + sps + bytes([1]) + len(pps).to_bytes(2, "big") + pps + bytes([0xfd, 0xf8, 0xf8, 0])
    items += rc.mutate(avcc, "config", "H5/avcC", dense=200, first=60)
    hv = bytes.fromhex(HEVC_VPS), bytes.fromhex(HEVC_SPS), bytes.fromhex(HEVC_PPS)
    hvcc = bytes([1, 1, 0x60, 0, 0, 0, 0x90, 0, 0, 0, 0, 0, 93, 0xf0, 0, 0xfc, 0xfd, 0xf8, 0xf8, 0, 0, 0x0f, 3])
    for ty, n in zip((32, 33, 34), hv):
        hvcc += bytes([0x80 | ty, 0, 1]) + len(n).to_bytes(2, "big") + n
    items += rc.mutate(hvcc, "config", "H5/hvcC", dense=200, first=60)
    items += rc.mutate(bytes.fromhex("81000c000a0b0000000442abbfc3714a"), "config", "H5/av1C", dense=64, first=16)
    tool_stats = run_tools(ctx, items, q, all_windows)
    trace, fatals = rc.monitor_sharded(ctx, "c16", items, shards=8)
    ctx.cov["evaluations"] = len(items)
    ctx.cov["distinct_nontrivial"] = len(set(b for _, _, b in items))
    ctx.add_samples([{"id": i, "kind": k, "hex": b.hex()[:160]} for i, k, b in items[:1] + items[len(items) // 2:len(items) // 2 + 2]])
    ctx.validate_traces_all("Robust", "Robust_trace.cfg", trace, keyfn=rc.keyfn, max_rejects=60, heap="12g",
                            groupfn=group_of,
                            what="Robust.tla totality invariant violated")
    ctx.cov["bounds"] = {"H1": "all samples of <= %d units with length fields in {0,1,true,true+1,2^31,2^32-4,2^32-1} and every truncation" % (2 if q else 3),
                         "H2": "Annex B windows / unit streams and samples, every prefix and head substitutions {00,01,7F,80,FF}",
                         "H3": "AVC SPS/PPS/slice vectors and HEVC VPS/SPS/PPS mutated; hand-made count/length/id bombs",
                         "H4": "SEI NAL units and typed payloads mutated; payloads of 0..29 bytes of 00/FF/80",
                         "H5": "ASC, ADTS, avcC, hvcC, av1C: every prefix, head substitutions",
                         "H6": "NAL unit sequences with their own context (SPS, PPS, then slice header / SEI parsed against them): count and range bombs placed in the parameter sets "
                               "(reference index counts, slice group change rate, HRD cpb counts, sub-picture HRD flags) and the (sps, pps, slice) triples of AvcSyntax.tla / HevcSyntax.tla with mutations",
                         "H7": "%d inputs: Exp-Golomb codes 2^32-1, 2^32, 2^63-1, 2^64-2 inserted at every bit position of the SPS and of the PPS of (SPS, PPS, slice) triples serialised by AvcSyntax.tla / HevcSyntax.tla; the later units are parsed against what was accepted" % h7_count,
                         "tools": "the built mp4ff-nallister (-annexb, avc / hevc, -sei 2 -ps) and mp4ff-pslister on %d Annex B streams (one per structural signature - leading bytes, start code lengths, unit length classes 0/1/2/3+, first bytes; %d signatures - plus a sample of the rest): %d runs; and on %d media segments without moov holding one generated sample each, with every spelling of -c (avc, h264, h.264, hevc, h265, h.265) and -sei 1 / 2: %d runs; and on a share of those segments behind an API-built init segment with an avc1 / avc3 / hvc1 / hev1 sample entry (avc3 / hev1: no parameter set in the configuration record): %d runs; exit by panic or no return within 20 s is a violation" % (tool_stats["inputs"], tool_stats["signatures"], tool_stats["runs"], tool_stats["segments"], tool_stats["segment_runs"], tool_stats["file_runs"]),
                         "budgets": "2 s + 20 us/byte wall, 16 MiB + 1024 x length allocated, worker under ulimit -v 8 GB", "fatal_worker_crashes": fatals}
    ctx.cov["rule"] = ("inputs = Robust.tla H1 grammar (exhaustive) + mutation operators applied to behaviours exported by the syntax specs; "
                       "each input is run through every entry point of its family in an isolated process under recover(); "
                       "distinct = distinct byte strings")
    return ctx.finish("exploration")
