"""C16 - untrusted elementary-stream bytes never crash or hang the codec helpers (Robust.tla + syntax specs)."""
import os
import core
from props import robust_common as rc

HEVC_VPS = "40010c01ffff022000000300b0000003000003007b18b024"
HEVC_SPS = "420101022000000300b0000003000003007ba0078200887db6718b92448053888892cf24a69272c9124922dc91aa48fca223ff000100016a02020201"
HEVC_PPS = "4401c0252f053240"


def bombs():
    """H3: count / length / id fields set far beyond what the remaining bytes can hold."""
    out = []
    B = rc.BitW
    # AVC SPS, poc type 1 with a huge num_ref_frames_in_pic_order_cnt_cycle
    for cnt in (255, 1 << 16, (1 << 31), (1 << 32) - 2):
        w = B().u(8, 66).u(8, 0).u(8, 30).ue(0).ue(0).ue(1).u(1, 0).ue(0).ue(0).ue(cnt)
        out.append(("H3/avc-sps/poc-cycle-%d" % cnt, "nal-avc", w.bytes_rbsp(b"\x67")))
    # AVC SPS high profile, scaling matrix present but truncated; huge ids
    for sid in (31, 32, 1 << 20):
        w = B().u(8, 100).u(8, 0).u(8, 40).ue(sid).ue(1).ue(0).ue(0).u(1, 0).u(1, 1).u(8, 0xff)
        out.append(("H3/avc-sps/id-%d" % sid, "nal-avc", w.bytes_rbsp(b"\x67")))
    # AVC SPS with VUI and HRD cpb_cnt huge
    for cnt in (31, 32, 1 << 16, 1 << 31):
        w = B().u(8, 66).u(8, 0).u(8, 30).ue(0).ue(0).ue(2).ue(1).u(1, 0).ue(19).ue(14).u(1, 1).u(1, 1).u(1, 0)
        w.u(1, 1).u(1, 0).u(1, 0).u(1, 0).u(1, 0).u(1, 0).u(1, 1).ue(cnt).u(4, 1).u(4, 1)
        out.append(("H3/avc-sps/hrd-cpb-%d" % cnt, "nal-avc", w.bytes_rbsp(b"\x67")))
    # AVC PPS with slice groups: huge group counts
    for ng in (7, 8, 1 << 16, 1 << 31):
        for mt in (0, 2, 6):
            w = B().ue(0).ue(0).u(1, 0).u(1, 0).ue(ng).ue(mt).ue(3).ue(3)
            out.append(("H3/avc-pps/groups-%d-type%d" % (ng, mt), "nal-avc", w.bytes_rbsp(b"\x68")))
    # AVC slice: unknown pps id, huge first_mb, weird slice types
    for pid in (0, 1, 255, 1 << 20):
        for st in (0, 9, 10, 1 << 16):
            w = B().ue(0).ue(st).ue(pid).u(16, 0xffff).u(16, 0xffff)
            out.append(("H3/avc-slice/pps%d-type%d" % (pid, st), "nal-avc", w.bytes_rbsp(b"\x65")))
            out.append(("H3/avc-slice1/pps%d-type%d" % (pid, st), "nal-avc", w.bytes_rbsp(b"\x41")))
    # HEVC SPS: huge counts after a valid profile_tier_level
    ptl = bytes.fromhex("0101022000000300b0000003000003007b")
    for field in range(6):
        for cnt in (64, 65, 1 << 16, 1 << 31):
            w = B().u(4, 0).u(3, 0).u(1, 1)
            for c in ptl[1:]:
                pass
            w2 = B().u(4, 0).u(3, 0).u(1, 1)
            for c in bytes.fromhex("01022000000300b0000003000003007b".replace("0003", "00")[:24]):
                w2.u(8, c)
            vals = [0, 1, 1920, 1080, 0, 0, 0, 4, 0]      # sps id, chroma, w, h, conf flag(1 bit), bdl, bdc, log2 poc
            w2.ue(cnt if field == 0 else 0).ue(cnt if field == 1 else 1).ue(cnt if field == 2 else 1920).ue(1080).u(1, 0).ue(0).ue(0).ue(cnt if field == 3 else 4)
            w2.u(1, 0).ue(1).ue(0).ue(0).ue(0).ue(0).ue(3).ue(0).ue(0).ue(0).u(1, 0).u(1, 0).u(1, 0).u(1, 0)
            w2.ue(cnt if field == 4 else 1)      # num_short_term_ref_pic_sets
            w2.u(1, 0).ue(cnt if field == 5 else 1).ue(0).u(1, 1)
            out.append(("H3/hevc-sps/field%d-%d" % (field, cnt), "nal-hevc", w2.bytes_rbsp(b"\x42\x01")))
    # HEVC slice headers against the reference SPS/PPS
    for t in (1, 19, 21):
        for pid in (0, 1, 63, 1 << 16):
            for idx in (0, 1, 8, 9, 10, 15):
                w = B().u(1, 1)
                if t >= 16:
                    w.u(1, 0)
                w.ue(pid).ue(1).u(8, 0x5a).u(1, 1).u(4, idx).u(16, 0xffff).u(16, 0xffff)
                out.append(("H3/hevc-slice/t%d-pps%d-rps%d" % (t, pid, idx), "nal-hevc", w.bytes_rbsp(bytes([t << 1, 1]))))
    # the same header with every slice_pic_order_cnt_lsb width 4..16 (the width is set by the SPS in force)
    for t in (1, 19):
        for width in range(4, 17):
            for nb in (1, 2, 3, 4, 5, 6):
                for idx in range(0, 1 << nb):
                    if nb > 3 and idx not in (0, 1, (1 << nb) - 1, (1 << (nb - 1)), (1 << (nb - 1)) + 1, 9, 10, 5, 6, 7):
                        continue
                    w = B().u(1, 1)
                    if t >= 16:
                        w.u(1, 0)
                    w.ue(0).ue(1)
                    if t < 19:
                        w.u(width, 0x1555 & ((1 << width) - 1))
                    w.u(1, 1).u(nb, idx).u(16, 0xffff).u(16, 0xffff)
                    out.append(("H3/hevc-slice-w/t%d-w%d-b%d-rps%d" % (t, width, nb, idx), "nal-hevc", w.bytes_rbsp(bytes([t << 1, 1]))))
    return out


def run(ctx):
    q = ctx.tier == "quick"
    t = "quick" if q else "thorough"
    ctx.build_harness()
    items = []
    # H1: exhaustive grammar of length-prefixed samples (Robust.tla)
    r = ctx.tlc_ok("Robust", "Robust_gen_%s.cfg" % t, workers=12, timeout=3000, heap="12g")
    h1 = [bytes(e["bytes"]) for e in r.exported]
    if q:
        h1 = [b for i, b in enumerate(h1) if i % 4 == ctx.seed % 4]
    items += [("H1/%d" % i, "sample", b) for i, b in enumerate(h1)]
    # H2: Annex B windows and unit streams (AnnexB.tla), plus their prefixes
    r = ctx.tlc_ok("AnnexB", "AnnexB_windows_quick.cfg", workers=12, timeout=3000, heap="12g")
    for i, e in enumerate(r.exported):
        if i % (40 if q else 8) == ctx.seed % (40 if q else 8):
            b = bytes(e["stream"])
            items.append(("H2/win%d" % i, "stream", b))
            items.append(("H2/win%d/cut" % i, "stream", b[:len(b) - 2]))
    r = ctx.tlc_ok("AnnexB", "AnnexB_units_avc_quick.cfg", workers=12, timeout=3000, heap="12g")
    for i, e in enumerate(r.exported):
        if i % (400 if q else 60) == ctx.seed % (400 if q else 60):
            items += rc.mutate(bytes(e["stream"]), "stream", "H2/units%d" % i)
            items += rc.mutate(bytes(e["sample"]), "sample", "H2/sample%d" % i)
    # H3: syntax structures (AvcSyntax.tla) mutated, hand-made count bombs, HEVC vectors mutated
    for st in ("sps", "pps", "slice"):
        r = ctx.tlc_ok("AvcSyntax", "Avc_%s_quick.cfg" % st, workers=12, timeout=3000, heap="12g", stack="256m")
        step = {"sps": 25, "pps": 20, "slice": 250}[st] * (1 if q else 1) // (1 if q else 5) or 1
        for i, e in enumerate(r.exported):
            if i % step == ctx.seed % step:
                items += rc.mutate(bytes(e["nal"]), "nal-avc", "H3/avc-%s%d" % (st, i), dense=400 if not q else 64)
    for name, hx in (("vps", HEVC_VPS), ("sps", HEVC_SPS), ("pps", HEVC_PPS)):
        items += rc.mutate(bytes.fromhex(hx), "nal-hevc", "H3/hevc-" + name, dense=400, first=40)
    items += bombs()
    # H4: SEI NAL units and typed payloads (SeiSyntax.tla) mutated
    r = ctx.tlc_ok("SeiSyntax", "Sei_list_quick.cfg", workers=12, timeout=3000, heap="12g", stack="128m")
    step = 300 if q else 40
    for i, e in enumerate(r.exported):
        if i % step == ctx.seed % step and len(e["ebsp"]) < 300:
            items += rc.mutate(b"\x06" + bytes(e["ebsp"]), "sei-nal", "H4/avc-sei%d" % i)
            items += rc.mutate(b"\x4e\x01" + bytes(e["ebsp"]), "sei-nal", "H4/hevc-sei%d" % i)
    for mode in ("timecode", "pictiming"):
        r = ctx.tlc_ok("SeiSyntax", "Sei_%s_quick.cfg" % mode, workers=12, timeout=3000, heap="12g", stack="128m")
        step = 30 if q else 5
        for i, e in enumerate(r.exported):
            if i % step == ctx.seed % step:
                items += rc.mutate(bytes(e["payload"]), "sei-payload", "H4/%s%d" % (mode, i))
    for n in range(0, 30):
        for fill in (0x00, 0xff, 0x80):
            items.append(("H4/short-%d-%02x" % (n, fill), "sei-payload", bytes([fill]) * n))
    # H5: ADTS / ASC / configuration records
    for cfg in ("Aac_asc.cfg", "Aac_adts_quick.cfg"):
        r = ctx.tlc_ok("AacSyntax", cfg, workers=12, timeout=3000, heap="12g")
        step = 600 if q else 60
        for i, e in enumerate(r.exported):
            if i % step == ctx.seed % step:
                items += rc.mutate(bytes(e["bytes"]), "config", "H5/aac%d" % i)
    sps, pps = bytes.fromhex("6764001facd9405005bb011000000300100000030320f1831960"), bytes.fromhex("68ebe3cb22c0")
    avcc = bytes([1, 0x64, 0, 0x1f, 0xff, 0xe1]) + len(sps).to_bytes(2, "big") + sps + bytes([1]) + len(pps).to_bytes(2, "big") + pps + bytes([0xfd, 0xf8, 0xf8, 0])
    items += rc.mutate(avcc, "config", "H5/avcC", dense=200, first=60)
    hv = bytes.fromhex(HEVC_VPS), bytes.fromhex(HEVC_SPS), bytes.fromhex(HEVC_PPS)
    hvcc = bytes([1, 1, 0x60, 0, 0, 0, 0x90, 0, 0, 0, 0, 0, 93, 0xf0, 0, 0xfc, 0xfd, 0xf8, 0xf8, 0, 0, 0x0f, 3])
    for ty, n in zip((32, 33, 34), hv):
        hvcc += bytes([0x80 | ty, 0, 1]) + len(n).to_bytes(2, "big") + n
    items += rc.mutate(hvcc, "config", "H5/hvcC", dense=200, first=60)
    items += rc.mutate(bytes.fromhex("81000c000a0b0000000442abbfc3714a"), "config", "H5/av1C", dense=64, first=16)
    trace, fatals = rc.monitor_sharded(ctx, "c16", items, shards=8)
    ctx.cov["evaluations"] = len(items)
    ctx.cov["distinct_nontrivial"] = len(set(b for _, _, b in items))
    ctx.add_samples([{"id": i, "kind": k, "hex": b.hex()[:160]} for i, k, b in items[:1] + items[len(items) // 2:len(items) // 2 + 2]])
    ctx.validate_traces_all("Robust", "Robust_trace.cfg", trace, keyfn=rc.keyfn, max_rejects=60, heap="12g",
                            groupfn=lambda h: h.get("id", "").split("/")[1].rstrip("0123456789") if "/" in h.get("id", "") else h.get("id"),
                            what="Robust.tla totality invariant violated")
    ctx.cov["bounds"] = {"H1": "all samples of <= %d units with length fields in {0,1,true,true+1,2^31,2^32-4,2^32-1} and every truncation" % (2 if q else 3),
                         "H2": "Annex B windows / unit streams and samples, every prefix and head substitutions {00,01,7F,80,FF}",
                         "H3": "AVC SPS/PPS/slice vectors and HEVC VPS/SPS/PPS mutated; hand-made count/length/id bombs",
                         "H4": "SEI NAL units and typed payloads mutated; payloads of 0..29 bytes of 00/FF/80",
                         "H5": "ASC, ADTS, avcC, hvcC, av1C: every prefix, head substitutions",
                         "budgets": "2 s + 20 us/byte wall, 16 MiB + 1024 x length allocated, worker under ulimit -v 8 GB", "fatal_worker_crashes": fatals}
    ctx.cov["rule"] = ("inputs = Robust.tla H1 grammar (exhaustive) + mutation operators applied to behaviours exported by the syntax specs; "
                       "each input is run through every entry point of its family in an isolated process under recover(); "
                       "distinct = distinct byte strings")
    return ctx.finish("exploration")
