"""C09 - sample-table queries agree with the ISO 14496-12 table semantics (SampleTables.tla)."""
import os
import core


def run(ctx):
    q = ctx.tier == "quick"
    t = "quick" if q else "thorough"
    ctx.build_harness()
    for fam in ("time", "ctts", "chunk", "meta"):
        r = ctx.tlc_ok("SampleTables", "ST_%s_%s.cfg" % (fam, t), workers=12, timeout=3000, heap="12g", stack="64m")
        if len(r.exported) * 2 != r.distinct:
            raise core.Machinery("export count %d does not match answered states (%d distinct)" % (len(r.exported), r.distinct))
        inp = ctx.write_ndjson("st_%s.ndjson" % fam, r.exported)
        core.absorb(ctx, ctx.harness(["c09-replay", "-in", inp]))
    # code -> spec: the same queries on the tables of real progressive files, validated against SampleTablesTrace.tla
    tr = os.path.join(ctx.specdir, "trace.ndjson")
    st = core.absorb(ctx, ctx.harness(["c09-trace", "-trace", tr, "-per", "40" if q else "120"], timeout=3000))
    if st["extra"]["tracks"] < 4:
        raise core.Machinery("only %d corpus tracks traced" % st["extra"]["tracks"])
    ctx.validate_traces_all("SampleTablesTrace", "SampleTablesTrace.cfg", tr, max_rejects=6, heap="12g", stack="256m", timeout=3000,
                            keyfn=lambda info: "corpus-query/%s" % ((info.get("event") or {}).get("q", "reset")),
                            groupfn=lambda h: str(h.get("obj", "")),
                            what="SampleTablesTrace.tla rejected the answer to a sample-table query on a corpus file")
    ctx.cov["bounds"] = {"corpus_traces": "%d tracks of real progressive files, %d query events (decode time, duration, composition offset, size, chunk, sync, sample at time, byte ranges)" % (st["extra"]["tracks"], st["extra"]["events"]),
                         "N": "all consistent tables for 1..%d samples (chunk/ctts families: %d)" % ((5, 5) if q else (7, 6)),
                         "queries": "every sample number, every interval 1<=a<=b<=N, every time 0..T+1, work buffers {0,1,3,64}",
                         "decode_paths": ["DecodeBox", "DecodeBoxSR", "API-built (AddEntry/AddSampleCountsAndOffset)", "DecodeFile", "DecodeFile lazy", "DecodeFileSR"]}
    ctx.cov["rule"] = ("one behaviour per consistent table set enumerated by SampleTables.tla (Init = all tables), each replayed with all "
                       "queries; non-trivial = tables accepted by the real decoder and every query compared; distinct by table content")
    ctx.assumptions += ["GetSampleNrAtTime: N+1 stands for 'inside the last sample' (documented by the repository's own unit test); t = total duration without a zero-length last sample is not pinned",
                        "sample_depends_on is not pinned when no sdtp box is present"]
    return ctx.finish("model_checking", exhaustive=True)
