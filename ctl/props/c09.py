"""C09 - sample-table queries agree with the ISO 14496-12 table semantics (SampleTables.tla)."""
import core


def run(ctx):
    q = ctx.tier == "quick"
    t = "quick" if q else "thorough"
    ctx.build_harness()
    for fam in ("time", "ctts", "chunk", "meta"):
        r = ctx.tlc_ok("SampleTables", "ST_%s_%s.cfg" % (fam, t), workers=12, timeout=3000, heap="12g", stack="64m")
        if len(r.exported) * 2 != r.distinct:
            raise core.Machinery("export count %d does not match answered states (%d distinct)" % (len(r.exported), r.distinct))
        inp = ctx.write_ndjson("st_%s.ndjson" % fam, r.exported)
        core.absorb(ctx, ctx.harness(["c09-replay", "-in", inp]))
    ctx.cov["bounds"] = {"N": "all consistent tables for 1..%d samples (chunk/ctts families: %d)" % ((5, 5) if q else (7, 6)),
                         "queries": "every sample number, every interval 1<=a<=b<=N, every time 0..T+1, work buffers {0,1,3,64}",
                         "decode_paths": ["DecodeBox", "DecodeBoxSR", "API-built (AddEntry/AddSampleCountsAndOffset)", "DecodeFile", "DecodeFile lazy", "DecodeFileSR"]}
    ctx.cov["rule"] = ("one behaviour per consistent table set enumerated by SampleTables.tla (Init = all tables), each replayed with all "
                       "queries; non-trivial = tables accepted by the real decoder and every query compared; distinct by table content")
    ctx.cov["traces_validated_against_impl"] = 0
    ctx.assumptions += ["GetSampleNrAtTime: N+1 stands for 'inside the last sample' (documented by the repository's own unit test); t = total duration without a zero-length last sample is not pinned",
                        "sample_depends_on is not pinned when no sdtp box is present"]
    return ctx.finish("model_checking", exhaustive=True)
