"""C15 - parameter sets and slice headers parse to the values that were coded (AvcSyntax.tla, HevcSyntax.tla)."""
import core


def run(ctx):
    q = ctx.tier == "quick"
    t = "quick" if q else "thorough"
    ctx.build_harness()
    specs = [("AvcSyntax", "Avc_%s_%s.cfg" % (s, t)) for s in ("sps", "pps", "slice")]
    import os
    if os.path.exists(os.path.join(ctx.specdir, "HevcSyntax.tla")):
        specs += [("HevcSyntax", "Hevc_%s.cfg" % t)]
    for mod, cfg in specs:
        r = ctx.tlc_ok(mod, cfg, workers=14, timeout=3000, heap="16g", stack="256m")
        if not r.exported:
            raise core.Machinery("nothing exported by " + cfg)
        inp = ctx.write_ndjson(cfg + ".ndjson", r.exported)
        core.absorb(ctx, ctx.harness(["c15-replay", "-in", inp], timeout=3000))
    ctx.cov["bounds"] = {"avc_sps": "6 base vectors x every field over its boundary set%s; VUI/HRD single-field and branch pairs" % ("" if q else " + all field pairs on 2 bases"),
                         "avc_pps": "single-field%s variations x 6 (pps id, sps id) assignments x 2 SPS contexts" % ("" if q else " and pairwise"),
                         "avc_slice": "single-field variations x 5 SPS contexts x 5 PPS contexts x nal types {1,5} x nal_ref_idc {0,1,3}, slice types 0..9"}
    ctx.cov["rule"] = ("one behaviour per value vector enumerated by the syntax spec; the NAL unit is serialised by the TLA+ transcription of the "
                       "standard (incl. emulation prevention) and parsed by the real parser; non-trivial = vector reached the field comparison")
    ctx.cov["traces_validated_against_impl"] = 0
    ctx.assumptions += ["scaling lists that fall back to the default matrix (first delta makes nextScale 0) are not compared",
                        "slice groups, MVC/SVC NAL types and explicit pred-weight values are outside the generated syntax"]
    return ctx.finish("model_checking", exhaustive=True)
