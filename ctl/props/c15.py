"""C15 - parameter sets and slice headers parse to the values that were coded (AvcSyntax.tla, HevcSyntax.tla)."""
import core


def run_pslister(ctx, binary, codec, exported, q, stats):
    """The shipped lister resolves a PPS to its SPS by id too: the built mp4ff-pslister is given the (SPS, PPS) pairs of the PPS
    vectors (every id assignment) in hex; it must print both parameter sets (exit 0) for every pair the library parsers accept."""
    import subprocess
    vps = "40010c01ffff01600000030090000003000003005d959809"
    pairs = {}
    for e in exported:
        pairs.setdefault((bytes(e["spsnal"]), bytes(e["nal"])), e)
    todo = [pairs[k] for k in sorted(pairs)]
    step = max(1, len(todo) // (300 if q else 3000))
    for i, e in enumerate(todo):
        if i % step != ctx.seed % step:
            continue
        cmd = [binary, "-c", codec, "-sps", bytes(e["spsnal"]).hex(), "-pps", bytes(e["nal"]).hex()]
        if codec == "hevc":
            cmd += ["-vps", vps]
        try:
            p = subprocess.run(cmd, capture_output=True, text=True, timeout=20, errors="replace")
        except subprocess.TimeoutExpired:
            ctx.report("tool/pslister/%s/hang" % codec, "mp4ff-pslister does not return within 20 s", {"cmd": " ".join(cmd[1:])})
            continue
        stats["runs"] += 1
        if p.returncode == 0:
            stats["ok"] += 1
        else:
            msg = (p.stderr or p.stdout).strip().splitlines()[-1:] or [""]
            what = "sps-id-not-resolved" if "not found in map" in msg[0] or "unknown" in msg[0] else "rejects-valid-parameter-sets"
            ctx.report("tool/pslister/%s/%s" % (codec, what), "mp4ff-pslister fails on a valid (SPS, PPS) pair: " + msg[0][:200],
                       {"cmd": " ".join(cmd[1:]), "sps_id": e["p"].get("spsid") if isinstance(e.get("p"), dict) else None})


def run(ctx):
    q = ctx.tier == "quick"
    t = "quick" if q else "thorough"
    ctx.build_harness()
    specs = [("AvcSyntax", "Avc_%s_%s.cfg" % (s, t), "c15-replay") for s in ("sps", "pps", "slice")]
    specs += [("HevcSyntax", "Hevc_%s_%s.cfg" % (s, t), "c15-hevc-replay") for s in ("sps", "pps", "slice")]
    counts = {}
    lister = {"runs": 0, "ok": 0}
    pslister = ctx.build_repo_binary("./cmd/mp4ff-pslister", "mp4ff-pslister")
    for mod, cfg, cmd in specs:
        r = ctx.tlc_ok(mod, cfg, workers=14, timeout=3000, heap="16g", stack="256m")
        if not r.exported:
            raise core.Machinery("nothing exported by " + cfg)
        counts[cfg] = len(r.exported)
        inp = ctx.write_ndjson(cfg + ".ndjson", r.exported)
        core.absorb(ctx, ctx.harness([cmd, "-in", inp], timeout=3000))
        if "_pps_" in cfg:
            run_pslister(ctx, pslister, "avc" if mod == "AvcSyntax" else "hevc", r.exported, q, lister)
    if lister["ok"] < 100:
        raise core.Machinery("mp4ff-pslister printed only %d (SPS, PPS) pairs" % lister["ok"])
    ctx.cov["bounds"] = {"avc_sps": "6 base vectors x every field over its boundary set%s; VUI/HRD single-field and branch pairs" % ("" if q else " + all field pairs on 2 bases"),
                         "avc_pps": "single-field%s variations x 6 (pps id, sps id) assignments x 3 SPS contexts (4:2:0, 4:4:4, 4:4:4 separate planes); slice groups: map types 0-6 x {2,3,8} groups" % ("" if q else " and pairwise"),
                         "avc_slice": "single-field variations x 5 SPS contexts x 7 PPS contexts (two with slice group map types 3 / 5: slice_group_change_cycle) x nal types {1,5} x nal_ref_idc {0,1,3}, slice types 0..9",
                         "hevc_sps": "7 base vectors (1..7 sub-layers, 4:0:0/4:2:0/4:2:2/4:4:4 + separate planes, 7 short-term RPS lists incl. inter-predicted chains, long-term pictures, "
                                     "scaling lists, PCM, range extension) x every field over its boundary set%s; VUI and HRD (sub-picture, NAL/VCL, per-sub-layer branches) single-field and branch pairs; "
                                     "hvcC record and codec string built from every vector" % ("" if q else " + all field pairs on 2 bases"),
                         "hevc_pps": "2 bases (tiles, deblocking control, range extension) x single-field%s variations x 6 (pps id, sps id) assignments" % ("" if q else " and pairwise"),
                         "hevc_slice": "single-field%s variations x 5 SPS contexts x 7 PPS contexts x nal types {TRAIL_R, IDR_W_RADL, CRA}: dependent segments, SPS / slice-level / inter-predicted RPS, "
                                       "long-term pictures, ref-pic-list modification (NumPicTotalCurr), pred-weight tables, deblocking override and inference, entry points, header extension" % ("" if q else " and pairwise"),
                         "pslister": "the built mp4ff-pslister on %d (SPS, PPS) pairs in hex (all id assignments): %d printed" % (lister["runs"], lister["ok"]),
                         "vectors": counts}
    ctx.cov["rule"] = ("one behaviour per value vector enumerated by the syntax spec; the NAL unit is serialised by the TLA+ transcription of the "
                       "standard (incl. emulation prevention) and parsed by the real parser; non-trivial = vector reached the field comparison")
    ctx.cov["traces_validated_against_impl"] = 0
    ctx.assumptions += ["scaling lists that fall back to the default matrix (first delta makes nextScale 0) are not compared",
                        "AVC slice groups are generated with fixed inner values (run lengths, rectangles, ids per position); MVC/SVC NAL types and explicit pred-weight values are outside the generated AVC syntax",
                        "HEVC multilayer / 3D / SCC extensions and VPS parsing are outside the generated syntax; scaling list data is only skipped by the parser, so only its length is exercised"]
    return ctx.finish("model_checking", exhaustive=True)
