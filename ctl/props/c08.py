"""C08 - lazy-mdat mode is observationally equal to in-memory mode (Mdat.tla, MdatTrace.tla)."""
import os
import core


def run(ctx):
    q = ctx.tier == "quick"
    ctx.build_harness()
    r = ctx.tlc_ok("Mdat", "Mdat_quick.cfg" if q else "Mdat_thorough.cfg", workers=12, timeout=3000, heap="12g", stack="64m")
    if len(r.exported) * 2 != r.distinct:
        raise core.Machinery("export count %d does not match done states (%d distinct)" % (len(r.exported), r.distinct))
    inp = ctx.write_ndjson("mdat.ndjson", r.exported)
    core.absorb(ctx, ctx.harness(["c08-replay", "-in", inp]))
    tr = os.path.join(ctx.specdir, "trace.ndjson")
    s3 = core.absorb(ctx, ctx.harness(["c08-drive", "-trace", tr, "-n", "60" if q else "600"]))
    if s3["extra"]["traces"] < 3:
        raise core.Machinery("corpus driver found fewer than 3 usable files")
    ctx.validate_traces_all("MdatTrace", "MdatTrace.cfg", tr, what="MdatTrace.tla rejected recorded range reads on a corpus file")
    # the segmenter example with and without -lazy on the progressive inputs of Segmenter.tla (a sample of them in the quick tier)
    seg = ctx.build_repo_binary("./examples/segmenter", "segmenter")
    rs = ctx.tlc_ok("Segmenter", "Seg_prog_%s.cfg" % ("quick" if q else "thorough"), workers=14, timeout=3000, heap="16g", stack="128m")
    ex = sorted(rs.exported, key=lambda e: str(e))
    step = 6 if q else 3
    ex = [e for i, e in enumerate(ex) if i % step == ctx.seed % step]
    s4 = core.absorb(ctx, ctx.harness(["c08-segmenter", "-in", ctx.write_ndjson("segprog.ndjson", ex), "-segmenter", seg], timeout=3000))
    if s4["extra"]["compared"] < 50:
        raise core.Machinery("segmenter outputs compared for only %d runs (dead driver?)" % s4["extra"]["compared"])
    ctx.cov["bounds"] = {"segmenter_lazy_vs_memory": "%d pairs of runs (one file per track and -m) over %d Segmenter.tla inputs" % (s4["extra"]["compared"], len(ex)),
                         "ranges": "all valid (start,size) for payload length 1..%d, header forms {8,16}, orders {moov-mdat, mdat-moov, fragmented}" % (5 if q else 9),
                         "copy": "all chunkings of 1..%d samples, all intervals, all work-buffer sizes 0..payload+1" % (3 if q else 5),
                         "trace_events": s3["extra"]["events"]}
    ctx.cov["rule"] = ("behaviours = (layout, operation) pairs enumerated by Mdat.tla; each replayed on a materialised file in normal, lazy "
                       "(and SR) decode modes; non-trivial = file decoded in all modes and the operation result compared")
    return ctx.finish("model_checking", exhaustive=True)
