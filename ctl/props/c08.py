"""C08 - lazy-mdat mode is observationally equal to in-memory mode (Mdat.tla, MdatTrace.tla)."""
import os
import core


def run(ctx):
    q = ctx.tier == "quick"
    ctx.build_harness()
    r = ctx.tlc_ok("Mdat", "Mdat_quick.cfg" if q else "Mdat_thorough.cfg", workers=12, timeout=3000, heap="12g", stack="64m")
    if len(r.exported) * 2 != r.distinct:
        raise core.Machinery("export count %d does not match done states (%d distinct)" % (len(r.exported), r.distinct))
    inp = ctx.write_ndjson("mdat.ndjson", r.exported)
    core.absorb(ctx, ctx.harness(["c08-replay", "-in", inp]))
    tr = os.path.join(ctx.specdir, "trace.ndjson")
    s3 = core.absorb(ctx, ctx.harness(["c08-drive", "-trace", tr, "-n", "60" if q else "600"]))
    if s3["extra"]["traces"] < 3:
        raise core.Machinery("corpus driver found fewer than 3 usable files")
    ctx.validate_traces_all("MdatTrace", "MdatTrace.cfg", tr, what="MdatTrace.tla rejected recorded range reads on a corpus file")
    ctx.cov["bounds"] = {"ranges": "all valid (start,size) for payload length 1..%d, header forms {8,16}, orders {moov-mdat, mdat-moov, fragmented}" % (5 if q else 9),
                         "copy": "all chunkings of 1..%d samples, all intervals, all work-buffer sizes 0..payload+1" % (3 if q else 5),
                         "trace_events": s3["extra"]["events"]}
    ctx.cov["rule"] = ("behaviours = (layout, operation) pairs enumerated by Mdat.tla; each replayed on a materialised file in normal, lazy "
                       "(and SR) decode modes; non-trivial = file decoded in all modes and the operation result compared")
    return ctx.finish("model_checking", exhaustive=True)
