"""C17 - SEI messages survive write/parse round trips (SeiSyntax.tla)."""
import core


def run(ctx):
    q = ctx.tier == "quick"
    t = "quick" if q else "thorough"
    ctx.build_harness()
    cases = []
    for mode in ("list", "timecode", "pictiming"):
        r = ctx.tlc_ok("SeiSyntax", "Sei_%s_%s.cfg" % (mode, t), workers=14, timeout=3000, heap="16g", stack="256m")
        cases += r.exported
    inp = ctx.write_ndjson("sei.ndjson", cases)
    s = core.absorb(ctx, ctx.harness(["c17-replay", "-in", inp], timeout=3000))
    if s["extra"].get("nalu_parses_judged", 0) < 1000:
        raise core.Machinery("only %d SEI NAL unit parses through avc / hevc ParseSEINalu judged" % s["extra"].get("nalu_parses_judged", 0))
    ctx.cov["bounds"] = {"nal_unit_parsers": "%d message lists also parsed as a whole SEI NAL unit by avc.ParseSEINalu / hevc.ParseSEINalu and compared message by message" % s["extra"]["nalu_parses_judged"],
                         "lists": "1..%d messages, types incl. >= 255, sizes incl. >= 255, payload classes filler/zeros/ends-00/emulation/ff" % (2 if q else 3),
                         "time_code": "0..%d clocks x all flag nestings x time offset lengths" % (2 if q else 3),
                         "pic_timing": "pict_struct 0..8 x cpb/dpb delays x clock flag nestings x time offset lengths, signed offsets",
                         "fixed": "137 and 144 over boundary values"}
    ctx.cov["rule"] = "behaviours = written states of SeiSyntax.tla; each message list / typed value written and parsed by the real sei package"
    ctx.cov["traces_validated_against_impl"] = 0
    return ctx.finish("model_checking", exhaustive=True)
