"""C17 - SEI messages survive write/parse round trips (SeiSyntax.tla)."""
import core


def run(ctx):
    q = ctx.tier == "quick"
    t = "quick" if q else "thorough"
    ctx.build_harness()
    cases = []
    for mode in ("list", "timecode", "pictiming"):
        r = ctx.tlc_ok("SeiSyntax", "Sei_%s_%s.cfg" % (mode, t), workers=14, timeout=3000, heap="16g", stack="256m")
        cases += r.exported
    inp = ctx.write_ndjson("sei.ndjson", cases)
    core.absorb(ctx, ctx.harness(["c17-replay", "-in", inp], timeout=3000))
    ctx.cov["bounds"] = {"lists": "1..%d messages, types incl. >= 255, sizes incl. >= 255, payload classes filler/zeros/ends-00/emulation/ff" % (2 if q else 3),
                         "time_code": "0..%d clocks x all flag nestings x time offset lengths" % (2 if q else 3),
                         "pic_timing": "pict_struct 0..8 x cpb/dpb delays x clock flag nestings x time offset lengths, signed offsets",
                         "fixed": "137 and 144 over boundary values"}
    ctx.cov["rule"] = "behaviours = written states of SeiSyntax.tla; each message list / typed value written and parsed by the real sei package"
    ctx.cov["traces_validated_against_impl"] = 0
    return ctx.finish("model_checking", exhaustive=True)
