"""C19 - init segments built through the API are consistent and self-describing (Init.tla)."""
import core


def run(ctx):
    q = ctx.tier == "quick"
    ctx.build_harness()
    r = ctx.tlc_ok("Init", "Init_quick.cfg" if q else "Init_thorough.cfg", workers=14, timeout=3000, heap="12g")
    if not r.exported:
        raise core.Machinery("nothing exported")
    inp = ctx.write_ndjson("init.ndjson", r.exported)
    core.absorb(ctx, ctx.harness(["c19-replay", "-in", inp], timeout=3000))
    # descriptors from parameter sets serialised by the syntax specs: every SPS vector of AvcSyntax.tla / HevcSyntax.tla
    ps = []
    for module, cfg, codec in (("AvcSyntax", "Avc_sps_quick.cfg" if q else "Avc_sps_thorough.cfg", "avc"), ("HevcSyntax", "Hevc_sps_quick.cfg" if q else "Hevc_sps_thorough.cfg", "hevc")):
        rs = ctx.tlc_ok(module, cfg, workers=14, timeout=3000, heap="16g", stack="256m")
        for e in rs.exported:
            if e.get("struct") == "sps":
                ps.append({"codec": codec, "v": e["v"], "nal": e["nal"], "width": e["width"], "height": e["height"]})
    if len(ps) < 500:
        raise core.Machinery("only %d parameter sets exported by the syntax specs" % len(ps))
    core.absorb(ctx, ctx.harness(["c19-psets", "-in", ctx.write_ndjson("psets.ndjson", ps)], timeout=3000))
    ctx.cov["bounds"] = {"tracks": "1..%d" % (2 if q else 3), "media_types": ["video", "audio", "subtitle", "subtitles", "stpp", "text", "wvtt", "meta"],
                         "languages": ["und", "en", "zh-Hant"] if q else ["und", "eng", "swe", "en", "sv-SE", "zh-Hant"],
                         "descriptors": ["avc1", "avc3", "hvc1", "hev1", "AAC-LC", "HE-AACv1", "HE-AACv2", "ac-3", "ec-3", "wvtt", "stpp"]}
    ctx.cov["rule"] = ("behaviours = built states of Init.tla (all AddEmptyTrack/SetDescriptor histories); each replayed through the real API, "
                       "projected before and after encode/decode (both decoders) and used to decode a fragment per track")
    ctx.cov["traces_validated_against_impl"] = 0
    ctx.cov["bounds"]["parameter_sets"] = "the descriptor histories use the repository's own test vectors; in addition %d SPS NAL units serialised by AvcSyntax.tla / HevcSyntax.tla (every profile, chroma format, bit depth pair, cropping, VUI shape) are given to SetAVCDescriptor / SetHEVCDescriptor (avc1, avc3, hvc1, hev1): sample entry dimensions, tkhd, configuration record profile / level / chroma / bit depths and the SPS verbatim are compared with the coded values, as built and after encode + DecodeFile / DecodeFileSR" % len(ps)
    return ctx.finish("model_checking", exhaustive=True)
