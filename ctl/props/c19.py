"""C19 - init segments built through the API are consistent and self-describing (Init.tla)."""
import core


def run(ctx):
    q = ctx.tier == "quick"
    ctx.build_harness()
    r = ctx.tlc_ok("Init", "Init_quick.cfg" if q else "Init_thorough.cfg", workers=14, timeout=3000, heap="12g")
    if not r.exported:
        raise core.Machinery("nothing exported")
    inp = ctx.write_ndjson("init.ndjson", r.exported)
    core.absorb(ctx, ctx.harness(["c19-replay", "-in", inp], timeout=3000))
    ctx.cov["bounds"] = {"tracks": "1..%d" % (2 if q else 3), "media_types": ["video", "audio", "subtitle", "subtitles", "stpp", "text", "wvtt", "meta"],
                         "languages": ["und", "en", "zh-Hant"] if q else ["und", "eng", "swe", "en", "sv-SE", "zh-Hant"],
                         "descriptors": ["avc1", "avc3", "hvc1", "hev1", "AAC-LC", "HE-AACv1", "HE-AACv2", "ac-3", "ec-3", "wvtt", "stpp"]}
    ctx.cov["rule"] = ("behaviours = built states of Init.tla (all AddEmptyTrack/SetDescriptor histories); each replayed through the real API, "
                       "projected before and after encode/decode (both decoders) and used to decode a fragment per track")
    ctx.cov["traces_validated_against_impl"] = 0
    ctx.assumptions += ["parameter sets are the repository's own test vectors; their parsed dimensions are trusted here (C15 judges the parsers)"]
    return ctx.finish("model_checking", exhaustive=True)
