"""Shared part of C06 / C07: generate samples with Cenc.tla, drive the real encrypt/decrypt pipeline."""
import os
import core


def generate_and_drive(ctx):
    q = ctx.tier == "quick"
    t = "quick" if q else "thorough"
    ctx.build_harness()
    cases = []
    for cfg in ("Cenc_avc_%s.cfg" % t, "Cenc_hevc_%s.cfg" % t, "Cenc_audio.cfg", "Cenc_big.cfg", "Cenc_many.cfg"):
        r = ctx.tlc_ok("Cenc", cfg, workers=12, timeout=3000, heap="12g", stack="64m")
        ex = r.exported
        if cfg == "Cenc_big.cfg" and q:
            ex = [e for i, e in enumerate(ex) if i % 12 == ctx.seed % 12]   # 64 KiB samples are slow: a slice per quick run
        cases += ex
    if not q:
        pass
    inp = ctx.write_ndjson("cenc.ndjson", cases)
    t7 = os.path.join(ctx.scratch, "trace07.ndjson")
    t6 = os.path.join(ctx.scratch, "trace06.ndjson")
    # slices of every header shape (AvcSyntax.tla): the cbcs clear range must end where the syntax says the header ends
    rs = ctx.tlc_ok("AvcSyntax", "Avc_slice_quick.cfg", workers=14, timeout=3000, heap="16g", stack="256m")
    slices = ctx.write_ndjson("avc_slices.ndjson", sorted(rs.exported, key=lambda e: str(e["nal"]) + str(e["ppsnal"])))
    encbin = ctx.build_repo_binary("./cmd/mp4ff-encrypt", "mp4ff-encrypt")
    decbin = ctx.build_repo_binary("./cmd/mp4ff-decrypt", "mp4ff-decrypt")
    s = core.absorb(ctx, ctx.harness(["cenc-drive", "-in", inp, "-trace07", t7, "-trace06", t6, "-encbin", encbin, "-decbin", decbin,
                                          "-slices", slices, "-slicestride", "9" if q else "2"], timeout=3000))
    if s["extra"].get("cbcs_spec_slices", 0) < 100:
        raise core.Machinery("only %d cbcs runs on spec-serialised slices" % s["extra"].get("cbcs_spec_slices", 0))
    if s["extra"].get("corpus_decrypted", 0) < 5:
        raise core.Machinery("only %d third-party encrypted corpus files decrypted and compared" % s["extra"].get("corpus_decrypted", 0))
    if s["extra"]["tool_runs"] < 50:
        raise core.Machinery("only %d runs of the mp4ff-encrypt / mp4ff-decrypt binaries" % s["extra"]["tool_runs"])
    ctx.cov["bounds"] = {"nal_sizes": "classes around 16/96/112/128 and the 64 KiB clear-run split", "nals_per_sample": "1..2 (3 for the 64 KiB set)",
                         "samples_per_fragment": "1..3", "schemes": ["cenc (avc, hevc, audio)", "cbcs (audio; avc: generated multi-slice samples with real slice-header heads, %d samples made of slices serialised by AvcSyntax.tla (every header variation), and corpus init.mp4+1.m4s)" % s["extra"].get("cbcs_spec_slices", 0)],
                         "ivs": "8 and 16 bytes: zero, one, ..00ff (carry), ff..fe, ff..ff (wrap), mixed, random",
                         "extra_boxes": ["none", "vndr+zzzz+moof-level uuid", "also a non-senc uuid inside traf"],
                         "third_party_files": "%d encrypted corpus files (cenc/cbcs multi-traf, cbcs audio, PIFF audio+video) decrypted by the library and by the harness's own senc walker + raw AES, compared sample by sample" % s["extra"].get("corpus_decrypted", 0),
                         "paths": "library API (InitProtect / EncryptFragment / DecryptInit / DecryptSegment) on every case; the built mp4ff-encrypt and mp4ff-decrypt binaries on %d of them" % s["extra"]["tool_runs"]}
    return s, t7, t6
