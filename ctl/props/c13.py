"""C13 - bit, Exp-Golomb and emulation-prevention coding are exact inverses.

spec: Bits.tla (operators), BitsAbs.tla (unbounded finite-state abstraction),
      BitsBytes.tla / BitsOps.tla (bounded exhaustive generators + design checks),
      BitsTrace.tla (trace validation of real EBSPWriter/EBSPReader executions)."""
import core


absorb = core.absorb


def run(ctx):
    q = ctx.tier == "quick"
    ctx.build_harness()
    # 1. unbounded abstraction (design level, complete state graph)
    ctx.tlc_ok("BitsAbs", "BitsAbs.cfg", workers=4, timeout=300)
    # 2. bounded exhaustive byte strings -> replay
    r = ctx.tlc_ok("BitsBytes", "BitsBytes_quick.cfg" if q else "BitsBytes_thorough.cfg", workers=8, timeout=1500)
    if len(r.exported) != r.distinct:
        raise core.Machinery("export count %d != distinct states %d" % (len(r.exported), r.distinct))
    inp = ctx.write_ndjson("bytes.ndjson", r.exported)
    s1 = absorb(ctx, ctx.harness(["c13-bytes", "-in", inp]))
    # 3. op sequences -> replay
    r2 = ctx.tlc_ok("BitsOps", "BitsOps_quick.cfg" if q else "BitsOps_thorough.cfg", workers=8, timeout=2400, heap="12g")
    if len(r2.exported) != r2.distinct:
        raise core.Machinery("export count %d != distinct states %d" % (len(r2.exported), r2.distinct))
    inp2 = ctx.write_ndjson("ops.ndjson", r2.exported)
    s2 = absorb(ctx, ctx.harness(["c13-ops", "-in", inp2]))
    # 4. traces of seeded random streams from the real code, validated by TLC
    import os
    tr = os.path.join(ctx.specdir, "trace.ndjson")
    s3 = absorb(ctx, ctx.harness(["c13-drive", "-trace", tr, "-n", "150" if q else "1500", "-len", "100" if q else "200"]))
    ctx.validate_traces_all("BitsTrace", "BitsTrace.cfg", tr,
                            what="BitsTrace.tla rejected a recorded EBSPWriter/EBSPReader execution")
    ctx.cov["bounds"] = {"alphabet": [0, 1, 2, 3, 171], "max_len": 6 if q else 8,
                         "chunkings": s1["extra"].get("chunkings"), "max_ops": 2 if q else 3,
                         "trace_events": s3["extra"]["events"]}
    ctx.cov["rule"] = ("behaviours = every reachable state of BitsBytes (raw byte strings) and BitsOps (op sequences), "
                       "replayed into bits.Writer/EBSPWriter/FixedSliceWriter/Reader/EBSPReader; non-trivial = byte string "
                       "needing at least one escape, or non-empty op sequence; distinct by content")
    ctx.assumptions += ["behaviour of the coders depends on byte values only through the classes {0,1,2,3,>3} (shown by BitsAbs over a 7-value alphabet and checked by seeded concretisation)"]
    return ctx.finish("model_checking", exhaustive=True)
