"""C11 - segmenting, resegmenting and multiplexing conserve every sample (Segmenter.tla)."""
import core


def run(ctx):
    q = ctx.tier == "quick"
    t = "quick" if q else "thorough"
    ctx.build_harness()
    seg = ctx.build_repo_binary("./examples/segmenter", "segmenter")
    reseg = ctx.build_repo_binary("./examples/resegmenter", "resegmenter")
    comb = ctx.build_repo_binary("./examples/combine-segs", "combine-segs")
    cases = []
    for mode in ("prog", "frag"):
        r = ctx.tlc_ok("Segmenter", "Seg_%s_%s.cfg" % (mode, t), workers=14, timeout=3000, heap="16g", stack="128m")
        ex = sorted(r.exported, key=lambda e: str(e))
        if q and mode == "frag":
            ex = [e for i, e in enumerate(ex) if i % 4 == ctx.seed % 4]
        cases += ex
    inp = ctx.write_ndjson("seg.ndjson", cases)
    s = core.absorb(ctx, ctx.harness(["c11-replay", "-in", inp, "-segmenter", seg, "-resegmenter", reseg, "-combine", comb], timeout=3000))
    ok = s["extra"]["tool_ok"]
    for tool in ("segmenter/single", "segmenter/mux", "segmenter/lazy", "resegmenter", "Fragmentify", "combine-segs"):
        if ok.get(tool, 0) < 10:
            raise core.Machinery("tool %s succeeded on fewer than 10 inputs (dead driver?)" % tool)
    if s["extra"].get("m2_segment_starts_checked", 0) < 1000:
        raise core.Machinery("the sync flag of only %d segment starts was judged (vacuous M2 check?)" % s["extra"].get("m2_segment_starts_checked", 0))
    ctx.cov["bounds"] = {"m2_segment_starts_checked": s["extra"]["m2_segment_starts_checked"], "progressive": "video N in %s with every sync set, constant/alternating durations, with/without ctts, 3 chunkings; optional audio (8/13 samples, timescale 500)" % ("{3,4}" if q else "{2..6}"),
                         "segment_durations_ms": [10, 15, 20, 30, 45, "total", "total+10"], "tool_modes": ["single-track", "-m multiplexed", "-lazy"],
                         "fragmented": "single track of 4..%d samples, every split into fragments, one or two truns per fragment, non-sync samples marked dependent / all independent (0x02010000) / every second one; chunk durations {10,20,25,40,1000}" % (5 if q else 6),
                         "tool_ok": ok, "tool_failed": s["extra"]["tool_failed"]}
    ctx.cov["rule"] = ("behaviours = inputs x target durations of Segmenter.tla; the built example binaries (and MediaSegment.Fragmentify) run on "
                       "materialised inputs; judged when the tool exits 0; non-trivial = at least one tool succeeded and its output was compared")
    ctx.cov["traces_validated_against_impl"] = 0
    return ctx.finish("model_checking", exhaustive=True)
