"""C20 - independent objects can be used from concurrent goroutines (Conc.tla)."""
import json
import os
import re
import subprocess
import core


def keyfn(info):
    ev = info.get("event") or {}
    head = (info.get("trace") or [{}])[0]
    alias = "/sr-decode-then-in-place-crypt" if head.get("sr_decode_then_in_place_crypt") else ""
    if ev.get("ev") == "race":
        return "race/%s/%d-data-races-%d-mismatches" % ("sr-decode-then-in-place-crypt-programs" if ev.get("alias") else "independent-programs",
                                                        min(ev.get("races", 0), 1), min(ev.get("mismatches", 0), 1))
    what = "footprint"
    if ev.get("ev") == "step":
        if ev.get("inputs") != head.get("inputs"):
            what = "shared-input-written"
        elif ev.get("registry") != head.get("registry"):
            what = "registry-changed"
        elif not ev.get("others_same", True):
            what = "other-goroutines-object-changed"
        else:
            what = "result-differs-from-solo/op=%s" % ev.get("op")
    return "schedule/%s%s" % (what, alias)


def run(ctx):
    q = ctx.tier == "quick"
    ctx.build_harness()
    r = ctx.tlc_ok("Conc", "Conc_gen_%s.cfg" % ("quick" if q else "thorough"), workers=12, timeout=3000, heap="12g")
    sched = ctx.write_ndjson("sched.ndjson", sorted(r.exported, key=lambda e: json.dumps(e)))
    ri = ctx.tlc_ok("BoxLayouts", "BoxLayouts_quick.cfg", workers=14, timeout=3000, heap="12g", stack="64m")
    inst = ctx.write_ndjson("inst.ndjson", sorted(ri.exported, key=lambda e: (e["layout"], e["ver"], e["flags"], e["cnt"], str(e["pick"]), e["hdr"], e["wrap"])))
    tr = os.path.join(ctx.specdir, "trace.ndjson")
    s = core.absorb(ctx, ctx.harness(["c20-replay", "-in", sched, "-trace", tr, "-instances", inst], timeout=6000))
    # data races: the same programs on real goroutines under the race detector
    race_bin = ctx.build_harness(race=True)
    races = {}
    for alias in ("no", "yes"):
        env = ctx.env()
        env["GORACE"] = "halt_on_error=0 exitcode=0"
        p = subprocess.run([race_bin, "c20-race", "-in", sched, "-n", "150" if q else "1500", "-alias", alias, "-instances", inst], capture_output=True, text=True,
                           env=env, timeout=3000, cwd=ctx.scratch)
        if p.returncode != 0:
            raise core.Machinery("race run failed: " + p.stderr[-2000:])
        nraces = len(re.findall(r"WARNING: DATA RACE", p.stderr))
        summ = [json.loads(x) for x in p.stdout.splitlines() if x.startswith("{")]
        if not summ:
            raise core.Machinery("race run printed no summary")
        sites = sorted(set(re.findall(r"github.com/Eyevinn/mp4ff/([\w/]+\.[\w.()*]+)\(\)", p.stderr)))[:12]
        races[alias] = {"races": nraces, "mismatches": summ[-1]["mismatches"], "runs": summ[-1]["runs"], "sites": sites}
        with open(tr, "a") as f:
            f.write(json.dumps({"ev": "reset", "progs": [], "sched": [], "solo": [], "inputs": [], "registry": 0,
                                "sr_decode_then_in_place_crypt": alias == "yes"}) + "\n")
            f.write(json.dumps({"ev": "race", "alias": alias == "yes", "races": nraces, "mismatches": summ[-1]["mismatches"], "runs": summ[-1]["runs"],
                                "sites": sites}) + "\n")
    ctx.validate_traces_all("Conc", "Conc_trace.cfg", tr, keyfn=keyfn, max_rejects=30, heap="12g",
                            groupfn=lambda h: ("aliasing",) if h.get("sr_decode_then_in_place_crypt") else ("indep", json.dumps(h.get("progs"))),
                            what="Conc.tla rejected a replayed schedule / race-detector run")
    ctx.cov["bounds"] = {"goroutines": 2 if q else 3, "programs": 16 if q else 5, "inputs": "clear fragmented file, the same encrypted, a progressive corpus file, two kitchen-sink files with one instance of every BoxLayouts.tla box shape (different field values)", "ops_per_program": 3, "schedules": len(r.exported),
                         "race_runs": races, "trace_events": s["extra"]["events"]}
    ctx.cov["rule"] = ("schedules = every call-level interleaving of every program tuple enumerated by Conc.tla, replayed deterministically with "
                       "digests of shared inputs, registries and all live objects after every call; plus randomised real-goroutine runs of the "
                       "same programs under the Go race detector")
    ctx.assumptions += ["call-level interleavings decide hidden state / aliasing; memory-access-level races are decided by the Go race detector on the runs performed, not by TLC"]
    return ctx.finish("exploration")
