"""C12 - fragments are grouped into segments faithfully and indexes tile the media (FileAsm.tla)."""
import core


def run(ctx):
    q = ctx.tier == "quick"
    ctx.build_harness()
    r = ctx.tlc_ok("FileAsm", "FileAsm_quick.cfg" if q else "FileAsm_thorough.cfg", workers=12, timeout=3000, heap="12g", stack="64m")
    if len(r.exported) * 2 != r.distinct:
        raise core.Machinery("export count %d does not match decoded states (%d distinct)" % (len(r.exported), r.distinct))
    inp = ctx.write_ndjson("fileasm.ndjson", r.exported)
    core.absorb(ctx, ctx.harness(["c12-replay", "-in", inp]))
    # the shipped tool that writes the index: examples/add-sidx, built from the working tree, on every layout it can express
    tool = ctx.build_repo_binary("./examples/add-sidx", "add-sidx")
    st = core.absorb(ctx, ctx.harness(["c12-tool", "-in", inp, "-bin", tool, "-stride", "1" if len(r.exported) < 6000 else "3"], timeout=3000))
    if st["extra"]["tool_runs"] < 200 or st["extra"]["tool_failed"] * 4 > st["extra"]["tool_runs"]:
        raise core.Machinery("add-sidx runs: %d, failed: %d" % (st["extra"]["tool_runs"], st["extra"]["tool_failed"]))
    ctx.cov["bounds"] = {"segments": "1..%d" % (3 if q else 4), "fragments_per_segment": "1..%d" % (2 if q else 3), "tracks": "1..2",
                         "delimiters": ["none", "styp", "sidx", "styp+sidx", "mfra(+ISM flag)", "mfra without flag", "start-on-moof"],
                         "emsg": ["none", "segment start", "second fragment"] + ([] if q else ["all"]),
                         "segment_level_sidx": "0..2", "UpdateSidx": "existing/absent sidx x nonZeroEPT {false,true}",
                         "add-sidx tool": "%d runs of the built binary: [-startSegOnMoof] x [-nzEPT] x {clean trafs, trafs with left-over saiz/saio/senc and -removeEnc}" % st["extra"]["tool_runs"]}
    ctx.cov["rule"] = ("one behaviour per consistent fragmented file layout enumerated by FileAsm.tla; materialised with real sizes, decoded "
                       "(reader and SR), partition / re-encoding / index compared; non-trivial = decoded by the real decoder")
    ctx.cov["traces_validated_against_impl"] = 0
    ctx.assumptions += ["styp combined with the start-on-moof flag is not judged (statement does not say which wins)",
                        "emsg directly before the moof that a tfra entry names (ISM flag) is C04 material"]
    return ctx.finish("model_checking", exhaustive=True)
