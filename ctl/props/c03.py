"""C03 - the two decoders and the two encoders are interchangeable (Interchange.tla, FileAsm.tla)."""
import os
import core


def keyfn(info):
    ev = info.get("event") or {}
    tr = info.get("trace") or [{}]
    head = tr[0]
    what = ev.get("ev", "?")
    if what == "enc2":
        what = "enc2/" + ("one-fails" if (ev.get("errW") == "") != (ev.get("errSW") == "") else "bytes-differ")
    elif what == "dec2":
        what = "dec2/" + ev.get("level", "?")
    return "trace/%s/%s/%s" % (head.get("kind", "?"), head.get("type", "?"), what)


def run(ctx):
    q = ctx.tier == "quick"
    ctx.build_harness()
    r = ctx.tlc_ok("FileAsm", "FileAsm_quick.cfg" if q else "FileAsm_thorough.cfg", workers=12, timeout=3000, heap="12g", stack="64m")
    layouts = ctx.write_ndjson("layouts.ndjson", r.exported)
    ri = ctx.tlc_ok("BoxLayouts", "BoxLayouts_quick.cfg" if q else "BoxLayouts_thorough.cfg", workers=14, timeout=3000, heap="12g", stack="64m")
    inst = ctx.write_ndjson("inst.ndjson", ri.exported)
    tr = os.path.join(ctx.specdir, "trace.ndjson")
    s = core.absorb(ctx, ctx.harness(["c03-drive", "-layouts", layouts, "-instances", inst, "-trace", tr], timeout=3000))
    if s["extra"]["objects"] < 500:
        raise core.Machinery("object pool unexpectedly small: %d" % s["extra"]["objects"])
    ctx.validate_traces_all("Interchange", "Interchange.cfg", tr, keyfn=keyfn, max_rejects=12, groupfn=lambda h: (h.get("type"), h.get("obj", "").split(":")[0].split("#")[0].split("(")[0]), heap="12g",
                            what="Interchange.tla rejected a recorded pair of outcomes")
    ctx.cov["bounds"] = {"objects": s["extra"]["objects"], "file_layouts": len(r.exported), "box_layout_instances": s["extra"]["instances"], "trace_events": s["extra"]["events"]}
    ctx.cov["rule"] = ("pool as for C02 plus every FileAsm.tla layout decodable with default options; per object Encode vs EncodeSW; per "
                       "top-level box and file DecodeBox/DecodeFile vs DecodeBoxSR/DecodeFileSR on canonical bytes; every BoxLayouts.tla instance (all box shapes) "
                       "through both box decoders, both file decoders and both encoders; dispatch-table keys")
    return ctx.finish("model_checking")
