"""C04 - untrusted container input never crashes, hangs or balloons memory (ContainerShapes.tla, Robust.tla)."""
import glob
import json
import os
import struct
import core
from props import robust_common as rc

CONTAINERS = {b"moov", b"trak", b"mdia", b"minf", b"stbl", b"dinf", b"edts", b"mvex", b"moof", b"traf", b"mfra", b"udta", b"sinf", b"schi"}
# offset of a 32-bit count field inside the payload of full boxes that carry a counted array
COUNT_AT = {b"stts": 4, b"ctts": 4, b"stsc": 4, b"stco": 4, b"co64": 4, b"stss": 4, b"stsz": 8, b"trun": 4, b"senc": 4, b"stsd": 4,
            b"dref": 4, b"elst": 4, b"sbgp": 8, b"saio": 4, b"tfra": 12, b"subs": 4, b"sdtp": None}


def walk(data, base, depth, out):
    pos = 0
    n = len(data)
    while pos + 8 <= n:
        size = struct.unpack(">I", data[pos:pos + 4])[0]
        typ = data[pos + 4:pos + 8]
        hdr = 8
        if size == 1 and pos + 16 <= n:
            size = struct.unpack(">Q", data[pos + 8:pos + 16])[0]
            hdr = 16
        if size < hdr or pos + size > n:
            break
        out.append((base + pos, size, hdr, typ, depth))
        if typ in CONTAINERS:
            walk(data[pos + hdr:pos + size], base + pos + hdr, depth + 1, out)
        pos += size
    return out


def g2_header_mutations(name, data, boxes):
    res = []
    for (at, size, hdr, typ, depth) in boxes:
        for v in (0, 1, 7, 8, 9, size - 1, size + 1, 1 << 31, (1 << 32) - 1):
            if v == size or v < 0:
                continue
            m = bytearray(data)
            m[at:at + 4] = struct.pack(">I", v & 0xffffffff)
            res.append(("G2/%s@%d:%s/size=%d" % (name, at, typ.decode("latin1"), v), "file", bytes(m)))
        for large in (0, 15, 16, 1 << 63, (1 << 64) - 16, (1 << 64) - 1):
            m = bytearray(data[:at]) + struct.pack(">I", 1) + data[at + 4:at + 8] + struct.pack(">Q", large & 0xffffffffffffffff) + data[at + 8:]
            res.append(("G2/%s@%d:%s/largesize=%d" % (name, at, typ.decode("latin1"), large), "file", bytes(m)))
    # largesize values that wrap to a negative length: in lazy mode the decoder seeks by (largesize - 16), i.e. backwards,
    # for every earlier top-level box boundary Q <= at (a seek back onto a boundary would decode the same boxes again)
    tops = [b for b in boxes if b[4] == 0]
    for (at, size, hdr, typ, depth) in tops:
        if typ != b"mdat":
            continue
        for (q, _, _, _, _) in tops:
            if q > at:
                break
            large = ((1 << 64) - (at - q)) & 0xffffffffffffffff
            if large < 16:
                large = (1 << 64) - 16
            m = bytearray(data[:at]) + struct.pack(">I", 1) + data[at + 4:at + 8] + struct.pack(">Q", large) + data[at + 8:]
            res.append(("G2/%s@%d:mdat/largesize=2^64-%d" % (name, at, at - q), "file", bytes(m)))
    return res


def g3_count_inflation(name, data, boxes):
    res = []
    for (at, size, hdr, typ, depth) in boxes:
        off = COUNT_AT.get(typ)
        if off is None or at + hdr + off + 4 > len(data):
            continue
        p = at + hdr + off
        true = struct.unpack(">I", data[p:p + 4])[0]
        # true + 2^32/k: the values for which count x entry size (k = 2, 4, 8, 16 bytes) is congruent to the real payload
        # length modulo 2^32 - a size check done in 32-bit arithmetic accepts them
        for v in (0, true - 1, true + 1, 1 << 16, 1 << 31, (1 << 32) - 1, true + (1 << 28), true + (1 << 29), true + (1 << 30), true + (1 << 31)):
            if v < 0 or v == true or v >= 1 << 32:
                continue
            m = bytearray(data)
            m[p:p + 4] = struct.pack(">I", v & 0xffffffff)
            res.append(("G3/%s@%d:%s/count=%d" % (name, at, typ.decode("latin1"), v), "file", bytes(m)))
    return res


def g4_truncations(name, data, boxes):
    cuts = set()
    for (at, size, hdr, typ, depth) in boxes:
        for d in (0, 1, 4, 8, hdr + 4):
            for e in (at + d, at + size - d):
                if 0 <= e < len(data):
                    cuts.add(e)
    if len(data) <= 2048:
        cuts |= set(range(len(data)))
    return [("G4/%s/cut=%d" % (name, c), "file", data[:c]) for c in sorted(cuts)]


def g5_reorder(name, data, boxes):
    res = []
    for lvl in (0, 1):
        sib = [b for b in boxes if b[4] == lvl]
        for i, (at, size, hdr, typ, depth) in enumerate(sib):
            if lvl == 1:
                continue_ok = True
            # deletion (parent size fields are left as they are: that is part of the malformation for nested boxes)
            res.append(("G5/%s/del@%d:%s" % (name, at, typ.decode("latin1")), "file", data[:at] + data[at + size:]))
            if i + 1 < len(sib) and sib[i + 1][0] == at + size:
                n = sib[i + 1]
                res.append(("G5/%s/swap@%d:%s" % (name, at, typ.decode("latin1")), "file",
                            data[:at] + data[n[0]:n[0] + n[1]] + data[at:at + size] + data[n[0] + n[1]:]))
    return res


def g5_consistent_deletion(name, data, boxes):
    """Delete one nested box and shrink the size field of every ancestor: a well-formed tree that lacks a child
    (tfhd, tfdt, trun, stsd, stts, mdhd, hdlr, tkhd, mvhd, mfhd, senc, ... one at a time)."""
    res = []
    for (at, size, hdr, typ, depth) in boxes:
        if depth == 0:
            continue
        m = bytearray(data[:at] + data[at + size:])
        ok = True
        for (a2, s2, h2, t2, d2) in boxes:
            if d2 < depth and a2 <= at and at + size <= a2 + s2:       # an ancestor
                if h2 != 8 or s2 - size < 8:
                    ok = False
                    break
                m[a2:a2 + 4] = struct.pack(">I", s2 - size)
        if ok:
            res.append(("G5/%s/cdel@%d:%s" % (name, at, typ.decode("latin1")), "file", bytes(m)))
    return res


def run(ctx):
    q = ctx.tier == "quick"
    ctx.build_harness()
    items = []
    # G1: shape grammar enumerated by TLC, materialised by the harness's own box writer
    r = ctx.tlc_ok("ContainerShapes", "Shapes_%s.cfg" % ("quick" if q else "thorough"), workers=12, timeout=3000, heap="12g")
    shapes = ctx.write_ndjson("shapes.ndjson", sorted(r.exported, key=lambda e: (len(e["shape"]), e["shape"])))
    g1 = ctx.harness(["c04-shapes", "-in", shapes])
    g1_items = [(o["id"], "file", bytes.fromhex(o["hex"])) for o in g1]
    items += g1_items
    # G2..G5 on the corpus and on a seeded slice of the G1 files
    bases = []
    for path in sorted(glob.glob(os.path.join(core.REPO, "mp4/testdata/*"))):
        if path.endswith((".mp4", ".m4s", ".cmfv", ".isma", ".dat", ".bin")):
            with open(path, "rb") as f:
                bases.append((os.path.basename(path), f.read()))
    step = 97 if q else 11
    bases += [("g1#%d" % i, b) for i, (_, _, b) in enumerate(g1_items) if i % step == ctx.seed % step and len(b) > 40]
    nsel = 0
    for name, data in bases:
        boxes = walk(data, 0, 0, [])
        if len(data) > 60000 and q:
            boxes = [b for b in boxes if b[4] <= 1][:40]         # big files: top and second level only in the quick tier
        elif len(data) > 60000:
            boxes = boxes[:200]
        muts = g2_header_mutations(name, data, boxes) + g3_count_inflation(name, data, boxes) + g4_truncations(name, data, boxes) + g5_reorder(name, data, boxes) + g5_consistent_deletion(name, data, boxes)
        if q and len(data) > 20000:
            muts = [m for i, m in enumerate(muts) if i % 5 == ctx.seed % 5]
        items += muts
        nsel += 1
    # G6: every box shape of BoxLayouts.tla (all versions / flag subsets / counts / boundary values), plus their truncations in the thorough tier
    ri = ctx.tlc_ok("BoxLayouts", "BoxLayouts_quick.cfg", workers=14, timeout=3000, heap="12g", stack="64m")
    g6 = 0
    for e in sorted(ri.exported, key=lambda e: (e["layout"], e["ver"], e["flags"], e["cnt"], str(e["pick"]), e["hdr"], e["wrap"], str(e.get("ord")))):
        b = bytes(e["bytes"])
        iid = "G6/%s/v%d/f%x/c%d/%s-%s/%s/%s" % (e["layout"], e["ver"], e["flags"], e["cnt"], e["pick"][0], e["pick"][1], e["hdr"], e["wrap"])
        if e.get("ord"):
            iid += "=" + "+".join(e["ord"])
        items.append((iid, "file", b))
        g6 += 1
        # G2/G3 on every box shape: size / largesize / count corruption of the instance's own header (and of its parent when nested)
        if e["pick"][0] == 0 and e["hdr"] == "s32" and e["cnt"] == 1:
            boxes = [(0, len(b), 8, b[4:8], 0)]
            if e["wrap"] == "parent":
                boxes.append((8, len(b) - 8, 8, b[12:16], 1))
            elif e["wrap"] == "sibling":
                boxes.append((8, len(b) - 18, 8, b[12:16], 1))
            # the count under every flag subset (which fields a count multiplies depends on the flags); the quick tier
            # corrupts the sizes only for the flag-less instance
            ms = g3_count_inflation(iid, b, boxes)
            if not q or e["flags"] == 0:
                ms = g2_header_mutations(iid, b, boxes) + ms
            items += ms
            g6 += len(ms)
        if not q and e["pick"][0] == 0 and e["hdr"] == "s32" and e["wrap"] == "none" and e["cnt"] == 2:
            for c in range(8, len(b)):
                items.append((iid + "/cut=%d" % c, "file", b[:c]))
                g6 += 1
    # G7: boxes that refer to each other (CrossRefs.tla): every combination of child variants of a traf (with its init) and
    # of an stbl that deviates from the consistent baseline in at most MaxDev children
    g7, g7_consistent = 0, 0
    for mode in ("traf", "stbl", "mfra"):
        rx = ctx.tlc_ok("CrossRefs", "CrossRefs_%s_%s.cfg" % (mode, "quick" if q else "thorough"), workers=12, timeout=3000, heap="12g")
        if len(rx.exported) < (1000 if mode != "mfra" else 500):
            raise core.Machinery("CrossRefs %s exported only %d combinations" % (mode, len(rx.exported)))
        cx = ctx.write_ndjson("crossrefs_%s.ndjson" % mode, sorted(rx.exported, key=lambda e: json.dumps(e["combo"], sort_keys=True)))
        for o in ctx.harness(["c04-crossrefs", "-in", cx]):
            items.append((o["id"], "file", bytes.fromhex(o["hex"])))
            g7 += 1
            if o["consistent"]:
                g7_consistent += 1
                if not o["accepted"]:
                    ctx.drift.append({"key": "G7-consistent-rejected/" + o["id"], "what": "CrossRefs.tla calls the combination consistent but DecodeFile rejects the materialised file", "case": {"id": o["id"]}})
    if g7_consistent < 4:
        raise core.Machinery("only %d consistent G7 combinations" % g7_consistent)
    trace, fatals = rc.monitor_sharded(ctx, "c04", items, shards=12, mem_kb=6000000)
    ctx.cov["evaluations"] = len(items)
    ctx.cov["distinct_nontrivial"] = len(set(b for _, _, b in items))
    ctx.add_samples([{"id": i, "len": len(b), "hex": b.hex()[:200]} for i, k, b in items[1000:1001] + items[len(items) // 2:len(items) // 2 + 2]])
    ctx.validate_traces_all("Robust", "Robust_trace.cfg", trace, keyfn=rc.keyfn, max_rejects=80, heap="12g",
                            groupfn=lambda h: (h.get("id", "").split("/")[0], h.get("id", "").split("@")[-1].split(":")[-1].split("/")[0] if "@" in h.get("id", "") else h.get("id", "")[:40]),
                            what="Robust.tla totality invariant violated")
    ctx.cov["bounds"] = {"G1": "%d shape sequences (all pairs; triples behind %s) over 56 box variants" % (len(g1_items), "4 heads" if q else "every head"),
                         "G2": "size field of every box in {0,1,7,8,9,true+-1,2^31,2^32-1} and largesize in {0,15,16,2^63}",
                         "G3": "count fields of 16 counted box types set to {0, true-1, true+1, 2^16, 2^31, 2^32-1, true+2^28, true+2^29, true+2^30, true+2^31 (count x entry size wraps to the real length modulo 2^32)}",
                         "G4": "truncation at every box boundary +-{0,1,4,8,hdr+4}; every byte for files <= 2 KiB",
                         "G5": "single deletion and adjacent swap of top-level and second-level boxes; deletion of any nested box with the size fields of all its ancestors adjusted",
                         "G6": "%d inputs: every instance of the BoxLayouts.tla box shapes%s" % (g6, "" if q else " and every truncation of the count-2 shape instances"),
                         "G7": "%d files: every combination of child variants (CrossRefs.tla) of a traf with its init segment (tfhd/trun/senc/saiz/saio/sbgp/sgpd x clear, cenc, cbcs init or none) of an stbl (stsd/stts/ctts/stsc/stsz/stco/stss) and of the mfra of a two-fragment file (tfra counts, track ids, moof offsets, mfro size; decoded under the ISM flag too) deviating from the consistent baseline in at most %s children; %d of them consistent (must be accepted)" % (g7, "3" if q else "5 (traf) / all (stbl, mfra)", g7_consistent),
                         "bases": "%d files (corpus + seeded slice of G1)" % nsel,
                         "configurations": "DecodeFile / lazy / DecodeFileSR x flags {none, ISM, start-on-moof, both}; DecodeBox / DecodeBoxSR loops; Info at 4 levels; Encode and EncodeSW in both modes with and without trun optimisation",
                         "budgets": "2 s + 20 us/byte wall, 16 MiB + 1024 x length allocated, workers under ulimit -v 6 GB", "fatal_worker_crashes": fatals}
    ctx.cov["rule"] = ("inputs = ContainerShapes.tla G1 grammar (exhaustive within its bound) + mutation operators G2-G5 applied to the corpus and G1 files; "
                       "each input is run through every decode/Info/Encode configuration in isolated workers under recover(); distinct = distinct byte strings")
    return ctx.finish("exploration")
