"""Orchestrator core for the mp4ff TLA+ model-based verification framework.

Exit codes of a check: 0 held (or only known findings), 1 new violation, 2 machinery problem.
Nothing here imports or knows mp4ff; it runs TLC, the Go harness, and writes evidence.
"""
import hashlib
import json
import os
import re
import shutil
import subprocess
import sys
import tempfile
import time

VERIF = os.path.dirname(os.path.dirname(os.path.abspath(__file__)))
REPO = os.environ.get("VERIF_REPO", "/repo")
TLA_CP = "/opt/veriftools/tla/tla2tools.jar:/opt/veriftools/tla/CommunityModules-deps.jar"

GOENV = {
    "GOFLAGS": "-mod=mod",
    "GOPROXY": "off",
    "GOSUMDB": "off",
    "GOTOOLCHAIN": "local",
}


class Machinery(Exception):
    """A problem of the verification machinery itself (exit 2, never a violation)."""


def log(*a):
    print(*a, file=sys.stderr, flush=True)


class TLCResult:
    def __init__(self):
        self.exported = []      # parsed JSON objects printed by PrintT(ToJson(..))
        self.generated = 0
        self.distinct = 0
        self.rc = None
        self.out = ""
        self.violated = None    # name of violated invariant / property, if any
        self.coverage_zero = [] # actions never taken (when coverage on)
        self.cmd = ""
        self.wall = 0.0
        self.rejected = None    # trace validation: (line, event) of first unconsumed line


class Ctx:
    def __init__(self, pid, tier, seed):
        self.pid = pid
        self.tier = tier
        self.seed = seed
        self.t0 = time.time()
        self.scratch = tempfile.mkdtemp(prefix="verif.%s." % pid)
        self.specdir = os.path.join(self.scratch, "spec")
        shutil.copytree(os.path.join(VERIF, "spec"), self.specdir)
        self.violations = []      # new violations (dicts)
        self.known_hits = {}      # key -> count
        self.drift = []
        self.tlc_runs = []
        self.cov = {
            "states": 0, "transitions": 0, "traces_validated_against_impl": 0,
            "evaluations": 0, "distinct_nontrivial": 0, "samples": [],
            "bounds": {}, "tlc_cmds": [], "trace_states": 0,
        }
        self.assumptions = []
        self.harness_bin = None
        self._known = load_known()

    # ------------------------------------------------------------------ build
    def env(self):
        e = dict(os.environ)
        e.update(GOENV)
        e["VERIF_SEED"] = str(self.seed)
        e["VERIF_TIER"] = self.tier
        return e

    def build_harness(self, race=False):
        hdir = os.path.join(VERIF, "harness")
        if REPO != "/repo":
            # development aid (seed experiments on a scratch worktree while /repo is in use): build a copy of the
            # harness whose module replacement points at that tree. Nothing produced this way is written to /verif.
            hcopy = os.path.join(self.scratch, "harness")
            if not os.path.isdir(hcopy):
                shutil.copytree(hdir, hcopy)
                gm = os.path.join(hcopy, "go.mod")
                with open(gm) as f:
                    txt = f.read()
                with open(gm, "w") as f:
                    f.write(txt.replace("=> /repo", "=> " + REPO))
            hdir = hcopy
            self.no_evidence_files = True
        # keep go.sum in step with the repository under test
        try:
            shutil.copyfile(os.path.join(REPO, "go.sum"), os.path.join(hdir, "go.sum"))
        except OSError:
            pass
        out = os.path.join(self.scratch, "verif-race" if race else "verif")
        cmd = ["go", "build", "-tags", "verif"] + (["-race"] if race else []) + ["-o", out, "./cmd/verif"]
        p = subprocess.run(cmd, cwd=hdir, env=self.env(), capture_output=True, text=True)
        if p.returncode != 0:
            raise Machinery("harness build failed:\n" + p.stdout + p.stderr)
        if not race:
            self.harness_bin = out
        return out

    def build_repo_binary(self, pkg, name):
        """go build a cmd/ or examples/ binary from /repo's working tree into scratch."""
        out = os.path.join(self.scratch, name)
        p = subprocess.run(["go", "build", "-o", out, pkg], cwd=REPO, env=self.env(),
                           capture_output=True, text=True)
        if p.returncode != 0:
            raise Machinery("build of %s failed:\n%s%s" % (pkg, p.stdout, p.stderr))
        return out

    # ------------------------------------------------------------------ TLC
    def tlc(self, module, cfg, workers=8, simulate=None, depth=None, timeout=900,
            heap="6g", coverage=False, deadlock=False, count=True, extra=None, stack=None):
        """Run TLC on spec/<module>.tla with spec/cfg/<cfg>. Returns TLCResult."""
        r = TLCResult()
        meta = tempfile.mkdtemp(prefix="meta.", dir=self.scratch)
        cfgpath = os.path.join(self.specdir, "cfg", cfg)
        if not os.path.exists(cfgpath):
            cfgpath = os.path.join(self.specdir, cfg)
        java = ["java", "-Xmx" + heap, "-XX:+UseParallelGC"]
        if stack:
            java.append("-Xss" + stack)
        cmd = java + ["-cp", TLA_CP, "tlc2.TLC", "-metadir", meta, "-workers", str(workers),
                      "-config", cfgpath]
        if not deadlock:
            cmd.append("-deadlock")  # -deadlock disables deadlock checking
        if coverage:
            cmd += ["-coverage", "1"]
        if simulate:
            cmd += ["-simulate", simulate]
            if depth:
                cmd += ["-depth", str(depth)]
            cmd += ["-seed", str(self.seed)]
        if extra:
            cmd += extra
        cmd.append(module + ".tla")
        r.cmd = " ".join(cmd).replace(self.scratch, "$SCRATCH")
        t0 = time.time()
        try:
            p = subprocess.run(cmd, cwd=self.specdir, capture_output=True, text=True,
                               timeout=timeout)
        except subprocess.TimeoutExpired:
            subprocess.run(["pkill", "-f", meta])
            raise Machinery("TLC timeout (%ds) on %s/%s" % (timeout, module, cfg))
        r.wall = time.time() - t0
        r.rc = p.returncode
        r.out = p.stdout + p.stderr
        for line in p.stdout.splitlines():
            s = line.strip()
            if s.startswith('"{') or s.startswith('"['):
                try:
                    r.exported.append(json.loads(json.loads(s)))
                except ValueError:
                    raise Machinery("garbled export line from TLC: " + s[:200])
            m = re.search(r"(\d+) states generated, (\d+) distinct states found", s)
            if m:
                r.generated, r.distinct = int(m.group(1)), int(m.group(2))
            m = re.search(r"Invariant (\S+) is violated", s)
            if m:
                r.violated = m.group(1)
            m = re.search(r"property (\S+) (is|was) violated", s)
            if m:
                r.violated = m.group(1)
            if "TRACE_REJECTED_AT_LINE" in s:
                r.rejected = s
            if coverage:
                m = re.match(r"<(\w+) line .*>: (\d+):(\d+)$", s)
                if m and m.group(2) == "0" and m.group(3) == "0":
                    r.coverage_zero.append(m.group(1))
        shutil.rmtree(meta, ignore_errors=True)
        if count:
            self.cov["states"] += r.distinct
            self.cov["transitions"] += r.generated
        self.cov["tlc_cmds"].append(r.cmd)
        self.tlc_runs.append({"module": module, "cfg": cfg, "rc": r.rc, "distinct": r.distinct,
                              "generated": r.generated, "wall_s": round(r.wall, 2),
                              "exported": len(r.exported), "violated": r.violated})
        log("[tlc] %s/%s rc=%s distinct=%d generated=%d exported=%d %.1fs" %
            (module, cfg, r.rc, r.distinct, r.generated, len(r.exported), r.wall))
        return r

    def tlc_ok(self, module, cfg, **kw):
        """TLC run that must finish without any error (design-level check / generator)."""
        r = self.tlc(module, cfg, **kw)
        if r.rc != 0:
            tail = "\n".join(r.out.splitlines()[-40:])
            raise Machinery("TLC failed on %s/%s (rc=%s, violated=%s): a counterexample on the model "
                            "alone is never a violation; fix the model.\n%s" % (module, cfg, r.rc, r.violated, tail))
        if r.coverage_zero:
            raise Machinery("vacuity: actions never taken in %s/%s: %s" % (module, cfg, r.coverage_zero))
        return r

    def validate_traces(self, module, cfg, trace_path, name="trace.ndjson", timeout=900, heap="6g", stack=None):
        """Validate a concatenated NDJSON trace against a trace spec. Returns (ok, info).
        The trace spec reads `name` from its working directory."""
        dst = os.path.join(self.specdir, name)
        if os.path.abspath(trace_path) != dst:
            shutil.copyfile(trace_path, dst)
        r = self.tlc(module, cfg, workers=1, timeout=timeout, heap=heap, count=False, stack=stack)
        self.cov["trace_states"] += r.distinct
        if r.rc == 0:
            return True, r
        if r.rejected or r.violated:
            return False, r
        tail = "\n".join(r.out.splitlines()[-40:])
        raise Machinery("trace validation run failed (rc=%s) without a rejection:\n%s" % (r.rc, tail))

    def validate_traces_all(self, module, cfg, trace_path, key="trace/rejected", what=None,
                            max_rejects=4, keyfn=None, groupfn=None, **kw):
        """Validate a reset-delimited concatenation of traces. A rejected trace is cut out,
        re-validated alone (to rule out batching artefacts), reported, and validation continues
        with the remaining traces. Returns number of traces accepted."""
        with open(trace_path) as f:
            lines = f.read().splitlines()
        traces, cur = [], []
        for ln in lines:
            if '"ev":"reset"' in ln and cur:
                traces.append(cur)
                cur = []
            cur.append(ln)
        if cur:
            traces.append(cur)
        del lines
        # large recordings are validated in chunks (TLC holds the whole chunk in memory): at most max_lines lines per TLC run
        max_lines = kw.pop("max_lines", 1200000)
        if sum(len(t) for t in traces) > max_lines:
            total, chunk, n = 0, [], 0
            chunks = []
            for t in traces:
                if chunk and n + len(t) > max_lines:
                    chunks.append(chunk)
                    chunk, n = [], 0
                chunk.append(t)
                n += len(t)
            if chunk:
                chunks.append(chunk)
            del traces
            for ci, ch in enumerate(chunks):
                cp = os.path.join(self.scratch, "chunk.ndjson")
                with open(cp, "w") as f:
                    for t in ch:
                        f.write("\n".join(t) + "\n")
                chunks[ci] = None
                total += self.validate_traces_all(module, cfg, cp, key=key, what=what, max_rejects=max_rejects, keyfn=keyfn, groupfn=groupfn,
                                                  max_lines=max_lines + 1, **kw)
            return total
        accepted = 0
        rejects = 0
        name = kw.pop("name", "trace.ndjson")
        while traces:
            path = os.path.join(self.scratch, "batch.ndjson")
            with open(path, "w") as f:
                for t in traces:
                    f.write("\n".join(t) + "\n")
            ok, r = self.validate_traces(module, cfg, path, name=name, **kw)
            if ok:
                accepted += len(traces)
                break
            m = re.search(r"TRACE_REJECTED_AT_LINE\D+?(\d+)", r.out, re.S) if r.rejected else None
            if not m:
                # invariant violated: TLC reports a state, not a line; find l in the error trace
                mm = re.findall(r"/\\ l = (\d+)", r.out)
                if not mm:
                    raise Machinery("trace rejected but no line could be located:\n" + r.out[-3000:])
                line_no = max(1, int(mm[-1]) - 1)
            else:
                line_no = int(m.group(1))
            n = 0
            idx = None
            for i, t in enumerate(traces):
                if n < line_no <= n + len(t):
                    idx = i
                    break
                n += len(t)
            if idx is None:
                idx = len(traces) - 1
            bad = traces[idx]
            accepted += idx
            # re-validate alone
            alone = os.path.join(self.scratch, "alone.ndjson")
            with open(alone, "w") as f:
                f.write("\n".join(bad) + "\n")
            ok1, r1 = self.validate_traces(module, cfg, alone, name=name, **kw)
            if ok1:
                raise Machinery("trace rejected in batch but accepted alone (batching artefact) at line %d" % line_no)
            ev = [json.loads(x) for x in bad]
            at = line_no - n
            info = {"rejected_at_event": at, "event": ev[at - 1] if 0 < at <= len(ev) else None,
                    "violated_invariant": r1.violated, "trace": ev if len(ev) <= 400 else ev[:max(1, at)][-400:]}
            if r1.violated and r1.violated.startswith("Drift"):
                self.drift.append({"key": "trace/" + r1.violated, "what": "conformance invariant violated", "case": info["event"]})
                traces = traces[idx + 1:]
                continue
            k = keyfn(info) if keyfn else key
            self.report(k, (what or ("%s rejected a recorded execution" % module)) +
                        " (event %d: %s%s)" % (at, json.dumps(info["event"])[:300],
                                               ", invariant " + r1.violated if r1.violated else ""), info)
            rejects += 1
            traces = traces[idx + 1:]
            if groupfn:
                # further traces of the same group (e.g. same object) would be rejected for the same reason
                g = groupfn(ev[0])
                traces = [t for t in traces if groupfn(json.loads(t[0])) != g]
            if rejects >= max_rejects:
                break
        self.cov["traces_validated_against_impl"] += accepted
        return accepted

    # ------------------------------------------------------------------ harness
    def harness(self, args, stdin_path=None, timeout=1800, out_path=None, env_extra=None, binary=None):
        """Run the Go harness; returns list of parsed JSON output lines (stdout)."""
        binary = binary or self.harness_bin
        if binary is None:
            raise Machinery("harness not built")
        env = self.env()
        if env_extra:
            env.update(env_extra)
        stdin = open(stdin_path, "rb") if stdin_path else subprocess.DEVNULL
        try:
            p = subprocess.run([binary] + args, stdin=stdin, capture_output=True, env=env,
                               timeout=timeout, cwd=self.scratch)
        except subprocess.TimeoutExpired:
            raise Machinery("harness timeout: %s" % " ".join(args))
        finally:
            if stdin_path:
                stdin.close()
        err = p.stderr.decode("utf-8", "replace")
        if p.returncode != 0:
            raise Machinery("harness %s exited %d:\n%s" % (" ".join(args), p.returncode, err[-4000:]))
        if err.strip():
            log(err.strip()[-2000:])
        res = []
        for line in p.stdout.decode("utf-8", "replace").splitlines():
            line = line.strip()
            if not line:
                continue
            try:
                res.append(json.loads(line))
            except ValueError:
                raise Machinery("harness printed a non-JSON line: " + line[:300])
        return res

    def write_ndjson(self, name, objs):
        path = os.path.join(self.scratch, name)
        with open(path, "w") as f:
            for o in objs:
                f.write(json.dumps(o, separators=(",", ":")) + "\n")
        return path

    # ------------------------------------------------------------------ verdicts
    def report(self, key, what, payload):
        """A candidate violation observed on real code. key = structural signature."""
        for k in self._known.get(self.pid, []):
            if key == k["key"] or (k["key"].endswith("*") and key.startswith(k["key"][:-1])):
                self.known_hits.setdefault(k["key"], [0, k["what"]])[0] += 1
                return
        for v in self.violations:
            if v["key"] == key:
                v["count"] += 1
                return
        self.violations.append({"key": key, "what": what, "payload": payload, "count": 1})

    def add_samples(self, objs, n=3):
        for o in objs[:n]:
            if len(self.cov["samples"]) < 6:
                s = json.dumps(o)
                if len(s) > 3000:
                    o = {"truncated": s[:3000]}
                self.cov["samples"].append(o)

    def finish(self, level, extra_cov=None, exhaustive=None):
        cov = self.cov
        if extra_cov:
            cov.update(extra_cov)
        if exhaustive is not None:
            cov["exhaustive"] = exhaustive
        cov["tlc_runs"] = self.tlc_runs
        cov["known_findings_hit"] = {k: v[0] for k, v in self.known_hits.items()}
        cov["model_drift"] = self.drift[:20]
        if not cov["samples"]:
            raise Machinery("no samples recorded")
        if cov["distinct_nontrivial"] < 2:
            raise Machinery("vacuity: fewer than 2 non-trivial cases judged")
        rc = 0
        outdir = os.path.join(VERIF, "out", "violations", self.pid)
        for key, (n, what) in sorted(self.known_hits.items()):
            print("KNOWN-FINDING: property=%s %s [%s] (%d cases)" % (self.pid, what, key, n))
        if getattr(self, "no_evidence", False):
            # replay mode: nothing is written, the caller inspects self.violations
            return 1 if self.violations else 0
        if getattr(self, "no_evidence_files", False):
            for v in self.violations:
                print("VIOLATION property=%s replay=(snapshot run, nothing written)" % self.pid)
                print("  key=%s cases=%d: %s" % (v["key"], v["count"], v["what"]))
            log("[%s] snapshot run against %s: %d violations" % (self.pid, REPO, len(self.violations)))
            return 1 if self.violations else 0
        if self.violations:
            os.makedirs(outdir, exist_ok=True)
            for i, v in enumerate(self.violations):
                path = os.path.join(outdir, "%s-%d.json" % (self.tier, i))
                rec = {"property": self.pid, "tier": self.tier, "seed": self.seed, "key": v["key"],
                       "what": v["what"], "count": v["count"], "case": v["payload"],
                       "repo_head": repo_head()}
                with open(path, "w") as f:
                    json.dump(rec, f, indent=1)
                print("VIOLATION property=%s replay=%s" % (self.pid, path))
                print("  key=%s cases=%d: %s" % (v["key"], v["count"], v["what"]))
            rc = 1
        ev = {
            "property_id": self.pid, "tier": self.tier, "seed": self.seed, "level": level,
            "coverage": cov, "assumptions": self.assumptions,
            "wall_s": round(time.time() - self.t0, 2), "violations": len(self.violations),
        }
        os.makedirs(os.path.join(VERIF, "evidence"), exist_ok=True)
        with open(os.path.join(VERIF, "evidence", self.pid + ".json"), "w") as f:
            json.dump(ev, f, indent=1)
        log("[%s] %s tier=%s seed=%d evaluations=%d nontrivial=%d states=%d traces=%d violations=%d known=%d wall=%.1fs" %
            (self.pid, "OK" if rc == 0 else "VIOLATION", self.tier, self.seed, cov["evaluations"],
             cov["distinct_nontrivial"], cov["states"], cov["traces_validated_against_impl"],
             len(self.violations), len(self.known_hits), time.time() - self.t0))
        return rc

    def cleanup(self):
        shutil.rmtree(self.scratch, ignore_errors=True)


def repo_head():
    try:
        h = subprocess.run(["git", "-C", REPO, "rev-parse", "HEAD"], capture_output=True, text=True).stdout.strip()
        d = subprocess.run(["git", "-C", REPO, "status", "--porcelain"], capture_output=True, text=True).stdout.strip()
        return h + ("+dirty" if d else "")
    except OSError:
        return "unknown"


def load_known():
    path = os.path.join(VERIF, "known_findings.json")
    res = {}
    try:
        with open(path) as f:
            data = json.load(f)
    except OSError:
        return res
    for k in data.get("findings", []):
        res.setdefault(k["property"], []).append(k)
    return res


def sha(obj):
    return hashlib.sha1(json.dumps(obj, sort_keys=True).encode()).hexdigest()[:16]


def absorb(ctx, lines, prefix=""):
    """Fold harness output lines into the context. Returns the summary line."""
    summary = None
    for o in lines:
        t = o.get("type")
        if t == "violation":
            ctx.report(prefix + o["key"], o["what"], o.get("case"))
        elif t == "drift":
            ctx.drift.append(o)
        elif t == "summary":
            summary = o
    if summary is None:
        raise Machinery("harness printed no summary (dead driver)")
    ctx.cov["evaluations"] += summary["evaluations"]
    ctx.cov["distinct_nontrivial"] += summary["nontrivial"]
    ctx.add_samples(summary.get("samples") or [])
    return summary


