#!/usr/bin/env python3
"""Regenerates /verif/MANIFEST.json from the table below (single source of truth)."""
import json
import os

VERIF = os.path.dirname(os.path.dirname(os.path.abspath(__file__)))

ALL = ["C%02d" % i for i in range(1, 21)]

# property -> dict(level, text, note, technique, design_ref)
CHECKS = {
    "C13": dict(
        level="model_checking",
        text=("TLC explores the complete state graph of the joint EBSP writer/reader automaton for unbounded streams "
              "(BitsAbs), enumerates every raw byte string over the behaviour-relevant alphabet up to the bound and "
              "every op sequence up to the bound (BitsBytes/BitsOps; ops include byte strings read back by one ReadBytes call at any bit "
              "alignment) checking the standard's escape/Exp-Golomb rules "
              "as invariants; every enumerated behaviour is replayed into the real bits package and compared with the "
              "spec's expected bytes/values/positions, and byte-granular traces of the real coders (with hook state) "
              "are validated step by step by BitsTrace."),
        note=("Trusted: TLC, the 300-line Go replayer, class abstraction of byte values {0,1,2,3,>3} (justified by BitsAbs "
              "and seeded concretisation). Values are boundary patterns per width, not all 2^32."),
        technique="TLA+ spec + TLC exhaustive enumeration, behaviour replay into real code, TLC trace validation",
        design_ref="DESIGN.md section 5 C13",
    ),
    "C18": dict(
        level="model_checking",
        text=("AacSyntax.tla is a bit-exact transcription of the AudioSpecificConfig and ADTS header syntax with a reference "
              "parser and an Impl model of the library's sync-search loop; TLC enumerates the complete finite domain "
              "(every supported configuration, every header, junk prefixes over the behaviour-relevant alphabet), checks that "
              "the reference parser inverts the serialiser and that the loop finds the first sync pattern, and every element is "
              "replayed through the real encoders/decoders, esds and sample-entry builders; random executions over the full "
              "24-bit range are validated as traces by AacTrace.tla. The frequency a decoded ADTS header states is compared with table 1.18 "
              "(two known findings). Every decoded header, also one from a CRC-protected frame, is encoded again and must decode to the same frame description. "
              "(two known findings)."),
        note=("Trusted: TLC, the Go replayer. ADTS headers with CRC / MPEG-2 id cannot be produced by the encoder and are "
              "judged as MODEL-DRIFT only. Extension frequency 2*sf must fit 24 bits for SetAACDescriptor."),
        technique="TLA+ syntax spec + TLC exhaustive domain enumeration, behaviour replay, TLC trace validation",
        design_ref="DESIGN.md section 5 C18",
    ),
    "C14": dict(
        level="model_checking",
        text=("AnnexB.tla defines the byte-by-byte start-code scan, the NAL unit sequence and what every helper must answer "
              "from that sequence (Prop), plus an Impl model of the word-at-a-time scanner parameterised by word size. TLC "
              "proves Impl = reference scan for ALL streams over {00,01,other} up to the bound at word size 4, enumerates every "
              "window at every alignment for the real 8-byte word and structured AVC/HEVC unit streams; each is replayed into "
              "the real scanner (hook), converters and all helpers, and long random streams are validated as traces by "
              "AnnexBTrace.tla. The built mp4ff-nallister -annexb runs on the unit streams and its listing is compared with the "
              "model's unit sequence (type, length)."),
        note=("Trusted: TLC, Go replayer incl. its own length-prefix walker. Byte values matter only through classes {00,01,other} "
              "(seeded concretisation of 'other'). NAL units >= 64 KiB not generated."),
        technique="TLA+ spec + TLC exhaustive enumeration, behaviour replay into real code, TLC trace validation",
        design_ref="DESIGN.md section 5 C14",
    ),
    "C09": dict(
        level="model_checking",
        text=("SampleTables.tla defines every query from the naive per-sample expansion of the run-length tables (Prop) and "
              "models the library's cached-column/binary-search algorithms (Impl); TLC enumerates ALL consistent table sets up "
              "to N samples per query family, checks Impl = Prop, and exports the expected answer of every query for every "
              "sample number, interval and time; the tables are materialised by an independent box writer, decoded by the real "
              "decoders (box, SR, file, lazy, API-built) and every query result is compared. The time family is replayed with every duration "
              "multiplied by 2^30 (decode times beyond 2^32 ticks; GetTimeCode), the meta family also with an sdtp box built through the constructors."),
        note=("Trusted: TLC, Go replayer and its box writer. Table values are small; 32-bit overflow of accumulated times is not "
              "explored. t = total duration without zero-length last sample is not pinned for GetSampleNrAtTime."),
        technique="TLA+ spec + TLC exhaustive enumeration of tables and queries, behaviour replay into real code",
        design_ref="DESIGN.md section 5 C09",
    ),
    "C08": dict(
        level="model_checking",
        text=("Mdat.tla models both decode modes side by side (in-memory slice arithmetic with its bounds test; lazy seek+read "
              "and the work-buffer streaming loop of CopySampleData) over token-coded payloads; TLC enumerates every layout "
              "(header form, box order, payload length), every valid (start,size) range, every chunking, sample interval and "
              "work-buffer size, checks Impl => Prop, and each behaviour is replayed on a materialised file decoded in normal, "
              "lazy and SR mode; range reads on real corpus files are validated as traces by MdatTrace.tla. Further layouts: a box with a "
              "64-bit size header in front of the mdat / fragment, and payloads of 2^32 + x bytes decoded lazily from a sparse virtual file "
              "(size, header form, following box, last payload bytes, re-encoded header). The built segmenter example runs with and without -lazy on Segmenter.tla inputs; every output file must be identical."),
        note=("Trusted: TLC, Go replayer/materialiser. Payloads up to 9 bytes in the exhaustive part; reads from the ReadSeeker are "
              "assumed to fill the buffer (bytes.Reader)."),
        technique="TLA+ spec + TLC exhaustive enumeration, behaviour replay into real code, TLC trace validation on corpus files",
        design_ref="DESIGN.md section 5 C08",
    ),
    "C12": dict(
        level="model_checking",
        text=("FileAsm.tla generates every fragmented file layout with mutually consistent delimiters (styp, top-level sidx, "
              "mfra+ISM flag, start-on-moof, segment-level sidx, emsg placements, 1-2 tracks, 1-2 truns per traf or one trun whose durations come from the tfhd default), states the prescribed partition "
              "(Prop) and folds an Impl model of File.AddChild/startSegmentIfNeeded over the box sequence; TLC checks Impl = Prop "
              "for all layouts and exports them; each is materialised with real sizes (two-pass sidx/tfra), decoded by both file "
              "decoders, and the observed partition, the segment-mode re-encoding and the index written by UpdateSidx (read back by "
              "an independent walker: reference starts, contiguity, end of media, summed durations, EPT, timescale) are compared. Layout parameters include the media data of the tracks of a multi-track fragment in reverse track order."),
        note=("Trusted: TLC, Go materialiser/walker. styp combined with the start-on-moof flag and emsg directly before a tfra-named "
              "moof are outside the judged domain. reference_ID is not judged."),
        technique="TLA+ spec + TLC exhaustive enumeration of layouts, behaviour replay into real code with independent read-back",
        design_ref="DESIGN.md section 5 C12",
    ),
    "C05": dict(
        level="model_checking",
        text=("Fragment.tla is a history machine over the Fragment API with the code's own bookkeeping (truns per track, write order, "
              "next trun number, tfdt, mdat order, optimisation, box sizes, data offsets) and an ISO 8.8.7/8.8.8 read-back as Prop; "
              "TLC checks Impl => Prop for every add-history (single and two-track, incl. tracks without samples) with and without "
              "trun optimisation and exports the histories; each is replayed through six API variants, both encoders and two segment "
              "shapes (extra emsg/prft/free/uuid/unknown boxes), decoded with an independently built init segment and read back both "
              "by mp4ff (both decoders) and by the harness's independent ISO reader. In the other direction FragmentRead.tla states the "
              "tfhd / trex / trun defaulting rules of ISO 14496-12 8.8.7/8.8.8 and the running decode time; the raw box fields (own walk) and the samples the "
              "library returns are recorded for every track fragment of the corpus files and of a share of the segments written in the run, and TLC validates each run. "
              "Batch calls get their samples in two batches through one reused scratch slice; an interval followed by full samples; an unknown track id must be refused; "
              "fragments of 1024 / 1025 / 3000 equal samples with and without trun optimisation. Action AddFirst: AddSample / AddSamples on a multi-track fragment after another trun was written."),
        note=("Trusted: TLC, Go replayer incl. its ISO reader. Sample field values come from 5 classes (equal/different dur, size, "
              "flags, cto incl. negative, zero size); at most 7 adds per fragment, 2 tracks, 2 fragments."),
        technique="TLA+ history spec + TLC exhaustive enumeration, behaviour replay into real code with independent read-back, TLC trace validation of fragment reads",
        design_ref="DESIGN.md section 5 C05",
    ),
    "C19": dict(
        level="model_checking",
        text=("Init.tla is a history machine over CreateEmptyInit / AddEmptyTrack / Set*Descriptor whose state is the abstract init "
              "segment; it states what ISO/IEC 14496-12/-30 require per media type (handler, media header, language packing or elng, "
              "sample entry) and the id/trex/next-track-id invariants; TLC enumerates all histories up to the track bound and "
              "exports the expected projection; each is replayed through the real API, projected before and after an encode/decode "
              "round trip through both decoders, re-encoded, and a fragment per track id is read back against the decoded init. "
              "In addition every SPS NAL unit serialised by AvcSyntax.tla / HevcSyntax.tla is given to SetAVCDescriptor / "
              "SetHEVCDescriptor (avc1, avc3, hvc1, hev1): sample entry dimensions, tkhd, configuration record profile / level / chroma / "
              "bit depths and the SPS verbatim are compared with the coded values, as built and after encode + decode (both decoders)."),
        note=("Trusted: TLC, Go replayer. The descriptor histories use the repository's own test vectors (one per codec); the spec-"
              "serialised SPS family uses a fixed PPS / VPS."),
        technique="TLA+ history spec + TLC exhaustive enumeration, behaviour replay into real code",
        design_ref="DESIGN.md section 5 C19",
    ),
    "C01": dict(
        level="model_checking",
        text=("BoxLayouts.tla holds the field layout of 157 box shapes - all 130 registered four-character codes - (from ISO/IEC 14496-12/-15/-30, 23001-7, ETSI TS 102 366, not from the Go code) in a "
              "layout DSL with an interpreter that serialises an instance to bytes, the canonical re-encoding and a bit-level don't-care mask. TLC "
              "enumerates every instance (version x every subset of the defined flags x counts (0 = empty container) x header form x nesting "
              "{alone, only child, first child followed by a sibling}, one field at a time at boundary values, distinct fillers elsewhere; every "
              "arrangement of up to 5 children of moov under the order normalisation N2); each goes through DecodeBox/DecodeBoxSR/DecodeFile/DecodeFileSR and Encode/EncodeSW of "
              "the real code: masked byte equality, re-decode, second encode identical. Corpus and materialised files and their boxes run the same "
              "pipeline under the committed dontcare.json (cross-checked against the spec's masks). All recorded pipelines are validated against "
              "BoxRoundTrip.tla, whose actions are enabled only by observations the property allows."),
        note=("Trusted: TLC, the layouts (reviewed against the standards; every layout must be accepted by a decoder or the run reports drift), "
              "the Go driver, FNV digests in traces. Structure equality is judged on the Info projection plus encoded bytes. Every registered box type has a "
              "layout. Known findings: depth, samplerate fraction, data box indicators, trun data_offset 0."),
        technique="TLA+ layout spec: TLC enumerates box instances, replayed through the real decoders/encoders; TLC trace validation of the recorded round trips",
        design_ref="DESIGN.md section 5 C01",
    ),
    "C02": dict(
        level="model_checking",
        text=("BoxSize.tla is a history machine over {Size, Info, Encode, EncodeSW} x trun optimisation on an abstract object; TLC "
              "enumerates every call history up to the bound, and the same module validates the numbers recorded from the real calls "
              "(written = Size after = Size before unless optimising; independent walker: every header size field = box length, "
              "containers = header + children; identical bytes across encodes and encoders; Size stable across calls). Histories are "
              "executed on every object of a pool: every box at every nesting level of every decodable corpus file, whole files in both "
              "encode modes, their init/segments/fragments, API-built fragments, media segments and init segments, and materialised files "
              "(64-bit mdat, truns without data offset in three tfhd forms, encrypted and mixed-protection segments). The pool also holds the decodable instances of every BoxLayouts.tla box shape (boundary values; alone and inside the parent box)."),
        note=("Trusted: TLC, Go driver and its independent walker, FNV digests for byte identity. The pool holds the box types and shapes "
              "present in the corpus and the API-built objects, not every version/flag shape of every box (C01 layouts extend it)."),
        technique="TLA+ history spec: TLC enumerates call histories, replayed on real objects, TLC trace validation of recorded numbers",
        design_ref="DESIGN.md section 5 C02",
    ),
    "C03": dict(
        level="model_checking",
        text=("Interchange.tla states E1-E3 over pairs of observations of the two implementations of each abstract action; FileAsm.tla "
              "enumerates the fragmented file layouts; for every pool object Encode vs EncodeSW, for every top-level box and file "
              "(corpus and every FileAsm layout) DecodeBox/DecodeFile vs DecodeBoxSR/DecodeFileSR on canonical bytes with structure, "
              "size, re-encoding, grouping and start positions compared, and the key sets of the dispatch tables (hook); TLC validates "
              "the recorded outcomes. Every BoxLayouts.tla instance is an input too; lazily sized mdat boxes and fragments around the 32-bit size "
              "limit are encoded by each encoder on its own fresh object. The reader path is also driven through readers that deliver the bytes in pieces: acceptance and structure with all start positions must be those of the in-memory reader."),
        note=("Trusted: TLC, Go driver. Structure equivalence = equal Info dump (all:1), equal Size, equal re-encoded bytes, equal "
              "file projection; default decode options only (as the property states)."),
        technique="TLA+ spec: TLC enumerates file layouts, both implementations observed on real objects, TLC trace validation",
        design_ref="DESIGN.md section 5 C03",
    ),
    "C06": dict(
        level="model_checking",
        text=("Cenc.tla generates the samples (every NAL size mix around the 16/96/112/128-byte thresholds and the 64 KiB clear-run "
              "split; audio sizes); each is placed in 1-3-sample fragments with vendor/unknown boxes in moof and traf, encrypted by "
              "InitProtect/EncryptFragment (cenc avc/hevc/audio, cbcs audio and corpus avc), encoded, decoded, decrypted by "
              "DecryptInit/DecryptSegment, encoded and read back by the independent ISO reader; the recorded round-trip outcomes "
              "(samples, sample entry restored, sinf gone, non-protection boxes kept byte-identically, offsets) are validated by "
              "CencTrace.tla. The five encrypted files of the repository that other tools produced (cenc and cbcs multi-traf "
              "files with a clear audio track, cbcs audio, PIFF audio and video with uuid senc) are decrypted by the library and, "
              "independently, by the harness (own senc walker + raw AES block function) and compared sample by sample. Media segments "
              "with their own sidx must keep their top-level box sequence (known finding: DecryptSegment drops the sidx). The extra boxes of a traf include a roll sample group."),
        note=("Trusted: TLC, Go driver, its walker/ISO reader. Keys are fixed; IVs from 7 classes incl. wrap."),
        technique="TLA+ spec: TLC enumerates sample layouts, replay through real encrypt/decrypt, TLC trace validation of outcomes",
        design_ref="DESIGN.md section 5 C06/C07",
    ),
    "C07": dict(
        level="model_checking",
        text=("Cenc.tla states W1-W6 (sub-samples partition the sample; length fields, NAL headers and non-video units clear; video "
              "units > 127 bytes protected to their end from <= 127 bytes in, in 16-byte blocks; audio whole; saiz/saio describe the "
              "senc entries; IVs advance by the blocks used, 128-bit carry) and an Impl model of the library's Bento4-compatible rule; "
              "TLC checks Impl => Prop for every NAL size mix and exports the samples; the real EncryptFragment output is parsed by the "
              "harness's own walker and every observed sample/fragment is validated by CencTrace.tla; protected bytes are compared with "
              "an independent CTR / CBC-pattern schedule built on the raw AES block function only, all other bytes with the clear input. "
              "A share of the jobs is encoded with trun optimisation (saio must still point at the senc entries); samples of 39 / 40 / 45 equal "
              "protected NAL units probe the 8-bit limit of saiz (refusal is accepted from 40 on, a wrapped size is not). A zero-length NAL unit (bare length field) is part of the sample domain."),
        note=("Trusted: TLC, Go driver/walker, crypto/aes block function. cbcs video: slice-header length from avc.ParseSliceHeader "
              "(judged by C15), corpus content only."),
        technique="TLA+ spec + TLC exhaustive enumeration, replay through real encryptor, TLC trace validation, independent cipher schedule",
        design_ref="DESIGN.md section 5 C06/C07",
    ),
    "C15": dict(
        level="model_checking",
        text=("AvcSyntax.tla transcribes ISO/IEC 14496-10 7.3.2.1.1 (SPS incl. high-profile fields, scaling lists, poc types, frame/field, cropping, VUI, HRD), "
              "7.3.2.2 (PPS) and 7.3.3 (slice header incl. ref-pic-list modification, pred-weight table, dec-ref-pic marking); HevcSyntax.tla transcribes "
              "ITU-T H.265 7.3.3 profile_tier_level, 7.3.2.2 SPS (sub-layers, conformance window, scaling_list_data, PCM, st_ref_pic_set incl. inter-predicted sets "
              "with the derivation 7-61/7-62, long-term pictures, VUI, hrd_parameters, range extension), 7.3.2.3 PPS (tiles, deblocking, range extension) and 7.3.6 "
              "slice_segment_header (dependent segments, RPS selection, NumPicTotalCurr, list modification, pred-weight tables, deblocking inference, entry points). "
              "Both are serialisers with the derived picture size, ChromaArrayType and escaped header length; TLC enumerates base vectors with every field varied "
              "over its boundary set (pairwise in the thorough tier), id assignments with pps id != sps id and all slice / NAL types, checks the oracle's NAL units "
              "are emulation free, and exports them; the real parsers, configuration-record and codec-string builders and the sample-entry builder are compared "
              "field by field. AVC slice groups (map types 0-6, slice_group_change_cycle) are generated with fixed inner values; the built mp4ff-pslister is given "
              "the (SPS, PPS) pairs in hex and must print them."),
        note=("Trusted: TLC, the transcriptions of the two standards (checked for emulation-freeness and positive sizes; every vector must be accepted by the real "
              "parser or is reported), Go replayers. AVC explicit prediction weights, HEVC multilayer/3D/SCC extensions and the VPS are not generated."),
        technique="TLA+ syntax specs as independent serialisers + TLC enumeration of value vectors, behaviour replay into real parsers",
        design_ref="DESIGN.md section 5 C15",
    ),
    "C17": dict(
        level="model_checking",
        text=("SeiSyntax.tla transcribes sei_rbsp (ff-run type/size coding, trailing bits, emulation prevention via Bits.tla) and the "
              "typed payloads time_code (136), AVC pic_timing (1), 137 and 144; TLC checks that the reference parser inverts the "
              "serialiser for every message list, enumerates lists (types/sizes >= 255, payloads needing emulation prevention) and all "
              "clock-timestamp flag nestings / time-offset lengths, and each is written and parsed by the real sei package: extraction "
              "returns the (type, payload) list, Decode(Payload(m)) = m, Size = serialised length = the syntax's length, pass-through "
              "messages keep their payload; a message that came out of a decoder serialises to the bytes it was decoded from and like a "
              "fresh message after a field is changed; every list is also parsed as a whole SEI NAL unit by avc.ParseSEINalu and "
              "hevc.ParseSEINalu and compared message by message."),
        note=("Trusted: TLC, Go replayer. Field values inside clock timestamps are fixed per position; CEA-608 and HEVC pic_timing are "
              "covered as pass-through only."),
        technique="TLA+ syntax spec + TLC exhaustive enumeration, behaviour replay into real code",
        design_ref="DESIGN.md section 5 C17",
    ),
    "C16": dict(
        level="exploration",
        text=("Robust.tla states the totality invariant (every entry point returns a value or an error - no panic, no fatal crash - "
              "within 2 s + 20 us/byte and 16 MiB + 1024 x length) and enumerates the H1 grammar of length-prefixed samples "
              "exhaustively; the other families are the syntax specs' behaviours (AnnexB, AvcSyntax, SeiSyntax, AacSyntax) and HEVC/"
              "configuration-record vectors under systematic mutation (every prefix, head substitutions, hand-made count bombs). "
              "Every input runs through every entry point of its family (NAL walkers, Annex B scanners, AVC/HEVC SPS/PPS/slice parsers "
              "against several SPS contexts, SEI extraction and all decoders with String/Payload/Size, ADTS/ASC, avcC/hvcC/av1C/esds) "
              "in an isolated worker under recover(), a 6 s watchdog and ulimit -v; crashes are attributed through a progress file; "
              "TLC validates every recorded outcome. H6: NAL sequences that bring their own context (SPS, PPS, then slice / SEI) with "
              "count and range bombs in the parameter sets; H7: Exp-Golomb codes 2^32-1 .. 2^64-2 inserted at every bit position of the SPS and PPS of "
              "spec-serialised (SPS, PPS, slice) triples and of pic_timing payloads under sub-picture HRD. The built mp4ff-nallister / mp4ff-pslister binaries run on Annex B streams "
              "chosen by structural signature from all generated windows and on media segments without moov with every spelling of -c; "
              "a Go panic or no return within 20 s is a violation. The tools also run on whole fragmented files behind API-built init segments (avc1 / avc3 / hvc1 / hev1). HevcSyntax.tla serialises the multilayer, 3D and SCC extensions of the PPS; Exp-Golomb bombs include ue(255) and ue(65535)."),
        note=("The decisive observation is the runtime monitor on the real code; TLC supplies the H1 grammar and the bases and "
              "evaluates the invariant on the recorded outcomes. Exhaustive over the stated grammar only, not over all byte strings. "
              "Quick tier takes a seeded slice of the larger families."),
        technique="TLA+ input grammar + totality invariant, isolated runtime monitor on real code, TLC trace validation",
        design_ref="DESIGN.md section 5 C16",
    ),
    "C04": dict(
        level="exploration",
        text=("ContainerShapes.tla enumerates the G1 grammar (every pair and the triples behind the listed heads over 56 box variants "
              "that remove / duplicate / corrupt exactly the children and fields the decoder dereferences); the orchestrator applies the "
              "mutation operators G2-G5 (size and largesize fields, count inflation for 16 counted box types, truncation at every box "
              "boundary, deletion and swap) to every corpus file and a slice of G1; G6 = every BoxLayouts.tla instance with G2/G3 applied; "
              "G7 = CrossRefs.tla, every combination of variants of the children of a traf (with a clear / cenc / cbcs init or none) and of an "
              "stbl that refer to each other (counts, offsets, group indices), deviating from the consistent baseline in <= 3 children "
              "(thorough: 5 of the 8 traf children, all stbl and mfra combinations); every input runs through DecodeFile / lazy / "
              "DecodeFileSR under all four flag combinations and both box loops, followed by Info at four levels and Encode/EncodeSW "
              "in both modes with and without optimisation, in isolated workers under recover(), a 6 s watchdog and ulimit -v; "
              "Robust.tla's totality invariant (no panic, no fatal crash, 2 s + 20 us/byte, 16 MiB + 1024 x length) is validated by TLC "
              "on every recorded outcome."),
        note=("The decisive observation is the runtime monitor on the real code; TLC supplies the shape grammar and evaluates the "
              "invariant on the recorded outcomes. Exhaustive over the stated grammar only, not over all byte strings."),
        technique="TLA+ input grammar + totality invariant, isolated runtime monitor on real code, TLC trace validation",
        design_ref="DESIGN.md section 5 C04",
    ),
    "C20": dict(
        level="exploration",
        text=("Conc.tla models goroutines running programs of public calls on privately held objects derived from shared read-only "
              "inputs and enumerates every call-level interleaving of every program tuple (history variable); each schedule is replayed "
              "deterministically against the real library with digests of the shared inputs, the decoder registries (hook) and every "
              "live object after each call, and TLC validates Q1 (nothing shared is written), Q2 (each result equals the goroutine's "
              "solo run, with per-goroutine reused key buffers, and key material passed as slices of one shared buffer) and Q3 (no other "
              "goroutine's object changes); the solo reference is computed in a process of its own per program, so package-level "
              "state left behind by earlier calls shows up. The same programs run on "
              "real goroutines under the Go race detector with results compared against solo runs. The race runs begin with every program against itself in lockstep (barrier before each call)."),
        note=("Call-level interleavings decide hidden state and aliasing; memory-access-level data races are decided by the race "
              "detector on the runs performed (writes inside assembly cipher routines are not instrumented). Level: exploration."),
        technique="TLA+ schedule enumeration replayed on real code with measured footprints, TLC trace validation, Go race detector",
        design_ref="DESIGN.md section 5 C20",
    ),
    "C10": dict(
        level="model_checking",
        text=("Crop.tla defines the end time (start of the first sync sample of the reference track at or after the requested duration), "
              "the per-track sample counts and the prefix property (Prop), and models the tool's table-cropping routines (Impl); TLC "
              "checks for every run-length shape and cut point that the cropped tables expand to the prefix, enumerates abstract files "
              "(sync sets, ctts, chunkings, a second audio track, audio-only) x requested durations on the sample-start grid and exports "
              "them; the BUILT mp4ff-crop binary runs on each materialised file (stco / co64 / mdat-first / edit-list layouts) and its "
              "output is expanded by the harness's own table reader and compared sample by sample (bytes, durations, composition "
              "offsets, sync flags, offsets inside mdat, mdat size, header durations). Start times are compared with the end time exactly across "
              "timescales (a 441 Hz track makes the converted end time fractional); an stss box without entries must make the tool refuse, not panic; the "
              "table reader insists on a well-formed stsc."),
        note=("Judged only when the tool exits 0 and the spec defines an end time inside every track; other outcomes are counted as "
              "MODEL-DRIFT diagnostics. sdtp is not generated."),
        technique="TLA+ spec + TLC exhaustive enumeration, replay through the built CLI binary with independent read-back",
        design_ref="DESIGN.md section 5 C10",
    ),
    "C11": dict(
        level="model_checking",
        text=("Segmenter.tla models the segment-start selection, the per-track sample intervals and the resegmenter loop (Impl) and TLC "
              "checks that they tile 1..N for every track, sync spacing and target duration of the generator and that every start is a "
              "sync sample; the generated progressive files (video with every sync set, optional audio in another timescale) x segment "
              "durations and fragmented inputs (every split into fragments, one or two truns, non-sync samples marked dependent or "
              "independent-but-non-sync) x chunk durations are materialised; the "
              "BUILT examples/segmenter (single-track, -m, -lazy, -m -lazy), examples/resegmenter and examples/combine-segs binaries and "
              "MediaSegment.Fragmentify run on them and every output is read by the harness's independent ISO reader: per track the "
              "concatenated sample sequence must equal the input (count, bytes, durations, sync flag, composition offset, decode "
              "time) and every segment of the video track must start with a sync sample. All-sync video tracks come with and without stss; every fourth input is stretched in time so that audio decode times pass 2^32; a runtime panic of a tool is a violation."),
        note=("Judged when a tool exits 0. Only the non-sync bit of the sample flags is compared (the tools derive the other bits). "
              "combine-segs is run on inputs with fully explicit truns (its documented limitation)."),
        technique="TLA+ spec + TLC exhaustive enumeration and design check, replay through the built example binaries with independent read-back",
        design_ref="DESIGN.md section 5 C11",
    ),
}

PENDING_REASON = "check not built yet in this revision (planned in DESIGN.md section 5); not claimed until its machinery exists"


def main():
    import sys
    missing = [p for p in ALL if p not in CHECKS]
    if missing:
        print("WARNING: properties without a check entry (listed as not_applicable): %s" % missing, file=sys.stderr)
    checks = []
    for pid in ALL:
        if pid not in CHECKS:
            continue
        c = CHECKS[pid]
        checks.append({
            "property_id": pid,
            "quick_cmd": "bin/verifctl check %s --tier quick" % pid,
            "thorough_cmd": "bin/verifctl check %s --tier thorough" % pid,
            "evidence_file": "evidence/%s.json" % pid,
            "replay_cmd_template": "bin/verifctl replay {path}",
            "engine": "tla-mbt",
            "level_claimed": {"category": c["level"], "text": c["text"], "design_ref": c["design_ref"]},
            "level_note": c["note"],
            "technique": c["technique"],
        })
    hooks_commits = []
    try:
        with open(os.path.join(VERIF, "hooks_commits.txt")) as f:
            hooks_commits = [x.strip() for x in f if x.strip()]
    except OSError:
        pass
    m = {
        "version": 1,
        "setup_cmd": "bin/setup",
        "hooks": {
            "guard": "verif",
            "enable": "go build -tags verif (harness module in /verif/harness with replace github.com/Eyevinn/mp4ff => /repo)",
            "baseline_off_cmd": "cd /repo && GOFLAGS=-mod=mod GOPROXY=off GOSUMDB=off go test -vet=off -count=1 -timeout 25m ./...",
            "source_commits": hooks_commits,
            "add_only": True,
        },
        "engines": [{
            "name": "tla-mbt", "path": "bin/verifctl",
            "serves_properties": [c["property_id"] for c in checks],
            "kind_free_text": "explicit TLA+ specifications (spec/*.tla) checked with TLC; behaviours exported by TLC are replayed into the real Go code by harness/cmd/verif; traces recorded from the real code are validated by <Model>Trace.tla",
        }],
        "checks": checks,
        "notes": "See DESIGN.md. Exit codes: 0 held / only known findings, 1 new violation, 2 machinery problem.",
        "not_applicable": [{"property_id": p, "reason": PENDING_REASON} for p in ALL if p not in CHECKS],
    }
    with open(os.path.join(VERIF, "MANIFEST.json"), "w") as f:
        json.dump(m, f, indent=1)
        f.write("\n")


if __name__ == "__main__":
    main()
