-------------------------------- MODULE Conc --------------------------------
(* C20: independent objects used from concurrent goroutines.

   Goroutines g in 1..G each run a program: a sequence of library calls on objects that only this
   goroutine holds, all derived from shared, read-only input byte slices. One action = one public
   call (atomic at call granularity). TLC enumerates every interleaving of the programs of every
   program tuple (history variable `sched`); each schedule is replayed deterministically against the
   real library and the measured footprints are validated:
     Q1 no call changes a shared input or the package-level decoder registries
     Q2 every call returns what the same goroutine gets when its program runs alone
     Q3 no call changes an object held by another goroutine
   The memory-access-level half of the property (data races) is observed by running the same
   programs on real goroutines under the Go race detector.                                    *)
EXTENDS Integers, Sequences, FiniteSets, TLC, Json

CONSTANTS Mode, G, Programs, DoExport

QuickPrograms == {<<"D0", "I", "E">>, <<"S0", "G", "E">>, <<"S1", "X", "E">>, <<"D1", "X", "G">>, <<"S0", "C", "E">>, <<"D0", "C", "W">>, <<"S2", "I", "E">>, <<"S1", "G", "I">>, <<"D1", "X", "C">>, <<"D0", "C", "X">>,
                  <<"D3", "I", "E">>, <<"D4", "I", "E">>, <<"S3", "I", "W">>, <<"S4", "E", "I">>,
                  <<"S0", "R", "G">>, <<"D0", "R", "E">>,
                  <<"D0", "K", "E">>, <<"D0", "K", "W">>,
                  <<"L", "P", "P">>,                          \* L: lazy decode of a progressive file (mdat left in the source); P: File.CopySampleData of the first samples into a plain io.Writer
                  <<"S0", "B", "E">>, <<"S2", "B", "I">>}     \* B: AddCompatibleBrands on the decoded ftyp / styp (an append on a slice of the decoder's input on the SliceReader path)     \* K: encrypt with an 8-byte IV and a key that are slices of ONE shared buffer (IV slice has spare capacity)     \* R: re-multiplex every other sample of the first fragment into a new fragment    \* 3, 4: kitchen-sink files A / B (one instance of every box shape)
ThoroughPrograms == {<<"D1", "X", "C">>, <<"D0", "K", "X">>, <<"L", "P", "I">>, <<"D3", "I", "E">>, <<"D4", "I", "E">>}    \* 3 goroutines: 125 program tuples x 1680 interleavings
NoPrograms == {}
VARIABLES pc, prog, sched, l, base
vars == <<pc, prog, sched, l, base>>
Trace == IF Mode = "trace" THEN ndJsonDeserialize("trace.ndjson") ELSE <<>>

Init == /\ prog \in [1 .. G -> Programs] /\ pc = [g \in 1 .. G |-> 1] /\ sched = <<>> /\ l = 1 /\ base = [ev |-> "none"]
Step(g) == /\ Mode = "gen" /\ pc[g] <= Len(prog[g])
           /\ sched' = Append(sched, g) /\ pc' = [pc EXCEPT ![g] = @ + 1] /\ UNCHANGED <<prog, l, base>>
Done == \A g \in 1 .. G : pc[g] > Len(prog[g])

\* ---- trace validation
IsEvent(e) == Mode = "trace" /\ l <= Len(Trace) /\ Trace[l].ev = e /\ l' = l + 1
Reset == IsEvent("reset") /\ base' = Trace[l] /\ UNCHANGED <<pc, prog, sched>>
Call == /\ IsEvent("step")
        /\ LET e == Trace[l] IN
           /\ e.inputs = base.inputs /\ e.registry = base.registry           \* Q1
           /\ e.res = base.solo[e.g][e.k]                                    \* Q2
           /\ e.others_same                                                  \* Q3
        /\ UNCHANGED <<pc, prog, sched, base>>
Race == IsEvent("race") /\ Trace[l].races = 0 /\ Trace[l].mismatches = 0 /\ UNCHANGED <<pc, prog, sched, base>>
Next == (\E g \in 1 .. G : Step(g)) \/ Reset \/ Call \/ Race
Spec == Init /\ [][Next]_vars

Export == (DoExport /\ Mode = "gen" /\ Done) => PrintT(ToJson([progs |-> prog, sched |-> sched]))
Accepted == Mode = "trace" =>
            LET d == TLCGet("stats").diameter IN
            IF d - 1 = Len(Trace) THEN TRUE
            ELSE Print(<<"TRACE_REJECTED_AT_LINE", d, Trace[d]>>, FALSE)
=============================================================================
