------------------------------- MODULE AnnexB -------------------------------
(* C14: NAL unit framing (ISO/IEC 14496-10 Annex B byte stream vs ISO/IEC 14496-15
   length-prefixed samples).

   Prop layer : ScanRef (byte-by-byte start-code scan), Nalus/ToSample/ToByteStream, and the
                answers every helper must give, all defined from the NAL unit sequence.
   Impl layer : ImplScan(s, W) - the word-at-a-time scanner of avc/annexb.go with the word
                size as a parameter (has-zero-byte test per word, odd offsets probed, two
                bytes of look-ahead into the next word, byte-wise tail).
   Modes      : "design"  all streams over Alphabet up to MaxLen: ImplScan(s, W) = ScanRef(s)
                "windows" every window over Alphabet^WinLen at every alignment inside filler,
                          exported for replay against the real 8-byte-word scanner
                "units"   structured streams of NAL units (history of AddUnit steps), exported
                          with the expected result of every helper                      *)
EXTENDS Integers, Sequences, FiniteSets, TLC, Json, SequencesExt

CONSTANTS Mode, Alphabet, MaxLen, W,
          WinLen, Aligns, Totals,
          Codec, Types, Lens, Classes, MaxUnits, DoExport

At(s, i) == s[i + 1]                                       \* 0-based access

(* ------------------------------------------------------------- Prop: scan *)
IsSC(s, i) == At(s, i) = 0 /\ At(s, i + 1) = 0 /\ At(s, i + 2) = 1
SCRec(s, i) == [pos |-> i + 3, len |-> IF i >= 1 /\ At(s, i - 1) = 0 THEN 4 ELSE 3]
\* a start code counts when at least one byte follows it
RECURSIVE ScanFrom(_, _)
ScanFrom(s, i) == IF i > Len(s) - 4 THEN <<>>
                  ELSE IF IsSC(s, i) THEN <<SCRec(s, i)>> \o ScanFrom(s, i + 1)
                  ELSE ScanFrom(s, i + 1)
ScanRef(s) == ScanFrom(s, 0)

(* ------------------------------------------------------------- Impl: scan *)
HasZero(s, i, w) == \E k \in 0 .. (w - 1) : At(s, i + k) = 0
ProbeAt(s, j) ==    \* one odd offset j with a zero byte: at most one start code
    IF At(s, j - 1) = 0 /\ At(s, j + 1) = 1
    THEN <<[pos |-> j + 2, len |-> IF j - 2 >= 0 /\ At(s, j - 2) = 0 THEN 4 ELSE 3]>>
    ELSE IF At(s, j + 1) = 0 /\ At(s, j + 2) = 1
    THEN <<[pos |-> j + 3, len |-> IF j - 1 >= 0 /\ At(s, j - 1) = 0 THEN 4 ELSE 3]>>
    ELSE <<>>
RECURSIVE OddLoop(_, _, _)
OddLoop(s, j, end) == IF j >= end THEN <<>>
                      ELSE (IF At(s, j) = 0 THEN ProbeAt(s, j) ELSE <<>>) \o OddLoop(s, j + 2, end)
RECURSIVE WordLoop(_, _, _, _)
WordLoop(s, i, lim, w) == IF i >= lim THEN <<>>
                          ELSE (IF HasZero(s, i, w) THEN OddLoop(s, i + 1, i + w) ELSE <<>>) \o WordLoop(s, i + w, lim, w)
ImplScan(s, w) ==
    LET n == Len(s)
        lim == n - (n % w) - w
        iEnd == IF lim > 0 THEN lim ELSE 0
    IN WordLoop(s, 0, lim, w) \o ScanFrom(s, iEnd)

(* ------------------------------------------------- Prop: NAL unit sequence *)
RECURSIVE Flat(_)
Flat(ss) == IF ss = <<>> THEN <<>> ELSE Head(ss) \o Flat(Tail(ss))
Len4(n) == <<0, 0, (n \div 256) % 256, n % 256>>         \* lengths here are < 65536
StartCode(k) == IF k = 4 THEN <<0, 0, 0, 1>> ELSE <<0, 0, 1>>
\* units: sequence of [b |-> bytes, sc |-> 3|4]
Stream(units) == Flat([i \in 1 .. Len(units) |-> StartCode(units[i].sc) \o units[i].b])
Sample(units) == Flat([i \in 1 .. Len(units) |-> Len4(Len(units[i].b)) \o units[i].b])
Back(units) == Flat([i \in 1 .. Len(units) |-> StartCode(4) \o units[i].b])

TypeOf(b) == IF Codec = "avc" THEN b[1] % 32 ELSE (b[1] \div 2) % 64
IsVideo(t) == IF Codec = "avc" THEN t <= 5 ELSE t <= 31
SPS == IF Codec = "avc" THEN 7 ELSE 33
PPS == IF Codec = "avc" THEN 8 ELSE 34
VPS == IF Codec = "avc" THEN -1 ELSE 32
TypesOf(units) == [i \in 1 .. Len(units) |-> TypeOf(units[i].b)]
FirstVideo(units) == IF \E i \in 1 .. Len(units) : IsVideo(TypeOf(units[i].b))
                     THEN CHOOSE i \in 1 .. Len(units) : IsVideo(TypeOf(units[i].b)) /\ \A k \in 1 .. (i - 1) : ~IsVideo(TypeOf(units[k].b))
                     ELSE 0
UpToVideo(units) == IF FirstVideo(units) = 0 THEN units ELSE SubSeq(units, 1, FirstVideo(units))
BeforeVideo(units) == IF FirstVideo(units) = 0 THEN units ELSE SubSeq(units, 1, FirstVideo(units) - 1)
RECURSIVE OfType(_, _)
OfType(units, t) == IF units = <<>> THEN <<>>
                    ELSE (IF TypeOf(Head(units).b) = t THEN <<Head(units).b>> ELSE <<>>) \o OfType(Tail(units), t)
Has(units, t) == \E i \in 1 .. Len(units) : TypeOf(units[i].b) = t

(* --------------------------------------------------------------- generator *)
Hdr(t) == IF Codec = "avc" THEN <<96 + t>> ELSE <<2 * t, 1>>
Body(n, cls, k) ==    \* n payload bytes after the header; never ends in 00, emulation free
    LET fill == [i \in 1 .. n |-> 128 + ((7 * i + k) % 100)]
        mid == (n + 1) \div 2
    IN IF cls = "z1" /\ n >= 3 THEN [fill EXCEPT ![mid] = 0]
       ELSE IF cls = "esc" /\ n >= 5 THEN [fill EXCEPT ![mid - 1] = 0, ![mid] = 0, ![mid + 1] = 3]
       ELSE fill
HdrLen == IF Codec = "avc" THEN 1 ELSE 2
Unit(t, n, cls, sc, k) == [b |-> Hdr(t) \o Body(n - HdrLen, cls, k), sc |-> sc]
UnitChoices(k) == {Unit(t, n, cls, sc, k) : t \in Types, n \in {x \in Lens : x >= HdrLen}, cls \in Classes, sc \in {3, 4}}

VARIABLES stream, units, align
vars == <<stream, units, align>>

Fill(n) == [i \in 1 .. n |-> 2]
Init ==
    /\ units = <<>>
    /\ CASE Mode = "design" -> stream = <<>> /\ align = 0
         [] Mode = "windows" -> /\ align \in Aligns
                                /\ \E win \in [1 .. WinLen -> Alphabet] :
                                      \/ \E tot \in Totals : stream = Fill(align) \o win \o Fill(tot - align - WinLen)
                                      \* the window at the very END of the stream (trailing zeros, truncated start codes), every length mod the word size
                                      \/ stream = Fill(align + (IF align < 8 THEN 3 ELSE 11)) \o win
         [] Mode = "units" -> stream = <<>> /\ align = 0

Grow == /\ Mode = "design" /\ Len(stream) < MaxLen
        /\ \E b \in Alphabet : stream' = Append(stream, b)
        /\ UNCHANGED <<units, align>>

AddUnit == /\ Mode = "units" /\ Len(units) < MaxUnits
           /\ \E u \in UnitChoices(Len(units)) : units' = Append(units, u)
           /\ stream' = Stream(units')
           /\ UNCHANGED align

Next == Grow \/ AddUnit
Spec == Init /\ [][Next]_vars

(* ------------------------------------------------------------ design checks *)
N1 == ImplScan(stream, W) = ScanRef(stream)
\* the scan of a generated stream finds exactly the start codes that were laid down
RECURSIVE Starts(_, _)
Starts(us, at) == IF us = <<>> THEN <<>>
                  ELSE <<[pos |-> at + Head(us).sc, len |-> Head(us).sc]>> \o Starts(Tail(us), at + Head(us).sc + Len(Head(us).b))
UnitsScan == Mode = "units" => ScanRef(stream) = Starts(units, 0)

(* ------------------------------------------------------------------ export *)
Bs(us) == [i \in 1 .. Len(us) |-> us[i].b]
Export ==
    (DoExport /\ Mode = "windows") => PrintT(ToJson([mode |-> Mode, stream |-> stream, scan |-> ScanRef(stream)]))
ExportUnits ==
    (DoExport /\ Mode = "units" /\ units # <<>>) =>
        PrintT(ToJson([mode |-> Mode, codec |-> Codec, units |-> Bs(units), scs |-> [i \in 1 .. Len(units) |-> units[i].sc],
                       stream |-> stream, sample |-> Sample(units), back |-> Back(units), scan |-> ScanRef(stream),
                       types |-> TypesOf(units), typesToVideo |-> TypesOf(UpToVideo(units)),
                       sps |-> OfType(BeforeVideo(units), SPS), pps |-> OfType(BeforeVideo(units), PPS),
                       vps |-> OfType(BeforeVideo(units), VPS),
                       hasPS |-> (Has(UpToVideo(units), SPS) /\ Has(UpToVideo(units), PPS) /\ (Codec = "avc" \/ Has(UpToVideo(units), VPS))),
                       firstVideo |-> IF FirstVideo(units) = 0 THEN <<>> ELSE units[FirstVideo(units)].b,
                       hasVideo |-> FirstVideo(units) # 0,
                       perType |-> LET ts == SetToSeq(Types) IN
                                   [i \in 1 .. Len(ts) |-> [t |-> ts[i], all |-> OfType(units, ts[i]),
                                                             before |-> OfType(BeforeVideo(units), ts[i])]]]))
=============================================================================
