------------------------------ MODULE CencTrace ------------------------------
(* C06/C07 trace validation: every EncryptFragment call of the real library is recorded sample by
   sample (NAL layout, observed senc entry, observed IV) and fragment by fragment (saiz, saio, senc
   position); TLC evaluates W1..W6 on the observed values. W7/W8 (protected bytes = independent
   AES-CTR / AES-CBC-pattern, everything else unchanged) and the C06 round-trip outcomes are byte
   comparisons decided in the harness with the raw AES block function and logged as flags. *)
EXTENDS Cenc

Trace == ndJsonDeserialize("trace.ndjson")
VARIABLES l, frag
tvars == <<l, frag, nals>>
TInit == l = 1 /\ frag = [samples |-> <<>>] /\ nals = <<>>
IsEvent(e) == l <= Len(Trace) /\ Trace[l].ev = e /\ l' = l + 1
Reset == IsEvent("reset") /\ frag' = [codec |-> Trace[l].codec, scheme |-> Trace[l].scheme, samples |-> <<>>] /\ UNCHANGED nals

HL(c) == IF c = "hevc" THEN 2 ELSE 1
\* Prop on one observed sample
SampleOK(e, codec, scheme) ==
    IF codec = "audio" THEN e.subs = <<>>                                        \* W4
    ELSE /\ W1(e.nals, e.subs)
         /\ LET iv == Intervals(e.subs, 0) IN
            /\ \A k \in 1 .. Len(iv) : \E i \in 1 .. Len(e.nals) :               \* W2
                   /\ e.nals[i].kind = "v"
                   /\ iv[k][1] >= NalStart(e.nals, i) + 4 + HL(codec)
                   /\ iv[k][2] <= NalStart(e.nals, i) + 4 + e.nals[i].len
            /\ scheme = "cenc" =>                                                \* W3 cenc
                 \A i \in 1 .. Len(e.nals) : (e.nals[i].kind = "v" /\ e.nals[i].len > 127) =>
                     \E k \in 1 .. Len(iv) : /\ iv[k][2] = NalStart(e.nals, i) + 4 + e.nals[i].len
                                             /\ iv[k][1] - (NalStart(e.nals, i) + 4) <= 127
                                             /\ (iv[k][2] - iv[k][1]) % 16 = 0
            /\ scheme = "cbcs" =>                                                \* W3 cbcs: starts at end of slice header
                 \A i \in 1 .. Len(e.nals) : e.nals[i].kind = "v" =>
                     \E k \in 1 .. Len(iv) : /\ iv[k][1] = NalStart(e.nals, i) + 4 + e.nals[i].shl
                                             /\ iv[k][2] = NalStart(e.nals, i) + 4 + e.nals[i].len
Sample == /\ IsEvent("sample")
          /\ SampleOK(Trace[l], frag.codec, frag.scheme)
          /\ Trace[l].cipher_ok /\ Trace[l].clear_ok                              \* W7, W8 (harness, raw AES)
          /\ frag' = [frag EXCEPT !.samples = Append(@, Trace[l])] /\ UNCHANGED nals
\* fragment-level: aux info + IV schedule
FragEnd == /\ IsEvent("fragment")
           /\ LET e == Trace[l]  ss == frag.samples  n == Len(ss)
                  ivSize == IF frag.scheme = "cenc" THEN 16 ELSE 0 IN
              /\ e.nsamples = n
              /\ \A i \in 1 .. n : (IF i <= Len(e.saiz) THEN e.saiz[i] ELSE 0) = SencEntryBytes(ivSize, ss[i].subs)   \* W5 (no entry = size 0)
              /\ e.saio_abs = e.senc_first_entry_abs                                             \* W5
              /\ frag.scheme = "cenc" =>
                   \A i \in 1 .. (n - 1) : ss[i + 1].iv = AddBytes(ss[i].iv, Blocks(ss[i].subs, ss[i].size))   \* W6
           /\ UNCHANGED <<frag, nals>>
\* C06 round trip outcome of the fragment / file (byte comparisons done in the harness)
RoundTrip == /\ IsEvent("roundtrip")
             /\ LET e == Trace[l] IN e.samples_ok /\ e.entry_restored /\ e.sinf_gone /\ e.boxes_kept /\ e.offsets_ok
             /\ UNCHANGED <<frag, nals>>
TNext == Reset \/ Sample \/ FragEnd \/ RoundTrip
TraceSpec == TInit /\ [][TNext]_tvars
Accepted == LET d == TLCGet("stats").diameter IN
            IF d - 1 = Len(Trace) THEN TRUE
            ELSE Print(<<"TRACE_REJECTED_AT_LINE", d, Trace[d]>>, FALSE)
=============================================================================
