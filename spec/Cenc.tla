-------------------------------- MODULE Cenc --------------------------------
(* C06 / C07: Common Encryption (ISO/IEC 23001-7) of fragmented tracks.

   Abstract sample : sequence of NAL units [kind in {"v","n"}, len] (len = NAL unit bytes incl.
                     header; every unit is preceded by a 4-byte length field) or an audio blob.
   Prop (C07)      : W1 sub-sample entries partition the sample, clear counts <= 65535
                     W2 length fields, NAL headers and non-video units are clear; protected bytes
                        lie inside video units only
                     W3 cenc: every video unit longer than 127 bytes has a protected range that
                        reaches its last byte, starts at most 127 bytes into the unit and is a
                        whole number of 16-byte blocks   (cbcs: starts at the end of the slice header)
                     W4 audio: no sub-samples, the whole sample is protected
                     W5 saiz sizes = bytes of each senc entry, saio offset = position of the first
                     W6 cenc: IV[i+1] = IV[i] + cipher blocks used by sample i (128-bit, carry)
   Impl            : the library's rule (Bento4 compatible): a video unit with len+4 >= 112 gets
                     (len+4-96) rounded down to 16 protected bytes at its end; clear runs accumulate
                     over units; runs above 65535 are split; IV incremented with carry.
   TLC checks Impl => Prop for every NAL size mix from the class list (thresholds 16/96/112/128,
   64 KiB split) and exports the samples for replay against the real EncryptFragment.          *)
EXTENDS Integers, Sequences, FiniteSets, TLC, Json

CONSTANTS Lens, MaxNals, Codec, Scheme, DoExport,
          Many      \* {} or sample sizes in NAL units: samples of n equal protected video NAL units (n >= 40: the aux info of one sample
                    \* no longer fits the 8-bit sample_info_size of saiz with a 16-byte IV: 16 + 2 + 6n > 255)

RECURSIVE SumSeq(_)
SumSeq(s) == IF s = <<>> THEN 0 ELSE Head(s) + SumSeq(Tail(s))
HdrLen == IF Codec = "hevc" THEN 2 ELSE 1

(* ---------------------------------------------------------------- Impl *)
AppendRange(ssps, clear, prot) ==
    LET RECURSIVE Split(_, _)
        Split(acc, c) == IF c >= 65536 THEN Split(Append(acc, <<65535, 0>>), c - 65535) ELSE Append(acc, <<c, prot>>)
    IN Split(ssps, clear)
ProtOf(n) == IF n.kind = "v" /\ n.len + 4 >= 112 THEN ((n.len + 4 - 96) \div 16) * 16 ELSE 0
RECURSIVE ImplWalk(_, _, _, _)
\* pos = offset of the next NAL's length field; cs = clearStart
ImplWalk(nals, pos, cs, ssps) ==
    IF nals = <<>> THEN (IF pos > cs THEN AppendRange(ssps, pos - cs, 0) ELSE ssps)
    ELSE LET n == Head(nals)
             p == ProtOf(n)
             endN == pos + 4 + n.len
         IN IF p > 0 THEN ImplWalk(Tail(nals), endN, endN, AppendRange(ssps, endN - p - cs, p))
            ELSE ImplWalk(Tail(nals), endN, cs, ssps)
ImplSubs(nals) == IF Scheme = "cenc" /\ Codec # "audio" THEN ImplWalk(nals, 0, 0, <<>>) ELSE <<>>

(* ---------------------------------------------------------------- Prop *)
SampleSize(nals) == SumSeq([i \in 1 .. Len(nals) |-> 4 + nals[i].len])
NalStart(nals, i) == SumSeq([k \in 1 .. (i - 1) |-> 4 + nals[k].len])        \* offset of the length field
\* protected intervals [from, to) from a sub-sample list
RECURSIVE Intervals(_, _)
Intervals(subs, at) == IF subs = <<>> THEN <<>>
                       ELSE (IF Head(subs)[2] > 0 THEN <<<<at + Head(subs)[1], at + Head(subs)[1] + Head(subs)[2]>>>> ELSE <<>>)
                            \o Intervals(Tail(subs), at + Head(subs)[1] + Head(subs)[2])
W1(nals, subs) == /\ SumSeq([i \in 1 .. Len(subs) |-> subs[i][1] + subs[i][2]]) = SampleSize(nals)
                  /\ \A i \in 1 .. Len(subs) : subs[i][1] <= 65535 /\ subs[i][1] >= 0 /\ subs[i][2] >= 0
W2(nals, subs) == LET iv == Intervals(subs, 0) IN
    \A k \in 1 .. Len(iv) :
        \E i \in 1 .. Len(nals) : /\ nals[i].kind = "v"
                                   /\ iv[k][1] >= NalStart(nals, i) + 4 + HdrLen
                                   /\ iv[k][2] <= NalStart(nals, i) + 4 + nals[i].len
W3cenc(nals, subs) == LET iv == Intervals(subs, 0) IN
    \A i \in 1 .. Len(nals) : (nals[i].kind = "v" /\ nals[i].len > 127) =>
        \E k \in 1 .. Len(iv) : /\ iv[k][2] = NalStart(nals, i) + 4 + nals[i].len
                                /\ iv[k][1] - (NalStart(nals, i) + 4) <= 127
                                /\ iv[k][1] >= NalStart(nals, i) + 4 + HdrLen
                                /\ (iv[k][2] - iv[k][1]) % 16 = 0
PropVideoCenc(nals, subs) == W1(nals, subs) /\ W2(nals, subs) /\ W3cenc(nals, subs)

\* 128-bit addition on byte sequences (big endian), wraps
RECURSIVE AddBytes(_, _)
AddBytes(iv, n) == IF iv = <<>> THEN <<>>
                   ELSE LET s == iv[Len(iv)] + n IN AddBytes(SubSeq(iv, 1, Len(iv) - 1), s \div 256) \o <<s % 256>>
Blocks(subs, size) == IF subs = <<>> THEN (size + 15) \div 16 ELSE SumSeq([i \in 1 .. Len(subs) |-> subs[i][2] \div 16])
SencEntryBytes(ivSize, subs) == ivSize + (IF subs = <<>> THEN 0 ELSE 2 + 6 * Len(subs))

(* ----------------------------------------------------------- generator *)
Kinds == IF Codec = "audio" THEN {"a"} ELSE {"v", "n"}
NalSet == [kind : Kinds, len : {l \in Lens : l >= HdrLen}]      \* a header-only unit (end of sequence / stream) is a legitimate NAL unit
          \cup (IF 0 \in Lens /\ Codec # "audio" THEN {[kind |-> "n", len |-> 0]} ELSE {})   \* a bare length field of 0 (padding some muxers emit): not video, stays clear
VARIABLES nals
Init == IF Many = {} THEN nals = <<>> ELSE nals \in {[i \in 1 .. n |-> [kind |-> "v", len |-> 200]] : n \in Many}
Add(n) == Many = {} /\ Len(nals) < (IF Codec = "audio" THEN 1 ELSE MaxNals) /\ nals' = Append(nals, n)
Next == \E n \in NalSet : Add(n)
Spec == Init /\ [][Next]_nals

Design == (Scheme = "cenc" /\ Codec # "audio" /\ nals # <<>>) => PropVideoCenc(nals, ImplSubs(nals))
Export == (DoExport /\ nals # <<>>) =>
    PrintT(ToJson([codec |-> Codec, scheme |-> Scheme, nals |-> nals, size |-> SampleSize(nals), implsubs |-> ImplSubs(nals)]))
=============================================================================
