--------------------------- MODULE SampleTablesOps ---------------------------
(* Variable-free operators of the sample-table semantics (Prop: expansions; Impl: the library's
   cached-column algorithms). Shared by SampleTables.tla (C09), Mdat.tla (C08), Crop.tla (C10). *)
EXTENDS Integers, Sequences, FiniteSets

(* ----------------------------------------------------------------- helpers *)
RECURSIVE Comp(_)                     \* all compositions of n (sequences of positive ints)
Comp(n) == IF n = 0 THEN {<<>>} ELSE UNION {{<<k>> \o c : c \in Comp(n - k)} : k \in 1 .. n}
RECURSIVE Sum(_)
Sum(s) == IF s = <<>> THEN 0 ELSE Head(s) + Sum(Tail(s))
RECURSIVE SumF(_, _, _)               \* sum of f[i] for i in a..b
SumF(f, a, b) == IF a > b THEN 0 ELSE f[a] + SumF(f, a + 1, b)
RECURSIVE Flat(_)
Flat(ss) == IF ss = <<>> THEN <<>> ELSE Head(ss) \o Flat(Tail(ss))
Rep(x, n) == [i \in 1 .. n |-> x]

(* ------------------------------------------------------- Prop: expansions *)
\* run-length table <<[n, v]>> -> per-sample sequence of v
ExpandRuns(t) == Flat([i \in 1 .. Len(t) |-> Rep(t[i].v, t[i].n)])
Dts(durs, s) == SumF(durs, 1, s - 1)                     \* decode time of sample s (1-based)
Total(durs) == SumF(durs, 1, Len(durs))
\* first sample starting at or after time t; the virtual sample N+1 (end of track) stands for
\* "inside the last sample" (this is what the library documents and its callers rely on);
\* 0 = error expected (time beyond the end); -1 = not pinned (t = total duration, no zero-length last sample)
SampleAtTime(durs, t) ==
    LET N == Len(durs) IN
    IF \E s \in 1 .. N : Dts(durs, s) >= t
    THEN CHOOSE s \in 1 .. N : Dts(durs, s) >= t /\ \A q \in 1 .. (s - 1) : Dts(durs, q) < t
    ELSE IF t < Total(durs) THEN N + 1
    ELSE IF t = Total(durs) THEN -1
    ELSE 0
\* chunks: sequence of samples-per-chunk; chunk of sample s
ChunkStart(spc, c) == 1 + SumF(spc, 1, c - 1)            \* first sample of chunk c
ChunkOf(spc, s) == CHOOSE c \in 1 .. Len(spc) : ChunkStart(spc, c) <= s /\ s < ChunkStart(spc, c) + spc[c]
ChunkRec(spc, c) == [nr |-> c, start |-> ChunkStart(spc, c), n |-> spc[c]]
Containing(spc, a, b) == [k \in 1 .. (ChunkOf(spc, b) - ChunkOf(spc, a) + 1) |-> ChunkRec(spc, ChunkOf(spc, a) + k - 1)]
Max(a, b) == IF a > b THEN a ELSE b
Min(a, b) == IF a < b THEN a ELSE b
\* byte ranges of interval [a,b]: one per containing chunk
Ranges(spc, sizes, offs, a, b) ==
    LET cs == Containing(spc, a, b) IN
    [k \in 1 .. Len(cs) |->
        LET lo == Max(a, cs[k].start)
            hi == Min(b, cs[k].start + cs[k].n - 1)
        IN [off |-> offs[cs[k].nr] + SumF(sizes, cs[k].start, lo - 1), size |-> SumF(sizes, lo, hi)]]
\* file offset of every sample
SampleOffset(spc, sizes, offs, s) == LET c == ChunkOf(spc, s) IN offs[c] + SumF(sizes, ChunkStart(spc, c), s - 1)

(* ------------------------------------------------------------ Impl: stts *)
RECURSIVE ImplAtTime(_, _, _, _, _)
ImplAtTime(t, tab, i, accT, accN) ==
    IF i > Len(tab)
    THEN (IF tab[Len(tab)].v = 0 /\ tab[Len(tab)].n = 1 /\ t = accT THEN accN ELSE 0)
    ELSE LET d == tab[i].v  n == tab[i].n IN
         IF t < accT + n * d
         THEN LET rel == t - accT
                  k == (rel \div d) + (IF rel % d # 0 THEN 1 ELSE 0)
              IN accN + k + 1
         ELSE ImplAtTime(t, tab, i + 1, accT + n * d, accN + n)
RECURSIVE ImplDecodeTime(_, _, _, _)
ImplDecodeTime(tab, i, remaining, acc) ==
    IF remaining >= tab[i].n THEN ImplDecodeTime(tab, i + 1, remaining - tab[i].n, acc + tab[i].n * tab[i].v)
    ELSE [dts |-> acc + remaining * tab[i].v, dur |-> tab[i].v]

(* ------------------------------------------------------------ Impl: ctts *)
\* EndSampleNr column (0-based index h -> end[h+1]); binary search for first end >= s
EndCol(tab) == [h \in 1 .. (Len(tab) + 1) |-> SumF([i \in 1 .. Len(tab) |-> tab[i].n], 1, h - 1)]
RECURSIVE BSearchEnd(_, _, _, _)
BSearchEnd(end, s, i, j) == IF i >= j THEN i
                            ELSE LET h == (i + j) \div 2 IN
                                 IF end[h + 1] < s THEN BSearchEnd(end, s, h + 1, j) ELSE BSearchEnd(end, s, i, h)
ImplCto(tab, s) == tab[BSearchEnd(EndCol(tab), s, 0, Len(tab) + 1)].v      \* SampleOffset[i-1], 0-based

(* ------------------------------------------------------------ Impl: stsc *)
\* entries <<[first, spc, sdi]>> ; cached FirstSampleNr
RECURSIVE FirstSampleNr(_, _)
FirstSampleNr(e, i) == IF i = 1 THEN 1 ELSE FirstSampleNr(e, i - 1) + (e[i].first - e[i - 1].first) * e[i - 1].spc
RECURSIVE BSearchEntry(_, _, _, _)     \* 0-based low/high as in the code; returns low-1 (0-based entry index)
BSearchEntry(e, s, low, high) == IF low >= high THEN low - 1
                                 ELSE LET mid == (low + high) \div 2 IN
                                      IF FirstSampleNr(e, mid + 1) > s THEN BSearchEntry(e, s, low, mid)
                                      ELSE BSearchEntry(e, s, mid + 1, high)
ImplChunkOf(e, s) == LET k == BSearchEntry(e, s, 0, Len(e)) + 1
                         inE == (s - FirstSampleNr(e, k)) \div e[k].spc
                     IN [chunk |-> e[k].first + inE, first |-> FirstSampleNr(e, k) + inE * e[k].spc]
RECURSIVE ImplWalk(_, _, _, _)         \* GetContainingChunks loop
ImplWalk(e, c, cEnd, k) ==
    IF c > cEnd THEN <<>>
    ELSE <<[nr |-> c, start |-> FirstSampleNr(e, k) + (c - e[k].first) * e[k].spc, n |-> e[k].spc]>>
         \o ImplWalk(e, c + 1, cEnd, IF k < Len(e) /\ c + 1 = e[k + 1].first THEN k + 1 ELSE k)
ImplContaining(e, a, b) ==
    LET ka == BSearchEntry(e, a, 0, Len(e)) + 1
        kb == BSearchEntry(e, b, ka - 1, Len(e)) + 1
        ca == (a - FirstSampleNr(e, ka)) \div e[ka].spc + e[ka].first
        cb == (b - FirstSampleNr(e, kb)) \div e[kb].spc + e[kb].first
    IN ImplWalk(e, ca, cb, ka)

\* run-length compression of the per-chunk (spc, sdi) list into stsc entries
RECURSIVE StscFrom(_, _, _, _)
StscFrom(spc, sdi, c, merge) ==
    IF c > Len(spc) THEN <<>>
    ELSE (IF c > 1 /\ merge /\ spc[c] = spc[c - 1] /\ sdi[c] = sdi[c - 1] THEN <<>>
          ELSE <<[first |-> c, spc |-> spc[c], sdi |-> sdi[c]]>>) \o StscFrom(spc, sdi, c + 1, merge)

=============================================================================
