------------------------------ MODULE Fragment ------------------------------
(* C05: samples written into fragments are read back exactly.

   History machine over the public Fragment API:
     AddToTrack(t, cls) - AddFullSampleToTrack / AddSampleToTrack (multi-track or single-track),
                          for single-track fragments the replayer also drives AddFullSample,
                          AddSample(s), AddSamples and AddSampleInterval with the same history
     Encode(opt)        - Fragment.Encode/EncodeSW with or without trun optimisation
   Impl state  : per track the list of truns with their write order, the fragment's next trun
                 number, tfdt per track, the mdat token list - exactly the bookkeeping the code keeps -
                 and at Encode the trun/tfhd flags after optimisation, box sizes and data offsets.
   Prop        : reading the encoded structure back with the ISO/IEC 14496-12 8.8.7/8.8.8 rules
                 (sample fields from trun, else first-sample-flags, else tfhd default; data at
                 moof start + data_offset, consecutive inside a run; decode time from tfdt plus
                 accumulated durations over the runs of the track) gives, per track and in order,
                 exactly what was added: class (dur,size,flags,cto), decode time and the sample's
                 own bytes (token). *)
EXTENDS Integers, Sequences, FiniteSets, TLC, Json

CONSTANTS Tracks,        \* e.g. {1, 2}
          Kind,          \* "single" (CreateFragment, track 1) | "multi" (CreateMultiTrackFragment)
          Classes,       \* names of the sample classes
          MaxAdds, DoExport

\* sample classes: equal / different durations, sizes, flags, composition offsets, zero size
ClassDef(c) == CASE c = "A" -> [dur |-> 10, size |-> 3, flags |-> 33554432, cto |-> 0]       \* sync (depends_on=2)
                 [] c = "B" -> [dur |-> 10, size |-> 3, flags |-> 16842752, cto |-> 0]       \* non-sync
                 [] c = "C" -> [dur |-> 20, size |-> 4, flags |-> 16842752, cto |-> 5]
                 [] c = "Z" -> [dur |-> 10, size |-> 0, flags |-> 16842752, cto |-> 0]       \* zero-size sample
                 [] c = "D" -> [dur |-> 10, size |-> 3, flags |-> 16842752, cto |-> -3]

RECURSIVE SumF(_, _, _)
SumF(f, a, b) == IF a > b THEN 0 ELSE f[a] + SumF(f, a + 1, b)
RECURSIVE Flat(_)
Flat(ss) == IF ss = <<>> THEN <<>> ELSE Head(ss) \o Flat(Tail(ss))

TrackSeq == IF Kind = "single" THEN <<1>> ELSE LET RECURSIVE S(_) S(T) == IF T = {} THEN <<>> ELSE LET m == CHOOSE x \in T : \A y \in T : x <= y IN <<m>> \o S(T \ {m}) IN S(Tracks)
StartTime(t) == 1000 * t            \* decode time of the first sample of track t

VARIABLES trafs,    \* [t -> sequence of truns], trun = [wo, samples: seq of [cls, tok]]
          next,     \* nextTrunNr of the fragment
          tfdt,     \* [t -> base decode time or -1 when never set]
          mdat,     \* sequence of tokens in write order
          added,    \* history/observation: [t -> seq of [cls, tok, dts]]
          nadds, enc
vars == <<trafs, next, tfdt, mdat, added, nadds, enc>>

TSet == {TrackSeq[i] : i \in 1 .. Len(TrackSeq)}
Init == /\ trafs = [t \in TSet |-> IF Kind = "single" THEN <<[wo |-> 0, samples |-> <<>>]>> ELSE <<>>]
        /\ next = IF Kind = "single" THEN 1 ELSE 0
        /\ tfdt = [t \in TSet |-> -1]
        /\ mdat = <<>> /\ added = [t \in TSet |-> <<>>] /\ nadds = 0 /\ enc = "none"

NextDts(t) == IF added[t] = <<>> THEN StartTime(t)
              ELSE added[t][Len(added[t])].dts + ClassDef(added[t][Len(added[t])].cls).dur

\* Impl of Fragment.AddSampleToTrack
AddToTrack(t, c) ==
    /\ enc = "none" /\ nadds < MaxAdds
    /\ LET tok == nadds + 1
           dts == NextDts(t)
           \* create first trun if needed
           tr0 == IF trafs[t] = <<>> THEN <<[wo |-> next, samples |-> <<>>]>> ELSE trafs[t]
           n0 == IF trafs[t] = <<>> THEN next + 1 ELSE next
           setTfdt == Len(tr0) = 1 /\ tr0[1].samples = <<>>
           last == tr0[Len(tr0)]
           newTrun == last.wo # n0 - 1
           tr1 == IF newTrun THEN Append(tr0, [wo |-> n0, samples |-> <<>>]) ELSE tr0
           n1 == IF newTrun THEN n0 + 1 ELSE n0
           k == Len(tr1)
       IN /\ trafs' = [trafs EXCEPT ![t] = [tr1 EXCEPT ![k].samples = Append(@, [cls |-> c, tok |-> tok])]]
          /\ next' = n1
          /\ tfdt' = IF setTfdt THEN [tfdt EXCEPT ![t] = dts] ELSE tfdt
          /\ mdat' = Append(mdat, tok)
          /\ added' = [added EXCEPT ![t] = Append(@, [cls |-> c, tok |-> tok, dts |-> dts, first |-> FALSE])]
          /\ nadds' = nadds + 1
    /\ UNCHANGED enc

\* Impl of Fragment.AddSample / AddSamples on a multi-track fragment: the sample goes to the FIRST trun of the first track
\* whatever was written last (the caller writes its data behind that trun's other samples). Taken only where it differs
\* from AddToTrack (another trun was written since) and where the track has no later trun whose times it would shift.
FirstTrack == TrackSeq[1]
AddFirst(c) ==
    /\ Kind = "multi" /\ enc = "none" /\ nadds < MaxAdds
    /\ Len(trafs[FirstTrack]) = 1 /\ trafs[FirstTrack][1].wo # next - 1
    /\ LET tok == nadds + 1
           dts == NextDts(FirstTrack)
           ss == trafs[FirstTrack][1].samples
           lastTok == ss[Len(ss)].tok
           idx == CHOOSE j \in 1 .. Len(mdat) : mdat[j] = lastTok
       IN /\ trafs' = [trafs EXCEPT ![FirstTrack][1].samples = Append(@, [cls |-> c, tok |-> tok])]
          /\ mdat' = SubSeq(mdat, 1, idx) \o <<tok>> \o SubSeq(mdat, idx + 1, Len(mdat))
          /\ added' = [added EXCEPT ![FirstTrack] = Append(@, [cls |-> c, tok |-> tok, dts |-> dts, first |-> TRUE])]
          /\ nadds' = nadds + 1
    /\ UNCHANGED <<next, tfdt, enc>>

(* ------------------------------------------------------ Impl of Encode *)
TokSize == [k \in 1 .. nadds |-> LET t == CHOOSE t \in TSet : \E i \in 1 .. Len(added[t]) : added[t][i].tok = k
                                     i == CHOOSE i \in 1 .. Len(added[t]) : added[t][i].tok = k
                                 IN ClassDef(added[t][i].cls).size]
AllEq(ss, f(_)) == \A i \in 1 .. Len(ss) : f(ClassDef(ss[i].cls)) = f(ClassDef(ss[1].cls))
\* OptimizeTfhdTrun on the first trun of the first traf; returns [tfhd defaults, trun flags, firstflags]
FirstT == TrackSeq[1]
OptOf(opt) ==
    LET ss == IF trafs[FirstT] = <<>> THEN <<>> ELSE trafs[FirstT][1].samples
        can == opt /\ Len(ss) >= 2
        cDur == can /\ AllEq(ss, LAMBDA d : d.dur)
        cSize == can /\ AllEq(ss, LAMBDA d : d.size)
        cFlags == can /\ \A i \in 2 .. Len(ss) : ClassDef(ss[i].cls).flags = ClassDef(ss[2].cls).flags
        zCto == can /\ \A i \in 1 .. Len(ss) : ClassDef(ss[i].cls).cto = 0
    IN [defDur |-> IF cDur THEN ClassDef(ss[1].cls).dur ELSE -1,
        defSize |-> IF cSize THEN ClassDef(ss[1].cls).size ELSE -1,
        defFlags |-> IF cFlags THEN ClassDef(ss[2].cls).flags ELSE -1,
        firstFlags |-> IF cFlags /\ ClassDef(ss[1].cls).flags # ClassDef(ss[2].cls).flags THEN ClassDef(ss[1].cls).flags ELSE -1,
        hasDur |-> ~cDur, hasSize |-> ~cSize, hasFlags |-> ~cFlags, hasCto |-> ~zCto]
\* sizes (ISO layouts; tfdt version 0 for small times)
NF(o, first) == IF first THEN (IF o.hasDur THEN 1 ELSE 0) + (IF o.hasSize THEN 1 ELSE 0) + (IF o.hasFlags THEN 1 ELSE 0) + (IF o.hasCto THEN 1 ELSE 0) ELSE 4
TrunSize(o, t, k) == LET first == t = FirstT /\ k = 1 IN
                     20 + (IF first /\ o.firstFlags # -1 THEN 4 ELSE 0) + 4 * NF(o, first) * Len(trafs[t][k].samples)
TfhdSize(o, t) == 16 + (IF t = FirstT THEN (IF o.defDur # -1 THEN 4 ELSE 0) + (IF o.defSize # -1 THEN 4 ELSE 0) + (IF o.defFlags # -1 THEN 4 ELSE 0) ELSE 0)
TrafSize(o, t) == 8 + TfhdSize(o, t) + 16 + SumF([k \in 1 .. Len(trafs[t]) |-> TrunSize(o, t, k)], 1, Len(trafs[t]))
MoofSize(o) == 8 + 16 + SumF([i \in 1 .. Len(TrackSeq) |-> TrafSize(o, TrackSeq[i])], 1, Len(TrackSeq))
\* data offsets: truns sorted by write order, data consecutive after moof + mdat header
TrunData(t, k) == SumF([i \in 1 .. Len(trafs[t][k].samples) |-> ClassDef(trafs[t][k].samples[i].cls).size], 1, Len(trafs[t][k].samples))
AllTruns == {<<t, k>> : t \in TSet, k \in 1 .. 8} \cap {x \in TSet \X (1 .. 8) : x[2] <= Len(trafs[x[1]])}
OffsetOf(o, t, k) == MoofSize(o) + 8 + SumF([w \in 0 .. (next - 1) |->
                        IF w < trafs[t][k].wo /\ \E x \in AllTruns : trafs[x[1]][x[2]].wo = w
                        THEN LET x == CHOOSE x \in AllTruns : trafs[x[1]][x[2]].wo = w IN TrunData(x[1], x[2]) ELSE 0], 0, next - 1)
\* position of each token in the file (moof at 0)
TokPos(o, k) == LET idx == CHOOSE j \in 1 .. Len(mdat) : mdat[j] = k
                IN MoofSize(o) + 8 + SumF([j \in 1 .. Len(mdat) |-> TokSize[mdat[j]]], 1, idx - 1)

Encode(opt) ==
    /\ enc = "none" /\ nadds >= 1
    /\ enc' = IF opt THEN "opt" ELSE "plain"
    /\ UNCHANGED <<trafs, next, tfdt, mdat, added, nadds>>
Next == (\E t \in TSet, c \in Classes : AddToTrack(t, c)) \/ (\E c \in Classes : AddFirst(c)) \/ (\E o \in BOOLEAN : Encode(o))
Spec == Init /\ [][Next]_vars

(* -------------------------------------------- Prop: ISO read-back = added *)
\* read track t from the Impl structure as encoded with optimisation o
ReadTrun(o, t, k, baseTime) ==
    LET tr == trafs[t][k]
        first == t = FirstT /\ k = 1
        n == Len(tr.samples)
        fld(i) == LET d == ClassDef(tr.samples[i].cls) IN
                  [dur |-> IF first /\ ~o.hasDur THEN o.defDur ELSE d.dur,
                   size |-> IF first /\ ~o.hasSize THEN o.defSize ELSE d.size,
                   flags |-> IF first /\ ~o.hasFlags THEN (IF i = 1 /\ o.firstFlags # -1 THEN o.firstFlags ELSE o.defFlags) ELSE d.flags,
                   cto |-> IF first /\ ~o.hasCto THEN 0 ELSE d.cto]
        sizes == [i \in 1 .. n |-> fld(i).size]
        durs == [i \in 1 .. n |-> fld(i).dur]
    IN [i \in 1 .. n |-> [f |-> fld(i), dts |-> baseTime + SumF(durs, 1, i - 1),
                          pos |-> OffsetOf(o, t, k) + SumF(sizes, 1, i - 1), tok |-> tr.samples[i].tok]]
RECURSIVE ReadTraf(_, _, _, _)
ReadTraf(o, t, k, baseTime) ==
    IF k > Len(trafs[t]) THEN <<>>
    ELSE LET r == ReadTrun(o, t, k, baseTime)
             d == SumF([i \in 1 .. Len(r) |-> r[i].f.dur], 1, Len(r))
         IN r \o ReadTraf(o, t, k + 1, baseTime + d)
ReadBackOK(opt) ==
    LET o == OptOf(opt) IN
    \A t \in TSet :
        LET r == ReadTraf(o, t, 1, tfdt[t]) IN
        /\ Len(r) = Len(added[t])
        /\ \A i \in 1 .. Len(r) :
              /\ r[i].f = ClassDef(added[t][i].cls)              \* dur, size, flags, cto
              /\ r[i].dts = added[t][i].dts                      \* decode time
              /\ r[i].tok = added[t][i].tok                      \* order
              /\ r[i].pos = TokPos(o, r[i].tok)                  \* the bytes read are the sample's own bytes
P1 == enc = "plain" => ReadBackOK(FALSE)
P2 == enc = "opt" => ReadBackOK(TRUE)
WriteOrderOK == \A x \in AllTruns, y \in AllTruns : (x # y) => trafs[x[1]][x[2]].wo # trafs[y[1]][y[2]].wo

Export == (DoExport /\ enc # "none") =>
    LET o == OptOf(enc = "opt") IN
    PrintT(ToJson([kind |-> Kind, tracks |-> TrackSeq, opt |-> enc = "opt",
                   hist |-> [k \in 1 .. nadds |-> LET t == CHOOSE t \in TSet : \E i \in 1 .. Len(added[t]) : added[t][i].tok = k
                                                      i == CHOOSE i \in 1 .. Len(added[t]) : added[t][i].tok = k
                                                  IN [t |-> t, cls |-> added[t][i].cls, dts |-> added[t][i].dts, d |-> ClassDef(added[t][i].cls), first |-> added[t][i].first]],
                   data |-> mdat,
                   impl |-> [truns |-> [i \in 1 .. Len(TrackSeq) |-> [k \in 1 .. Len(trafs[TrackSeq[i]]) |->
                                           [wo |-> trafs[TrackSeq[i]][k].wo, n |-> Len(trafs[TrackSeq[i]][k].samples), off |-> OffsetOf(o, TrackSeq[i], k)]]],
                             tfdt |-> [i \in 1 .. Len(TrackSeq) |-> tfdt[TrackSeq[i]]], moof |-> MoofSize(o), next |-> next]]))
=============================================================================
