--------------------------- MODULE ContainerShapes ---------------------------
(* C04, grammar G1: top-level box sequences over abstract box kinds whose structured kinds come in
   variants that remove, duplicate or corrupt exactly the children / fields the decoder and the
   File assembly code dereference (moov without trak, trak without mdia/minf/stbl/stts, moof without
   traf, traf without tfhd/trun, trun with data-offset flag and offset 0, senc without saio/saiz,
   saio with zero entries, senc sample count far beyond the payload, mdat beyond EOF, ftyp with
   0/4/7-byte payload, sidx with reference_type 1, mfra with no / inconsistent tfra ...).
   TLC enumerates every sequence up to MaxLen (all pairs, and triples behind the heads in Heads)
   and the materialiser turns each variant into bytes.                                          *)
EXTENDS Integers, Sequences, TLC, Json

CONSTANTS MaxLen, Heads, DoExport

Variants == {
  "ftyp", "ftyp-p0", "ftyp-p4", "ftyp-p7", "styp",
  "moov-prog", "moov-frag", "moov-notrak", "moov-trak-nomdia", "moov-trak-nominf", "moov-trak-nostbl", "moov-trak-nostts",
  "moov-nomvex", "moov-twomvhd", "moov-twotraks", "moov-enc", "moov-trak-nohdlr", "moov-trak-notkhd",
  "moof", "moof-notraf", "moof-traf-notfhd", "moof-traf-notrun", "moof-trun-offset0", "moof-twotrafs", "moof-nomfhd",
  "moof-senc-nosaio", "moof-saio0", "moof-senc-bigcount", "moof-seig-badidx", "moof-track2", "moof-trun-bigcount",
  "mdat", "mdat-empty", "mdat-large", "mdat-beyond",
  "sidx0", "sidx1", "sidx2", "sidx-type1", "mfra", "mfra-notfra", "mfra-count", "mfra-offset", "mfro",
  "emsg0", "emsg1", "prft", "free", "skip", "uuid-tfxd", "uuid-tfrf", "uuid-senc", "uuid-unknown", "unknown", "mfhd-toplevel", "trak-toplevel" }

AllHeads == Variants
VARIABLES seq
Init == seq = <<>>
Add(v) == /\ Len(seq) < MaxLen
          /\ (Len(seq) = 2 => seq[1] \in Heads)          \* triples only behind the listed heads
          /\ seq' = Append(seq, v)
Next == \E v \in Variants : Add(v)
Spec == Init /\ [][Next]_seq
Export == (DoExport /\ seq # <<>>) => PrintT(ToJson([id |-> "G1", shape |-> seq]))
=============================================================================
