------------------------------ MODULE CrossRefs ------------------------------
(* C04, grammar G7: boxes that REFER to each other. The decoders do not only parse boxes one by one: after a
   container is read they follow references between its children -
     traf : tfhd.track_ID -> moov/trak/.../tenc (default IV size), trun sample count <-> senc entry count <->
            saiz sample count, saio offset -> first byte of the senc entries, sbgp(seig).group_description_index ->
            sgpd(seig).entries[i] -> per-sample IV size (second-stage senc parse, TrafBox.ParseReadSenc)
     stbl : stts/ctts/stsz sample counts, stsc first_chunk / samples_per_chunk / sample_description_index ->
            stco/co64 chunk count, stsd entry count, stss sample numbers (helper columns built when decoding)
   A combination is a record giving one VARIANT per child (present and consistent, absent, empty, off by one,
   pointing outside, second version of the box ...). Baseline is the consistent combination; TLC enumerates every
   combination that deviates from the baseline in at most MaxDev children (MaxDev = number of children: the full
   product). The harness's own box writer turns each combination into a file; C04's monitor runs it through
   every decode / Info / encode configuration.

   Consistent(c) says which combinations the standard allows (ISO/IEC 14496-12 8.8.8, 8.7.8/8.7.9, 8.9.2/8.9.3,
   ISO/IEC 23001-7 7.2): it is exported with each combination, so that the trace records how many consistent and
   inconsistent combinations were run (a consistent one that the decoder REJECTS is reported as drift by the
   harness - it would mean the materialiser and the model disagree).                                        *)
EXTENDS Integers, FiniteSets, TLC, Json

CONSTANTS Mode,        \* "traf", "stbl" or "mfra"
          MaxDev, DoExport

TrafDims == [moov : {"enc", "frag", "none", "enc0"},
             tfhd : {"t1", "t9", "none", "sdi"},
             trun : {"n2", "n0", "none", "two", "nosize"},
             senc : {"n2", "n2s", "n0", "n3", "none", "uuid", "iv16", "short"},
             saiz : {"def8n2", "none", "tab2", "def0n0", "n3", "def16n2"},
             saio : {"match", "none", "e0", "off0", "two", "v1match"},
             sbgp : {"none", "in1", "in2", "gl1", "two", "roll", "zero"},
             sgpd : {"none", "seig0", "seig1", "seig1c", "seig2", "roll1", "v0"}]
TrafBase == [moov |-> "enc", tfhd |-> "t1", trun |-> "n2", senc |-> "n2", saiz |-> "def8n2", saio |-> "match",
             sbgp |-> "none", sgpd |-> "none"]

StblDims == [stsd : {"avc1", "none", "e0", "two"},
             stts : {"n2", "none", "n3", "e0", "zerocount"},
             ctts : {"none", "n2", "n1"},
             stsc : {"one", "none", "e0", "fc0", "fc2", "spc0", "desc", "sdi9"},
             stsz : {"tab2", "none", "uni2", "tab1", "cnt0"},
             stco : {"c1", "none", "e0", "co64", "c2"},
             stss : {"none", "s1", "s9", "e0", "s0"}]
StblBase == [stsd |-> "avc1", stts |-> "n2", ctts |-> "none", stsc |-> "one", stsz |-> "tab2", stco |-> "c1", stss |-> "none"]

\* mfra: the random access index at the end of a file with two fragments; under the ISM flag the file decoder reads it FIRST
\* (seek to the end, mfro size, tfra boxes) and uses the moof offsets of the first tfra as segment boundaries, after checking
\* further tfra boxes against it (8.8.9 - 8.8.11)
MfraDims == [tfra1 : {"e2", "e0", "e1", "none"},                     \* entries of the first tfra (one per fragment = e2)
             tfra2 : {"none", "e2", "e3", "e1", "e2later"},          \* a second tfra: same / more / fewer entries, other moof offsets
             ids : {"1-2", "1-1"},                                   \* track ids of the two tfra boxes
             offs : {"match", "eof", "zero", "desc"},                \* moof offsets: the real ones, beyond the end, 0, descending
             mfro : {"ok", "zero", "big", "none", "short"}]          \* mfro size: right, 0, beyond the file, box absent, smaller than the mfra
MfraBase == [tfra1 |-> "e2", tfra2 |-> "none", ids |-> "1-2", offs |-> "match", mfro |-> "ok"]
MfraConsistent(c) == c.tfra1 = "e2" /\ c.tfra2 \in {"none", "e2"} /\ c.ids = "1-2" /\ c.offs = "match" /\ c.mfro = "ok"

Dims == IF Mode = "traf" THEN TrafDims ELSE IF Mode = "stbl" THEN StblDims ELSE MfraDims
Base == IF Mode = "traf" THEN TrafBase ELSE IF Mode = "stbl" THEN StblBase ELSE MfraBase
Dev(c) == Cardinality({k \in DOMAIN c : c[k] # Base[k]})

(* what the standard allows *)
TrafConsistent(c) ==
    /\ c.tfhd \in {"t1", "sdi"}
    /\ (c.trun \in {"n2", "two"} \/ (c.trun = "nosize" /\ c.tfhd = "sdi"))
    /\ \/ (c.moov = "frag" /\ c.senc = "none" /\ c.saiz = "none" /\ c.saio = "none"
           /\ ((c.sbgp = "none" /\ c.sgpd \in {"none", "roll1"}) \/ (c.sbgp = "roll" /\ c.sgpd = "roll1")))
       \/ (c.moov = "enc"
           /\ ((c.senc \in {"n2", "uuid"} /\ c.saiz \in {"def8n2", "tab2"}) \/ (c.senc = "n2s" /\ c.saiz = "def16n2"))
           /\ c.saio \in {"match", "v1match"}
           /\ ((c.sbgp = "none" /\ c.sgpd \in {"none", "roll1"}) \/ (c.sbgp = "in1" /\ c.sgpd = "seig1") \/ (c.sbgp = "roll" /\ c.sgpd = "roll1")))
StblConsistent(c) ==
    /\ c.stsd = "avc1" /\ c.stts = "n2" /\ c.ctts \in {"none", "n2"} /\ c.stsc = "one"
    /\ c.stsz \in {"tab2", "uni2"} /\ c.stco \in {"c1", "co64"} /\ c.stss \in {"none", "s1"}
Consistent(c) == IF Mode = "traf" THEN TrafConsistent(c) ELSE IF Mode = "stbl" THEN StblConsistent(c) ELSE MfraConsistent(c)

VARIABLES combo, phase
vars == <<combo, phase>>
Init == /\ phase = "chosen"
        /\ combo \in {c \in Dims : Dev(c) <= MaxDev}
Next == \/ phase = "chosen" /\ phase' = "done" /\ UNCHANGED combo
        \/ phase = "done" /\ UNCHANGED vars
Spec == Init /\ [][Next]_vars

BaselineConsistent == Consistent(Base)                 \* the baseline is itself allowed
Export == (DoExport /\ phase = "done") => PrintT(ToJson([id |-> "G7", mode |-> Mode, combo |-> combo, dev |-> Dev(combo), consistent |-> Consistent(combo)]))
=============================================================================
