----------------------------- MODULE HevcSyntax -----------------------------
(* C15 (HEVC): Rec. ITU-T H.265 | ISO/IEC 23008-2 syntax tables as serialisers.
     PtlBits    7.3.3   profile_tier_level( 1, maxNumSubLayersMinus1 )
     SpsData    7.3.2.2 seq_parameter_set_rbsp (7.3.4 scaling_list_data, 7.3.7 st_ref_pic_set,
                        E.2.1 vui_parameters, E.2.2 hrd_parameters, E.2.3 sub_layer_hrd_parameters,
                        7.3.2.2.2 sps_range_extension)
     PpsData    7.3.2.3 pic_parameter_set_rbsp (tiles, deblocking, 7.3.2.3.2 pps_range_extension)
     SliceData  7.3.6.1 slice_segment_header (7.3.6.2 ref_pic_lists_modification, 7.3.6.3 pred_weight_table)
   and the derived quantities the standard defines: the cropped picture size (7-x conformance window with
   SubWidthC / SubHeightC), ChromaArrayType, the reference picture sets of inter-predicted st_ref_pic_set
   structures (7-61, 7-62), NumPicTotalCurr (7-55), PicSizeInCtbsY, and the size in bytes of the escaped
   slice segment header.
   The value vector is a record of syntax element values; the generator enumerates base vectors with one
   (or, Pairwise, two) overridden fields from each field's boundary set.                        *)
EXTENDS Bits, TLC, Json

CONSTANTS Struct,      \* "sps" | "pps" | "slice"
          Pairwise, DoExport

B(x) == IF x THEN <<1>> ELSE <<0>>
U(n, v) == BinW(v, n)
RECURSIVE Cat(_)
Cat(ss) == IF ss = <<>> THEN <<>> ELSE Head(ss) \o Cat(Tail(ss))
RECURSIVE CeilLog2(_)
CeilLog2(n) == IF n <= 1 THEN 0 ELSE 1 + CeilLog2((n + 1) \div 2)
Override(base, ov) == [f \in DOMAIN base |-> IF f \in DOMAIN ov THEN ov[f] ELSE base[f]]
Min(a, b) == IF a < b THEN a ELSE b

(* ------------------------------------------------- profile_tier_level 7.3.3 *)
\* layer record: space(2) tier idc(5) compat (32-bit sequence) flags4 (4-bit sequence: progressive, interlaced,
\* non_packed, frame_only) cons (44-bit sequence: 43 constraint bits + inbld/reserved bit) level(8)
LayerProfileBits(l) == U(2, l.space) \o B(l.tier) \o U(5, l.idc) \o l.compat \o l.flags4 \o l.cons
PtlBits(p, maxsub) ==
    LayerProfileBits(p.general) \o U(8, p.general.level)
    \o Cat([i \in 1 .. maxsub |-> B(p.sub[i].pp) \o B(p.sub[i].lp)])
    \o (IF maxsub > 0 THEN Zeros(2 * (8 - maxsub)) ELSE <<>>)
    \o Cat([i \in 1 .. maxsub |-> (IF p.sub[i].pp THEN LayerProfileBits(p.sub[i].l) ELSE <<>>)
                                  \o (IF p.sub[i].lp THEN U(8, p.sub[i].l.level) ELSE <<>>)])
LayerBase == [space |-> 0, tier |-> FALSE, idc |-> 1, compat |-> U(32, 1610612736), flags4 |-> <<1, 0, 0, 1>>, cons |-> Zeros(44), level |-> 93]
SubLayerOf(pp, lp, n) == [pp |-> pp, lp |-> lp, l |-> [LayerBase EXCEPT !.idc = 2, !.tier = TRUE, !.level = 60 + n, !.compat = U(32, 7 + n), !.flags4 = <<0, 1, 1, 0>>,
                                                                      !.cons = <<1>> \o Zeros(41) \o <<1, 1>>]]
PtlBase == [general |-> LayerBase, sub |-> <<SubLayerOf(TRUE, TRUE, 1), SubLayerOf(FALSE, TRUE, 2), SubLayerOf(TRUE, FALSE, 3),
                                               SubLayerOf(FALSE, FALSE, 4), SubLayerOf(TRUE, TRUE, 5), SubLayerOf(TRUE, TRUE, 6)>>]

(* -------------------------------------------------- scaling_list_data 7.3.4 *)
\* kinds: "pred" every list predicted (pred_mode_flag 0, delta 0 or 1); "explicit" every list coded with
\* dc coefficients and a wrapping delta pattern; "mixed"
ListBits(kind, sizeId, matrixId) ==
    LET coefNum == Min(64, 2 ^ (4 + 2 * sizeId))
        explicit == kind = "explicit" \/ (kind = "mixed" /\ (sizeId + matrixId) % 2 = 0)
    IN IF ~explicit THEN <<0>> \o UECode(IF matrixId > 0 /\ kind = "mixed" THEN 1 ELSE 0)
       ELSE <<1>> \o (IF sizeId > 1 THEN SECode(sizeId - 7) ELSE <<>>)
            \o Cat([i \in 1 .. coefNum |-> SECode(IF i = 1 THEN -20 ELSE IF i = 2 THEN 127 ELSE IF i % 5 = 0 THEN -128 ELSE 0)])
ScalingListBits(kind) == Cat([s \in 1 .. 4 |-> Cat([m \in 1 .. (IF s = 4 THEN 2 ELSE 6) |-> ListBits(kind, s - 1, m - 1)])])

(* ---------------------------------------------------- st_ref_pic_set 7.3.7 *)
\* explicit set: [inter |-> FALSE, neg |-> <<[d |-> delta_poc_s0_minus1, u |-> used]...>>, pos |-> <<...>>]
\* predicted set: [inter |-> TRUE, didx |-> delta_idx_minus1 (coded in slice headers only), sign |-> 0/1, absm1 |-> abs_delta_rps_minus1,
\*                 fl |-> <<[u |-> used_by_curr_pic_flag, d |-> use_delta_flag]...>>]  (Len = NumDeltaPocs[RefRpsIdx] + 1)
\* derived set (7-61 / 7-62 for predicted sets): [s0 |-> <<[p |-> DeltaPocS0, u |-> UsedByCurrPicS0]..>>, s1 |-> <<..>>], p signed
RECURSIVE AccPoc(_, _, _, _)
AccPoc(es, i, acc, sgn) == IF i > Len(es) THEN <<>>
                           ELSE LET p == acc + sgn * (es[i].d + 1) IN <<[p |-> p, u |-> es[i].u]>> \o AccPoc(es, i + 1, p, sgn)
DerivedExplicit(r) == [s0 |-> AccPoc(r.neg, 1, 0, -1), s1 |-> AccPoc(r.pos, 1, 0, 1)]
UseDelta(f) == f.u \/ f.d
RECURSIVE RevSel(_, _, _, _, _), FwdSel(_, _, _, _, _)
\* entries j = from down to 1 of `src` (with flag offset off) whose dPoc has the wanted sign
RevSel(src, j, off, r, neg) == IF j < 1 THEN <<>>
                               ELSE LET dp == src[j].p + (1 - 2 * r.sign) * (r.absm1 + 1)
                                        f == r.fl[off + j]
                                    IN (IF ((neg /\ dp < 0) \/ (~neg /\ dp > 0)) /\ UseDelta(f) THEN <<[p |-> dp, u |-> f.u]>> ELSE <<>>)
                                       \o RevSel(src, j - 1, off, r, neg)
FwdSel(src, j, off, r, neg) == IF j > Len(src) THEN <<>>
                               ELSE LET dp == src[j].p + (1 - 2 * r.sign) * (r.absm1 + 1)
                                        f == r.fl[off + j]
                                    IN (IF ((neg /\ dp < 0) \/ (~neg /\ dp > 0)) /\ UseDelta(f) THEN <<[p |-> dp, u |-> f.u]>> ELSE <<>>)
                                       \o FwdSel(src, j + 1, off, r, neg)
DerivedInter(r, ref) ==
    LET dRps == (1 - 2 * r.sign) * (r.absm1 + 1)
        nneg == Len(ref.s0)
        last == r.fl[Len(ref.s0) + Len(ref.s1) + 1]
    IN [s0 |-> RevSel(ref.s1, Len(ref.s1), nneg, r, TRUE)
               \o (IF dRps < 0 /\ UseDelta(last) THEN <<[p |-> dRps, u |-> last.u]>> ELSE <<>>)
               \o FwdSel(ref.s0, 1, 0, r, TRUE),
        s1 |-> RevSel(ref.s0, nneg, 0, r, FALSE)
               \o (IF dRps > 0 /\ UseDelta(last) THEN <<[p |-> dRps, u |-> last.u]>> ELSE <<>>)
               \o FwdSel(ref.s1, 1, nneg, r, FALSE)]
\* derived sets of a list of RPS structures (set i predicted from i-1 in an SPS: delta_idx_minus1 is inferred 0)
RECURSIVE DerivedAll(_, _, _)
DerivedAll(rs, i, acc) == IF i > Len(rs) THEN acc
                          ELSE DerivedAll(rs, i + 1, Append(acc, IF rs[i].inter THEN DerivedInter(rs[i], acc[i - 1]) ELSE DerivedExplicit(rs[i])))
NumDelta(d) == Len(d.s0) + Len(d.s1)
UsedCount(d) == Len(SelectSeq(d.s0, LAMBDA e : e.u)) + Len(SelectSeq(d.s1, LAMBDA e : e.u))
\* bits of st_ref_pic_set( idx ); inSlice: idx = num_short_term_ref_pic_sets
RpsBits(r, idx, inSlice) ==
    (IF idx # 0 THEN B(r.inter) ELSE <<>>)
    \o (IF r.inter
        THEN (IF inSlice THEN UECode(r.didx) ELSE <<>>) \o U(1, r.sign) \o UECode(r.absm1)
             \o Cat([j \in 1 .. Len(r.fl) |-> B(r.fl[j].u) \o (IF ~r.fl[j].u THEN B(r.fl[j].d) ELSE <<>>)])
        ELSE UECode(Len(r.neg)) \o UECode(Len(r.pos))
             \o Cat([j \in 1 .. Len(r.neg) |-> UECode(r.neg[j].d) \o B(r.neg[j].u)])
             \o Cat([j \in 1 .. Len(r.pos) |-> UECode(r.pos[j].d) \o B(r.pos[j].u)]))
RpsA == [inter |-> FALSE, neg |-> <<[d |-> 0, u |-> TRUE], [d |-> 1, u |-> FALSE]>>, pos |-> <<[d |-> 0, u |-> TRUE]>>]           \* -1, -3 | +1
RpsB == [inter |-> FALSE, neg |-> <<[d |-> 3, u |-> TRUE]>>, pos |-> <<>>]                                                          \* -4
RpsC == [inter |-> FALSE, neg |-> <<>>, pos |-> <<>>]
\* predicted from RpsA (3 delta pocs -> 4 flag pairs)
RpsInterOfA(sign, absm1, fl) == [inter |-> TRUE, didx |-> 0, sign |-> sign, absm1 |-> absm1, fl |-> fl]
FU == [u |-> TRUE, d |-> TRUE]
FD == [u |-> FALSE, d |-> TRUE]
FN == [u |-> FALSE, d |-> FALSE]
RpsLists == [none |-> <<>>,
             one |-> <<RpsA>>,
             two |-> <<RpsA, RpsB>>,
             three |-> <<RpsB, RpsC, RpsA>>,
             inter |-> <<RpsA, RpsInterOfA(1, 0, <<FU, FU, FU, FU>>)>>,                        \* deltaRps = -1: -2, -4 | (+1-1 = 0 dropped); plus -1
             interpos |-> <<RpsA, RpsInterOfA(0, 0, <<FU, FD, FU, FN>>), RpsB>>,               \* deltaRps = +1: -1+1 = 0 dropped, -3+1 = -2 | +2; last not used
             interchain |-> <<RpsA, RpsInterOfA(1, 1, <<FU, FU, FD, FU>>), RpsC>>]             \* deltaRps = -2
RpsNames == {"none", "one", "two", "three", "inter", "interpos", "interchain"}

(* ------------------------------------------------------------- HRD E.2.2/E.2.3 *)
SubHrdBits(h, cpbcnt, i) == Cat([k \in 1 .. (cpbcnt + 1) |->
                                   UECode(h.br + 7 * i + k) \o UECode(h.cpb + 3 * i + k)
                                   \o (IF h.subpic THEN UECode(h.cpbdu + i + 5 * k) \o UECode(h.brdu + 11 * i + k) ELSE <<>>) \o B((i + k) % 2 = 0)])
HrdBits(h, maxsub) ==
    B(h.nal) \o B(h.vcl)
    \o (IF h.nal \/ h.vcl
        THEN B(h.subpic) \o (IF h.subpic THEN U(8, h.tick) \o U(5, h.dulen) \o B(h.insei) \o U(5, h.dpbdulen) ELSE <<>>)
             \o U(4, h.brscale) \o U(4, h.cpbscale) \o (IF h.subpic THEN U(4, h.duscale) ELSE <<>>)
             \o U(5, h.initlen) \o U(5, h.aulen) \o U(5, h.dpblen)
        ELSE <<>>)
    \o Cat([k \in 1 .. (maxsub + 1) |->
              LET i == k - 1
                  s == h.layers[((k - 1) % 3) + 1] IN
              B(s.fixedgen) \o (IF ~s.fixedgen THEN B(s.fixedcvs) ELSE <<>>)
              \o (IF s.fixedgen \/ s.fixedcvs THEN UECode(s.elem) ELSE B(s.lowdelay))
              \o (IF ~(~(s.fixedgen \/ s.fixedcvs) /\ s.lowdelay) THEN UECode(s.cpbcnt) ELSE <<>>)
              \o (IF h.nal THEN SubHrdBits(h, IF ~(s.fixedgen \/ s.fixedcvs) /\ s.lowdelay THEN 0 ELSE s.cpbcnt, i) ELSE <<>>)
              \o (IF h.vcl THEN SubHrdBits(h, IF ~(s.fixedgen \/ s.fixedcvs) /\ s.lowdelay THEN 0 ELSE s.cpbcnt, i + 3) ELSE <<>>)])
HrdLayer(fg, fc, ld, cc) == [fixedgen |-> fg, fixedcvs |-> fc, elem |-> 1000, lowdelay |-> ld, cpbcnt |-> cc]
HrdBase == [nal |-> TRUE, vcl |-> FALSE, subpic |-> FALSE, tick |-> 98, dulen |-> 9, insei |-> TRUE, dpbdulen |-> 7, brscale |-> 4, cpbscale |-> 6, duscale |-> 3,
            initlen |-> 23, aulen |-> 15, dpblen |-> 5, br |-> 1000, cpb |-> 2000, cpbdu |-> 311, brdu |-> 1249,
            layers |-> <<HrdLayer(TRUE, FALSE, FALSE, 0), HrdLayer(FALSE, TRUE, FALSE, 1), HrdLayer(FALSE, FALSE, TRUE, 0)>>]

(* --------------------------------------------------------------------- VUI E.2.1 *)
VuiBits(u, maxsub) ==
    B(u.arflag) \o (IF u.arflag THEN U(8, u.aridc) \o (IF u.aridc = 255 THEN U(16, u.sarw) \o U(16, u.sarh) ELSE <<>>) ELSE <<>>)
    \o B(u.overscan) \o (IF u.overscan THEN B(u.overscanapp) ELSE <<>>)
    \o B(u.vsig) \o (IF u.vsig THEN U(3, u.vformat) \o B(u.fullrange) \o B(u.colourdesc)
                                     \o (IF u.colourdesc THEN U(8, u.prim) \o U(8, u.transfer) \o U(8, u.matrix) ELSE <<>>) ELSE <<>>)
    \o B(u.chromaloc) \o (IF u.chromaloc THEN UECode(u.loctop) \o UECode(u.locbot) ELSE <<>>)
    \o B(u.neutral) \o B(u.fieldseq) \o B(u.framefield)
    \o B(u.ddw) \o (IF u.ddw THEN UECode(u.dl) \o UECode(u.dr) \o UECode(u.dt) \o UECode(u.db) ELSE <<>>)
    \o B(u.timing) \o (IF u.timing THEN u.units \o u.timescale \o B(u.pocprop) \o (IF u.pocprop THEN UECode(u.ticks) ELSE <<>>)
                                         \o B(u.hrdon) \o (IF u.hrdon THEN HrdBits(u.hrd, maxsub) ELSE <<>>) ELSE <<>>)
    \o B(u.bsr) \o (IF u.bsr THEN B(u.tilesfixed) \o B(u.mvover) \o B(u.restricted) \o UECode(u.minseg) \o UECode(u.maxbytes) \o UECode(u.maxbits)
                                   \o UECode(u.mvh) \o UECode(u.mvv) ELSE <<>>)
VuiBase == [on |-> TRUE, arflag |-> TRUE, aridc |-> 1, sarw |-> 40, sarh |-> 33, overscan |-> FALSE, overscanapp |-> TRUE, vsig |-> FALSE, vformat |-> 5,
            fullrange |-> TRUE, colourdesc |-> FALSE, prim |-> 1, transfer |-> 2, matrix |-> 6, chromaloc |-> FALSE, loctop |-> 2, locbot |-> 3,
            neutral |-> FALSE, fieldseq |-> FALSE, framefield |-> FALSE, ddw |-> FALSE, dl |-> 1, dr |-> 2, dt |-> 3, db |-> 4,
            timing |-> FALSE, units |-> U(32, 1001), timescale |-> U(32, 60000), pocprop |-> FALSE, ticks |-> 1, hrdon |-> FALSE, hrd |-> HrdBase,
            bsr |-> FALSE, tilesfixed |-> TRUE, mvover |-> TRUE, restricted |-> FALSE, minseg |-> 7, maxbytes |-> 2, maxbits |-> 1, mvh |-> 15, mvv |-> 14]

(* --------------------------------------------------------------------- SPS 7.3.2.2 *)
RangeExtBits(x) == Cat([i \in 1 .. 9 |-> <<x[i]>>])
SpsData(v) ==
    LET subs == [i \in 1 .. v.maxsub |-> PtlBase.sub[i]]
        rps == RpsLists[v.rps]
    IN U(4, v.vps) \o U(3, v.maxsub) \o B(v.nesting) \o PtlBits([general |-> v.ptl, sub |-> subs], v.maxsub)
       \o UECode(v.id) \o UECode(v.chroma) \o (IF v.chroma = 3 THEN B(v.sepcol) ELSE <<>>)
       \o UECode(v.w) \o UECode(v.h)
       \o B(v.conf) \o (IF v.conf THEN UECode(v.cl) \o UECode(v.cr) \o UECode(v.ct) \o UECode(v.cb) ELSE <<>>)
       \o UECode(v.bdl) \o UECode(v.bdc) \o UECode(v.log2poc)
       \o B(v.subord) \o Cat([k \in 1 .. (IF v.subord THEN v.maxsub + 1 ELSE 1) |-> LET i == (IF v.subord THEN 0 ELSE v.maxsub) + k - 1 IN UECode(v.dpb + i) \o UECode(v.reorder + i) \o UECode(v.latency + 2 * i)])
       \o UECode(v.mincb) \o UECode(v.diffcb) \o UECode(v.mintb) \o UECode(v.difftb) \o UECode(v.depthinter) \o UECode(v.depthintra)
       \o B(v.scaling # "none") \o (IF v.scaling # "none" THEN B(v.scaling # "default") \o (IF v.scaling # "default" THEN ScalingListBits(v.scaling) ELSE <<>>) ELSE <<>>)
       \o B(v.amp) \o B(v.sao)
       \o B(v.pcm) \o (IF v.pcm THEN U(4, v.pcml) \o U(4, v.pcmc) \o UECode(v.pcmmin) \o UECode(v.pcmdiff) \o B(v.pcmloop) ELSE <<>>)
       \o UECode(Len(rps)) \o Cat([i \in 1 .. Len(rps) |-> RpsBits(rps[i], i - 1, FALSE)])
       \o B(v.ltpresent) \o (IF v.ltpresent THEN UECode(Len(v.lt)) \o Cat([i \in 1 .. Len(v.lt) |-> U(v.log2poc + 4, v.lt[i].poc % (2 ^ (v.log2poc + 4))) \o B(v.lt[i].u)]) ELSE <<>>)
       \o B(v.tmvp) \o B(v.strong)
       \o B(v.vui.on) \o (IF v.vui.on THEN VuiBits(v.vui, v.maxsub) ELSE <<>>)
       \o B(v.ext) \o (IF v.ext THEN B(v.rext # <<>>) \o <<0, 0, 0>> \o <<0, 0, 0, 0>> ELSE <<>>)
       \o (IF v.ext /\ v.rext # <<>> THEN RangeExtBits(v.rext) ELSE <<>>)
NalBytes2(type, tid, rbspBits) == <<2 * type, tid>> \o Escape(Pack(RbspTrail(rbspBits)))
SpsNal(v) == NalBytes2(33, 1, SpsData(v))
SubWidthC(v) == IF v.chroma \in {1, 2} THEN 2 ELSE 1
SubHeightC(v) == IF v.chroma = 1 THEN 2 ELSE 1
WidthOf(v) == v.w - (IF v.conf THEN SubWidthC(v) * (v.cl + v.cr) ELSE 0)
HeightOf(v) == v.h - (IF v.conf THEN SubHeightC(v) * (v.ct + v.cb) ELSE 0)
ChromaArrayType(v) == IF v.chroma = 3 /\ v.sepcol THEN 0 ELSE v.chroma
CtbSizeY(v) == 2 ^ (v.mincb + 3 + v.diffcb)
PicSizeInCtbsY(v) == ((v.w + CtbSizeY(v) - 1) \div CtbSizeY(v)) * ((v.h + CtbSizeY(v) - 1) \div CtbSizeY(v))

SpsBase == [vps |-> 0, maxsub |-> 0, nesting |-> TRUE, ptl |-> LayerBase, id |-> 0, chroma |-> 1, sepcol |-> FALSE, w |-> 1920, h |-> 1088,
            conf |-> TRUE, cl |-> 0, cr |-> 0, ct |-> 0, cb |-> 4, bdl |-> 0, bdc |-> 0, log2poc |-> 4, subord |-> TRUE, dpb |-> 4, reorder |-> 2, latency |-> 5,
            mincb |-> 0, diffcb |-> 3, mintb |-> 0, difftb |-> 3, depthinter |-> 2, depthintra |-> 1, scaling |-> "none", amp |-> TRUE, sao |-> TRUE,
            pcm |-> FALSE, pcml |-> 7, pcmc |-> 6, pcmmin |-> 0, pcmdiff |-> 2, pcmloop |-> TRUE, rps |-> "one", ltpresent |-> FALSE,
            lt |-> <<[poc |-> 5, u |-> TRUE], [poc |-> 200, u |-> FALSE]>>, tmvp |-> TRUE, strong |-> TRUE, vui |-> [VuiBase EXCEPT !.on = FALSE],
            ext |-> FALSE, rext |-> <<>>]
SpsBases == {SpsBase,
             [SpsBase EXCEPT !.maxsub = 2, !.nesting = FALSE, !.subord = FALSE, !.id = 3, !.vps = 7],
             [SpsBase EXCEPT !.maxsub = 6, !.id = 15, !.vps = 15, !.rps = "three"],
             [SpsBase EXCEPT !.chroma = 3, !.sepcol = TRUE, !.bdl = 2, !.bdc = 2, !.cl = 1, !.ct = 2, !.id = 1, !.ext = TRUE, !.rext = <<1, 0, 1, 0, 1, 0, 1, 0, 1>>],
             [SpsBase EXCEPT !.chroma = 2, !.w = 720, !.h = 576, !.cr = 3, !.rps = "inter", !.ltpresent = TRUE],
             [SpsBase EXCEPT !.chroma = 0, !.conf = FALSE, !.pcm = TRUE, !.scaling = "mixed", !.rps = "interpos"],
             [SpsBase EXCEPT !.vui = VuiBase, !.rps = "interchain", !.maxsub = 1]}
SpsFieldVals ==
    [vps : {0, 15}] \cup [maxsub : {0, 1, 6}] \cup [nesting : BOOLEAN] \cup [id : {0, 1, 15}] \cup [chroma : {0, 1, 2, 3}] \cup [sepcol : BOOLEAN]
    \cup [ptl : {[LayerBase EXCEPT !.space = 3, !.tier = TRUE, !.idc = 31], [LayerBase EXCEPT !.compat = Ones(32), !.flags4 = <<0, 1, 1, 0>>, !.level = 255],
                 [LayerBase EXCEPT !.cons = Ones(44), !.level = 0, !.idc = 4], [LayerBase EXCEPT !.cons = <<1>> \o Zeros(43), !.compat = Zeros(32)]}]
    \cup [w : {8, 64, 4096, 8192}] \cup [h : {8, 64, 2160, 4320}] \cup [conf : BOOLEAN] \cup [cl : {0, 1, 3}] \cup [cr : {0, 1, 3}] \cup [ct : {0, 1, 2}] \cup [cb : {0, 1, 2}]
    \cup [bdl : {0, 2, 8}] \cup [bdc : {0, 2, 8}] \cup [log2poc : {0, 4, 12}] \cup [subord : BOOLEAN] \cup [dpb : {0, 15}] \cup [reorder : {0, 15}] \cup [latency : {0, 200}]
    \cup [mincb : {0, 1, 3}] \cup [diffcb : {0, 1, 3}] \cup [mintb : {0, 3}] \cup [difftb : {0, 3}] \cup [depthinter : {0, 4}] \cup [depthintra : {0, 4}]
    \cup [scaling : {"none", "default", "pred", "explicit", "mixed"}] \cup [amp : BOOLEAN] \cup [sao : BOOLEAN] \cup [pcm : BOOLEAN] \cup [pcml : {0, 15}] \cup [pcmc : {0, 15}]
    \cup [pcmmin : {0, 2}] \cup [pcmdiff : {0, 2}] \cup [pcmloop : BOOLEAN] \cup [rps : RpsNames] \cup [ltpresent : BOOLEAN]
    \cup [lt : {<<>>, <<[poc |-> 0, u |-> FALSE]>>, <<[poc |-> 15, u |-> TRUE], [poc |-> 1, u |-> TRUE], [poc |-> 9, u |-> FALSE]>>}]
    \cup [tmvp : BOOLEAN] \cup [strong : BOOLEAN] \cup [ext : BOOLEAN] \cup [rext : {<<>>, Ones(9), <<0, 1, 0, 1, 0, 1, 0, 1, 0>>}]
VuiFieldVals ==
    [arflag : BOOLEAN] \cup [aridc : {0, 1, 13, 16, 255}] \cup [sarw : {1, 65535}] \cup [sarh : {1, 65535}] \cup [overscan : BOOLEAN] \cup [overscanapp : BOOLEAN]
    \cup [vsig : BOOLEAN] \cup [vformat : {0, 7}] \cup [fullrange : BOOLEAN] \cup [colourdesc : BOOLEAN] \cup [prim : {1, 9, 255}] \cup [transfer : {1, 16, 18}]
    \cup [matrix : {0, 9}] \cup [chromaloc : BOOLEAN] \cup [loctop : {0, 5}] \cup [locbot : {0, 5}] \cup [neutral : BOOLEAN] \cup [fieldseq : BOOLEAN] \cup [framefield : BOOLEAN]
    \cup [ddw : BOOLEAN] \cup [dl : {0, 9}] \cup [dr : {0, 9}] \cup [dt : {0, 9}] \cup [db : {0, 9}] \cup [timing : BOOLEAN]
    \cup [units : {U(32, 1), Ones(32), <<1>> \o Zeros(31)}] \cup [timescale : {U(32, 50), Ones(32)}] \cup [pocprop : BOOLEAN] \cup [ticks : {0, 1000}] \cup [hrdon : BOOLEAN]
    \cup [bsr : BOOLEAN] \cup [tilesfixed : BOOLEAN] \cup [mvover : BOOLEAN] \cup [restricted : BOOLEAN] \cup [minseg : {0, 4095}] \cup [maxbytes : {0, 16}]
    \cup [maxbits : {0, 16}] \cup [mvh : {0, 16}] \cup [mvv : {0, 15}]
HrdFieldVals ==
    [nal : BOOLEAN] \cup [vcl : BOOLEAN] \cup [subpic : BOOLEAN] \cup [tick : {0, 255}] \cup [dulen : {0, 31}] \cup [insei : BOOLEAN] \cup [dpbdulen : {0, 31}]
    \cup [brscale : {0, 15}] \cup [cpbscale : {0, 15}] \cup [duscale : {0, 15}] \cup [initlen : {0, 31}] \cup [aulen : {0, 31}] \cup [dpblen : {0, 31}]
    \cup [br : {0, 100000}] \cup [cpb : {0, 100000}] \cup [cpbdu : {0, 5}] \cup [brdu : {0, 70000}]
    \cup [layers : {<<HrdLayer(FALSE, FALSE, FALSE, 2), HrdLayer(TRUE, TRUE, TRUE, 1), HrdLayer(FALSE, TRUE, TRUE, 3)>>,
                    <<HrdLayer(FALSE, FALSE, TRUE, 5), HrdLayer(FALSE, FALSE, FALSE, 0), HrdLayer(TRUE, FALSE, FALSE, 31)>>}]
SpsValid(v) == /\ WidthOf(v) > 0 /\ HeightOf(v) > 0
               /\ (v.sepcol => v.chroma = 3) /\ (v.rext # <<>> => v.ext)
SpsVectors ==
    LET one == {Override(b, o) : b \in SpsBases, o \in SpsFieldVals}
        timed == [VuiBase EXCEPT !.timing = TRUE, !.hrdon = TRUE]
        vuis == {[b EXCEPT !.vui = Override(VuiBase, o)] : b \in {SpsBase, [SpsBase EXCEPT !.maxsub = 2]}, o \in VuiFieldVals}
                \cup {[b EXCEPT !.vui = [timed EXCEPT !.hrd = Override(HrdBase, o)]] : b \in {SpsBase, [SpsBase EXCEPT !.maxsub = 2]}, o \in HrdFieldVals}
                \cup {[SpsBase EXCEPT !.maxsub = 1, !.vui = [timed EXCEPT !.hrd = Override(Override(HrdBase, o1), o2)]] :
                         o1 \in [subpic : {TRUE}] \cup [vcl : {TRUE}] \cup [nal : {FALSE}], o2 \in HrdFieldVals}
        two == IF Pairwise THEN {Override(Override(b, o1), o2) : b \in {SpsBase, [SpsBase EXCEPT !.maxsub = 1, !.rps = "inter", !.ltpresent = TRUE]}, o1 \in SpsFieldVals, o2 \in SpsFieldVals} ELSE {}
    IN {v \in one \cup vuis \cup two : SpsValid(v)}

(* --------------------------------------------------------------------- PPS 7.3.2.3 *)
PpsRangeBits(p) == (IF p.tskip THEN UECode(p.rx.log2skip) ELSE <<>>) \o B(p.rx.ccp) \o B(p.rx.cqlist)
                   \o (IF p.rx.cqlist THEN UECode(p.rx.cqdepth) \o UECode(Len(p.rx.cblist) - 1)
                                           \o Cat([i \in 1 .. Len(p.rx.cblist) |-> SECode(p.rx.cblist[i]) \o SECode(0 - p.rx.cblist[i])]) ELSE <<>>)
                   \o UECode(p.rx.saoluma) \o UECode(p.rx.saochroma)
\* F.7.3.2.3.4 pps_multilayer_extension with F.7.3.2.3.5 colour_mapping_table (octant depth 0, one luma partition: the four
\* vertices of the single octant follow, the first one coded when cmcoded), I.7.3.2.3.7 pps_3d_extension (every depth layer
\* either without a table or with an empty delta table), 7.3.2.3.3 pps_scc_extension
LocBits(l) == U(6, l.id) \o B(l.scaled # <<>>) \o Cat([i \in 1 .. Len(l.scaled) |-> SECode(l.scaled[i])])
              \o B(l.region # <<>>) \o Cat([i \in 1 .. Len(l.region) |-> SECode(l.region[i])])
              \o B(l.phase # <<>>) \o Cat([i \in 1 .. Len(l.phase) |-> UECode(l.phase[i])])
CmResLsBits(m) == LET v == 10 + m.cmbd[1] - m.cmbd[3] - m.cmres - (m.cmflc + 1) IN IF v < 0 THEN 0 ELSE v
CmCoeffBits(m, q, r) == UECode(q) \o U(CmResLsBits(m), r) \o (IF q # 0 \/ r # 0 THEN <<1>> ELSE <<>>)
CmBits(m) == UECode(Len(m.cmlayers) - 1) \o Cat([i \in 1 .. Len(m.cmlayers) |-> U(6, m.cmlayers[i])]) \o U(2, 0) \o U(2, 0)
             \o Cat([i \in 1 .. 4 |-> UECode(m.cmbd[i])]) \o U(2, m.cmres) \o U(2, m.cmflc)
             \o (IF m.cmcoded THEN <<1>> \o CmCoeffBits(m, 0, 0) \o CmCoeffBits(m, 1, 0) \o CmCoeffBits(m, 2, IF CmResLsBits(m) = 0 THEN 0 ELSE 1) ELSE <<0>>) \o <<0, 0, 0>>
MlBits(m) == B(m.poc) \o B(m.infer) \o (IF m.infer THEN U(6, m.inferid) ELSE <<>>)
             \o UECode(Len(m.locs)) \o Cat([i \in 1 .. Len(m.locs) |-> LocBits(m.locs[i])])
             \o B(m.cm) \o (IF m.cm THEN CmBits(m) ELSE <<>>)
D3Bits(d) == B(d.dlts) \o (IF d.dlts THEN U(6, d.layers) \o U(4, d.depth)
                                          \o Cat([i \in 1 .. (d.layers + 1) |-> IF d.dlt = "off" THEN <<0>> ELSE <<1, 0, 0>> \o U(d.depth + 8, 0)]) ELSE <<>>)
SccBits(x) == B(x.currpic) \o B(x.ract) \o (IF x.ract THEN B(x.actpresent) \o Cat([i \in 1 .. 3 |-> SECode(x.actoff[i])]) ELSE <<>>)
              \o B(x.palon) \o (IF x.palon THEN UECode(Len(x.pal))
                    \o (IF Len(x.pal) > 0 THEN B(x.mono) \o UECode(x.lbd) \o (IF ~x.mono THEN UECode(x.cbd) ELSE <<>>)
                                               \o Cat([i \in 1 .. Len(x.pal) |-> U(x.lbd + 8, x.pal[i])])
                                               \o (IF ~x.mono THEN Cat([i \in 1 .. Len(x.pal) |-> U(x.cbd + 8, x.pal[i])]) \o Cat([i \in 1 .. Len(x.pal) |-> U(x.cbd + 8, Len(x.pal) - i)])
                                                   ELSE <<>>) ELSE <<>>) ELSE <<>>)
PpsData(p) ==
    UECode(p.id) \o UECode(p.spsid) \o B(p.depslices) \o B(p.outflag) \o U(3, p.extrabits) \o B(p.signhide) \o B(p.cabacinit)
    \o UECode(p.l0) \o UECode(p.l1) \o SECode(p.qp) \o B(p.cintra) \o B(p.tskip) \o B(p.cuqp) \o (IF p.cuqp THEN UECode(p.cuqpdepth) ELSE <<>>)
    \o SECode(p.cbqp) \o SECode(p.crqp) \o B(p.slicecq) \o B(p.wpred) \o B(p.wbipred) \o B(p.tqbypass) \o B(p.tiles) \o B(p.wpp)
    \o (IF p.tiles THEN UECode(Len(p.cols)) \o UECode(Len(p.rows)) \o B(p.uniform)
                        \o (IF ~p.uniform THEN Cat([i \in 1 .. Len(p.cols) |-> UECode(p.cols[i])]) \o Cat([i \in 1 .. Len(p.rows) |-> UECode(p.rows[i])]) ELSE <<>>)
                        \o B(p.lftiles) ELSE <<>>)
    \o B(p.lfslices) \o B(p.dbctrl) \o (IF p.dbctrl THEN B(p.dboverride) \o B(p.dboff) \o (IF ~p.dboff THEN SECode(p.beta) \o SECode(p.tc) ELSE <<>>) ELSE <<>>)
    \o B(p.scaling # "none") \o (IF p.scaling # "none" THEN ScalingListBits(p.scaling) ELSE <<>>)
    \o B(p.listsmod) \o UECode(p.pmerge) \o B(p.shext)
    \o B(p.ext) \o (IF p.ext THEN B(p.rxon) \o B(p.mlx.on) \o B(p.d3x.on) \o B(p.sccx.on) \o <<0, 0, 0, 0>> ELSE <<>>)
    \o (IF p.ext /\ p.rxon THEN PpsRangeBits(p) ELSE <<>>)
    \o (IF p.ext /\ p.mlx.on THEN MlBits(p.mlx) ELSE <<>>)
    \o (IF p.ext /\ p.d3x.on THEN D3Bits(p.d3x) ELSE <<>>)
    \o (IF p.ext /\ p.sccx.on THEN SccBits(p.sccx) ELSE <<>>)
PpsNal(p) == NalBytes2(34, 1, PpsData(p))
LocFull == [id |-> 5, scaled |-> <<-16384, 16383, 0, 1>>, region |-> <<2, -2, 100, -100>>, phase |-> <<31, 0, 63, 8>>]
MlBase == [on |-> FALSE, poc |-> FALSE, infer |-> FALSE, inferid |-> 0, locs |-> <<>>, cm |-> FALSE, cmlayers |-> <<0>>, cmbd |-> <<0, 0, 0, 0>>, cmres |-> 0, cmflc |-> 0,
           cmcoded |-> FALSE]
MlOn == [MlBase EXCEPT !.on = TRUE]
D3Base == [on |-> FALSE, dlts |-> FALSE, layers |-> 0, depth |-> 0, dlt |-> "off"]
SccBase == [on |-> FALSE, currpic |-> FALSE, ract |-> FALSE, actpresent |-> FALSE, actoff |-> <<0, 0, 0>>, palon |-> FALSE, pal |-> <<>>, mono |-> FALSE, lbd |-> 0, cbd |-> 0]
RxBase == [log2skip |-> 1, ccp |-> FALSE, cqlist |-> FALSE, cqdepth |-> 1, cblist |-> <<3, -2>>, saoluma |-> 0, saochroma |-> 2]
PpsBase == [id |-> 0, spsid |-> 0, depslices |-> FALSE, outflag |-> FALSE, extrabits |-> 0, signhide |-> TRUE, cabacinit |-> FALSE, l0 |-> 0, l1 |-> 0, qp |-> 0,
            cintra |-> FALSE, tskip |-> FALSE, cuqp |-> FALSE, cuqpdepth |-> 1, cbqp |-> 0, crqp |-> 0, slicecq |-> FALSE, wpred |-> FALSE, wbipred |-> FALSE,
            tqbypass |-> FALSE, tiles |-> FALSE, wpp |-> FALSE, cols |-> <<4>>, rows |-> <<2, 3>>, uniform |-> TRUE, lftiles |-> TRUE, lfslices |-> TRUE,
            dbctrl |-> FALSE, dboverride |-> FALSE, dboff |-> FALSE, beta |-> 0, tc |-> 0, scaling |-> "none", listsmod |-> FALSE, pmerge |-> 0, shext |-> FALSE,
            ext |-> FALSE, rxon |-> FALSE, rx |-> RxBase, mlx |-> MlBase, d3x |-> D3Base, sccx |-> SccBase]
PpsFieldVals ==
    [id : {0, 1, 63}] \cup [depslices : BOOLEAN] \cup [outflag : BOOLEAN] \cup [extrabits : {0, 2, 7}] \cup [signhide : BOOLEAN] \cup [cabacinit : BOOLEAN]
    \cup [l0 : {0, 1, 14}] \cup [l1 : {0, 1, 14}] \cup [qp : {0, -26, 25, 1}] \cup [cintra : BOOLEAN] \cup [tskip : BOOLEAN] \cup [cuqp : BOOLEAN] \cup [cuqpdepth : {0, 3}]
    \cup [cbqp : {0, -12, 12}] \cup [crqp : {0, -12, 12}] \cup [slicecq : BOOLEAN] \cup [wpred : BOOLEAN] \cup [wbipred : BOOLEAN] \cup [tqbypass : BOOLEAN]
    \cup [tiles : BOOLEAN] \cup [wpp : BOOLEAN] \cup [cols : {<<>>, <<0>>, <<7, 1, 2>>}] \cup [rows : {<<>>, <<9>>}] \cup [uniform : BOOLEAN] \cup [lftiles : BOOLEAN]
    \cup [lfslices : BOOLEAN] \cup [dbctrl : BOOLEAN] \cup [dboverride : BOOLEAN] \cup [dboff : BOOLEAN] \cup [beta : {0, -6, 6}] \cup [tc : {0, -6, 6}]
    \cup [scaling : {"none", "pred", "explicit", "mixed"}] \cup [listsmod : BOOLEAN] \cup [pmerge : {0, 4}] \cup [shext : BOOLEAN] \cup [ext : BOOLEAN] \cup [rxon : BOOLEAN]
    \cup [rx : {[RxBase EXCEPT !.ccp = TRUE], [RxBase EXCEPT !.cqlist = TRUE], [RxBase EXCEPT !.cqlist = TRUE, !.cblist = <<12, -12, 0, 1, -1, 5>>, !.cqdepth = 0],
                [RxBase EXCEPT !.log2skip = 3, !.saoluma = 4, !.saochroma = 0]}]
    \cup [mlx : {MlOn, [MlOn EXCEPT !.poc = TRUE, !.infer = TRUE, !.inferid = 63], [MlOn EXCEPT !.locs = <<LocFull>>],
                 [MlOn EXCEPT !.locs = <<[id |-> 0, scaled |-> <<>>, region |-> <<>>, phase |-> <<>>], LocFull, [LocFull EXCEPT !.id = 63, !.region = <<>>]>>],
                 [MlOn EXCEPT !.cm = TRUE], [MlOn EXCEPT !.cm = TRUE, !.cmlayers = [i \in 1 .. 62 |-> i - 1], !.cmres = 3, !.cmflc = 3],
                 [MlOn EXCEPT !.cm = TRUE, !.cmlayers = <<63, 1>>, !.cmbd = <<2, 1, 0, 3>>, !.cmcoded = TRUE],
                 [MlOn EXCEPT !.cm = TRUE, !.cmbd = <<0, 0, 8, 8>>, !.cmres = 3, !.cmflc = 3, !.cmcoded = TRUE]}]
    \cup [d3x : {[D3Base EXCEPT !.on = TRUE], [D3Base EXCEPT !.on = TRUE, !.dlts = TRUE], [D3Base EXCEPT !.on = TRUE, !.dlts = TRUE, !.layers = 63, !.depth = 7],
                 [D3Base EXCEPT !.on = TRUE, !.dlts = TRUE, !.layers = 2, !.depth = 8, !.dlt = "delta0"]}]
    \cup [sccx : {[SccBase EXCEPT !.on = TRUE], [SccBase EXCEPT !.on = TRUE, !.currpic = TRUE],
                  [SccBase EXCEPT !.on = TRUE, !.ract = TRUE, !.actpresent = TRUE, !.actoff = <<-7, 17, 3>>],
                  [SccBase EXCEPT !.on = TRUE, !.palon = TRUE], [SccBase EXCEPT !.on = TRUE, !.palon = TRUE, !.pal = <<255, 0, 7>>],
                  [SccBase EXCEPT !.on = TRUE, !.palon = TRUE, !.pal = <<1023, 1>>, !.mono = TRUE, !.lbd = 2],
                  [SccBase EXCEPT !.on = TRUE, !.palon = TRUE, !.pal = <<9>>, !.lbd = 8, !.cbd = 4]}]
PpsBases == {PpsBase, [PpsBase EXCEPT !.tiles = TRUE, !.uniform = FALSE, !.dbctrl = TRUE, !.ext = TRUE, !.rxon = TRUE, !.tskip = TRUE]}
IdPairs == {<<0, 0>>, <<1, 0>>, <<0, 1>>, <<2, 1>>, <<7, 15>>, <<63, 3>>}
PpsVectors == {Override(b, o) : b \in PpsBases, o \in PpsFieldVals}
              \cup (IF Pairwise THEN {Override(Override(PpsBase, o1), o2) : o1 \in PpsFieldVals, o2 \in PpsFieldVals} ELSE {})
PpsValid(p) == (p.rxon \/ p.mlx.on \/ p.d3x.on \/ p.sccx.on) => p.ext

(* -------------------------------------------------------------- slice 7.3.6.1 *)
\* slice types: 0 B, 1 P, 2 I. nt = nal_unit_type: 1 TRAIL_R, 19 IDR_W_RADL, 20 IDR_N_LP, 21 CRA, 16 BLA_W_LP
IsIrap(nt) == nt >= 16 /\ nt <= 23
IsIdr(nt) == nt \in {19, 20}
\* the RPS that applies and its derived form
SliceRpsDerived(s, sps) ==
    LET lst == RpsLists[sps.rps]
        all == DerivedAll(lst, 1, <<>>)
    IN IF s.strpssps THEN (IF Len(lst) = 0 THEN [s0 |-> <<>>, s1 |-> <<>>] ELSE all[IF Len(lst) > 1 THEN s.strpsidx + 1 ELSE 1])
       ELSE IF s.ownrps.inter THEN DerivedInter(s.ownrps, all[Len(lst) - s.ownrps.didx]) ELSE DerivedExplicit(s.ownrps)
LtUsed(s, sps) == Len(SelectSeq([i \in 1 .. (s.nltsps + Len(s.ltpics)) |->
                                   IF i <= s.nltsps THEN sps.lt[IF Len(sps.lt) > 1 THEN s.ltidx[i] + 1 ELSE 1].u ELSE s.ltpics[i - s.nltsps].u], LAMBDA x : x))
NumPicTotalCurr(s, sps, nt) == IF IsIdr(nt) THEN 0 ELSE UsedCount(SliceRpsDerived(s, sps)) + (IF sps.ltpresent THEN LtUsed(s, sps) ELSE 0)
N0(s, p) == IF s.override THEN s.l0 ELSE p.l0
N1(s, p) == IF s.type = 0 THEN (IF s.override THEN s.l1 ELSE p.l1) ELSE 0
ListsModBits(s, p, sps, nt) ==
    LET w == CeilLog2(NumPicTotalCurr(s, sps, nt)) IN
    B(s.mod0) \o (IF s.mod0 THEN Cat([k \in 1 .. (N0(s, p) + 1) |-> U(w, (k - 1) % NumPicTotalCurr(s, sps, nt))]) ELSE <<>>)
    \o (IF s.type = 0 THEN B(s.mod1) \o (IF s.mod1 THEN Cat([k \in 1 .. (N1(s, p) + 1) |-> U(w, k % NumPicTotalCurr(s, sps, nt))]) ELSE <<>>) ELSE <<>>)
\* weights: entry i has luma flag when i is even, chroma flag when i % 3 = 0 (values vary with i)
PwtList(n, chroma, sh) ==
    Cat([k \in 1 .. (n + 1) |-> B((k - 1) % 2 = 0)]) \o (IF chroma THEN Cat([k \in 1 .. (n + 1) |-> B((k - 1) % 3 = 0)]) ELSE <<>>)
    \o Cat([k \in 1 .. (n + 1) |-> LET i == k - 1 IN
                                   (IF i % 2 = 0 THEN SECode(sh + i - 3) \o SECode(0 - 100 - i) ELSE <<>>)
                                   \o (IF chroma /\ i % 3 = 0 THEN SECode(i + 1) \o SECode(0 - 200) \o SECode(0 - 128) \o SECode(511) ELSE <<>>)])
PredWeightBits(s, p, sps) ==
    LET chroma == ChromaArrayType(sps) # 0 IN
    UECode(s.lumadenom) \o (IF chroma THEN SECode(s.chromadenomdelta) ELSE <<>>)
    \o PwtList(N0(s, p), chroma, 0) \o (IF s.type = 0 THEN PwtList(N1(s, p), chroma, 7) ELSE <<>>)
SliceDbDisabled(s, p) == IF p.dbctrl /\ p.dboverride /\ s.dboverride THEN s.dboff ELSE (p.dbctrl /\ p.dboff)   \* inferred from the PPS when not coded (7.4.7.1)
SliceData(s, p, sps, nt) ==
    (IF s.first THEN <<1>> ELSE <<0>>) \o (IF IsIrap(nt) THEN B(s.nooutprior) ELSE <<>>) \o UECode(p.id)
    \o (IF ~s.first THEN (IF p.depslices THEN B(s.dependent) ELSE <<>>) \o U(CeilLog2(PicSizeInCtbsY(sps)), s.addr % PicSizeInCtbsY(sps)) ELSE <<>>)
    \o (IF ~(~s.first /\ p.depslices /\ s.dependent)
        THEN Zeros(p.extrabits) \o UECode(s.type) \o (IF p.outflag THEN B(s.picout) ELSE <<>>) \o (IF sps.chroma = 3 /\ sps.sepcol THEN U(2, s.colourplane) ELSE <<>>)
             \o (IF ~IsIdr(nt)
                 THEN U(sps.log2poc + 4, s.poclsb % (2 ^ (sps.log2poc + 4))) \o B(s.strpssps)
                      \o (IF ~s.strpssps THEN RpsBits(s.ownrps, Len(RpsLists[sps.rps]), TRUE)
                          ELSE IF Len(RpsLists[sps.rps]) > 1 THEN U(CeilLog2(Len(RpsLists[sps.rps])), s.strpsidx) ELSE <<>>)
                      \o (IF sps.ltpresent
                          THEN (IF Len(sps.lt) > 0 THEN UECode(s.nltsps) ELSE <<>>) \o UECode(Len(s.ltpics))
                               \o Cat([i \in 1 .. (s.nltsps + Len(s.ltpics)) |->
                                         (IF i <= s.nltsps THEN (IF Len(sps.lt) > 1 THEN U(CeilLog2(Len(sps.lt)), s.ltidx[i]) ELSE <<>>)
                                          ELSE U(sps.log2poc + 4, s.ltpics[i - s.nltsps].poc % (2 ^ (sps.log2poc + 4))) \o B(s.ltpics[i - s.nltsps].u))
                                         \o B(i % 2 = 0) \o (IF i % 2 = 0 THEN UECode(i + 4) ELSE <<>>)])
                          ELSE <<>>)
                      \o (IF sps.tmvp THEN B(s.tmvp) ELSE <<>>)
                 ELSE <<>>)
             \o (IF sps.sao THEN B(s.saoluma) \o (IF ChromaArrayType(sps) # 0 THEN B(s.saochroma) ELSE <<>>) ELSE <<>>)
             \o (IF s.type \in {0, 1}
                 THEN B(s.override) \o (IF s.override THEN UECode(s.l0) \o (IF s.type = 0 THEN UECode(s.l1) ELSE <<>>) ELSE <<>>)
                      \o (IF p.listsmod /\ NumPicTotalCurr(s, sps, nt) > 1 THEN ListsModBits(s, p, sps, nt) ELSE <<>>)
                      \o (IF s.type = 0 THEN B(s.mvdl1zero) ELSE <<>>)
                      \o (IF p.cabacinit THEN B(s.cabacinit) ELSE <<>>)
                      \o (IF ~IsIdr(nt) /\ sps.tmvp /\ s.tmvp
                          THEN (IF s.type = 0 THEN B(s.colfroml0) ELSE <<>>)
                               \o (IF ((s.type # 0 \/ s.colfroml0) /\ N0(s, p) > 0) \/ (s.type = 0 /\ ~s.colfroml0 /\ N1(s, p) > 0) THEN UECode(s.colrefidx) ELSE <<>>)
                          ELSE <<>>)
                      \o (IF (p.wpred /\ s.type = 1) \/ (p.wbipred /\ s.type = 0) THEN PredWeightBits(s, p, sps) ELSE <<>>)
                      \o UECode(s.fiveminus)
                 ELSE <<>>)
             \o SECode(s.qpdelta)
             \o (IF p.slicecq THEN SECode(s.cbqp) \o SECode(s.crqp) ELSE <<>>)
             \o (IF p.ext /\ p.rxon /\ p.rx.cqlist THEN B(s.cuchromaqp) ELSE <<>>)
             \o (IF p.dbctrl /\ p.dboverride THEN B(s.dboverride) ELSE <<>>)
             \o (IF p.dbctrl /\ p.dboverride /\ s.dboverride THEN B(s.dboff) \o (IF ~s.dboff THEN SECode(s.beta) \o SECode(s.tc) ELSE <<>>) ELSE <<>>)
             \o (IF p.lfslices /\ ((sps.sao /\ (s.saoluma \/ (ChromaArrayType(sps) # 0 /\ s.saochroma))) \/ ~SliceDbDisabled(s, p)) THEN B(s.lfslices) ELSE <<>>)
        ELSE <<>>)
    \o (IF p.tiles \/ p.wpp THEN UECode(Len(s.entries)) \o (IF Len(s.entries) > 0 THEN UECode(s.offlen) \o Cat([i \in 1 .. Len(s.entries) |-> U(s.offlen + 1, IF s.offlen >= 8 THEN s.entries[i] ELSE s.entries[i] % (2 ^ (s.offlen + 1)))]) ELSE <<>>) ELSE <<>>)
    \o (IF p.shext THEN UECode(Len(s.extbytes)) \o Cat([i \in 1 .. Len(s.extbytes) |-> U(8, s.extbytes[i])]) ELSE <<>>)
\* byte_alignment(): a one bit then zero bits; slice data stand-in follows
SliceHdrAligned(s, p, sps, nt) == LET hb == SliceData(s, p, sps, nt) \o <<1>> IN hb \o Zeros(PadLen(Len(hb)))
SliceNal(s, p, sps, nt) == <<2 * nt, 1>> \o Escape(Pack(SliceHdrAligned(s, p, sps, nt)) \o <<171, 205, 0, 0, 1, 239, 128>>)
SliceHdrSize(s, p, sps, nt) ==
    LET raw == Pack(SliceHdrAligned(s, p, sps, nt)) \o <<171, 205, 0, 0, 1, 239, 128>>
        nraw == Len(SliceHdrAligned(s, p, sps, nt)) \div 8
    IN 2 + EscIdx(raw)[nraw]
OwnRpsExplicit == [inter |-> FALSE, neg |-> <<[d |-> 1, u |-> TRUE], [d |-> 0, u |-> TRUE]>>, pos |-> <<[d |-> 2, u |-> FALSE]>>]
SliceBase == [first |-> TRUE, nooutprior |-> FALSE, dependent |-> FALSE, addr |-> 5, type |-> 1, picout |-> TRUE, colourplane |-> 1, poclsb |-> 9, strpssps |-> TRUE,
              strpsidx |-> 0, ownrps |-> OwnRpsExplicit, nltsps |-> 0, ltidx |-> <<0, 1, 0>>, ltpics |-> <<>>, tmvp |-> TRUE, saoluma |-> TRUE, saochroma |-> FALSE,
              override |-> FALSE, l0 |-> 2, l1 |-> 1, mod0 |-> TRUE, mod1 |-> FALSE, mvdl1zero |-> TRUE, cabacinit |-> TRUE, colfroml0 |-> TRUE, colrefidx |-> 1,
              lumadenom |-> 5, chromadenomdelta |-> -1, fiveminus |-> 2, qpdelta |-> -3, cbqp |-> 2, crqp |-> -2, cuchromaqp |-> TRUE, dboverride |-> FALSE,
              dboff |-> FALSE, beta |-> -1, tc |-> 2, lfslices |-> TRUE, entries |-> <<>>, offlen |-> 3, extbytes |-> <<>>]
SliceFieldVals ==
    [first : BOOLEAN] \cup [nooutprior : BOOLEAN] \cup [dependent : BOOLEAN] \cup [addr : {0, 1, 509}] \cup [type : {0, 1, 2}] \cup [picout : BOOLEAN] \cup [colourplane : {0, 2}]
    \cup [poclsb : {0, 255, 65535}] \cup [strpssps : BOOLEAN] \cup [strpsidx : {0, 1}]
    \cup [ownrps : {OwnRpsExplicit, RpsC, [inter |-> TRUE, didx |-> 0, sign |-> 1, absm1 |-> 0, fl |-> <<>>], [inter |-> TRUE, didx |-> 1, sign |-> 0, absm1 |-> 2, fl |-> <<>>]}]
    \cup [nltsps : {0, 1, 2}] \cup [ltpics : {<<>>, <<[poc |-> 3, u |-> TRUE]>>, <<[poc |-> 1, u |-> FALSE], [poc |-> 70000, u |-> TRUE]>>}] \cup [tmvp : BOOLEAN]
    \cup [saoluma : BOOLEAN] \cup [saochroma : BOOLEAN] \cup [override : BOOLEAN] \cup [l0 : {0, 3, 14}] \cup [l1 : {0, 14}] \cup [mod0 : BOOLEAN] \cup [mod1 : BOOLEAN]
    \cup [mvdl1zero : BOOLEAN] \cup [cabacinit : BOOLEAN] \cup [colfroml0 : BOOLEAN] \cup [colrefidx : {0, 2}] \cup [lumadenom : {0, 7}] \cup [chromadenomdelta : {0, 2}]
    \cup [fiveminus : {0, 4}] \cup [qpdelta : {0, 25, -26}] \cup [cbqp : {0, 12}] \cup [crqp : {0, -12}] \cup [cuchromaqp : BOOLEAN] \cup [dboverride : BOOLEAN]
    \cup [dboff : BOOLEAN] \cup [beta : {0, 6, -6}] \cup [tc : {0, 6, -6}] \cup [lfslices : BOOLEAN] \cup [entries : {<<>>, <<0>>, <<7, 15, 8>>}] \cup [offlen : {0, 3, 31}]
    \cup [extbytes : {<<>>, <<0, 0, 1>>, <<255>>}]
\* fl = <<>>: the flag list of a slice-level predicted set is as long as its reference set requires; all used except the second
FixOwnRps(s, sps) ==
    IF s.ownrps.inter /\ s.ownrps.fl = <<>> /\ Len(RpsLists[sps.rps]) > s.ownrps.didx
    THEN LET lst == RpsLists[sps.rps]
             all == DerivedAll(lst, 1, <<>>)
             n == NumDelta(all[Len(lst) - s.ownrps.didx])
         IN [s EXCEPT !.ownrps.fl = [j \in 1 .. (n + 1) |-> IF j = 2 THEN FD ELSE FU]]
    ELSE s
SliceSpsSet == {SpsBase,
                [SpsBase EXCEPT !.id = 1, !.rps = "two", !.ltpresent = TRUE, !.log2poc = 12, !.w = 720, !.h = 576],
                [SpsBase EXCEPT !.id = 3, !.rps = "interpos", !.ltpresent = TRUE, !.lt = <<[poc |-> 7, u |-> TRUE]>>, !.tmvp = FALSE, !.sao = FALSE],
                [SpsBase EXCEPT !.id = 15, !.chroma = 3, !.sepcol = TRUE, !.rps = "inter", !.mincb = 3, !.diffcb = 0],
                [SpsBase EXCEPT !.id = 2, !.chroma = 0, !.rps = "interchain", !.log2poc = 0]}
SlicePpsSet(sps) == {[PpsBase EXCEPT !.id = i, !.spsid = sps.id] : i \in {0, 1, 63}}
                    \cup {[PpsBase EXCEPT !.id = 5, !.spsid = sps.id, !.depslices = TRUE, !.outflag = TRUE, !.extrabits = 2, !.cabacinit = TRUE, !.l0 = 1, !.l1 = 2, !.slicecq = TRUE,
                                          !.wpred = TRUE, !.wbipred = TRUE, !.listsmod = TRUE, !.tiles = TRUE, !.shext = TRUE],
                          [PpsBase EXCEPT !.id = 6, !.spsid = sps.id, !.dbctrl = TRUE, !.dboverride = TRUE, !.dboff = TRUE, !.wpp = TRUE, !.listsmod = TRUE, !.l0 = 3,
                                          !.ext = TRUE, !.rxon = TRUE, !.rx = [RxBase EXCEPT !.cqlist = TRUE]],
                          [PpsBase EXCEPT !.id = 7, !.spsid = sps.id, !.dbctrl = TRUE, !.dboff = TRUE],                       \* deblocking disabled in the PPS, no override possible
                          [PpsBase EXCEPT !.id = 8, !.spsid = sps.id, !.dbctrl = TRUE, !.dboverride = TRUE, !.dboff = TRUE, !.lfslices = TRUE],
                          \* every PPS extension present; none of the flags a slice header depends on (curr pic ref, ACT offsets) set
                          [PpsBase EXCEPT !.id = 9, !.spsid = sps.id, !.ext = TRUE, !.rxon = TRUE,
                                          !.mlx = [MlOn EXCEPT !.locs = <<LocFull>>, !.cm = TRUE, !.cmlayers = <<63, 1>>, !.cmbd = <<2, 1, 0, 3>>, !.cmcoded = TRUE],
                                          !.d3x = [D3Base EXCEPT !.on = TRUE, !.dlts = TRUE, !.layers = 2, !.depth = 8, !.dlt = "delta0"],
                                          !.sccx = [SccBase EXCEPT !.on = TRUE, !.ract = TRUE, !.actoff = <<-7, 17, 3>>, !.palon = TRUE, !.pal = <<255, 0, 7>>]]}
SliceCtx == UNION {{<<x, p>> : p \in SlicePpsSet(x)} : x \in SliceSpsSet}
SliceOK(c) ==
    LET lst == RpsLists[c.sps.rps] IN
    /\ (IsIdr(c.nt) => c.s.type = 2)
    /\ (c.s.strpssps => (Len(lst) > 0 /\ c.s.strpsidx < Len(lst) /\ (Len(lst) = 1 => c.s.strpsidx = 0)))
    /\ (~c.s.strpssps /\ c.s.ownrps.inter => Len(lst) > c.s.ownrps.didx)
    /\ c.s.nltsps <= Len(c.sps.lt) /\ (~c.sps.ltpresent => (c.s.nltsps = 0 /\ c.s.ltpics = <<>>))
    /\ (c.s.dependent => (~c.s.first /\ c.p.depslices))
    /\ (c.p.id # c.sps.id \/ c.p.id = 0)
SliceCases == {[s |-> FixOwnRps(Override(SliceBase, o), cx[1]), p |-> cx[2], sps |-> cx[1], nt |-> nt] :
                  o \in SliceFieldVals, cx \in SliceCtx, nt \in {1, 19, 21}}
              \cup (IF Pairwise THEN {[s |-> FixOwnRps(Override(Override(SliceBase, o1), o2), cx[1]), p |-> cx[2], sps |-> cx[1], nt |-> 1] :
                                         o1 \in SliceFieldVals, o2 \in SliceFieldVals, cx \in {y \in SliceCtx : y[1].id \in {1, 3} /\ y[2].id \in {5, 6}}} ELSE {})

(* -------------------------------------------------------------- machine *)
VARIABLES c, phase
vars == <<c, phase>>
Init == /\ phase = "chosen"
        /\ CASE Struct = "sps" -> c \in [v : SpsVectors]
             [] Struct = "pps" -> c \in {[p |-> [p EXCEPT !.id = ids[1], !.spsid = ids[2]], sps |-> [SpsBase EXCEPT !.id = ids[2]]] : p \in {q \in PpsVectors : PpsValid(q)}, ids \in IdPairs}
             [] Struct = "slice" -> c \in {x \in SliceCases : SliceOK(x)}
Serialise == phase = "chosen" /\ phase' = "serialised" /\ UNCHANGED c
Next == Serialise
Spec == Init /\ [][Next]_vars

NalOK(n) == NoForbidden(n) /\ \A i \in 1 .. Len(n) : n[i] \in 0 .. 255
Oracle == phase = "serialised" =>
    CASE Struct = "sps" -> NalOK(SpsNal(c.v))
      [] Struct = "pps" -> NalOK(PpsNal(c.p))
      [] Struct = "slice" -> NalOK(SliceNal(c.s, c.p, c.sps, c.nt)) /\ SliceHdrSize(c.s, c.p, c.sps, c.nt) >= 3

DerivedJ(d) == [s0 |-> [i \in 1 .. Len(d.s0) |-> [p |-> 0 - d.s0[i].p, u |-> d.s0[i].u]], s1 |-> d.s1]     \* magnitudes, as the structures store them
Export == (DoExport /\ phase = "serialised") =>
    PrintT(ToJson(
      CASE Struct = "sps" -> [struct |-> "sps", v |-> c.v, nal |-> SpsNal(c.v), width |-> WidthOf(c.v), height |-> HeightOf(c.v),
                              rps |-> RpsLists[c.v.rps], derived |-> LET d == DerivedAll(RpsLists[c.v.rps], 1, <<>>) IN [i \in 1 .. Len(d) |-> DerivedJ(d[i])],
                              subs |-> [i \in 1 .. c.v.maxsub |-> PtlBase.sub[i]]]
        [] Struct = "pps" -> [struct |-> "pps", p |-> c.p, spsnal |-> SpsNal(c.sps), nal |-> PpsNal(c.p)]
        [] Struct = "slice" -> [struct |-> "slice", s |-> c.s, p |-> c.p, spsid |-> c.sps.id, nt |-> c.nt,
                                spsnal |-> SpsNal(c.sps), ppsnal |-> PpsNal(c.p),
                                othersps |-> SpsNal([c.sps EXCEPT !.id = c.p.id, !.log2poc = 9, !.sao = ~c.sps.sao]),
                                nal |-> SliceNal(c.s, c.p, c.sps, c.nt), size |-> SliceHdrSize(c.s, c.p, c.sps, c.nt),
                                numpictotalcurr |-> NumPicTotalCurr(c.s, c.sps, c.nt), idr |-> IsIdr(c.nt), irap |-> IsIrap(c.nt),
                                cat |-> ChromaArrayType(c.sps), sepcol |-> (c.sps.chroma = 3 /\ c.sps.sepcol), spssao |-> c.sps.sao, spstmvp |-> c.sps.tmvp,
                                spslt |-> c.sps.ltpresent, nspslt |-> Len(c.sps.lt), nrps |-> Len(RpsLists[c.sps.rps]),
                                full |-> ~(~c.s.first /\ c.p.depslices /\ c.s.dependent),
                                rpsderived |-> DerivedJ(SliceRpsDerived(c.s, c.sps)), n0 |-> N0(c.s, c.p), n1 |-> N1(c.s, c.p),
                                dbdisabled |-> SliceDbDisabled(c.s, c.p)]))
=============================================================================
