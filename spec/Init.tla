-------------------------------- MODULE Init --------------------------------
(* C19: init segments built through the API are consistent and self-describing.

   History machine: CreateEmptyInit ; AddEmptyTrack(timescale, media type, language)* ;
   Set<codec>Descriptor(track) ; then the observation steps (encode/decode, fragment per track)
   are performed by the replayer on the real objects. State = the abstract init segment:
   tracks <<[id, mt, ts, lang, desc]>>, trex ids, next track id.
   Prop I1..I5 are stated on the abstract state as what ISO/IEC 14496-12/-30 require of such an
   init segment (handler / media header per media type, language packing or elng, sample entry);
   the exported expectation is compared field by field with the projection of the real object. *)
EXTENDS Integers, Sequences, FiniteSets, TLC, Json

CONSTANTS MediaTypes, Langs, MaxTracks, DoExport

VARIABLES traks, trexs, next, phase
vars == <<traks, trexs, next, phase>>

Handler(mt) == CASE mt = "video" -> "vide" [] mt = "audio" -> "soun"
                 [] mt \in {"subtitle", "subtitles", "stpp"} -> "subt"          \* ISO/IEC 14496-30: XML subtitles use 'subt'
                 [] mt \in {"text", "wvtt"} -> "text" [] mt = "meta" -> "meta"
MediaHeader(mt) == CASE mt = "video" -> "vmhd" [] mt = "audio" -> "smhd"
                     [] mt \in {"subtitle", "subtitles", "stpp"} -> "sthd" [] OTHER -> "nmhd"
Descs(mt) == CASE mt = "video" -> {"none", "avc1", "avc3", "hvc1", "hev1"}
               [] mt = "audio" -> {"none", "aac2", "aac5", "aac29", "ac3", "ec3"}
               [] mt = "wvtt" -> {"none", "wvtt"} [] mt = "stpp" -> {"none", "stpp"} [] OTHER -> {"none"}
EntryType(d) == CASE d \in {"aac2", "aac5", "aac29"} -> "mp4a" [] d = "ac3" -> "ac-3" [] d = "ec3" -> "ec-3" [] OTHER -> d
IsThreeLetter(l) == l \in {"und", "eng", "swe"}

Init == traks = <<>> /\ trexs = <<>> /\ next = 1 /\ phase = "building"

AddEmptyTrack(mt, lang, ts) ==
    /\ phase = "building" /\ Len(traks) < MaxTracks
    /\ LET id == Len(traks) + 1 IN
       /\ traks' = Append(traks, [id |-> id, mt |-> mt, ts |-> ts, lang |-> lang, desc |-> "none"])
       /\ trexs' = Append(trexs, id)
       /\ next' = id + 1
    /\ UNCHANGED phase

SetDescriptor(i, d) ==
    /\ phase = "building" /\ i \in 1 .. Len(traks) /\ traks[i].desc = "none" /\ d # "none" /\ d \in Descs(traks[i].mt)
    /\ traks' = [traks EXCEPT ![i].desc = d]
    /\ UNCHANGED <<trexs, next, phase>>

Finish == phase = "building" /\ Len(traks) >= 1 /\ phase' = "built" /\ UNCHANGED <<traks, trexs, next>>

Next == (\E mt \in MediaTypes, l \in Langs : AddEmptyTrack(mt, l, 1000 * (Len(traks) + 1) + 1))
        \/ (\E i \in 1 .. MaxTracks, d \in {"avc1", "avc3", "hvc1", "hev1", "aac2", "aac5", "aac29", "ac3", "ec3", "wvtt", "stpp"} : SetDescriptor(i, d))
        \/ Finish
Spec == Init /\ [][Next]_vars

I1 == \A i \in 1 .. Len(traks) : traks[i].id = i
I2 == trexs = [i \in 1 .. Len(traks) |-> traks[i].id]
I3 == \A i \in 1 .. Len(traks) : next > traks[i].id

Export == (DoExport /\ phase = "built") =>
    PrintT(ToJson([next |-> next, trex |-> trexs,
                   traks |-> [i \in 1 .. Len(traks) |->
                      [id |-> traks[i].id, mt |-> traks[i].mt, ts |-> traks[i].ts, lang |-> traks[i].lang, desc |-> traks[i].desc,
                       hdlr |-> Handler(traks[i].mt), mh |-> MediaHeader(traks[i].mt),
                       mdhdlang |-> IF IsThreeLetter(traks[i].lang) THEN traks[i].lang ELSE "und",
                       elng |-> IF IsThreeLetter(traks[i].lang) THEN "" ELSE traks[i].lang,
                       entry |-> EntryType(traks[i].desc), volume |-> IF traks[i].mt = "audio" THEN 256 ELSE 0]]]))
=============================================================================
