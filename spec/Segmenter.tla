------------------------------ MODULE Segmenter ------------------------------
(* C11: segmenting a progressive file, resegmenting / fragmentifying a fragmented track and
   combining single-track segments conserve every sample.

   Prop (judged on the tools' real outputs by the replayer and, as events, by the trace part):
     M1 per track, the concatenation over all produced segments of the sample lists equals the
        input's complete list (count, bytes, duration, sync flag, composition offset, decode time)
     M2 every produced segment starts with a sync sample of the reference (video) track
   Impl (design check in TLC): the segment-start selection on presentation time, the per-track
     sample intervals (first sample at or after the next start, converted to the track's timescale)
     and the resegmenter loop - checked to TILE 1..N for every track, every sync spacing and every
     target duration of the generator.
   Modes: "prog" (progressive files x segment durations for examples/segmenter) and
          "frag" (fragmented single-track inputs x chunk durations for examples/resegmenter and
          MediaSegment.Fragmentify).                                                            *)
EXTENDS SampleTablesOps, TLC, Json

CONSTANTS Mode, NVideo, WithAudio, DoExport

IsSyncV(tr, s) == s \in tr.sync
Pts(tr, s) == Dts(tr.durs, s) + (IF tr.ctos = <<>> THEN 0 ELSE tr.ctos[s])
FirstAtOrAfter(durs, t) == IF t >= Total(durs) THEN 0
                           ELSE IF \E s \in 1 .. Len(durs) : Dts(durs, s) >= t
                           THEN CHOOSE s \in 1 .. Len(durs) : Dts(durs, s) >= t /\ \A q \in 1 .. (s - 1) : Dts(durs, q) < t
                           ELSE Len(durs) + 1

(* ------------------------------------------------------ Impl: segmenter *)
RECURSIVE SelectSync(_, _, _, _)
SelectSync(v, s, nextStart, step) ==          \* sync samples with pts >= n*step, scanning in order
    IF s > Len(v.durs) THEN <<>>
    ELSE IF IsSyncV(v, s) /\ Pts(v, s) >= nextStart THEN <<s>> \o SelectSync(v, s + 1, nextStart + step, step)
    ELSE SelectSync(v, s + 1, nextStart, step)
StepOf(v, ms) == (ms * v.ts) \div 1000
\* intervals of track tr for the selected video start samples (decode times in the video timescale)
RECURSIVE Intervals(_, _, _, _, _)
Intervals(tr, v, starts, i, startNr) ==
    IF i > Len(starts) THEN <<>>
    ELSE IF i = Len(starts) THEN <<<<startNr, Len(tr.durs)>>>>
    ELSE LET t == (Dts(v.durs, starts[i + 1]) * tr.ts) \div v.ts
             nx == FirstAtOrAfter(tr.durs, t)
         IN <<<<startNr, nx - 1>>>> \o Intervals(tr, v, starts, i + 1, nx)
Tiles(ivs, n) == /\ ivs # <<>> /\ ivs[1][1] = 1 /\ ivs[Len(ivs)][2] = n
                 /\ \A i \in 1 .. (Len(ivs) - 1) : ivs[i + 1][1] = ivs[i][2] + 1
                 /\ \A i \in 1 .. Len(ivs) : ivs[i][1] <= ivs[i][2] + 1

(* ---------------------------------------------------- Impl: resegmenter *)
RECURSIVE Reseg(_, _, _, _, _)
\* returns the sample numbers at which a new output segment is started (besides sample 1)
Reseg(tr, s, seq, chunkDur, acc) ==
    IF s > Len(tr.durs) THEN acc
    ELSE IF Pts(tr, s) >= chunkDur * seq /\ IsSyncV(tr, s) THEN Reseg(tr, s + 1, seq + 1, chunkDur, Append(acc, s))
    ELSE Reseg(tr, s + 1, seq, chunkDur, acc)

(* ------------------------------------------------------------- generator *)
\* stss: the sync sample table is written; a track whose samples are all sync samples may come without one (8.6.2.1)
VideoOfN(n) == {v \in {[kind |-> "video", ts |-> 1000, durs |-> [i \in 1 .. n |-> IF alt /\ i % 2 = 0 THEN 20 ELSE 10], sizes |-> [i \in 1 .. n |-> i + 2],
                 ctos |-> IF ct THEN [i \in 1 .. n |-> IF i % 3 = 2 THEN 20 ELSE IF i % 3 = 0 THEN 10 ELSE 0] ELSE <<>>,
                 sync |-> sy, spc |-> ch, stss |-> st] : alt \in BOOLEAN, ct \in BOOLEAN, sy \in {S \cup {1} : S \in SUBSET (2 .. n)},
                                            ch \in ({<<n>>, Rep(1, n)} \cup (IF n >= 3 THEN {<<1, n - 1>>} ELSE {})), st \in BOOLEAN} :
                v.stss \/ v.sync = 1 .. n}
Videos == UNION {VideoOfN(n) : n \in NVideo}
AudioOfN(n) == {[kind |-> "audio", ts |-> 500, durs |-> Rep(7, n), sizes |-> Rep(2, n), ctos |-> <<>>, sync |-> 1 .. n, spc |-> ch, stss |-> TRUE] : ch \in {<<n>>, Rep(1, n)}}
Audios == AudioOfN(8) \cup AudioOfN(13)
ProgFiles == {<<v>> : v \in Videos} \cup (IF WithAudio THEN {<<v, a>> : v \in Videos, a \in Audios} ELSE {})
SegDurs(v) == {10, 15, 20, 30, 45, Total(v.durs), Total(v.durs) + 10}
\* fragmented input: the samples of one track split into fragments (composition) and truns per fragment
\* indep: NON-sync samples that are nevertheless marked sample_depends_on = 2 (open-GOP I pictures, flags 0x02010000):
\* independent, but not a place where a segment may start (8.8.3.1: sample_is_non_sync_sample decides)
IndepOpts(v) == LET ns == (1 .. Len(v.durs)) \ v.sync IN {{}, ns, {s \in ns : s % 2 = 0}}
FragInputs == UNION {{[tr |-> v, frags |-> fc, twotruns |-> tt, indep |-> ip] : fc \in {c \in Comp(4) \cup Comp(6) \cup Comp(5) : SumF(c, 1, Len(c)) = Len(v.durs)},
                                                                                tt \in BOOLEAN, ip \in IndepOpts(v)} :
                     v \in {x \in Videos : x.spc = <<Len(x.durs)>> /\ x.stss}}

VARIABLES inp, d, phase
vars == <<inp, d, phase>>
Init == /\ phase = "chosen"
        /\ IF Mode = "prog" THEN inp \in ProgFiles /\ d \in SegDurs(inp[1])
           ELSE /\ inp \in FragInputs
                /\ d \in {10, 20, 25, 40, 1000}
Run == phase = "chosen" /\ phase' = "done" /\ UNCHANGED <<inp, d>>
Next == Run
Spec == Init /\ [][Next]_vars

Starts == SelectSync(inp[1], 1, 0, StepOf(inp[1], d))
DefinedFor(tr) == \A i \in 2 .. Len(Starts) : (Dts(inp[1].durs, Starts[i]) * tr.ts) \div inp[1].ts < Total(tr.durs)
\* design checks
ProgOK == (Mode = "prog" /\ phase = "done") =>
    /\ Starts # <<>> /\ Starts[1] = 1
    /\ \A i \in 1 .. Len(inp) : DefinedFor(inp[i]) => Tiles(Intervals(inp[i], inp[1], Starts, 1, 1), Len(inp[i].durs))
    /\ \A i \in 1 .. Len(Starts) : IsSyncV(inp[1], Starts[i])                         \* M2 on the design
FragOK == (Mode = "frag" /\ phase = "done") =>
    LET st == Reseg(inp.tr, 1, 1, d, <<>>) IN
    /\ \A i \in 1 .. Len(st) : IsSyncV(inp.tr, st[i])
    /\ \A i \in 1 .. (Len(st) - 1) : st[i] < st[i + 1]

TrackJ(tr) == [kind |-> tr.kind, ts |-> tr.ts, durs |-> tr.durs, sizes |-> tr.sizes, ctos |-> tr.ctos, hasstss |-> tr.stss,
               sync |-> [s \in 1 .. Len(tr.durs) |-> s \in tr.sync], spc |-> tr.spc]
Export == (DoExport /\ phase = "done") =>
    PrintT(ToJson(IF Mode = "prog"
                  THEN [mode |-> "prog", tracks |-> [i \in 1 .. Len(inp) |-> TrackJ(inp[i])], d |-> d, starts |-> Starts,
                        defined |-> \A i \in 1 .. Len(inp) : DefinedFor(inp[i]),
                        intervals |-> [i \in 1 .. Len(inp) |-> IF DefinedFor(inp[i]) THEN Intervals(inp[i], inp[1], Starts, 1, 1) ELSE <<>>]]
                  ELSE [mode |-> "frag", track |-> TrackJ(inp.tr), frags |-> inp.frags, twotruns |-> inp.twotruns, d |-> d,
                        indep |-> [s \in 1 .. Len(inp.tr.durs) |-> s \in inp.indep],
                        newsegs |-> Reseg(inp.tr, 1, 1, d, <<>>)]))
=============================================================================
