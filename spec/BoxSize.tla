------------------------------- MODULE BoxSize -------------------------------
(* C02: Size() = bytes written = header size field at every level; repeated encoding and
   interleaved Info/Size calls change nothing.

   The object (box, fragment, media segment, init segment, file) is abstract: what matters is the
   HISTORY of calls on it. Mode "gen": TLC enumerates every call history up to the bound over
   {Size, Info(levels), Encode, EncodeSW} x trun-optimisation on/off; each is replayed on every
   object of the pool. Mode "trace": the numbers recorded from the real calls are validated:
     S1 on success: written = Size() after, and = Size() before unless optimisation is on
     S2 every written box header's size field = its length; containers = header + children
        (decided by the harness's independent walker, logged as `wellsized`)
     S3 every successful encode of the object yields the same bytes (digest), both encoders
     S4 Size() never changes through Size/Info/Encode calls (after the first optimised encode)   *)
EXTENDS Integers, Sequences, TLC, Json

CONSTANTS Mode, MaxOps, DoExport
Ops == {"size", "info0", "info1", "encW", "encSW"}

VARIABLES hist, opt, size, dig, stable, l
vars == <<hist, opt, size, dig, stable, l>>

Trace == IF Mode = "trace" THEN ndJsonDeserialize("trace.ndjson") ELSE <<>>

Init == hist = <<>> /\ opt \in (IF Mode = "gen" THEN BOOLEAN ELSE {FALSE}) /\ size = -1 /\ dig = -1 /\ stable = TRUE /\ l = 1

\* ---- generator
Call(op) == /\ Mode = "gen" /\ Len(hist) < MaxOps /\ hist' = Append(hist, op) /\ UNCHANGED <<opt, size, dig, stable, l>>

\* ---- trace validation
IsEvent(e) == Mode = "trace" /\ l <= Len(Trace) /\ Trace[l].ev = e /\ l' = l + 1
Reset == /\ IsEvent("reset") /\ hist' = <<>> /\ opt' = Trace[l].opt /\ size' = -1 /\ dig' = -1
         /\ stable' = ~Trace[l].opt
TSize == /\ IsEvent("size")
         /\ (size # -1 /\ stable) => Trace[l].v = size                                  \* S4
         /\ size' = Trace[l].v /\ hist' = Append(hist, "size") /\ UNCHANGED <<opt, dig, stable>>
TInfo == /\ IsEvent("info") /\ hist' = Append(hist, "info") /\ UNCHANGED <<opt, size, dig, stable>>
TEncFail == /\ IsEvent("encode") /\ Trace[l].err # ""
            /\ hist' = Append(hist, "encfail") /\ UNCHANGED <<opt, size, dig, stable>>
TEncode == /\ IsEvent("encode") /\ Trace[l].err = ""
           /\ LET e == Trace[l] IN
              /\ e.written = e.size_after                                               \* S1
              /\ stable => e.size_before = e.written                                    \* S1 (no optimisation pending)
              /\ (size # -1 /\ stable) => e.size_before = size                          \* S4
              /\ e.wellsized                                                            \* S2
              /\ dig # -1 => e.digest = dig                                             \* S3
              /\ size' = e.size_after /\ dig' = e.digest
           /\ stable' = TRUE /\ hist' = Append(hist, "enc") /\ UNCHANGED opt

Next == (\E op \in Ops : Call(op)) \/ Reset \/ TSize \/ TInfo \/ TEncFail \/ TEncode
Spec == Init /\ [][Next]_vars

Export == (DoExport /\ Mode = "gen" /\ hist # <<>>) => PrintT(ToJson([ops |-> hist, opt |-> opt]))
Accepted == Mode = "trace" =>
            LET d == TLCGet("stats").diameter IN
            IF d - 1 = Len(Trace) THEN TRUE
            ELSE Print(<<"TRACE_REJECTED_AT_LINE", d, Trace[d]>>, FALSE)
=============================================================================
