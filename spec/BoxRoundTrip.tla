---------------------------- MODULE BoxRoundTrip ----------------------------
(* C01 trace validation: the decode -> encode -> decode -> encode pipeline as a state machine.
   One trace = one byte string pushed through one decode path (DecodeBox, DecodeBoxSR, DecodeFile in
   box-tree mode, DecodeFileSR) and, when accepted, through both encoders.

     start --decode(ok)--> decoded --encode--> encoded --redecode--> redecoded --reencode--> fixed
           --decode(rejected)--> rejected                                  (fixed --encode--> ... second encoder)

   The events carry what the harness observed on the real code (digests of byte strings, with the
   don't-care bits of BoxLayouts' mask cleared where P1 is concerned). The spec's actions are
   enabled only when the observation is one C01 allows:
     P1  Encode     : the encoder succeeds and out = canonical bytes outside the mask (same length)
     P2  Redecode   : the decoder accepts the output, Info-projection of both structures equal
     P3  Reencode   : both encoders of the re-decoded structure give exactly the first output
   and a trace may only end in `rejected` (input outside the property's domain) or `fixed` after
   BOTH encoders went through the whole pipeline. A recorded execution that the real code cannot
   complete this way is rejected at the offending event. *)
EXTENDS Integers, Sequences, TLC, Json

Trace == ndJsonDeserialize("trace.ndjson")
VARIABLES l, phase, out, done
vars == <<l, phase, out, done>>
Init == l = 1 /\ phase = "end" /\ out = 0 /\ done = {"Encode", "EncodeSW"}
IsEvent(e) == l <= Len(Trace) /\ Trace[l].ev = e /\ l' = l + 1
Complete == phase = "rejected" \/ (phase \in {"fixed", "end"} /\ done = {"Encode", "EncodeSW"})
Reset == IsEvent("reset") /\ Complete /\ phase' = "start" /\ out' = 0 /\ done' = {}
Decode == IsEvent("decode") /\ phase = "start" /\ phase' = (IF Trace[l].ok THEN "fixed" ELSE "rejected") /\ UNCHANGED <<out, done>>
Encode == /\ IsEvent("encode") /\ phase = "fixed" /\ Trace[l].enc \notin done
          /\ Trace[l].ok /\ Trace[l].len = Trace[l].wantlen /\ Trace[l].out = Trace[l].want      \* P1
          /\ phase' = "encoded" /\ out' = Trace[l].exact /\ done' = done \cup {Trace[l].enc}
Redecode == /\ IsEvent("redecode") /\ phase = "encoded"
            /\ Trace[l].ok /\ Trace[l].info1 = Trace[l].info2                                      \* P2
            /\ phase' = "redecoded" /\ UNCHANGED <<out, done>>
Reencode == /\ IsEvent("reencode") /\ phase = "redecoded"
            /\ Trace[l].ok /\ Trace[l].w = out /\ Trace[l].sw = out                                \* P3
            /\ phase' = "fixed" /\ UNCHANGED <<out, done>>
Next == Reset \/ Decode \/ Encode \/ Redecode \/ Reencode
Spec == Init /\ [][Next]_vars
\* the last trace must be complete as well
Accepted == LET d == TLCGet("stats").diameter IN
            IF d - 1 = Len(Trace) THEN TRUE
            ELSE Print(<<"TRACE_REJECTED_AT_LINE", d, Trace[d]>>, FALSE)
=============================================================================
