------------------------------- MODULE Bits -------------------------------
(* Shared operators for the bit / Exp-Golomb / emulation-prevention coders of
   package bits (C13; re-used by the SEI, AVC/HEVC and AAC syntax specs).

   Two layers:
     * Prop layer  - what ISO/IEC 14496-10 7.4.1 / 9.1 require, as predicates over
                     observable byte and bit sequences (NoForbidden, Unescape, UECode..).
     * Impl layer  - the machines the code implements, one step operator per
                     critical step (WStep = EBSPWriter byte emission, RStep = EBSPReader
                     byte fetch, AccWrite = bit accumulator).
   Bytes are 0..255, bits are 0..1, both in sequences. Values of 32 bits or more are
   never TLC integers (TLC ints are 32 bit signed): they stay bit sequences. *)
EXTENDS Integers, Sequences, FiniteSets

(* ------------------------------------------------------------------ helpers *)
RECURSIVE Zeros(_)
Zeros(n) == IF n <= 0 THEN <<>> ELSE <<0>> \o Zeros(n - 1)

RECURSIVE Ones(_)
Ones(n) == IF n <= 0 THEN <<>> ELSE <<1>> \o Ones(n - 1)

RECURSIVE Flatten(_)
Flatten(ss) == IF ss = <<>> THEN <<>> ELSE Head(ss) \o Flatten(Tail(ss))

\* binary representation of a natural number < 2^31, most significant bit first, no leading zeros
RECURSIVE Bin(_)
Bin(n) == IF n = 0 THEN <<>> ELSE Bin(n \div 2) \o <<n % 2>>

\* n-bit representation, MSB first
BinW(n, w) == LET b == Bin(n) IN Zeros(w - Len(b)) \o b

RECURSIVE Val(_)
Val(bits) == IF bits = <<>> THEN 0 ELSE 2 * Val(SubSeq(bits, 1, Len(bits) - 1)) + bits[Len(bits)]

ByteOf(bits8) == Val(bits8)

RECURSIVE Pack(_)
\* pack a bit sequence whose length is a multiple of 8 into bytes
Pack(bits) == IF Len(bits) < 8 THEN <<>> ELSE <<ByteOf(SubSeq(bits, 1, 8))>> \o Pack(SubSeq(bits, 9, Len(bits)))

RECURSIVE Unpack(_)
Unpack(bytes) == IF bytes = <<>> THEN <<>> ELSE BinW(Head(bytes), 8) \o Unpack(Tail(bytes))

PadLen(n) == (8 - (n % 8)) % 8
FlushPad(bits) == bits \o Zeros(PadLen(Len(bits)))                 \* Writer.Flush / StuffByteWithZeros
RbspTrail(bits) == LET b1 == bits \o <<1>> IN b1 \o Zeros(PadLen(Len(b1)))  \* rbsp_trailing_bits()

(* ------------------------------------------------------- Exp-Golomb (9.1) *)
\* ue(v) code for codeNum k, given P = binary(k+1) (starts with 1): [len(P)-1 zeros] P
UECodeP(P) == Zeros(Len(P) - 1) \o P
UECode(k) == UECodeP(Bin(k + 1))
\* se(v): v > 0 -> codeNum 2v-1 ; v <= 0 -> codeNum -2v      (table 9-3)
SEMap(v) == IF v > 0 THEN 2 * v - 1 ELSE (0 - 2) * v
SECode(v) == UECode(SEMap(v))
SEUnmap(k) == IF k % 2 = 1 THEN (k + 1) \div 2 ELSE 0 - (k \div 2)

\* number of leading zero bits
RECURSIVE LeadZ(_)
LeadZ(bits) == IF bits = <<>> \/ Head(bits) = 1 THEN 0 ELSE 1 + LeadZ(Tail(bits))

\* SEI ff-run coding of a payload type / size value (D.1): 0xFF repeated, then remainder
RECURSIVE FFRun(_)
FFRun(v) == IF v >= 255 THEN <<255>> \o FFRun(v - 255) ELSE <<v>>

(* -------------------------------------------- emulation prevention (7.4.1) *)
\* Prop: forbidden three-byte patterns inside a NAL unit payload
NoForbidden(s) == \A i \in 1 .. (Len(s) - 2) : ~(s[i] = 0 /\ s[i + 1] = 0 /\ s[i + 2] \in {0, 1, 2})

\* Prop: removal of emulation_prevention_three_byte: a 03 directly after two zero bytes
\* (zero count restarts after the removed byte)
RECURSIVE UnescapeR(_, _)
UnescapeR(s, z) ==
    IF s = <<>> THEN <<>>
    ELSE LET b == Head(s) IN
         IF z = 2 /\ b = 3 THEN UnescapeR(Tail(s), 0)
         ELSE <<b>> \o UnescapeR(Tail(s), IF b = 0 THEN (IF z < 2 THEN z + 1 ELSE 2) ELSE 0)
Unescape(s) == UnescapeR(s, 0)

\* positions (1-based, in s) of the bytes Unescape removes
RECURSIVE EscPosR(_, _, _)
EscPosR(s, z, i) ==
    IF s = <<>> THEN {}
    ELSE LET b == Head(s) IN
         IF z = 2 /\ b = 3 THEN {i} \cup EscPosR(Tail(s), 0, i + 1)
         ELSE EscPosR(Tail(s), IF b = 0 THEN (IF z < 2 THEN z + 1 ELSE 2) ELSE 0, i + 1)
EscPositions(s) == EscPosR(s, 0, 1)

RemoveAt(s, i) == SubSeq(s, 1, i - 1) \o SubSeq(s, i + 1, Len(s))

\* Prop B4: every inserted byte is necessary - dropping any single one re-creates a forbidden
\* pattern or changes the payload that a conforming reader extracts
Minimal(raw, out) ==
    \A p \in EscPositions(out) :
        LET o2 == RemoveAt(out, p) IN ~NoForbidden(o2) \/ Unescape(o2) # raw

\* The unique stream satisfying NoForbidden, Unescape(out) = raw and Minimal (reference encoder)
RECURSIVE EscapeR(_, _)
EscapeR(raw, z) ==
    IF raw = <<>> THEN <<>>
    ELSE LET b == Head(raw) IN
         IF z = 2 /\ b <= 3 THEN <<3, b>> \o EscapeR(Tail(raw), IF b = 0 THEN 1 ELSE 0)
         ELSE <<b>> \o EscapeR(Tail(raw), IF b = 0 THEN z + 1 ELSE 0)
Escape(raw) == EscapeR(raw, 0)

\* index (1-based) in Escape(raw) of the image of raw byte i, for every i
RECURSIVE EscIdxR(_, _, _)
EscIdxR(raw, z, at) ==
    IF raw = <<>> THEN <<>>
    ELSE LET b == Head(raw) IN
         IF z = 2 /\ b <= 3 THEN <<at + 2>> \o EscIdxR(Tail(raw), IF b = 0 THEN 1 ELSE 0, at + 2)
         ELSE <<at + 1>> \o EscIdxR(Tail(raw), IF b = 0 THEN z + 1 ELSE 0, at + 1)
EscIdx(raw) == EscIdxR(raw, 0, 0)

(* --------------------------------------------------- Impl: EBSPWriter step *)
\* state: [nr0 |-> zero bytes just emitted (0..2), out |-> bytes emitted by THIS step]
WInit == [nr0 |-> 0]
WEmit(w, b) == IF w.nr0 = 2 /\ b <= 3 THEN <<3, b>> ELSE <<b>>
WNext(w, b) == [nr0 |-> IF w.nr0 = 2 /\ b <= 3 THEN (IF b = 0 THEN 1 ELSE 0)
                        ELSE (IF b = 0 THEN w.nr0 + 1 ELSE 0)]

(* --------------------------------------------------- Impl: EBSPReader step *)
\* state: [zc |-> zero count, pos |-> bytes consumed from the escaped stream]
RInit == [zc |-> 0, pos |-> 0]
\* fetch one payload byte from escaped stream esc; defined only when enough bytes remain
RSkips(r, esc) == r.zc = 2 /\ esc[r.pos + 1] = 3
RCan(r, esc) == r.pos + 1 <= Len(esc) /\ (RSkips(r, esc) => r.pos + 2 <= Len(esc))
RByte(r, esc) == IF RSkips(r, esc) THEN esc[r.pos + 2] ELSE esc[r.pos + 1]
RNext(r, esc) ==
    LET skip == RSkips(r, esc)
        b == RByte(r, esc)
        z0 == IF skip THEN 0 ELSE r.zc
    IN [zc |-> IF b = 0 THEN z0 + 1 ELSE 0, pos |-> r.pos + (IF skip THEN 2 ELSE 1)]

(* ----------------------------------------------- Impl: bit accumulator *)
\* pending = bits not yet emitted (always < 8 after a step). One Write(bits) call:
AccBytes(pending, bits) == Pack(SubSeq(pending \o bits, 1, 8 * (Len(pending \o bits) \div 8)))
AccRest(pending, bits) == LET a == pending \o bits IN SubSeq(a, 8 * (Len(a) \div 8) + 1, Len(a))
=============================================================================
