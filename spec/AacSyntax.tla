----------------------------- MODULE AacSyntax -----------------------------
(* C18: AudioSpecificConfig (ISO/IEC 14496-3, 1.6.2.1, table 1.15/1.16/1.18) and the ADTS
   fixed+variable header (ISO/IEC 13818-7, 6.2.1 / 14496-3 1.A.2) as bit-exact syntax
   operators (Prop: the independent serialiser / reference parser), an Impl model of the
   library's ADTS sync search, and the enumerator for the complete finite domain.

   Mode "asc"  : every supported AudioSpecificConfig -> bytes -> parsed back (D1)
   Mode "adts" : every ADTS header of the domain      -> bytes -> parsed back (D2)
   Mode "sync" : junk prefixes x headers: offset of the sync word (D2, second half)   *)
EXTENDS Bits, TLC, Json

CONSTANTS Mode, ObjTypes, ExplicitFreqs, Channels,
          SfIdx, AdtsChannels, Profiles, PayloadLens, Fullness,
          JunkAlphabet, JunkMaxLen, JunkLong, DoExport

FreqTable == <<96000, 88200, 64000, 48000, 44100, 32000, 24000, 22050, 16000, 12000, 11025, 8000, 7350>>
TableFreqs == {FreqTable[i] : i \in 1 .. 13}
FreqIdx(f) == IF f \in TableFreqs THEN (CHOOSE i \in 1 .. 13 : FreqTable[i] = f) - 1 ELSE 15
FreqBits(f) == IF FreqIdx(f) = 15 THEN BinW(15, 4) \o BinW(f, 24) ELSE BinW(FreqIdx(f), 4)
IsSbr(ot) == ot \in {5, 29}

(* ------------------------------------------------------------ ASC syntax *)
AscBits(a) == BinW(a.ot, 5) \o FreqBits(a.sf) \o BinW(a.ch, 4)
              \o (IF IsSbr(a.ot) THEN FreqBits(a.ef) \o BinW(2, 5) ELSE <<>>)
              \o <<0, 0, 0>>                                   \* GASpecificConfig: all flags 0
AscBytes(a) == Pack(FlushPad(AscBits(a)))

\* reference parser (position-threading); returns the record or "err"
ReadFreq(bits, p) == LET i == Val(SubSeq(bits, p, p + 3)) IN
                     IF i = 15 THEN [f |-> Val(SubSeq(bits, p + 4, p + 27)), p |-> p + 28, ok |-> TRUE]
                     ELSE IF i <= 12 THEN [f |-> FreqTable[i + 1], p |-> p + 4, ok |-> TRUE]
                     ELSE [f |-> 0, p |-> p + 4, ok |-> FALSE]
ParseAsc(bytes) ==
    LET bits == Unpack(bytes)
        ot == Val(SubSeq(bits, 1, 5))
        f1 == ReadFreq(bits, 6)
        ch == Val(SubSeq(bits, f1.p, f1.p + 3))
        f2 == IF IsSbr(ot) THEN ReadFreq(bits, f1.p + 4) ELSE [f |-> 0, p |-> f1.p + 4, ok |-> TRUE]
        base == IF IsSbr(ot) THEN Val(SubSeq(bits, f2.p, f2.p + 4)) ELSE 2
    IN IF ot \notin {2, 5, 29} \/ ~f1.ok \/ ~f2.ok \/ base # 2 THEN "err"
       ELSE [ot |-> ot, sf |-> f1.f, ch |-> ch, ef |-> f2.f, sbr |-> IsSbr(ot), ps |-> ot = 29]

AllPayloadLens == 0 .. 8184
AllFreqs == TableFreqs \cup ExplicitFreqs
AscDomain == {[ot |-> o, sf |-> s, ch |-> c, ef |-> e, sbr |-> IsSbr(o), ps |-> o = 29] :
                 o \in ObjTypes, s \in AllFreqs, c \in Channels, e \in AllFreqs \cup {0}}
AscValid(a) == IF IsSbr(a.ot) THEN a.ef # 0 ELSE a.ef = 0

(* ----------------------------------------------------------- ADTS syntax *)
\* h = [id, pa (protection_absent), ot (object type = profile+1), sfi, ch, pl (payload len), bf, crc]
HdrLen(h) == IF h.pa = 1 THEN 7 ELSE 9
AdtsBits(h) == Ones(12) \o <<h.id>> \o <<0, 0>> \o <<h.pa>> \o BinW(h.ot - 1, 2) \o BinW(h.sfi, 4)
               \o <<0>> \o BinW(h.ch, 3) \o <<0, 0, 0, 0>> \o BinW(h.pl + HdrLen(h), 13)
               \o BinW(h.bf, 11) \o <<0, 0>> \o (IF h.pa = 1 THEN <<>> ELSE BinW(h.crc, 16))
AdtsBytes(h) == Pack(AdtsBits(h))

IsSync(s, p) == p + 1 <= Len(s) /\ s[p] = 255 /\ s[p + 1] \div 16 = 15 /\ (s[p + 1] \div 2) % 4 = 0
\* Prop: the offset reported is the first position (0-based) holding a sync pattern
FirstSync(s) == IF \E p \in 1 .. Len(s) : IsSync(s, p)
                THEN (CHOOSE p \in 1 .. Len(s) : IsSync(s, p) /\ \A q \in 1 .. (p - 1) : ~IsSync(s, q)) - 1
                ELSE -1
\* reference parse of the header that starts at 0-based offset o
ParseAdtsAt(s, o) ==
    LET bits == Unpack(SubSeq(s, o + 1, Len(s)))
        pa == bits[16]
        hl == IF pa = 1 THEN 7 ELSE 9
    IN IF Len(bits) < 8 * hl THEN "err"
       ELSE IF Val(SubSeq(bits, 55, 56)) # 0 THEN "err"
       ELSE [id |-> bits[13], hl |-> hl, ot |-> Val(SubSeq(bits, 17, 18)) + 1, sfi |-> Val(SubSeq(bits, 19, 22)),
             ch |-> Val(SubSeq(bits, 24, 26)), pl |-> Val(SubSeq(bits, 31, 43)) - hl, bf |-> Val(SubSeq(bits, 44, 54))]

\* Impl: the library's search loop (aac/adts.go): at most 188 iterations, re-using a trailing FF
RECURSIVE Search(_, _, _, _, _)
Search(s, i, pos, sync2, offset) ==      \* pos = next unread index (1-based)
    IF i = 188 THEN -1
    ELSE LET reuse == sync2 = 255
             sync1 == IF reuse THEN 255 ELSE (IF pos <= Len(s) THEN s[pos] ELSE -1)
             pos1 == IF reuse THEN pos ELSE pos + 1
             off1 == IF reuse THEN offset - 1 ELSE offset
         IN IF sync1 = -1 THEN -2                                \* read error
            ELSE IF sync1 = 255
                 THEN IF pos1 > Len(s) THEN -2
                      ELSE LET s2 == s[pos1] IN
                           IF s2 \div 16 = 15 /\ (s2 \div 2) % 4 = 0 THEN off1
                           ELSE Search(s, i + 1, pos1 + 1, s2, off1 + 2)
                 ELSE Search(s, i + 1, pos1, 0, off1 + 1)
ImplOffset(s) == Search(s, 0, 1, 0, 0)

\* small PayloadLens: the full product. The complete range 0..8184 (thorough tier): the full product over the
\* boundary lengths plus EVERY length once, walking through profiles / frequencies / channels diagonally
\* (TLC cannot build the 3.4 M element product as one set).
BoundaryPayloadLens == {0, 1, 2, 7, 8, 9, 248, 249, 255, 256, 257, 504, 505, 1016, 1017, 2040, 2041, 4088, 4089, 4096, 8176, 8177, 8183, 8184}
AdtsProduct(lens) == {[id |-> 0, pa |-> 1, ot |-> p + 1, sfi |-> f, ch |-> c, pl |-> l, bf |-> b, crc |-> 0] :
                         p \in Profiles, f \in SfIdx, c \in AdtsChannels, l \in lens, b \in Fullness}
AdtsDomain == IF Cardinality(PayloadLens) <= 64 THEN AdtsProduct(PayloadLens)
              ELSE AdtsProduct(BoundaryPayloadLens)
                   \cup {[id |-> 0, pa |-> 1, ot |-> (l % 4) + 1, sfi |-> l % 13, ch |-> l % 8, pl |-> l, bf |-> b, crc |-> 0] : l \in PayloadLens, b \in Fullness}

RECURSIVE SeqsUpTo(_, _)
SeqsUpTo(S, n) == IF n = 0 THEN {<<>>} ELSE LET r == SeqsUpTo(S, n - 1) IN r \cup {Append(x, b) : x \in r, b \in S}
RECURSIVE Rep(_, _)
Rep(b, n) == IF n = 0 THEN <<>> ELSE <<b>> \o Rep(b, n - 1)
JunkSet == SeqsUpTo(JunkAlphabet, JunkMaxLen)
           \cup {Rep(b, n) \o t : b \in JunkAlphabet, n \in JunkLong, t \in SeqsUpTo(JunkAlphabet, 1)}
SyncHeaders == {[id |-> 0, pa |-> 1, ot |-> 2, sfi |-> 3, ch |-> 2, pl |-> 100, bf |-> 2047, crc |-> 0],
                [id |-> 1, pa |-> 0, ot |-> 1, sfi |-> 11, ch |-> 7, pl |-> 8182, bf |-> 0, crc |-> 43981]}

(* --------------------------------------------------------------- machine *)
VARIABLES phase, inp, bytes, dec
vars == <<phase, inp, bytes, dec>>

Init == /\ phase = "chosen" /\ bytes = <<>> /\ dec = "none"
        /\ CASE Mode = "asc" -> inp \in {a \in AscDomain : AscValid(a)}
             [] Mode = "adts" -> inp \in AdtsDomain
             [] Mode = "sync" -> inp \in {[junk |-> j, h |-> h] : j \in JunkSet, h \in SyncHeaders}

Encode == /\ phase = "chosen" /\ phase' = "encoded"
          /\ bytes' = CASE Mode = "asc" -> AscBytes(inp)
                        [] Mode = "adts" -> AdtsBytes(inp)
                        [] Mode = "sync" -> inp.junk \o AdtsBytes(inp.h)
          /\ UNCHANGED <<inp, dec>>

Decode == /\ phase = "encoded" /\ phase' = "decoded"
          /\ dec' = CASE Mode = "asc" -> ParseAsc(bytes)
                      [] Mode = "adts" -> [off |-> FirstSync(bytes), h |-> ParseAdtsAt(bytes, FirstSync(bytes))]
                      [] Mode = "sync" -> [off |-> FirstSync(bytes), h |-> ParseAdtsAt(bytes, FirstSync(bytes))]
          /\ UNCHANGED <<inp, bytes>>

Next == Encode \/ Decode
Spec == Init /\ [][Next]_vars

CleanJunk(j) == \A p \in 1 .. Len(j) : ~IsSync(j \o <<255>>, p)

\* ---- design-level checks (reference parser inverts reference serialiser; Impl search = Prop)
Proj(h) == [id |-> h.id, hl |-> HdrLen(h), ot |-> h.ot, sfi |-> h.sfi, ch |-> h.ch, pl |-> h.pl, bf |-> h.bf]
D1 == (Mode = "asc" /\ phase = "decoded") => dec = inp
D2 == (Mode = "adts" /\ phase = "decoded") => dec = [off |-> 0, h |-> Proj(inp)]
SyncOK == (Mode = "sync" /\ phase = "decoded") =>
             /\ ImplOffset(bytes) = dec.off                     \* the loop finds the first sync pattern
             /\ CleanJunk(inp.junk) => dec = [off |-> Len(inp.junk), h |-> Proj(inp.h)]

Export == (DoExport /\ phase = "decoded") =>
             PrintT(ToJson([mode |-> Mode, inp |-> inp, bytes |-> bytes, dec |-> dec,
                            clean |-> IF Mode = "sync" THEN CleanJunk(inp.junk) ELSE TRUE]))
=============================================================================
