------------------------------ MODULE BitsOps ------------------------------
(* C13 B1/B6: sequences of fixed-width, flag, ue(v), se(v) and signed fixed-width values.
   History variable `ops` is the behaviour; every reachable state is one op sequence that is
   exported with the bit stream the standard prescribes (Prop: written from ISO/IEC
   14496-10 7.2 / 9.1) and replayed into bits.Writer, bits.EBSPWriter, bits.FixedSliceWriter
   and read back with bits.Reader / bits.EBSPReader.
   Impl: the accumulator machine (pending bits, bytes out). Design check: decoding the
   byte stream by the reference reader gives the ops back, and Acc output = Pack of the
   concatenated codes. *)
EXTENDS Bits, TLC, Json

CONSTANTS Widths,     \* fixed widths to enumerate
          UEBig,      \* lengths L of the big ue values: codeNum+1 = 2^L - 1 and 2^(L-1)
          UESmall,    \* small code numbers
          SEVals,     \* magnitudes of the signed values (both signs are generated)
          ByteLens,   \* lengths of the byte-string ops (written byte by byte, read back with one ReadBytes call at any bit alignment)
          MaxOps, DoExport

Patterns(wd) == { Zeros(wd), Ones(wd), <<1>> \o Zeros(wd - 1), Zeros(wd - 1) \o <<1>>,
                  [i \in 1 .. wd |-> i % 2] }

\* byte strings: all ones; 00 00 03 00 00 01 ... (every triple needs an emulation prevention byte); a counting pattern
ByteAt(pat, i) == CASE pat = "ones" -> 255 [] pat = "esc" -> (IF i % 3 = 0 THEN (IF i % 2 = 0 THEN 1 ELSE 3) ELSE 0) [] OTHER -> (37 * i + 11) % 256
OpSet ==
    {[k |-> "u", bits |-> p] : p \in UNION {Patterns(wd) : wd \in Widths}}
    \cup {[k |-> "s", bits |-> p] : p \in UNION {Patterns(wd) : wd \in (Widths \ {1})}}
    \cup {[k |-> "f", bits |-> <<b>>] : b \in {0, 1}}
    \cup {[k |-> "ue", bits |-> Bin(v + 1)] : v \in UESmall}
    \cup {[k |-> "ue", bits |-> Ones(L)] : L \in UEBig}
    \cup {[k |-> "ue", bits |-> <<1>> \o Zeros(L - 1)] : L \in UEBig}
    \cup {[k |-> "se", bits |-> Bin(SEMap(v) + 1), v |-> v] : v \in SEVals \cup {0 - x : x \in SEVals}}
    \cup {[k |-> "b", bits |-> Flatten([i \in 1 .. n |-> BinW(ByteAt(pat, i), 8)])] : n \in ByteLens, pat \in {"ones", "esc", "count"}}

Code(op) == IF op.k \in {"ue", "se"} THEN UECodeP(op.bits) ELSE op.bits

VARIABLES ops, pending, bytes
vars == <<ops, pending, bytes>>

Init == ops = <<>> /\ pending = <<>> /\ bytes = <<>>

Write(op) ==
    /\ Len(ops) < MaxOps
    /\ ops' = Append(ops, op)
    /\ bytes' = bytes \o AccBytes(pending, Code(op))
    /\ pending' = AccRest(pending, Code(op))

Next == \E op \in OpSet : Write(op)
Spec == Init /\ [][Next]_vars

AllBits == Flatten([i \in 1 .. Len(ops) |-> Code(ops[i])])

\* ---- design-level checks
AccOK == /\ Len(pending) < 8
         /\ bytes \o Pack(FlushPad(pending)) = Pack(FlushPad(AllBits))

\* reference reader: parse the flushed stream guided by the op kinds
RECURSIVE Parse(_, _)
Parse(bits, kinds) ==
    IF kinds = <<>> THEN <<>>
    ELSE LET kd == Head(kinds) IN
         IF kd.k \in {"ue", "se"}
         THEN LET z == LeadZ(bits) IN
              <<SubSeq(bits, z + 1, 2 * z + 1)>> \o Parse(SubSeq(bits, 2 * z + 2, Len(bits)), Tail(kinds))
         ELSE <<SubSeq(bits, 1, kd.n)>> \o Parse(SubSeq(bits, kd.n + 1, Len(bits)), Tail(kinds))

Kinds == [i \in 1 .. Len(ops) |-> [k |-> ops[i].k, n |-> Len(ops[i].bits)]]
RoundTrip == Parse(Unpack(Pack(FlushPad(AllBits))), Kinds) = [i \in 1 .. Len(ops) |-> ops[i].bits]
SEOK == \A i \in 1 .. Len(ops) : ops[i].k = "se" => SEUnmap(Val(ops[i].bits) - 1) = ops[i].v

\* cumulative end positions (in bits) of each op in the raw stream
RECURSIVE CumEnd(_, _)
CumEnd(i, acc) == IF i > Len(ops) THEN <<>> ELSE <<acc + Len(Code(ops[i]))>> \o CumEnd(i + 1, acc + Len(Code(ops[i])))

Export == DoExport =>
    LET fl == Pack(FlushPad(AllBits))
        rb == Pack(RbspTrail(AllBits))
    IN PrintT(ToJson([ops |-> ops, ends |-> CumEnd(1, 0),
                      flush |-> fl, flushEsc |-> Escape(fl), flushIdx |-> EscIdx(fl),
                      rbsp |-> rb, rbspEsc |-> Escape(rb)]))
=============================================================================
