------------------------------ MODULE BitsAbs ------------------------------
(* C13, unbounded part: the joint EBSPWriter -> EBSPReader automaton with only the state
   that matters for escaping: the writer's nr0, the last two bytes on the wire, the reader's
   zero count and at most two bytes in flight. The raw stream is unbounded: any byte of
   Alphabet may come next, forever. TLC explores the complete (finite) state graph, so
   B2 (no forbidden pattern on the wire), B3/B5 (the reader hands back exactly the byte
   written, removing only inserted escapes) and B4 (an escape is inserted only after two
   wire zeros before a byte <= 3) hold for raw streams of every length. *)
EXTENDS Bits, TLC

CONSTANTS Alphabet

VARIABLES w,        \* writer state [nr0]
          last2,    \* last two bytes on the wire (sequence of length <= 2)
          rz,       \* reader zero count (capped at 3: the code only tests = 2)
          ok        \* all Prop checks so far

vars == <<w, last2, rz, ok>>

Init == w = WInit /\ last2 = <<>> /\ rz = 0 /\ ok = TRUE

Last2(s) == IF Len(s) <= 2 THEN s ELSE SubSeq(s, Len(s) - 1, Len(s))

\* reader as a byte automaton over the wire: returns <<new rz, sequence of delivered bytes>>
RECURSIVE Deliver(_, _)
Deliver(z, wire) ==
    IF wire = <<>> THEN <<z, <<>>>>
    ELSE LET b == Head(wire) IN
         IF z = 2 /\ b = 3 THEN Deliver(0, Tail(wire))
         ELSE LET rest == Deliver(IF b = 0 THEN (IF z < 3 THEN z + 1 ELSE 3) ELSE 0, Tail(wire))
              IN <<rest[1], <<b>> \o rest[2]>>

WriteByte(b) ==
    LET emit == WEmit(w, b)
        wire == last2 \o emit
        d == Deliver(rz, emit)
        needed == Len(last2) = 2 /\ last2[1] = 0 /\ last2[2] = 0 /\ b <= 3
    IN /\ w' = WNext(w, b)
       /\ last2' = Last2(wire)
       /\ rz' = d[1]
       /\ ok' = (/\ NoForbidden(wire)                 \* B2
                 /\ d[2] = <<b>>                      \* B3, B5
                 /\ (Len(emit) = 2) = needed)         \* B4: escape iff required

Next == \E b \in Alphabet : WriteByte(b)
Spec == Init /\ [][Next]_vars

AllOK == ok
\* the writer's nr0 is exactly the number of trailing wire zeros (capped by the escape rule)
Nr0IsWireZeros == w.nr0 = (IF Len(last2) >= 1 /\ last2[Len(last2)] = 0
                           THEN (IF Len(last2) = 2 /\ last2[1] = 0 THEN 2 ELSE 1) ELSE 0)
ReaderInSync == rz = w.nr0
=============================================================================
