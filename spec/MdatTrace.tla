------------------------------ MODULE MdatTrace ------------------------------
(* C08 trace validation on real media files: range reads recorded in both decode modes.
   Events carry positions and comparison outcomes against the file's own bytes (byte equality of
   large buffers is decided in the harness); TLC decides which ranges are valid and requires
   success with the right bytes in BOTH modes for each of them (Prop L1/L2). *)
EXTENDS Integers, Sequences, TLC, Json

Trace == ndJsonDeserialize("trace.ndjson")
VARIABLES l, ps, plen
vars == <<l, ps, plen>>
Init == l = 1 /\ ps = 0 /\ plen = 0
IsEvent(e) == l <= Len(Trace) /\ Trace[l].ev = e /\ l' = l + 1
Reset == IsEvent("reset") /\ Trace[l].same_tree /\ ps' = Trace[l].ps /\ plen' = Trace[l].plen
Valid(e) == e.size >= 1 /\ e.start >= ps /\ e.start + e.size <= ps + plen
Range == /\ IsEvent("range")
         /\ Valid(Trace[l]) => (Trace[l].read_ok /\ Trace[l].copy_ok)
         /\ UNCHANGED <<ps, plen>>
Next == Reset \/ Range
Spec == Init /\ [][Next]_vars
Accepted == LET d == TLCGet("stats").diameter IN
            IF d - 1 = Len(Trace) THEN TRUE
            ELSE Print(<<"TRACE_REJECTED_AT_LINE", d, Trace[d]>>, FALSE)
=============================================================================
