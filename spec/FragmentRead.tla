---------------------------- MODULE FragmentRead ----------------------------
(* C05, code -> spec direction: what a reader must return for a track fragment, decided from the RAW box
   fields (ISO/IEC 14496-12 8.8.3 trex, 8.8.7 tfhd, 8.8.8 trun, 8.8.12 tfdt).

   One trace = one track fragment (traf) of a recorded file - a corpus file or a segment written through the
   real Fragment API by the C05 replayer. The driver logs, from its own box walk (not from mp4ff):
     reset : trex defaults of the track, tfhd flags and defaults (-1 = field absent)
     trun  : trun flags, first_sample_flags (-1 = absent), the coded per-sample fields (-1 = absent) and
             the samples the library returned for this run: duration, size, flags, composition offset and
             decode time relative to the fragment's baseMediaDecodeTime
   The spec applies the defaulting rules and keeps the running decode time; a run whose returned samples
   differ from what the rules give is rejected at that event.
     duration / size : trun field, else tfhd default, else trex default
     flags           : trun field, else first_sample_flags for the first sample of the run, else tfhd
                       default, else trex default   (first_sample_flags together with per-sample flags
                       is not allowed by 8.8.8: such runs are not judged on flags)
     composition time offset : trun field, else 0
     decode time     : baseMediaDecodeTime + durations of all earlier samples of the traf            *)
EXTENDS Integers, Sequences, TLC, Json

Trace == ndJsonDeserialize("trace.ndjson")
VARIABLES l, ctx, t
vars == <<l, ctx, t>>
Init == l = 1 /\ ctx = [ev |-> "none"] /\ t = 0
IsEvent(e) == l <= Len(Trace) /\ Trace[l].ev = e /\ l' = l + 1
Reset == IsEvent("reset") /\ ctx' = Trace[l] /\ t' = 0

Has(flags, bit) == (flags \div bit) % 2 = 1
Pick(coded, tfhd, trex) == IF coded # -1 THEN coded ELSE IF tfhd # -1 THEN tfhd ELSE trex
RECURSIVE SumDur(_, _)
SumDur(s, n) == IF n = 0 THEN 0 ELSE s[n][1] + SumDur(s, n - 1)
\* expected sample i of the run e, given the decode time at the start of the run
Expected(e, i, t0) ==
    LET c == e.coded[i]
        dur == Pick(c[1], ctx.tfhd_dur, ctx.trex_dur)
        size == Pick(c[2], ctx.tfhd_size, ctx.trex_size)
        flags == IF c[3] # -1 THEN c[3] ELSE IF i = 1 /\ e.first # -1 THEN e.first ELSE Pick(-1, ctx.tfhd_flags, ctx.trex_flags)
        cto == IF c[4] # -1 THEN c[4] ELSE 0
    IN <<dur, size, flags, cto>>
RECURSIVE RunOK(_, _, _)
RunOK(e, i, t0) ==
    IF i > Len(e.coded) THEN TRUE
    ELSE LET x == Expected(e, i, t0)
             g == e.got[i]
             bothFlags == e.first # -1 /\ Has(e.flags, 1024)
         IN /\ g[1] = x[1] /\ g[2] = x[2] /\ (bothFlags \/ g[3] = x[3]) /\ g[4] = x[4] /\ g[5] = t0
            /\ RunOK(e, i + 1, t0 + x[1])
Trun == /\ IsEvent("trun")
        /\ LET e == Trace[l] IN
           /\ Len(e.got) = Len(e.coded)
           /\ RunOK(e, 1, t)
           /\ t' = t + SumDur([i \in 1 .. Len(e.coded) |-> Expected(e, i, 0)], Len(e.coded))
        /\ UNCHANGED ctx
Next == Reset \/ Trun
Spec == Init /\ [][Next]_vars
Accepted == LET d == TLCGet("stats").diameter IN
            IF d - 1 = Len(Trace) THEN TRUE
            ELSE Print(<<"TRACE_REJECTED_AT_LINE", d, Trace[d]>>, FALSE)
=============================================================================
