------------------------------ MODULE BoxLayouts ------------------------------
(* C01 (also the instance pool of C02/C03/C04): per-box field layouts written from
   ISO/IEC 14496-12 (and -15/-30, 23001-7 where noted), NOT from the Go code, in a small layout DSL
   interpreted by recursive operators:

     U(n, w)        unsigned / signed field of w BYTES            Cnt(n, w)    count field of the Rep that follows
     VU(n, w0, w1)  width depends on version 0 / 1                Const(n, v)  field with a fixed, meaningful value
     Res(v)         reserved / pre_defined bytes with their canonical value  -> DON'T-CARE mask
     If(c, fs)      fields present when condition c holds (flag mask / version)
     Rep(cn, fs)    counted array (count chosen by the instance)  Str0(n)      zero terminated string
     Fix(n, k)      k opaque bytes (4CC, uuid, key id)            Rest(n, k)   k bytes to the end of the box
     Kids(ts)       child boxes (one instance of each listed layout, default shape)
     KidsOpt(ts)    the same for a pure container; no child at all (empty container) when the instance count is 0

   An instance = [box, ver, flags, cnt (count used by every Rep), pick = (field index, boundary kind)].
   Serialize gives the bytes and the don't-care mask (mask byte = the don't-care bits of that byte; 255 for reserved bytes). Every field gets a filler
   that is distinct per field index, so swapped, dropped or truncated fields are visible in a byte
   comparison; `pick` replaces one field by a boundary value (00.., FF.., 7F FF.., 80 00..).
   TLC enumerates every instance of every layout: version x every subset of the defined flag bits x
   counts {0,1,2} x one-field-at-a-time boundary values, exported for replay against the four
   decode paths and both encoders.                                                            *)
EXTENDS Integers, Sequences, FiniteSets, TLC, Json

CONSTANTS Boxes, Counts, PickCounts, SingleFlagPicks, DoExport

Always == [k |-> "always", m |-> 0]
Flag(m) == [k |-> "flag", m |-> m]
Ver(v) == [k |-> "ver", m |-> v]
F(t, n, w, w1, c, f, v) == [t |-> t, n |-> n, w |-> w, w1 |-> w1, c |-> c, f |-> f, v |-> v, mk |-> <<>>]
\* field whose bytes carry reserved BITS: mk[k] is the mask of don't-care bits of byte k
UM(n, w, mk) == [F("u", n, w, w, Always, <<>>, <<>>) EXCEPT !.mk = mk]
\* constant byte string with reserved bits (e.g. 111111b + lengthSizeMinusOne)
ConstM(n, v, mk) == [F("const", n, Len(v), Len(v), Always, <<>>, v) EXCEPT !.mk = mk]
U(n, w) == F("u", n, w, w, Always, <<>>, <<>>)
VU(n, w0, w1) == F("u", n, w0, w1, Always, <<>>, <<>>)
Cnt(n, w) == F("cnt", n, w, w, Always, <<>>, <<>>)
Const(n, v) == F("const", n, Len(v), Len(v), Always, <<>>, v)
Res(v) == F("res", "reserved", Len(v), Len(v), Always, <<>>, v)
If(c, fs) == F("if", "", 0, 0, c, fs, <<>>)
Rep(fs) == F("rep", "", 0, 0, Always, fs, <<>>)
Str0(n) == F("str0", n, 0, 0, Always, <<>>, <<>>)
Fix(n, k) == F("u", n, k, k, Always, <<>>, <<>>)
Rest(n, k) == F("u", n, k, k, Always, <<>>, <<>>)
Kids(ts) == F("kids", "", 0, 0, Always, <<>>, ts)
KidsOpt(ts) == F("kids0", "", 0, 0, Always, <<>>, ts)       \* the children of a pure container: none at all when the instance count is 0

Zeros(n) == [i \in 1 .. n |-> 0]
Unity == <<0, 1, 0, 0, 0, 0, 0, 0, 0, 0, 0, 0, 0, 0, 0, 0, 0, 1, 0, 0, 0, 0, 0, 0, 0, 0, 0, 0, 0, 0, 0, 0, 64, 0, 0, 0>>
Str(s) == s     \* strings are given as byte sequences
A4(a, b, c, d) == <<a, b, c, d>>

(* ------------------------------------------------------------------ layouts *)
\* full = TRUE: FullBox (version + 24-bit flags); vers = versions; flagbits = defined flag bits
L(type, full, vers, flagbits, fields) == [type |-> type, full |-> full, vers |-> vers, flagbits |-> flagbits, fields |-> fields]

Layout(b) ==
  CASE b = "ftyp" -> L("ftyp", FALSE, {0}, {}, <<Fix("major_brand", 4), U("minor_version", 4), Rep(<<Fix("compatible_brand", 4)>>)>>)
    [] b = "styp" -> L("styp", FALSE, {0}, {}, <<Fix("major_brand", 4), U("minor_version", 4), Rep(<<Fix("compatible_brand", 4)>>)>>)
    [] b = "free" -> L("free", FALSE, {0}, {}, <<Rep(<<U("data", 1)>>)>>)
    [] b = "skip" -> L("skip", FALSE, {0}, {}, <<Rep(<<U("data", 1)>>)>>)
    [] b = "mvhd" -> L("mvhd", TRUE, {0, 1}, {}, <<VU("creation_time", 4, 8), VU("modification_time", 4, 8), U("timescale", 4), VU("duration", 4, 8),
                        U("rate", 4), U("volume", 2), Res(Zeros(2)), Res(Zeros(8)), Res(Unity), Res(Zeros(24)), U("next_track_ID", 4)>>)
    [] b = "tkhd" -> L("tkhd", TRUE, {0, 1}, {1, 2, 4, 8}, <<VU("creation_time", 4, 8), VU("modification_time", 4, 8), U("track_ID", 4), Res(Zeros(4)),
                        VU("duration", 4, 8), Res(Zeros(8)), U("layer", 2), U("alternate_group", 2), U("volume", 2), Res(Zeros(2)), Res(Unity),
                        U("width", 4), U("height", 4)>>)
    [] b = "mdhd" -> L("mdhd", TRUE, {0, 1}, {}, <<VU("creation_time", 4, 8), VU("modification_time", 4, 8), U("timescale", 4), VU("duration", 4, 8),
                        UM("language", 2, <<128, 0>>), Res(Zeros(2))>>)
    [] b = "hdlr" -> L("hdlr", TRUE, {0}, {}, <<Res(Zeros(4)), Fix("handler_type", 4), Res(Zeros(12)), Str0("name")>>)
    [] b = "vmhd" -> L("vmhd", TRUE, {0}, {1}, <<U("graphicsmode", 2), U("opcolor_r", 2), U("opcolor_g", 2), U("opcolor_b", 2)>>)
    [] b = "smhd" -> L("smhd", TRUE, {0}, {}, <<U("balance", 2), Res(Zeros(2))>>)
    [] b = "sthd" -> L("sthd", TRUE, {0}, {}, <<>>)
    [] b = "nmhd" -> L("nmhd", TRUE, {0}, {}, <<>>)
    [] b = "url " -> L("url ", TRUE, {0}, {1}, <<If(Flag(-1), <<Str0("location")>>)>>)       \* location present when flag 1 is NOT set
    [] b = "dref" -> L("dref", TRUE, {0}, {}, <<Const("entry_count", <<0, 0, 0, 1>>), Kids(<<"url ">>)>>)
    [] b = "stts" -> L("stts", TRUE, {0}, {}, <<Cnt("entry_count", 4), Rep(<<U("sample_count", 4), U("sample_delta", 4)>>)>>)
    [] b = "ctts" -> L("ctts", TRUE, {0, 1}, {}, <<Cnt("entry_count", 4), Rep(<<U("sample_count", 4), U("sample_offset", 4)>>)>>)
    [] b = "stsc" -> L("stsc", TRUE, {0}, {}, <<Cnt("entry_count", 4), Rep(<<U("first_chunk", 4), U("samples_per_chunk", 4), U("sample_description_index", 4)>>)>>)
    [] b = "stsz" -> L("stsz", TRUE, {0}, {}, <<Const("sample_size", Zeros(4)), Cnt("sample_count", 4), Rep(<<U("entry_size", 4)>>)>>)
    [] b = "stsz-uniform" -> L("stsz", TRUE, {0}, {}, <<U("sample_size", 4), U("sample_count", 4)>>)
    [] b = "stco" -> L("stco", TRUE, {0}, {}, <<Cnt("entry_count", 4), Rep(<<U("chunk_offset", 4)>>)>>)
    [] b = "co64" -> L("co64", TRUE, {0}, {}, <<Cnt("entry_count", 4), Rep(<<U("chunk_offset", 8)>>)>>)
    [] b = "stss" -> L("stss", TRUE, {0}, {}, <<Cnt("entry_count", 4), Rep(<<U("sample_number", 4)>>)>>)
    [] b = "sdtp" -> L("sdtp", TRUE, {0}, {}, <<Rep(<<U("sample_dependency", 1)>>)>>)
    [] b = "elst" -> L("elst", TRUE, {0, 1}, {}, <<Cnt("entry_count", 4), Rep(<<VU("segment_duration", 4, 8), VU("media_time", 4, 8), U("media_rate_integer", 2), U("media_rate_fraction", 2)>>)>>)
    [] b = "mehd" -> L("mehd", TRUE, {0, 1}, {}, <<VU("fragment_duration", 4, 8)>>)
    [] b = "trex" -> L("trex", TRUE, {0}, {}, <<U("track_ID", 4), U("default_sample_description_index", 4), U("default_sample_duration", 4), U("default_sample_size", 4), U("default_sample_flags", 4)>>)
    [] b = "mfhd" -> L("mfhd", TRUE, {0}, {}, <<U("sequence_number", 4)>>)
    [] b = "tfhd" -> L("tfhd", TRUE, {0}, {1, 2, 8, 16, 32, 65536, 131072}, <<U("track_ID", 4), If(Flag(1), <<U("base_data_offset", 8)>>), If(Flag(2), <<U("sample_description_index", 4)>>),
                        If(Flag(8), <<U("default_sample_duration", 4)>>), If(Flag(16), <<U("default_sample_size", 4)>>), If(Flag(32), <<U("default_sample_flags", 4)>>)>>)
    [] b = "tfdt" -> L("tfdt", TRUE, {0, 1}, {}, <<VU("baseMediaDecodeTime", 4, 8)>>)
    [] b = "trun" -> L("trun", TRUE, {0, 1}, {1, 4, 256, 512, 1024, 2048}, <<Cnt("sample_count", 4), If(Flag(1), <<U("data_offset", 4)>>), If(Flag(4), <<U("first_sample_flags", 4)>>),
                        Rep(<<If(Flag(256), <<U("sample_duration", 4)>>), If(Flag(512), <<U("sample_size", 4)>>), If(Flag(1024), <<U("sample_flags", 4)>>),
                              If(Flag(2048), <<U("sample_composition_time_offset", 4)>>)>>)>>)
    [] b = "sidx" -> L("sidx", TRUE, {0, 1}, {}, <<U("reference_ID", 4), U("timescale", 4), VU("earliest_presentation_time", 4, 8), VU("first_offset", 4, 8), Res(Zeros(2)),
                        Cnt("reference_count", 2), Rep(<<U("reference_type_and_size", 4), U("subsegment_duration", 4), U("SAP", 4)>>)>>)
    [] b = "emsg" -> L("emsg", TRUE, {0, 1}, {}, <<If(Ver(0), <<Str0("scheme_id_uri"), Str0("value"), U("timescale", 4), U("presentation_time_delta", 4), U("event_duration", 4), U("id", 4)>>),
                        If(Ver(1), <<U("timescale", 4), U("presentation_time", 8), U("event_duration", 4), U("id", 4), Str0("scheme_id_uri"), Str0("value")>>),
                        Rep(<<U("message_data", 1)>>)>>)
    [] b = "prft" -> L("prft", TRUE, {0, 1}, {}, <<U("reference_track_ID", 4), U("ntp_timestamp", 8), VU("media_time", 4, 8)>>)
    [] b = "mfro" -> L("mfro", TRUE, {0}, {}, <<U("size", 4)>>)
    [] b = "tfra" -> L("tfra", TRUE, {0, 1}, {}, <<U("track_ID", 4), Const("length_sizes", Zeros(4)), Cnt("number_of_entry", 4),
                        Rep(<<VU("time", 4, 8), VU("moof_offset", 4, 8), U("traf_number", 1), U("trun_number", 1), U("sample_number", 1)>>)>>)
    [] b = "saio" -> L("saio", TRUE, {0, 1}, {1}, <<If(Flag(1), <<Fix("aux_info_type", 4), U("aux_info_type_parameter", 4)>>), Cnt("entry_count", 4), Rep(<<VU("offset", 4, 8)>>)>>)
    [] b = "saiz" -> L("saiz", TRUE, {0}, {1}, <<If(Flag(1), <<Fix("aux_info_type", 4), U("aux_info_type_parameter", 4)>>), Const("default_sample_info_size", <<0>>), Cnt("sample_count", 4),
                        Rep(<<U("sample_info_size", 1)>>)>>)
    [] b = "saiz-default" -> L("saiz", TRUE, {0}, {1}, <<If(Flag(1), <<Fix("aux_info_type", 4), U("aux_info_type_parameter", 4)>>), Const("default_sample_info_size", <<16>>), U("sample_count", 4)>>)
    [] b = "tenc" -> L("tenc", TRUE, {0, 1}, {}, <<Res(Zeros(1)), If(Ver(0), <<Res(Zeros(1))>>), If(Ver(1), <<U("crypt_skip_byte_block", 1)>>), Const("default_isProtected", <<1>>),
                        Const("default_Per_Sample_IV_Size", <<8>>), Fix("default_KID", 16)>>)
    [] b = "tenc-constiv" -> L("tenc", TRUE, {1}, {}, <<Res(Zeros(1)), U("crypt_skip_byte_block", 1), Const("default_isProtected", <<1>>), Const("default_Per_Sample_IV_Size", <<0>>),
                        Fix("default_KID", 16), Const("default_constant_IV_size", <<16>>), Fix("default_constant_IV", 16)>>)
    [] b = "schm" -> L("schm", TRUE, {0}, {1}, <<Fix("scheme_type", 4), U("scheme_version", 4), If(Flag(1), <<Str0("scheme_uri")>>)>>)
    [] b = "frma" -> L("frma", FALSE, {0}, {}, <<Fix("data_format", 4)>>)
    [] b = "pssh" -> L("pssh", TRUE, {0, 1}, {}, <<Fix("SystemID", 16), If(Ver(1), <<Cnt("KID_count", 4), Rep(<<Fix("KID", 16)>>)>>), Const("DataSize", <<0, 0, 0, 5>>), Fix("Data", 5)>>)
    [] b = "sbgp" -> L("sbgp", TRUE, {0, 1}, {}, <<Fix("grouping_type", 4), If(Ver(1), <<U("grouping_type_parameter", 4)>>), Cnt("entry_count", 4), Rep(<<U("sample_count", 4), U("group_description_index", 4)>>)>>)
    [] b = "subs" -> L("subs", TRUE, {0, 1}, {}, <<Cnt("entry_count", 4), Rep(<<U("sample_delta", 4), Const("subsample_count", <<0, 1>>), VU("subsample_size", 2, 4), U("subsample_priority", 1), U("discardable", 1),
                        U("codec_specific_parameters", 4)>>)>>)
    [] b = "btrt" -> L("btrt", FALSE, {0}, {}, <<U("bufferSizeDB", 4), U("maxBitrate", 4), U("avgBitrate", 4)>>)
    [] b = "pasp" -> L("pasp", FALSE, {0}, {}, <<U("hSpacing", 4), U("vSpacing", 4)>>)
    [] b = "clap" -> L("clap", FALSE, {0}, {}, <<U("cleanApertureWidthN", 4), U("cleanApertureWidthD", 4), U("cleanApertureHeightN", 4), U("cleanApertureHeightD", 4),
                        U("horizOffN", 4), U("horizOffD", 4), U("vertOffN", 4), U("vertOffD", 4)>>)
    [] b = "colr" -> L("colr", FALSE, {0}, {}, <<Const("colour_type", <<110, 99, 108, 120>>), U("colour_primaries", 2), U("transfer_characteristics", 2), U("matrix_coefficients", 2),
                        ConstM("full_range_flag", <<128>>, <<127>>)>>)
    [] b = "elng" -> L("elng", TRUE, {0}, {}, <<Str0("extended_language")>>)
    [] b = "kind" -> L("kind", TRUE, {0}, {}, <<Str0("schemeURI"), Str0("value")>>)
    [] b = "mdat" -> L("mdat", FALSE, {0}, {}, <<Rep(<<U("data", 1)>>)>>)
    [] b = "uuid" -> L("uuid", FALSE, {0}, {}, <<Const("usertype", <<118, 101, 114, 105, 102, 45, 117, 117, 105, 100, 45, 116, 101, 115, 116, 33>>), Rep(<<U("data", 1)>>)>>)
    [] b = "zzzz" -> L("zzzz", FALSE, {0}, {}, <<Rep(<<U("data", 1)>>)>>)
    [] b = "avc1" -> L("avc1", FALSE, {0}, {}, <<Res(Zeros(6)), U("data_reference_index", 2), Res(Zeros(2)), Res(Zeros(2)), Res(Zeros(12)), U("width", 2), U("height", 2),
                        U("horizresolution", 4), U("vertresolution", 4), Res(Zeros(4)), U("frame_count", 2), Const("compressorname_len", <<5>>), Fix("compressorname", 5), Const("compressorname_pad", Zeros(26)),
                        U("depth", 2), Res(<<255, 255>>), Kids(<<"btrt", "pasp">>)>>)
    [] b = "mp4a" -> L("mp4a", FALSE, {0}, {}, <<Res(Zeros(6)), U("data_reference_index", 2), Res(Zeros(8)), U("channelcount", 2), U("samplesize", 2), Res(Zeros(2)), Res(Zeros(2)),
                        U("samplerate", 4), Kids(<<"btrt">>)>>)
    [] b = "stsd" -> L("stsd", TRUE, {0}, {}, <<Const("entry_count", <<0, 0, 0, 2>>), Kids(<<"avc1", "mp4a">>)>>)
    [] b = "edts" -> L("edts", FALSE, {0}, {}, <<KidsOpt(<<"elst">>)>>)
    [] b = "dinf" -> L("dinf", FALSE, {0}, {}, <<KidsOpt(<<"dref">>)>>)
    [] b = "mvex" -> L("mvex", FALSE, {0}, {}, <<KidsOpt(<<"mehd", "trex">>)>>)
    [] b = "stbl" -> L("stbl", FALSE, {0}, {}, <<KidsOpt(<<"stsd", "stts", "ctts", "stsc", "stsz", "stco", "stss", "sdtp">>)>>)
    [] b = "minf" -> L("minf", FALSE, {0}, {}, <<KidsOpt(<<"vmhd", "dinf", "stbl">>)>>)
    [] b = "mdia" -> L("mdia", FALSE, {0}, {}, <<KidsOpt(<<"mdhd", "hdlr", "elng", "minf">>)>>)
    [] b = "trak" -> L("trak", FALSE, {0}, {}, <<KidsOpt(<<"tkhd", "edts", "mdia">>)>>)
    [] b = "moov" -> L("moov", FALSE, {0}, {}, <<KidsOpt(<<"mvhd", "trak", "mvex", "pssh">>)>>)
    [] b = "traf" -> L("traf", FALSE, {0}, {}, <<KidsOpt(<<"tfhd", "tfdt", "trun", "sbgp", "subs">>)>>)
    [] b = "moof" -> L("moof", FALSE, {0}, {}, <<KidsOpt(<<"mfhd", "traf">>)>>)
    [] b = "mfra" -> L("mfra", FALSE, {0}, {}, <<KidsOpt(<<"tfra", "mfro">>)>>)
    [] b = "sinf" -> L("sinf", FALSE, {0}, {}, <<KidsOpt(<<"frma", "schm", "schi">>)>>)
    [] b = "schi" -> L("schi", FALSE, {0}, {}, <<KidsOpt(<<"tenc">>)>>)
    [] b = "cslg" -> L("cslg", TRUE, {0, 1}, {}, <<VU("compositionToDTSShift", 4, 8), VU("leastDecodeToDisplayDelta", 4, 8), VU("greatestDecodeToDisplayDelta", 4, 8),
                        VU("compositionStartTime", 4, 8), VU("compositionEndTime", 4, 8)>>)
    [] b = "cdsc" -> L("cdsc", FALSE, {0}, {}, <<Rep(<<U("track_ID", 4)>>)>>)
    [] b = "hint" -> L("hint", FALSE, {0}, {}, <<Rep(<<U("track_ID", 4)>>)>>)
    [] b = "tref" -> L("tref", FALSE, {0}, {}, <<KidsOpt(<<"cdsc", "hint">>)>>)
    [] b = "trep" -> L("trep", TRUE, {0}, {}, <<U("track_ID", 4), Kids(<<"zzzz">>)>>)
    [] b = "leva" -> L("leva", TRUE, {0}, {}, <<Cnt("level_count", 1), Rep(<<U("track_ID", 4), Const("padding_flag_assignment_type", <<130>>)>>)>>)
    [] b = "leva-grouping" -> L("leva", TRUE, {0}, {}, <<Cnt("level_count", 1), Rep(<<U("track_ID", 4), Const("padding_flag_assignment_type", <<1>>), Fix("grouping_type", 4),
                        U("grouping_type_parameter", 4)>>)>>)
    [] b = "leva-subtrack" -> L("leva", TRUE, {0}, {}, <<Cnt("level_count", 1), Rep(<<U("track_ID", 4), Const("padding_flag_assignment_type", <<4>>), U("sub_track_ID", 4)>>)>>)
    [] b = "ssix" -> L("ssix", TRUE, {0}, {}, <<Cnt("subsegment_count", 4), Rep(<<Cnt("range_count", 4), Rep(<<U("level", 1), U("range_size", 3)>>)>>)>>)
    [] b = "sgpd-roll" -> L("sgpd", TRUE, {1}, {}, <<Const("grouping_type", <<114, 111, 108, 108>>), Const("default_length", <<0, 0, 0, 2>>), Cnt("entry_count", 4), Rep(<<U("roll_distance", 2)>>)>>)
    [] b = "sgpd-seig" -> L("sgpd", TRUE, {1}, {}, <<Const("grouping_type", <<115, 101, 105, 103>>), Const("default_length", <<0, 0, 0, 20>>), Cnt("entry_count", 4),
                        Rep(<<Res(Zeros(1)), U("crypt_skip_byte_block", 1), Const("isProtected", <<1>>), Const("Per_Sample_IV_Size", <<8>>), Fix("KID", 16)>>)>>)
    [] b = "sgpd-rap" -> L("sgpd", TRUE, {1}, {}, <<Const("grouping_type", <<114, 97, 112, 32>>), Const("default_length", <<0, 0, 0, 1>>), Cnt("entry_count", 4), Rep(<<U("num_leading_samples_known_and_num", 1)>>)>>)
    \* "-odd" shapes: not allowed by the standard, but the property binds them all the same - what a decoder ACCEPTS it must reproduce.
    \* description length larger than the fixed size of the entries of a known grouping type
    [] b = "sgpd-rap-odd" -> L("sgpd", TRUE, {1}, {}, <<Const("grouping_type", <<114, 97, 112, 32>>), Const("default_length", <<0, 0, 0, 2>>), Cnt("entry_count", 4), Rep(<<U("entry_of_2_bytes", 2)>>)>>)
    [] b = "sgpd-roll-odd" -> L("sgpd", TRUE, {1}, {}, <<Const("grouping_type", <<114, 111, 108, 108>>), Const("default_length", <<0, 0, 0, 3>>), Cnt("entry_count", 4), Rep(<<U("entry_of_3_bytes", 3)>>)>>)
    [] b = "sgpd-v2" -> L("sgpd", TRUE, {2}, {}, <<Const("grouping_type", <<114, 111, 108, 108>>), Const("default_length", <<0, 0, 0, 2>>), U("default_group_description_index", 4), Cnt("entry_count", 4), Rep(<<U("roll_distance", 2)>>)>>)
    \* default_length 0: every entry carries its own description_length (version 1 and 2; 8.9.3.2, 2015 edition and later: version >= 1)
    [] b = "sgpd-v1-len0" -> L("sgpd", TRUE, {1}, {}, <<Const("grouping_type", <<114, 111, 108, 108>>), Const("default_length", <<0, 0, 0, 0>>), Cnt("entry_count", 4),
                        Rep(<<Const("description_length", <<0, 0, 0, 2>>), U("roll_distance", 2)>>)>>)
    [] b = "sgpd-v2-len0" -> L("sgpd", TRUE, {2}, {}, <<Const("grouping_type", <<114, 111, 108, 108>>), Const("default_length", <<0, 0, 0, 0>>), U("default_group_description_index", 4), Cnt("entry_count", 4),
                        Rep(<<Const("description_length", <<0, 0, 0, 2>>), U("roll_distance", 2)>>)>>)
    \* alst (14496-12 10.4): roll_count offsets, then optional (num_output_samples, num_total_samples) pairs up to the description length;
    \* "-odd": roll_count promises more offsets than the description length holds
    [] b = "sgpd-alst" -> L("sgpd", TRUE, {1}, {}, <<Const("grouping_type", <<97, 108, 115, 116>>), Const("default_length", <<0, 0, 0, 12>>), Cnt("entry_count", 4),
                        Rep(<<Const("roll_count", <<0, 2>>), U("first_output_sample", 2), U("sample_offset_0", 4), U("sample_offset_1", 4)>>)>>)
    [] b = "sgpd-alst-opt" -> L("sgpd", TRUE, {1}, {}, <<Const("grouping_type", <<97, 108, 115, 116>>), Const("default_length", <<0, 0, 0, 16>>), Cnt("entry_count", 4),
                        Rep(<<Const("roll_count", <<0, 1>>), U("first_output_sample", 2), U("sample_offset_0", 4), U("num_output_samples_0", 2), U("num_total_samples_0", 2),
                              U("num_output_samples_1", 2), U("num_total_samples_1", 2)>>)>>)
    [] b = "sgpd-alst-odd" -> L("sgpd", TRUE, {1}, {}, <<Const("grouping_type", <<97, 108, 115, 116>>), Const("default_length", <<0, 0, 0, 8>>), Cnt("entry_count", 4),
                        Rep(<<Const("roll_count", <<0, 2>>), U("first_output_sample", 2), U("sample_offset_0", 4)>>)>>)
    [] b = "sgpd-unknown" -> L("sgpd", TRUE, {1}, {}, <<Const("grouping_type", <<113, 113, 113, 113>>), Const("default_length", <<0, 0, 0, 3>>), Cnt("entry_count", 4), Rep(<<U("opaque", 3)>>)>>)
    [] b = "senc" -> L("senc", TRUE, {0}, {2}, <<Cnt("sample_count", 4), Rep(<<Fix("InitializationVector", 8), If(Flag(2), <<Const("subsample_count", <<0, 1>>), U("BytesOfClearData", 2), U("BytesOfProtectedData", 4)>>)>>)>>)
    [] b = "stpp" -> L("stpp", FALSE, {0}, {}, <<Res(Zeros(6)), U("data_reference_index", 2), Str0("namespace"), Str0("schema_location"), Str0("auxiliary_mime_types"), Kids(<<"btrt">>)>>)
    [] b = "wvtt" -> L("wvtt", FALSE, {0}, {}, <<Res(Zeros(6)), U("data_reference_index", 2), Kids(<<"vttC", "vlab", "btrt">>)>>)
    [] b = "vttC" -> L("vttC", FALSE, {0}, {}, <<Fix("config", 6)>>)
    [] b = "vlab" -> L("vlab", FALSE, {0}, {}, <<Fix("source_label", 5)>>)
    [] b = "payl" -> L("payl", FALSE, {0}, {}, <<Fix("cue_text", 7)>>)
    [] b = "iden" -> L("iden", FALSE, {0}, {}, <<Fix("cue_id", 3)>>)
    [] b = "sttg" -> L("sttg", FALSE, {0}, {}, <<Fix("settings", 4)>>)
    [] b = "ctim" -> L("ctim", FALSE, {0}, {}, <<Fix("cue_current_time", 12)>>)
    [] b = "vsid" -> L("vsid", FALSE, {0}, {}, <<U("source_ID", 4)>>)
    [] b = "vtta" -> L("vtta", FALSE, {0}, {}, <<Fix("cue_additional_text", 5)>>)
    [] b = "vtte" -> L("vtte", FALSE, {0}, {}, <<>>)
    [] b = "vttc" -> L("vttc", FALSE, {0}, {}, <<KidsOpt(<<"vsid", "iden", "ctim", "sttg", "payl">>)>>)
    [] b = "mime" -> L("mime", TRUE, {0}, {}, <<Str0("content_type")>>)
    [] b = "meta" -> L("meta", TRUE, {0}, {}, <<KidsOpt(<<"hdlr", "ilst">>)>>)
    [] b = "meta-qt" -> L("meta", FALSE, {0}, {}, <<KidsOpt(<<"hdlr", "ilst">>)>>)       \* QuickTime meta atom: no version / flags, recognised by its first child
    [] b = "ilst" -> L("ilst", FALSE, {0}, {}, <<KidsOpt(<<"Ctoo">>)>>)
    [] b = "Ctoo" -> L("Ctoo", FALSE, {0}, {}, <<KidsOpt(<<"data">>)>>)
    [] b = "data" -> L("data", FALSE, {0}, {}, <<U("type_indicator", 4), U("locale_indicator", 4), Rep(<<U("value", 1)>>)>>)
    [] b = "evte" -> L("evte", FALSE, {0}, {}, <<Res(Zeros(6)), U("data_reference_index", 2), Kids(<<"btrt", "silb">>)>>)
    [] b = "silb" -> L("silb", TRUE, {0}, {}, <<Cnt("number_of_schemes", 4), Rep(<<Str0("scheme_id_uri"), Str0("value"), Const("at_least_one_flag", <<1>>)>>), Const("other_schemes_flag", <<0>>)>>)
    [] b = "emib" -> L("emib", TRUE, {0}, {}, <<Res(Zeros(4)), U("presentation_time_delta", 8), U("event_duration", 4), U("id", 4), Str0("scheme_id_uri"), Str0("value"), Rep(<<U("message_data", 1)>>)>>)
    [] b = "emeb" -> L("emeb", FALSE, {0}, {}, <<>>)
    [] b = "dac3" -> L("dac3", FALSE, {0}, {}, <<UM("fscod_bsid_bsmod_acmod_lfeon_bitratecode", 3, <<0, 0, 31>>)>>)
    [] b = "dec3" -> L("dec3", FALSE, {0}, {}, <<Const("data_rate_num_ind_sub0", <<17, 40>>), UM("fscod_bsid_reserved", 1, <<1>>), U("asvc_bsmod_acmod_lfeon", 1), ConstM("reserved_num_dep_sub0_reserved", <<0>>, <<225>>)>>)
    \* E-AC-3 with a dependent substream and channel locations (7.1 carried as 5.1 + dependent), and plain 5.1 with the same acmod
    [] b = "dec3-dep" -> L("dec3", FALSE, {0}, {}, <<Const("data_rate_num_ind_sub0", <<17, 40>>), UM("fscod_bsid_reserved", 1, <<1>>), Const("asvc_bsmod_acmod7_lfeon0", <<14>>),
                        ConstM("reserved_num_dep_sub1_chan_loc8", <<2>>, <<224>>), Const("chan_loc_7_0", <<3>>)>>)
    [] b = "dec3-51" -> L("dec3", FALSE, {0}, {}, <<Const("data_rate_num_ind_sub0", <<17, 40>>), UM("fscod_bsid_reserved", 1, <<1>>), Const("asvc_bsmod_acmod7_lfeon1", <<15>>),
                        ConstM("reserved_num_dep_sub0_reserved", <<0>>, <<225>>)>>)
    [] b = "ec-3" -> L("ec-3", FALSE, {0}, {}, <<Res(Zeros(6)), U("data_reference_index", 2), Res(Zeros(8)), U("channelcount", 2), U("samplesize", 2), Res(Zeros(2)), Res(Zeros(2)),
                        U("samplerate_integer", 2), Const("samplerate_fraction", <<0, 0>>), Kids(<<"dec3", "btrt">>)>>)
    [] b = "ac-3" -> L("ac-3", FALSE, {0}, {}, <<Res(Zeros(6)), U("data_reference_index", 2), Res(Zeros(8)), U("channelcount", 2), U("samplesize", 2), Res(Zeros(2)), Res(Zeros(2)),
                        U("samplerate_integer", 2), Const("samplerate_fraction", <<0, 0>>), Kids(<<"dac3", "btrt">>)>>)
    [] b = "enca" -> L("enca", FALSE, {0}, {}, <<Res(Zeros(6)), U("data_reference_index", 2), Res(Zeros(8)), U("channelcount", 2), U("samplesize", 2), Res(Zeros(2)), Res(Zeros(2)),
                        U("samplerate_integer", 2), Const("samplerate_fraction", <<0, 0>>), Kids(<<"sinf">>)>>)
    [] b = "hvc1" -> L("hvc1", FALSE, {0}, {}, <<Res(Zeros(6)), U("data_reference_index", 2), Res(Zeros(2)), Res(Zeros(2)), Res(Zeros(12)), U("width", 2), U("height", 2),
                        U("horizresolution", 4), U("vertresolution", 4), Res(Zeros(4)), U("frame_count", 2), Const("compressorname_len", <<0>>), Const("compressorname_pad", Zeros(31)),
                        Const("depth", <<0, 24>>), Res(<<255, 255>>), Kids(<<"hvcC", "colr", "clap">>)>>)
    [] b = "encv" -> L("encv", FALSE, {0}, {}, <<Res(Zeros(6)), U("data_reference_index", 2), Res(Zeros(2)), Res(Zeros(2)), Res(Zeros(12)), U("width", 2), U("height", 2),
                        U("horizresolution", 4), U("vertresolution", 4), Res(Zeros(4)), U("frame_count", 2), Const("compressorname_len", <<0>>), Const("compressorname_pad", Zeros(31)),
                        Const("depth", <<0, 24>>), Res(<<255, 255>>), Kids(<<"avcC", "sinf">>)>>)
    [] b = "avcC" -> L("avcC", FALSE, {0}, {}, <<Const("configurationVersion", <<1>>), U("AVCProfileIndication", 1), U("profile_compatibility", 1), U("AVCLevelIndication", 1),
                        ConstM("reserved_lengthSizeMinusOne", <<255>>, <<252>>), ConstM("reserved_numOfSequenceParameterSets", <<225>>, <<224>>), Const("sequenceParameterSetLength", <<0, 4>>), Fix("sequenceParameterSetNALUnit", 4),
                        Const("numOfPictureParameterSets", <<1>>), Const("pictureParameterSetLength", <<0, 3>>), Fix("pictureParameterSetNALUnit", 3)>>)
    [] b = "avcC-high" -> L("avcC", FALSE, {0}, {}, <<Const("configurationVersion", <<1>>), Const("AVCProfileIndication", <<100>>), U("profile_compatibility", 1), U("AVCLevelIndication", 1),
                        ConstM("reserved_lengthSizeMinusOne", <<255>>, <<252>>), ConstM("reserved_numOfSequenceParameterSets", <<225>>, <<224>>), Const("sequenceParameterSetLength", <<0, 4>>), Fix("sequenceParameterSetNALUnit", 4),
                        Const("numOfPictureParameterSets", <<1>>), Const("pictureParameterSetLength", <<0, 3>>), Fix("pictureParameterSetNALUnit", 3),
                        UM("reserved_chroma_format", 1, <<252>>), UM("reserved_bit_depth_luma_minus8", 1, <<248>>), UM("reserved_bit_depth_chroma_minus8", 1, <<248>>), Const("numOfSequenceParameterSetExt", <<0>>)>>)
    [] b = "hvcC" -> L("hvcC", FALSE, {0}, {}, <<Const("configurationVersion", <<1>>), U("general_profile_space_tier_idc", 1), U("general_profile_compatibility_flags", 4), U("general_constraint_indicator_flags", 6),
                        U("general_level_idc", 1), UM("reserved_min_spatial_segmentation_idc", 2, <<240, 0>>), UM("reserved_parallelismType", 1, <<252>>), UM("reserved_chroma_format_idc", 1, <<252>>),
                        UM("reserved_bit_depth_luma_minus8", 1, <<248>>), UM("reserved_bit_depth_chroma_minus8", 1, <<248>>), U("avgFrameRate", 2), U("constantFrameRate_numTemporalLayers_temporalIdNested_lengthSizeMinusOne", 1),
                        Cnt("numOfArrays", 1), Rep(<<UM("array_completeness_reserved_NAL_unit_type", 1, <<64>>), Const("numNalus", <<0, 1>>), Const("nalUnitLength", <<0, 3>>), Fix("nalUnit", 3)>>)>>)
    [] b = "esds" -> L("esds", TRUE, {0}, {}, <<Const("ES_DescrTag", <<3>>), Const("ES_Descr_size", <<25>>), U("ES_ID", 2), Const("streamDependence_URL_OCR_flags_streamPriority", <<0>>),
                        Const("DecoderConfigDescrTag", <<4>>), Const("DecoderConfigDescr_size", <<17>>), Const("objectTypeIndication", <<64>>), Const("streamType_upStream_reserved", <<21>>), U("bufferSizeDB", 3),
                        U("maxBitrate", 4), U("avgBitrate", 4), Const("DecSpecificInfoTag", <<5>>), Const("DecSpecificInfo_size", <<2>>), Const("AudioSpecificConfig", <<18, 16>>),
                        Const("SLConfigDescrTag", <<6>>), Const("SLConfigDescr_size", <<1>>), Const("predefined", <<2>>)>>)
    \* a further descriptor (user private tag 0x80) before / after the SLConfigDescriptor: the order of the descriptors is payload
    [] b = "esds-other-before-sl" -> L("esds", TRUE, {0}, {}, <<Const("ES_DescrTag", <<3>>), Const("ES_Descr_size", <<29>>), U("ES_ID", 2), Const("streamDependence_URL_OCR_flags_streamPriority", <<0>>),
                        Const("DecoderConfigDescrTag", <<4>>), Const("DecoderConfigDescr_size", <<17>>), Const("objectTypeIndication", <<64>>), Const("streamType_upStream_reserved", <<21>>), U("bufferSizeDB", 3),
                        U("maxBitrate", 4), U("avgBitrate", 4), Const("DecSpecificInfoTag", <<5>>), Const("DecSpecificInfo_size", <<2>>), Const("AudioSpecificConfig", <<18, 16>>),
                        Const("OtherDescrTag", <<128>>), Const("OtherDescr_size", <<2>>), U("OtherDescr_data", 2),
                        Const("SLConfigDescrTag", <<6>>), Const("SLConfigDescr_size", <<1>>), Const("predefined", <<2>>)>>)
    [] b = "esds-other-after-sl" -> L("esds", TRUE, {0}, {}, <<Const("ES_DescrTag", <<3>>), Const("ES_Descr_size", <<29>>), U("ES_ID", 2), Const("streamDependence_URL_OCR_flags_streamPriority", <<0>>),
                        Const("DecoderConfigDescrTag", <<4>>), Const("DecoderConfigDescr_size", <<17>>), Const("objectTypeIndication", <<64>>), Const("streamType_upStream_reserved", <<21>>), U("bufferSizeDB", 3),
                        U("maxBitrate", 4), U("avgBitrate", 4), Const("DecSpecificInfoTag", <<5>>), Const("DecSpecificInfo_size", <<2>>), Const("AudioSpecificConfig", <<18, 16>>),
                        Const("SLConfigDescrTag", <<6>>), Const("SLConfigDescr_size", <<1>>), Const("predefined", <<2>>),
                        Const("OtherDescrTag", <<128>>), Const("OtherDescr_size", <<2>>), U("OtherDescr_data", 2)>>)
    [] b = "esds-long-sizes" -> L("esds", TRUE, {0}, {}, <<Const("ES_DescrTag", <<3>>), Const("ES_Descr_size", <<128, 128, 128, 34>>), U("ES_ID", 2), Const("streamDependence_URL_OCR_flags_streamPriority", <<0>>),
                        Const("DecoderConfigDescrTag", <<4>>), Const("DecoderConfigDescr_size", <<128, 128, 128, 20>>), Const("objectTypeIndication", <<64>>), Const("streamType_upStream_reserved", <<21>>), U("bufferSizeDB", 3),
                        U("maxBitrate", 4), U("avgBitrate", 4), Const("DecSpecificInfoTag", <<5>>), Const("DecSpecificInfo_size", <<128, 128, 128, 2>>), Const("AudioSpecificConfig", <<18, 16>>),
                        Const("SLConfigDescrTag", <<6>>), Const("SLConfigDescr_size", <<128, 128, 128, 1>>), Const("predefined", <<2>>)>>)
    [] b = "av1C" -> L("av1C", FALSE, {0}, {}, <<Const("marker_version", <<129>>), U("seq_profile_seq_level_idx_0", 1), U("tier_bitdepth_mono_subsampling_position", 1), Const("reserved_initial_presentation_delay", <<21>>),
                        Rep(<<U("configOBUs", 1)>>)>>)
    [] b = "vpcC" -> L("vpcC", TRUE, {1}, {}, <<U("profile", 1), U("level", 1), U("bitDepth_chromaSubsampling_videoFullRangeFlag", 1), U("colourPrimaries", 1), U("transferCharacteristics", 1), U("matrixCoefficients", 1),
                        Const("codecIntializationDataSize", <<0, 0>>)>>)
    [] b = "SmDm" -> L("SmDm", TRUE, {0}, {}, <<U("primaryRChromaticity_x", 2), U("primaryRChromaticity_y", 2), U("primaryGChromaticity_x", 2), U("primaryGChromaticity_y", 2), U("primaryBChromaticity_x", 2),
                        U("primaryBChromaticity_y", 2), U("whitePointChromaticity_x", 2), U("whitePointChromaticity_y", 2), U("luminanceMax", 4), U("luminanceMin", 4)>>)
    [] b = "CoLL" -> L("CoLL", TRUE, {0}, {}, <<U("maxCLL", 2), U("maxFALL", 2)>>)
    [] b = "tlou" -> L("tlou", TRUE, {0}, {}, <<UM("reserved_downmix_ID_DRC_set_ID", 2, <<224, 0>>), U("bs_sample_peak_level_bs_true_peak_level", 3), U("measurement_system_for_TP_reliability_for_TP", 1),
                        Cnt("measurement_count", 1), Rep(<<U("method_definition", 1), U("method_value", 1), U("measurement_system_reliability", 1)>>)>>)
    [] b = "alou" -> L("alou", TRUE, {0}, {}, <<UM("reserved_downmix_ID_DRC_set_ID", 2, <<224, 0>>), U("bs_sample_peak_level_bs_true_peak_level", 3), U("measurement_system_for_TP_reliability_for_TP", 1),
                        Cnt("measurement_count", 1), Rep(<<U("method_definition", 1), U("method_value", 1), U("measurement_system_reliability", 1)>>)>>)
    [] b = "tlou-v1" -> L("tlou", TRUE, {1}, {}, <<Const("loudness_info_type_loudness_base_count", <<1>>), UM("reserved_EQ_set_ID", 1, <<192>>), UM("reserved_downmix_ID_DRC_set_ID", 2, <<224, 0>>),
                        U("bs_sample_peak_level_bs_true_peak_level", 3), U("measurement_system_for_TP_reliability_for_TP", 1),
                        Cnt("measurement_count", 1), Rep(<<U("method_definition", 1), U("method_value", 1), U("measurement_system_reliability", 1)>>)>>)
    [] b = "ludt" -> L("ludt", FALSE, {0}, {}, <<KidsOpt(<<"tlou", "alou">>)>>)
    [] b = "colr-nclc" -> L("colr", FALSE, {0}, {}, <<Const("colour_type", <<110, 99, 108, 99>>), U("colour_primaries", 2), U("transfer_characteristics", 2), U("matrix_coefficients", 2)>>)
    [] b = "colr-prof" -> L("colr", FALSE, {0}, {}, <<Const("colour_type", <<112, 114, 111, 102>>), Rep(<<U("ICC_profile", 1)>>)>>)
    [] b = "colr-nclx-limited" -> L("colr", FALSE, {0}, {}, <<Const("colour_type", <<110, 99, 108, 120>>), U("colour_primaries", 2), U("transfer_characteristics", 2), U("matrix_coefficients", 2),
                        ConstM("full_range_flag", <<0>>, <<127>>)>>)
    [] b = "uuid-tfxd" -> L("uuid", FALSE, {0}, {}, <<Const("usertype", <<109, 29, 155, 5, 66, 213, 68, 230, 128, 226, 20, 29, 175, 247, 87, 178>>), Const("version_flags", <<1, 0, 0, 0>>), U("fragment_absolute_time", 8), U("fragment_duration", 8)>>)
    [] b = "uuid-tfxd-v0" -> L("uuid", FALSE, {0}, {}, <<Const("usertype", <<109, 29, 155, 5, 66, 213, 68, 230, 128, 226, 20, 29, 175, 247, 87, 178>>), Const("version_flags", <<0, 0, 0, 0>>), U("fragment_absolute_time", 4), U("fragment_duration", 4)>>)
    [] b = "uuid-tfrf" -> L("uuid", FALSE, {0}, {}, <<Const("usertype", <<212, 128, 126, 242, 202, 57, 70, 149, 142, 84, 38, 203, 158, 70, 167, 159>>), Const("version_flags", <<1, 0, 0, 0>>), Cnt("fragment_count", 1),
                        Rep(<<U("fragment_absolute_time", 8), U("fragment_duration", 8)>>)>>)
    [] b = "cdat" -> L("cdat", FALSE, {0}, {}, <<Rep(<<U("data", 1)>>)>>)
    [] b = "udta" -> L("udta", FALSE, {0}, {}, <<KidsOpt(<<"zzzz">>)>>)
    [] b = "avc3" -> L("avc3", FALSE, {0}, {}, <<Res(Zeros(6)), U("data_reference_index", 2), Res(Zeros(2)), Res(Zeros(2)), Res(Zeros(12)), U("width", 2), U("height", 2),
                        U("horizresolution", 4), U("vertresolution", 4), Res(Zeros(4)), U("frame_count", 2), Const("compressorname_len", <<0>>), Const("compressorname_pad", Zeros(31)),
                        Const("depth", <<0, 24>>), Res(<<255, 255>>), Kids(<<"avcC", "btrt">>)>>)
    [] b = "hev1" -> L("hev1", FALSE, {0}, {}, <<Res(Zeros(6)), U("data_reference_index", 2), Res(Zeros(2)), Res(Zeros(2)), Res(Zeros(12)), U("width", 2), U("height", 2),
                        U("horizresolution", 4), U("vertresolution", 4), Res(Zeros(4)), U("frame_count", 2), Const("compressorname_len", <<0>>), Const("compressorname_pad", Zeros(31)),
                        Const("depth", <<0, 24>>), Res(<<255, 255>>), Kids(<<"hvcC", "pasp">>)>>)
    [] b = "av01" -> L("av01", FALSE, {0}, {}, <<Res(Zeros(6)), U("data_reference_index", 2), Res(Zeros(2)), Res(Zeros(2)), Res(Zeros(12)), U("width", 2), U("height", 2),
                        U("horizresolution", 4), U("vertresolution", 4), Res(Zeros(4)), U("frame_count", 2), Const("compressorname_len", <<0>>), Const("compressorname_pad", Zeros(31)),
                        Const("depth", <<0, 24>>), Res(<<255, 255>>), Kids(<<"av1C", "colr">>)>>)
    [] b = "vp08" -> L("vp08", FALSE, {0}, {}, <<Res(Zeros(6)), U("data_reference_index", 2), Res(Zeros(2)), Res(Zeros(2)), Res(Zeros(12)), U("width", 2), U("height", 2),
                        U("horizresolution", 4), U("vertresolution", 4), Res(Zeros(4)), U("frame_count", 2), Const("compressorname_len", <<0>>), Const("compressorname_pad", Zeros(31)),
                        Const("depth", <<0, 24>>), Res(<<255, 255>>), Kids(<<"vpcC">>)>>)
    [] b = "vp09" -> L("vp09", FALSE, {0}, {}, <<Res(Zeros(6)), U("data_reference_index", 2), Res(Zeros(2)), Res(Zeros(2)), Res(Zeros(12)), U("width", 2), U("height", 2),
                        U("horizresolution", 4), U("vertresolution", 4), Res(Zeros(4)), U("frame_count", 2), Const("compressorname_len", <<0>>), Const("compressorname_pad", Zeros(31)),
                        Const("depth", <<0, 24>>), Res(<<255, 255>>), Kids(<<"vpcC", "btrt">>)>>)
    [] b = "dpnd" -> L("dpnd", FALSE, {0}, {}, <<Rep(<<U("track_ID", 4)>>)>>)
    [] b = "font" -> L("font", FALSE, {0}, {}, <<Rep(<<U("track_ID", 4)>>)>>)
    [] b = "hind" -> L("hind", FALSE, {0}, {}, <<Rep(<<U("track_ID", 4)>>)>>)
    [] b = "ipir" -> L("ipir", FALSE, {0}, {}, <<Rep(<<U("track_ID", 4)>>)>>)
    [] b = "mpod" -> L("mpod", FALSE, {0}, {}, <<Rep(<<U("track_ID", 4)>>)>>)
    [] b = "subt" -> L("subt", FALSE, {0}, {}, <<Rep(<<U("track_ID", 4)>>)>>)
    [] b = "sync" -> L("sync", FALSE, {0}, {}, <<Rep(<<U("track_ID", 4)>>)>>)
    [] b = "vdep" -> L("vdep", FALSE, {0}, {}, <<Rep(<<U("track_ID", 4)>>)>>)
    [] b = "vplx" -> L("vplx", FALSE, {0}, {}, <<Rep(<<U("track_ID", 4)>>)>>)
    [] b = "desc" -> L("desc", FALSE, {0}, {}, <<KidsOpt(<<"zzzz", "free">>)>>)
    [] b = "iods" -> L("iods", FALSE, {0}, {}, <<Rep(<<U("data", 1)>>)>>)

\* ASCII codes of the four-character codes used above (TLA+ strings cannot be indexed)
TypeCode(t) ==
  CASE t = "CoLL" -> <<67, 111, 76, 76>>
    [] t = "Ctoo" -> <<169, 116, 111, 111>>
    [] t = "SmDm" -> <<83, 109, 68, 109>>
    [] t = "avc3" -> <<97, 118, 99, 51>>
    [] t = "hev1" -> <<104, 101, 118, 49>>
    [] t = "av01" -> <<97, 118, 48, 49>>
    [] t = "vp08" -> <<118, 112, 48, 56>>
    [] t = "vp09" -> <<118, 112, 48, 57>>
    [] t = "dpnd" -> <<100, 112, 110, 100>>
    [] t = "font" -> <<102, 111, 110, 116>>
    [] t = "hind" -> <<104, 105, 110, 100>>
    [] t = "ipir" -> <<105, 112, 105, 114>>
    [] t = "mpod" -> <<109, 112, 111, 100>>
    [] t = "subt" -> <<115, 117, 98, 116>>
    [] t = "sync" -> <<115, 121, 110, 99>>
    [] t = "vdep" -> <<118, 100, 101, 112>>
    [] t = "vplx" -> <<118, 112, 108, 120>>
    [] t = "desc" -> <<100, 101, 115, 99>>
    [] t = "iods" -> <<105, 111, 100, 115>>
    [] t = "ac-3" -> <<97, 99, 45, 51>>
    [] t = "alou" -> <<97, 108, 111, 117>>
    [] t = "av1C" -> <<97, 118, 49, 67>>
    [] t = "avc1" -> <<97, 118, 99, 49>>
    [] t = "avcC" -> <<97, 118, 99, 67>>
    [] t = "btrt" -> <<98, 116, 114, 116>>
    [] t = "cdat" -> <<99, 100, 97, 116>>
    [] t = "cdsc" -> <<99, 100, 115, 99>>
    [] t = "clap" -> <<99, 108, 97, 112>>
    [] t = "co64" -> <<99, 111, 54, 52>>
    [] t = "colr" -> <<99, 111, 108, 114>>
    [] t = "cslg" -> <<99, 115, 108, 103>>
    [] t = "ctim" -> <<99, 116, 105, 109>>
    [] t = "ctts" -> <<99, 116, 116, 115>>
    [] t = "dac3" -> <<100, 97, 99, 51>>
    [] t = "data" -> <<100, 97, 116, 97>>
    [] t = "dec3" -> <<100, 101, 99, 51>>
    [] t = "dinf" -> <<100, 105, 110, 102>>
    [] t = "dref" -> <<100, 114, 101, 102>>
    [] t = "ec-3" -> <<101, 99, 45, 51>>
    [] t = "edts" -> <<101, 100, 116, 115>>
    [] t = "elng" -> <<101, 108, 110, 103>>
    [] t = "elst" -> <<101, 108, 115, 116>>
    [] t = "emeb" -> <<101, 109, 101, 98>>
    [] t = "emib" -> <<101, 109, 105, 98>>
    [] t = "emsg" -> <<101, 109, 115, 103>>
    [] t = "enca" -> <<101, 110, 99, 97>>
    [] t = "encv" -> <<101, 110, 99, 118>>
    [] t = "esds" -> <<101, 115, 100, 115>>
    [] t = "evte" -> <<101, 118, 116, 101>>
    [] t = "free" -> <<102, 114, 101, 101>>
    [] t = "frma" -> <<102, 114, 109, 97>>
    [] t = "ftyp" -> <<102, 116, 121, 112>>
    [] t = "hdlr" -> <<104, 100, 108, 114>>
    [] t = "hint" -> <<104, 105, 110, 116>>
    [] t = "hvc1" -> <<104, 118, 99, 49>>
    [] t = "hvcC" -> <<104, 118, 99, 67>>
    [] t = "iden" -> <<105, 100, 101, 110>>
    [] t = "ilst" -> <<105, 108, 115, 116>>
    [] t = "kind" -> <<107, 105, 110, 100>>
    [] t = "leva" -> <<108, 101, 118, 97>>
    [] t = "ludt" -> <<108, 117, 100, 116>>
    [] t = "mdat" -> <<109, 100, 97, 116>>
    [] t = "mdhd" -> <<109, 100, 104, 100>>
    [] t = "mdia" -> <<109, 100, 105, 97>>
    [] t = "mehd" -> <<109, 101, 104, 100>>
    [] t = "meta" -> <<109, 101, 116, 97>>
    [] t = "mfhd" -> <<109, 102, 104, 100>>
    [] t = "mfra" -> <<109, 102, 114, 97>>
    [] t = "mfro" -> <<109, 102, 114, 111>>
    [] t = "mime" -> <<109, 105, 109, 101>>
    [] t = "minf" -> <<109, 105, 110, 102>>
    [] t = "moof" -> <<109, 111, 111, 102>>
    [] t = "moov" -> <<109, 111, 111, 118>>
    [] t = "mp4a" -> <<109, 112, 52, 97>>
    [] t = "mvex" -> <<109, 118, 101, 120>>
    [] t = "mvhd" -> <<109, 118, 104, 100>>
    [] t = "nmhd" -> <<110, 109, 104, 100>>
    [] t = "pasp" -> <<112, 97, 115, 112>>
    [] t = "payl" -> <<112, 97, 121, 108>>
    [] t = "prft" -> <<112, 114, 102, 116>>
    [] t = "pssh" -> <<112, 115, 115, 104>>
    [] t = "saio" -> <<115, 97, 105, 111>>
    [] t = "saiz" -> <<115, 97, 105, 122>>
    [] t = "sbgp" -> <<115, 98, 103, 112>>
    [] t = "schi" -> <<115, 99, 104, 105>>
    [] t = "schm" -> <<115, 99, 104, 109>>
    [] t = "sdtp" -> <<115, 100, 116, 112>>
    [] t = "senc" -> <<115, 101, 110, 99>>
    [] t = "sgpd" -> <<115, 103, 112, 100>>
    [] t = "sidx" -> <<115, 105, 100, 120>>
    [] t = "silb" -> <<115, 105, 108, 98>>
    [] t = "sinf" -> <<115, 105, 110, 102>>
    [] t = "skip" -> <<115, 107, 105, 112>>
    [] t = "smhd" -> <<115, 109, 104, 100>>
    [] t = "ssix" -> <<115, 115, 105, 120>>
    [] t = "stbl" -> <<115, 116, 98, 108>>
    [] t = "stco" -> <<115, 116, 99, 111>>
    [] t = "sthd" -> <<115, 116, 104, 100>>
    [] t = "stpp" -> <<115, 116, 112, 112>>
    [] t = "stsc" -> <<115, 116, 115, 99>>
    [] t = "stsd" -> <<115, 116, 115, 100>>
    [] t = "stss" -> <<115, 116, 115, 115>>
    [] t = "stsz" -> <<115, 116, 115, 122>>
    [] t = "sttg" -> <<115, 116, 116, 103>>
    [] t = "stts" -> <<115, 116, 116, 115>>
    [] t = "styp" -> <<115, 116, 121, 112>>
    [] t = "subs" -> <<115, 117, 98, 115>>
    [] t = "tenc" -> <<116, 101, 110, 99>>
    [] t = "tfdt" -> <<116, 102, 100, 116>>
    [] t = "tfhd" -> <<116, 102, 104, 100>>
    [] t = "tfra" -> <<116, 102, 114, 97>>
    [] t = "tkhd" -> <<116, 107, 104, 100>>
    [] t = "tlou" -> <<116, 108, 111, 117>>
    [] t = "traf" -> <<116, 114, 97, 102>>
    [] t = "trak" -> <<116, 114, 97, 107>>
    [] t = "tref" -> <<116, 114, 101, 102>>
    [] t = "trep" -> <<116, 114, 101, 112>>
    [] t = "trex" -> <<116, 114, 101, 120>>
    [] t = "trun" -> <<116, 114, 117, 110>>
    [] t = "udta" -> <<117, 100, 116, 97>>
    [] t = "url " -> <<117, 114, 108, 32>>
    [] t = "uuid" -> <<117, 117, 105, 100>>
    [] t = "vlab" -> <<118, 108, 97, 98>>
    [] t = "vmhd" -> <<118, 109, 104, 100>>
    [] t = "vpcC" -> <<118, 112, 99, 67>>
    [] t = "vsid" -> <<118, 115, 105, 100>>
    [] t = "vttC" -> <<118, 116, 116, 67>>
    [] t = "vtta" -> <<118, 116, 116, 97>>
    [] t = "vttc" -> <<118, 116, 116, 99>>
    [] t = "vtte" -> <<118, 116, 116, 101>>
    [] t = "wvtt" -> <<119, 118, 116, 116>>
    [] t = "zzzz" -> <<122, 122, 122, 122>>

(* --------------------------------------------------------------- interpreter *)
Holds(c, ver, flags) == CASE c.k = "always" -> TRUE
                          [] c.k = "flag" -> IF c.m > 0 THEN (flags \div c.m) % 2 = 1 ELSE (flags \div (0 - c.m)) % 2 = 0
                          [] c.k = "ver" -> ver = c.m
BE(n, w) == [i \in 1 .. w |-> IF w - i >= 4 THEN 0 ELSE (n \div (IF w - i = 3 THEN 16777216 ELSE IF w - i = 2 THEN 65536 ELSE IF w - i = 1 THEN 256 ELSE 1)) % 256]
Filler(idx, w) == [i \in 1 .. w |-> ((37 * idx + 11 * i) % 200) + 17]
Boundary(kind, w) == CASE kind = "zero" -> [i \in 1 .. w |-> 0] [] kind = "ones" -> [i \in 1 .. w |-> 255]
                       [] kind = "max7f" -> [i \in 1 .. w |-> IF i = 1 THEN 127 ELSE 255] [] kind = "min80" -> [i \in 1 .. w |-> IF i = 1 THEN 128 ELSE 0]
StrBytes(idx) == <<97 + (idx % 20), 98 + (idx % 20), 47, 58, 0>>      \* short zero terminated string

\* state threaded through the walk: [b |-> bytes, m |-> mask, i |-> next field index]
RECURSIVE Walk(_, _, _), WalkRep(_, _, _, _), BoxBytes(_, _)
One(st, n, t, bytes, mk) == [b |-> st.b \o bytes, m |-> st.m \o [k \in 1 .. Len(bytes) |-> IF k <= Len(mk) THEN mk[k] ELSE 0], i |-> st.i + 1,
                              f |-> st.f \o <<[n |-> n, t |-> t, i |-> st.i, o |-> Len(st.b), w |-> Len(bytes)]>>]
Walk(fs, env, st) ==
    IF fs = <<>> THEN st
    ELSE LET f == Head(fs)
             w == IF env.ver = 1 THEN f.w1 ELSE f.w
             val == IF env.pick[1] = st.i
                    THEN (IF env.pick[2] = "dup1"
                          THEN Filler(IF env.rl > 0 /\ st.i >= env.rb THEN env.rb + ((st.i - env.rb) % env.rl) ELSE st.i, w)
                          ELSE Boundary(env.pick[2], w))
                    ELSE Filler(st.i, w)
             st2 == CASE f.t = "u" -> One(st, f.n, "u", val, f.mk)
                      [] f.t = "cnt" -> One(st, f.n, "cnt", BE(env.cnt, w), <<>>)
                      [] f.t = "const" -> One(st, f.n, "const", f.v, f.mk)
                      [] f.t = "res" -> One(st, f.n, "res", IF env.pick[1] = st.i /\ env.pick[2] # "dup1" THEN Boundary(env.pick[2], w) ELSE f.v, [k \in 1 .. w |-> 255])
                      [] f.t = "str0" -> One(st, f.n, "str0", StrBytes(st.i), <<>>)
                      [] f.t = "if" -> IF Holds(f.c, env.ver, env.flags) THEN Walk(f.f, env, st) ELSE [st EXCEPT !.i = st.i + Len(f.f)]
                      [] f.t = "rep" -> WalkRep(f.f, env, st, env.cnt)
                      [] f.t = "kids0" /\ env.cnt = 0 -> st
                      [] f.t \in {"kids", "kids0"} -> LET kb == [k \in 1 .. Len(f.v) |-> BoxBytes(f.v[k], [ver |-> 0, flags |-> 0, cnt |-> 1, pick |-> <<0, "none">>, hdr |-> "s32", rb |-> 0, rl |-> 0])]
                                             RECURSIVE Cat(_, _) Cat(acc, k) == IF k > Len(kb) THEN acc
                                                                                ELSE Cat([b |-> acc.b \o kb[k].b, m |-> acc.m \o kb[k].m, i |-> acc.i,
                                                                                     f |-> acc.f \o [x \in 1 .. Len(kb[k].f) |-> [n |-> Layout(f.v[k]).type \o "." \o kb[k].f[x].n, t |-> kb[k].f[x].t, i |-> 0,
                                                                                                                                 o |-> kb[k].f[x].o + Len(acc.b) + 8, w |-> kb[k].f[x].w]]], k + 1)
                                         IN Cat(st, 1)
         IN Walk(Tail(fs), env, st2)
\* env.rb / env.rl: index of the first field of the first iteration of the enclosing array and fields per iteration
\* (used by the "dup1" kind: the picked field of a later entry takes the value of the same field of the FIRST entry,
\*  giving value patterns such as A,B,A that distinct fillers never produce)
WalkRep(fs, env, st, n) == IF n = 0 THEN st
                           ELSE LET st1 == Walk(fs, env, st)
                                    env2 == IF env.rl = 0 THEN [env EXCEPT !.rb = st.i, !.rl = st1.i - st.i] ELSE env
                                IN WalkRep(fs, env2, Walk(fs, env2, st), n - 1)
\* a whole box: size header (hdr "s32": 32-bit size; "s64": size = 1 + 64-bit largesize), [version, flags], fields
BoxBytes(b, env) ==
    LET lay == Layout(b)
        body0 == IF lay.full THEN [b |-> <<env.ver>> \o BE(env.flags, 3), m |-> <<0, 0, 0, 0>>, i |-> 1, f |-> <<>>] ELSE [b |-> <<>>, m |-> <<>>, i |-> 1, f |-> <<>>]
        body == Walk(lay.fields, env, body0)
    IN IF env.hdr = "s64"
       THEN [b |-> <<0, 0, 0, 1>> \o TypeCode(lay.type) \o BE(16 + Len(body.b), 8) \o body.b, m |-> Zeros(16) \o body.m, nfields |-> body.i - 1, f |-> body.f]
       ELSE [b |-> BE(8 + Len(body.b), 4) \o TypeCode(lay.type) \o body.b, m |-> Zeros(8) \o body.m, nfields |-> body.i - 1, f |-> body.f]

(* ----------------------------------------------------------------- generator *)
RECURSIVE SubsetSums(_)
SubsetSums(S) == IF S = {} THEN {0} ELSE LET x == CHOOSE y \in S : TRUE  r == SubsetSums(S \ {x}) IN r \cup {s + x : s \in r}
Kinds == {"zero", "ones", "max7f", "min80", "dup1"}
Env0(v, fl, c) == [ver |-> v, flags |-> fl, cnt |-> c, pick |-> <<0, "none">>, hdr |-> "s32", rb |-> 0, rl |-> 0]
NFields(b, v, fl, c) == BoxBytes(b, Env0(v, fl, c)).nfields
\* the container a box normally lives in (used for the nesting dimension)
Parent(b) == CASE b \in {"tfhd", "tfdt", "trun", "sbgp", "subs", "saio", "saiz", "saiz-default"} -> "traf"
               [] b \in {"stts", "ctts", "stsc", "stsz", "stsz-uniform", "stco", "co64", "stss", "sdtp", "stsd"} -> "stbl"
               [] b \in {"mvhd", "trak", "mvex", "pssh", "udta"} -> "moov"
               [] b \in {"tkhd", "edts", "mdia"} -> "trak"
               [] b \in {"mdhd", "hdlr", "elng", "minf"} -> "mdia"
               [] b \in {"vmhd", "smhd", "sthd", "nmhd", "dinf", "stbl"} -> "minf"
               [] b \in {"mehd", "trex"} -> "mvex"
               [] b \in {"mfhd", "traf"} -> "moof"
               [] b \in {"tfra", "mfro"} -> "mfra"
               [] b \in {"frma", "schm", "schi"} -> "sinf"
               [] b \in {"tenc", "tenc-constiv"} -> "schi"
               [] b = "elst" -> "edts"
               [] b = "dref" -> "dinf"
               [] OTHER -> "udta"
\* shape instances: every version x every subset of the defined flag bits x every count x header form x nesting;
\* value instances: one field at a time at a boundary value, for no flag / every flag / each single flag
\* child ORDER of moov (normalisation N2 of dontcare.json): the decoder keeps the children in file order, except that
\* a trak that arrives after other boxes is moved up behind the last earlier trak - unless that trak is the very
\* first child (MoovBox.AddChild uses index 0 as "no earlier trak"). Every arrangement of up to MaxOrder distinct
\* children; "trak0" is a second, distinguishable trak (empty).
OrderKids == {"mvhd", "trak", "trak0", "mvex", "udta", "free", "pssh"}
MaxOrder == 5
RECURSIVE Arrangements(_, _)
Arrangements(S, n) == IF n = 0 THEN {<<>>} ELSE {<<>>} \cup UNION {{<<k>> \o a : a \in Arrangements(S \ {k}, n - 1)} : k \in S}
MoovOrdersFrom(k) == {o \in {<<k>> \o a : a \in Arrangements(OrderKids \ {k}, MaxOrder - 1)} : Len(o) >= 2 /\ \E i \in 1 .. Len(o) : o[i] \in {"trak", "trak0"}}
IsTrak(k) == k \in {"trak", "trak0"}
LastTrak(acc) == IF \E i \in 1 .. Len(acc) : IsTrak(acc[i]) THEN CHOOSE i \in 1 .. Len(acc) : IsTrak(acc[i]) /\ \A j \in (i + 1) .. Len(acc) : ~IsTrak(acc[j]) ELSE 0
RECURSIVE NormOrder(_, _)
NormOrder(acc, rest) == IF rest = <<>> THEN acc
                        ELSE LET k == Head(rest) l == LastTrak(acc) IN
                             IF IsTrak(k) /\ l > 1 /\ l # Len(acc)
                             THEN NormOrder(SubSeq(acc, 1, l) \o <<k>> \o SubSeq(acc, l + 1, Len(acc)), Tail(rest))
                             ELSE NormOrder(Append(acc, k), Tail(rest))
KidBox(k, hdr) == BoxBytes(IF k = "trak0" THEN "trak" ELSE k, [ver |-> 0, flags |-> 0, cnt |-> IF k = "trak0" THEN 0 ELSE 1, pick |-> <<0, "none">>, hdr |-> hdr, rb |-> 0, rl |-> 0])
RECURSIVE CatKids(_, _)
CatKids(o, acc) == IF o = <<>> THEN acc
                   ELSE LET kb == KidBox(Head(o), "s32")
                            ty == IF Head(o) = "trak0" THEN "trak" ELSE Head(o) IN
                        CatKids(Tail(o), [b |-> acc.b \o kb.b, m |-> acc.m \o kb.m,
                                          f |-> acc.f \o [x \in 1 .. Len(kb.f) |-> [n |-> ty \o "." \o kb.f[x].n, t |-> kb.f[x].t, i |-> 0, o |-> kb.f[x].o + Len(acc.b) + 8, w |-> kb.f[x].w]]])
OrderBox(o) == LET c == CatKids(o, [b |-> <<>>, m |-> <<>>, f |-> <<>>]) IN
               [b |-> BE(8 + Len(c.b), 4) \o TypeCode("moov") \o c.b, m |-> Zeros(8) \o c.m, f |-> c.f]
AllFlags(S) == LET RECURSIVE Sum(_) Sum(T) == IF T = {} THEN 0 ELSE LET x == CHOOSE y \in T : TRUE IN x + Sum(T \ {x}) IN Sum(S)
Instances(b) == LET lay == Layout(b) IN
    UNION {{[box |-> b, ver |-> v, flags |-> fl, cnt |-> c, pick |-> <<0, "none">>, hdr |-> h, wrap |-> w, ord |-> <<>>] : h \in {"s32", "s64"}, w \in {"none", "parent", "sibling"}} :
           v \in lay.vers, fl \in SubsetSums(lay.flagbits), c \in Counts} \cup
    UNION {{[box |-> b, ver |-> v, flags |-> fl, cnt |-> c, pick |-> <<i, kd>>, hdr |-> "s32", wrap |-> "none", ord |-> <<>>] : i \in 1 .. NFields(b, v, fl, c), kd \in Kinds} :
           v \in lay.vers, fl \in {0, AllFlags(lay.flagbits)} \cup (IF SingleFlagPicks THEN lay.flagbits ELSE {}), c \in PickCounts}

\* the byte string given to the decoders, and the canonical byte string an encoder must give back:
\* a 64-bit size header is kept for mdat only, every other box is written with a 32-bit header
\* (normalisation N1 of dontcare.json); reserved fields come back in any value (mask = 1).
EnvOf(i) == [ver |-> i.ver, flags |-> i.flags, cnt |-> i.cnt, pick |-> i.pick, hdr |-> i.hdr, rb |-> 0, rl |-> 0]
\* nesting: alone; the only child of its usual container; first child of that container, FOLLOWED by a sibling
\* (a decoder of an empty or short box must stop at its own end and leave the sibling to the parent)
FreeSibling == <<0, 0, 0, 10, 102, 114, 101, 101, 1, 2>>
Wrapped(i, r) == CASE i.wrap = "none" -> r
                   [] i.wrap = "parent" -> [b |-> BE(8 + Len(r.b), 4) \o TypeCode(Parent(i.box)) \o r.b, m |-> Zeros(8) \o r.m, f |-> r.f]
                   [] i.wrap = "sibling" -> [b |-> BE(18 + Len(r.b), 4) \o TypeCode(Parent(i.box)) \o r.b \o FreeSibling,
                                             m |-> Zeros(8) \o r.m \o Zeros(10), f |-> r.f]
InputOf(i) == IF i.wrap = "order" THEN OrderBox(i.ord) ELSE Wrapped(i, BoxBytes(i.box, EnvOf(i)))
ExpectOf(i) == IF i.wrap = "order" THEN OrderBox(NormOrder(<<>>, i.ord)) ELSE Wrapped(i, BoxBytes(i.box, [EnvOf(i) EXCEPT !.hdr = IF Layout(i.box).type = "mdat" THEN i.hdr ELSE "s32"]))

VARIABLES inst, phase
vars == <<inst, phase>>
Init == /\ \E b \in Boxes : inst = [box |-> b, ver |-> 0, flags |-> 0, cnt |-> 0, pick |-> <<0, "none">>, hdr |-> "s32", wrap |-> "none", ord |-> <<>>]
        /\ phase = "box"
Choose == phase = "box" /\ inst' \in Instances(inst.box) /\ phase' = "bytes"
\* the order family of moov in two steps (first child, then the rest), so that TLC's workers share the work
ChooseHead == /\ phase = "box" /\ inst.box = "moov" /\ phase' = "ordhead"
              /\ \E k \in OrderKids : inst' = [inst EXCEPT !.cnt = 1, !.wrap = "order", !.ord = <<k>>]
ChooseOrder == phase = "ordhead" /\ phase' = "bytes" /\ \E o \in MoovOrdersFrom(inst.ord[1]) : inst' = [inst EXCEPT !.ord = o]
Next == Choose \/ ChooseHead \/ ChooseOrder
Spec == Init /\ [][Next]_vars

\* design checks on the oracle: lengths agree, the size field (bytes 1..4 or 9..16) equals the length,
\* input and expectation differ only where the header form or a reserved field was varied
WellFormed == phase = "bytes" =>
    LET r == InputOf(inst) e == ExpectOf(inst) IN
      /\ Len(e.b) = Len(e.m) /\ Len(r.b) >= 8 /\ Len(r.b) < 65536
      /\ r.b[1] * 16777216 + r.b[2] * 65536 + r.b[3] * 256 + r.b[4] \in {Len(r.b), 1}
      /\ (inst.hdr = "s32" /\ inst.wrap # "order" => (Len(r.b) = Len(e.b) /\ \A k \in 1 .. Len(r.b) : r.b[k] # e.b[k] => e.m[k] = 255))
      /\ (inst.wrap = "order" => Len(r.b) = Len(e.b) /\ (NormOrder(<<>>, inst.ord) = inst.ord => r.b = e.b))
Export == (DoExport /\ phase = "bytes") =>
    LET r == InputOf(inst) e == ExpectOf(inst) IN
    PrintT(ToJson([layout |-> inst.box, type |-> Layout(inst.box).type, ver |-> inst.ver, flags |-> inst.flags, cnt |-> inst.cnt, pick |-> inst.pick,
                   hdr |-> inst.hdr, wrap |-> inst.wrap, ord |-> inst.ord, bytes |-> r.b, expect |-> e.b, mask |-> e.m, fields |-> e.f,
                   body |-> (IF inst.wrap \in {"none", "order"} THEN 0 ELSE 8) + (IF Layout(inst.box).type = "mdat" /\ inst.hdr = "s64" THEN 16 ELSE 8)]))
=============================================================================
