----------------------------- MODULE BitsBytes -----------------------------
(* C13, bounded exhaustive part: every raw byte string over Alphabet up to MaxLen is pushed
   through the EBSPWriter machine (Impl), the Prop predicates B2-B5 are invariants of every
   reachable state, and every state is exported as one behaviour to be replayed into the
   real bits.EBSPWriter / bits.EBSPReader. *)
EXTENDS Bits, TLC, Json

CONSTANTS Alphabet, MaxLen, DoExport

VARIABLES raw,   \* history: bytes handed to the writer so far
          w,     \* EBSPWriter state (Impl)
          out    \* bytes the writer has emitted

vars == <<raw, w, out>>

Init == raw = <<>> /\ w = WInit /\ out = <<>>

WriteByte(b) ==
    /\ Len(raw) < MaxLen
    /\ raw' = Append(raw, b)
    /\ out' = out \o WEmit(w, b)
    /\ w' = WNext(w, b)

Next == \E b \in Alphabet : WriteByte(b)
Spec == Init /\ [][Next]_vars

\* ---- Prop (C13 B2..B5) on the Impl machine
B2 == NoForbidden(out)
B3B5 == Unescape(out) = raw
B4 == Minimal(raw, out)
Ref == out = Escape(raw)
\* reader machine over the writer's output returns the raw bytes, positions = EscIdx
RECURSIVE ReadAll(_, _)
ReadAll(r, esc) == IF ~RCan(r, esc) THEN <<>>
                   ELSE <<[v |-> RByte(r, esc), pos |-> RNext(r, esc).pos]>> \o ReadAll(RNext(r, esc), esc)
ReaderOK == LET rd == ReadAll(RInit, out) IN
            /\ Len(rd) = Len(raw)
            /\ \A i \in 1 .. Len(raw) : rd[i].v = raw[i] /\ rd[i].pos = EscIdx(raw)[i]
NrZeroOK == w.nr0 \in 0 .. 2

Export == DoExport => PrintT(ToJson([raw |-> raw, esc |-> Escape(raw), idx |-> EscIdx(raw), nr0 |-> w.nr0]))
=============================================================================
