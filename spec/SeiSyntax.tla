----------------------------- MODULE SeiSyntax -----------------------------
(* C17: SEI messages (ISO/IEC 14496-10 7.3.2.3 / D.1, ITU-T H.265 7.3.5 / D.2).
     sei_rbsp            : per message ff-run(payloadType) ff-run(payloadSize) payload, then
                           rbsp_trailing_bits, then emulation prevention (Bits.tla)
     time_code (136)     : D.2.27   num_clock_ts u(2), per clock the flag nesting
     pic_timing (1, AVC) : D.1.3    [cpb/dpb delays] pict_struct u(4), NumClockTS clocks
     mastering display (137), content light level (144): fixed layouts
   Generator modes enumerate message lists resp. all flag combinations of the typed messages; the
   exported expectation is what extraction / decoding must give back.                        *)
EXTENDS Bits, TLC, Json

CONSTANTS Mode, MaxMsgs, Types, Sizes, Classes, MaxClocks, Tols, DoExport

B(x) == IF x THEN <<1>> ELSE <<0>>
U(n, v) == BinW(v, n)
RECURSIVE Pow2(_)
Pow2(n) == IF n = 0 THEN 1 ELSE 2 * Pow2(n - 1)
RECURSIVE Cat(_)
Cat(ss) == IF ss = <<>> THEN <<>> ELSE Head(ss) \o Cat(Tail(ss))

(* ------------------------------------------------------------- sei_rbsp *)
PayloadOf(cls, n, k) == CASE cls = "filler" -> [i \in 1 .. n |-> 16 + ((i * 7 + k) % 200)]
                          [] cls = "zeros" -> [i \in 1 .. n |-> 0]
                          [] cls = "ends00" -> [i \in 1 .. n |-> IF i >= n - 1 THEN 0 ELSE 77]
                          [] cls = "emul" -> [i \in 1 .. n |-> IF i % 3 = 0 THEN (i \div 3) % 4 ELSE 0]      \* 00 00 01 00 00 02 ...
                          [] cls = "ff" -> [i \in 1 .. n |-> 255]
SeiRaw(msgs) == Cat([i \in 1 .. Len(msgs) |-> FFRun(msgs[i].type) \o FFRun(Len(msgs[i].payload)) \o msgs[i].payload]) \o <<128>>
SeiEbsp(msgs) == Escape(SeiRaw(msgs))

(* ----------------------------------------------------------- clock kinds *)
\* kind: "off" | "full" | "none" | "s" | "sm" | "smh"
ClockFields(kind, tol, k) ==
    [on |-> kind # "off", full |-> kind = "full", sflag |-> kind \in {"s", "sm", "smh"}, mflag |-> kind \in {"sm", "smh"}, hflag |-> kind = "smh",
     units |-> k % 2 = 0, counting |-> (5 + k) % 32, disc |-> k % 2 = 1, dropped |-> k % 3 = 0, nframes |-> 200 + k,
     seconds |-> 59 - k, minutes |-> 7 + k, hours |-> 23 - k, tol |-> tol, \* offsets that fit the coded width: unsigned tol bits (time_code), two's complement tol bits (pic_timing)
     offset |-> IF tol = 0 THEN 0 ELSE IF tol = 31 THEN 2147483647 - k ELSE IF tol >= 3 THEN (k + 1) % 8 ELSE (k + 1) % Pow2(tol),
     cttype |-> k % 3, soffset |-> IF tol = 0 THEN 0 ELSE IF tol >= 4 THEN (IF k % 2 = 1 THEN 0 - ((k % 7) + 1) ELSE (k % 7) + 1)
                                   ELSE IF k % 2 = 1 THEN 0 - Pow2(tol - 1) ELSE Pow2(tol - 1) - 1]
TimePart(c) == IF c.full THEN U(6, c.seconds) \o U(6, c.minutes) \o U(5, c.hours)
               ELSE B(c.sflag) \o (IF c.sflag THEN U(6, c.seconds) \o B(c.mflag) \o (IF c.mflag THEN U(6, c.minutes) \o B(c.hflag) \o (IF c.hflag THEN U(5, c.hours) ELSE <<>>) ELSE <<>>) ELSE <<>>)
\* HEVC time_code clock (9-bit n_frames, time_offset_length coded per clock)
TcClockBits(c) == B(c.on) \o (IF c.on THEN B(c.units) \o U(5, c.counting) \o B(c.full) \o B(c.disc) \o B(c.dropped) \o U(9, c.nframes) \o TimePart(c)
                                             \o U(5, c.tol) \o (IF c.tol > 0 THEN U(c.tol, c.offset) ELSE <<>>) ELSE <<>>)
TimeCodeBits(clocks) == U(2, Len(clocks)) \o Cat([i \in 1 .. Len(clocks) |-> TcClockBits(clocks[i])])
\* sei_payload: when the payload is not byte aligned a 1 bit and zero bits follow (D.1 / D.2.1)
PayloadBytes(bits) == IF Len(bits) % 8 = 0 THEN Pack(bits) ELSE Pack(RbspTrail(bits))
\* AVC pic_timing clock (8-bit n_frames, ct_type, signed time_offset of SPS-given length)
AvcClockBits(c) == B(c.on) \o (IF c.on THEN U(2, c.cttype) \o B(c.units) \o U(5, c.counting) \o B(c.full) \o B(c.disc) \o B(c.dropped) \o U(8, c.nframes % 256) \o TimePart(c)
                                              \o (IF c.tol > 0 THEN U(c.tol, IF c.soffset < 0 THEN Pow2(c.tol) + c.soffset ELSE c.soffset) ELSE <<>>) ELSE <<>>)
NumClockTS(ps) == IF ps <= 2 THEN 1 ELSE IF ps <= 4 THEN 2 ELSE 3
PicTimingBits(m) == (IF m.delays THEN U(m.cpblen, m.cpb) \o U(m.dpblen, m.dpb) ELSE <<>>) \o U(4, m.pictstruct)
                    \o Cat([i \in 1 .. Len(m.clocks) |-> AvcClockBits(m.clocks[i])])

ClockKinds == {"off", "full", "none", "s", "sm", "smh"}
RECURSIVE ClockSeqs(_)
ClockSeqs(n) == IF n = 0 THEN {<<>>} ELSE {Append(s, [kind |-> kd, tol |-> t]) : s \in ClockSeqs(n - 1), kd \in ClockKinds, t \in Tols}
MkClocks(spec) == [i \in 1 .. Len(spec) |-> ClockFields(spec[i].kind, spec[i].tol, i)]

VARIABLES m, phase
vars == <<m, phase>>
MsgChoices(k) == {[type |-> t, payload |-> PayloadOf(c, n, k)] : t \in Types, n \in Sizes, c \in Classes}
RECURSIVE MsgLists(_)
MsgLists(n) == IF n = 0 THEN {<<>>} ELSE {Append(l, x) : l \in MsgLists(n - 1), x \in MsgChoices(n)}
Init == /\ phase = "chosen"
        /\ CASE Mode = "list" -> m \in UNION {MsgLists(n) : n \in 1 .. MaxMsgs}
             [] Mode = "timecode" -> m \in UNION {{MkClocks(s) : s \in ClockSeqs(n)} : n \in 0 .. MaxClocks}
             [] Mode = "pictiming" -> m \in {[delays |-> d, cpblen |-> IF d THEN 24 ELSE 1, dpblen |-> IF d THEN 32 - ps ELSE 1, cpb |-> 90000 + ps, dpb |-> 3 + ps, pictstruct |-> ps,
                                               clocks |-> [i \in 1 .. NumClockTS(ps) |-> ClockFields(kd[(i % 2) + 1], t, i + ps)]] :
                                              d \in BOOLEAN, ps \in 0 .. 8, kd \in ClockKinds \X ClockKinds, t \in {x \in Tols : x <= 24}}
Write == phase = "chosen" /\ phase' = "written" /\ UNCHANGED m
Next == Write
Spec == Init /\ [][Next]_vars

\* design check: the serialised list is emulation free and unescaping + ff-run parsing gives the list back
RECURSIVE ParseSei(_)
ReadFF(s) == LET RECURSIVE R(_, _) R(x, acc) == IF Head(x) = 255 THEN R(Tail(x), acc + 255) ELSE <<acc + Head(x), Tail(x)>> IN R(s, 0)
ParseSei(raw) == IF Len(raw) <= 1 THEN <<>>
                 ELSE LET t == ReadFF(raw)  z == ReadFF(t[2]) IN
                      <<[type |-> t[1], payload |-> SubSeq(z[2], 1, z[1])]>> \o ParseSei(SubSeq(z[2], z[1] + 1, Len(z[2])))
Z1 == (Mode = "list" /\ phase = "written") => NoForbidden(SeiEbsp(m)) /\ ParseSei(Unescape(SeiEbsp(m))) = m

Export == (DoExport /\ phase = "written") =>
    PrintT(ToJson(CASE Mode = "list" -> [mode |-> Mode, msgs |-> m, ebsp |-> SeiEbsp(m)]
                    [] Mode = "timecode" -> [mode |-> Mode, clocks |-> m, nbits |-> Len(TimeCodeBits(m)), payload |-> PayloadBytes(TimeCodeBits(m))]
                    [] Mode = "pictiming" -> [mode |-> Mode, pt |-> m, nbits |-> Len(PicTimingBits(m)), payload |-> PayloadBytes(PicTimingBits(m)),
                                              size |-> (Len(PicTimingBits(m)) + 7) \div 8]))
=============================================================================
