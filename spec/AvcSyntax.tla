----------------------------- MODULE AvcSyntax -----------------------------
(* C15 (AVC): ISO/IEC 14496-10 syntax tables as serialisers - the independent serializer the
   property asks for.
     SpsBits   7.3.2.1.1 seq_parameter_set_data (+7.3.2.1.1.1 scaling_list, E.1.1 VUI, E.1.2 HRD)
     PpsBits   7.3.2.2   pic_parameter_set_rbsp (one slice group; optional 8x8 / second chroma tail)
     SliceBits 7.3.3     slice_header (7.3.3.1 ref_pic_list_modification, 7.3.3.2 pred_weight_table
                         with all weight flags 0, 7.3.3.3 dec_ref_pic_marking)
   plus the derived quantities the standard defines (7-13..7-21 picture size with cropping,
   ChromaArrayType) and the header length in bytes of the escaped stream.
   A value vector v is a record of syntax element values; the generator enumerates base vectors
   with one (or two) overridden fields drawn from each field's boundary set.               *)
EXTENDS Bits, TLC, Json

CONSTANTS Struct,      \* "sps" | "pps" | "slice"
          Pairwise,    \* TRUE: all pairs of overridden fields (thorough); FALSE: single field
          DoExport

HighProfiles == {100, 110, 122, 244, 44, 83, 86, 118, 128, 138, 139, 134, 135}
B(x) == IF x THEN <<1>> ELSE <<0>>
U(n, v) == BinW(v, n)
RECURSIVE Cat(_)
Cat(ss) == IF ss = <<>> THEN <<>> ELSE Head(ss) \o Cat(Tail(ss))

(* --------------------------------------------------------- scaling lists *)
\* a list is <<>> (absent) or a sequence of delta_scale values (one per coefficient read)
\* values per 7.3.2.1.1.1: returns the coefficient list (size n) and how many deltas are consumed
RECURSIVE ScalingVals(_, _, _, _, _)
ScalingVals(deltas, j, n, last, next) ==
    IF j > n THEN <<>>
    ELSE LET nx == IF next # 0 THEN (last + deltas[j] + 256) % 256 ELSE next
             val == IF nx = 0 THEN last ELSE nx
         IN <<val>> \o ScalingVals(deltas, j + 1, n, val, nx)
RECURSIVE ScalingBits(_, _, _, _, _)
ScalingBits(deltas, j, n, last, next) ==
    IF j > n THEN <<>>
    ELSE LET nx == IF next # 0 THEN (last + deltas[j] + 256) % 256 ELSE next
             val == IF nx = 0 THEN last ELSE nx
         IN (IF next # 0 THEN SECode(deltas[j]) ELSE <<>>) \o ScalingBits(deltas, j + 1, n, val, nx)
ListSize(i) == IF i <= 6 THEN 16 ELSE 64
ScalingMatrixBits(lists) == Cat([i \in 1 .. Len(lists) |->
                                   IF lists[i] = <<>> THEN <<0>> ELSE <<1>> \o ScalingBits(lists[i], 1, ListSize(i), 8, 8)])
ScalingMatrixVals(lists) == [i \in 1 .. Len(lists) |-> IF lists[i] = <<>> THEN <<>> ELSE ScalingVals(lists[i], 1, ListSize(i), 8, 8)]
DeltaPattern(name, n) == CASE name = "flat" -> [j \in 1 .. n |-> 0]
                           [] name = "ramp" -> [j \in 1 .. n |-> 1]
                           [] name = "wrap" -> [j \in 1 .. n |-> IF j = 1 THEN -20 ELSE IF j = 2 THEN 30 ELSE 0]   \* 8-20 wraps to 244
                           [] name = "stop" -> [j \in 1 .. n |-> IF j = 1 THEN 2 ELSE IF j = 3 THEN -10 ELSE 0]   \* next becomes 0 at j = 3
MatrixOf(name, nlists) == [i \in 1 .. nlists |-> IF name = "none" \/ (i % 2 = 0 /\ name # "all-ramp") THEN <<>>
                                                  ELSE DeltaPattern(IF name = "all-ramp" THEN "ramp" ELSE name, ListSize(i))]

(* ------------------------------------------------------------------- HRD *)
HrdBits(h) == UECode(h.cpbcnt) \o U(4, h.brscale) \o U(4, h.cpbscale)
              \o Cat([i \in 1 .. (h.cpbcnt + 1) |-> UECode(h.br + i) \o UECode(h.cpb + i) \o B(i % 2 = 1)])
              \o U(5, h.initlen) \o U(5, h.cpblen) \o U(5, h.dpblen) \o U(5, h.tol)
HrdBase == [cpbcnt |-> 0, brscale |-> 4, cpbscale |-> 6, br |-> 1000, cpb |-> 2000, initlen |-> 23, cpblen |-> 15, dpblen |-> 5, tol |-> 24]

(* ------------------------------------------------------------------- VUI *)
VuiBits(u) ==
    B(u.arflag) \o (IF u.arflag THEN U(8, u.aridc) \o (IF u.aridc = 255 THEN U(16, u.sarw) \o U(16, u.sarh) ELSE <<>>) ELSE <<>>)
    \o B(u.overscan) \o (IF u.overscan THEN B(u.overscanapp) ELSE <<>>)
    \o B(u.vsig) \o (IF u.vsig THEN U(3, u.vformat) \o B(u.fullrange) \o B(u.colourdesc)
                                     \o (IF u.colourdesc THEN U(8, u.prim) \o U(8, u.transfer) \o U(8, u.matrix) ELSE <<>>) ELSE <<>>)
    \o B(u.chromaloc) \o (IF u.chromaloc THEN UECode(u.loctop) \o UECode(u.locbot) ELSE <<>>)
    \o B(u.timing) \o (IF u.timing THEN u.units \o u.timescale \o B(u.fixedrate) ELSE <<>>)       \* 32-bit values are bit sequences
    \o B(u.nalhrd) \o (IF u.nalhrd THEN HrdBits(u.hrd) ELSE <<>>)
    \o B(u.vclhrd) \o (IF u.vclhrd THEN HrdBits([u.hrd EXCEPT !.cpbcnt = 1]) ELSE <<>>)
    \o (IF u.nalhrd \/ u.vclhrd THEN B(u.lowdelay) ELSE <<>>)
    \o B(u.picstruct) \o B(u.bsr)
    \o (IF u.bsr THEN B(u.mvover) \o UECode(u.maxbytes) \o UECode(u.maxbits) \o UECode(u.mvh) \o UECode(u.mvv) \o UECode(u.reorder) \o UECode(u.decbuf) ELSE <<>>)
VuiBase == [on |-> TRUE, arflag |-> TRUE, aridc |-> 1, sarw |-> 40, sarh |-> 33, overscan |-> FALSE, overscanapp |-> TRUE, vsig |-> FALSE, vformat |-> 5,
            fullrange |-> TRUE, colourdesc |-> FALSE, prim |-> 1, transfer |-> 2, matrix |-> 6, chromaloc |-> FALSE, loctop |-> 2, locbot |-> 3,
            timing |-> FALSE, units |-> U(32, 1001), timescale |-> U(32, 60000), fixedrate |-> TRUE, nalhrd |-> FALSE, vclhrd |-> FALSE,
            hrd |-> HrdBase, lowdelay |-> TRUE, picstruct |-> FALSE, bsr |-> FALSE, mvover |-> TRUE, maxbytes |-> 2, maxbits |-> 1,
            mvh |-> 11, mvv |-> 12, reorder |-> 2, decbuf |-> 4]

(* ------------------------------------------------------------------- SPS *)
NLists(v) == IF v.chroma # 3 THEN 8 ELSE 12
SpsData(v) ==
    U(8, v.profile) \o U(8, v.compat) \o U(8, v.level) \o UECode(v.id)
    \o (IF v.profile \in HighProfiles
        THEN UECode(v.chroma) \o (IF v.chroma = 3 THEN B(v.sepcol) ELSE <<>>) \o UECode(v.bdl) \o UECode(v.bdc) \o B(v.qpprime)
             \o B(v.scaling # "none") \o (IF v.scaling # "none" THEN ScalingMatrixBits(MatrixOf(v.scaling, NLists(v))) ELSE <<>>)
        ELSE <<>>)
    \o UECode(v.log2fn) \o UECode(v.poctype)
    \o (IF v.poctype = 0 THEN UECode(v.log2poc)
        ELSE IF v.poctype = 1 THEN B(v.deltazero) \o SECode(v.offnonref) \o SECode(v.offtopbot) \o UECode(Len(v.refcycle))
                                   \o Cat([i \in 1 .. Len(v.refcycle) |-> SECode(v.refcycle[i])])
        ELSE <<>>)
    \o UECode(v.numref) \o B(v.gaps) \o UECode(v.wmbs) \o UECode(v.hmap) \o B(v.fmo) \o (IF ~v.fmo THEN B(v.mbaff) ELSE <<>>)
    \o B(v.d8x8) \o B(v.crop) \o (IF v.crop THEN UECode(v.cl) \o UECode(v.cr) \o UECode(v.ct) \o UECode(v.cb) ELSE <<>>)
    \o B(v.vui.on) \o (IF v.vui.on THEN VuiBits(v.vui) ELSE <<>>)
NalBytes(hdr, rbspBits) == <<hdr>> \o Escape(Pack(RbspTrail(rbspBits)))
SpsNal(v) == NalBytes(103, SpsData(v))
\* derived (7.4.2.1.1): chroma format when not coded is 1 (4:2:0); 4:0:0 for profile 138 only if coded
ChromaOf(v) == IF v.profile \in HighProfiles THEN v.chroma ELSE 1
ChromaArrayType(v) == IF v.profile \in HighProfiles /\ v.chroma = 3 /\ v.sepcol THEN 0 ELSE ChromaOf(v)
SubW(v) == IF ChromaArrayType(v) \in {1, 2} THEN 2 ELSE 1
SubH(v) == IF ChromaArrayType(v) = 1 THEN 2 ELSE 1
FrameMbsOnly(v) == IF v.fmo THEN 1 ELSE 0
CropUnitX(v) == IF ChromaArrayType(v) = 0 THEN 1 ELSE SubW(v)
CropUnitY(v) == IF ChromaArrayType(v) = 0 THEN 2 - FrameMbsOnly(v) ELSE SubH(v) * (2 - FrameMbsOnly(v))
WidthOf(v) == 16 * (v.wmbs + 1) - (IF v.crop THEN CropUnitX(v) * (v.cl + v.cr) ELSE 0)
HeightOf(v) == 16 * (2 - FrameMbsOnly(v)) * (v.hmap + 1) - (IF v.crop THEN CropUnitY(v) * (v.ct + v.cb) ELSE 0)

SpsBase == [profile |-> 100, compat |-> 0, level |-> 31, id |-> 0, chroma |-> 1, sepcol |-> FALSE, bdl |-> 0, bdc |-> 0, qpprime |-> FALSE,
            scaling |-> "none", log2fn |-> 0, poctype |-> 0, log2poc |-> 2, deltazero |-> FALSE, offnonref |-> 0, offtopbot |-> 0,
            refcycle |-> <<>>, numref |-> 3, gaps |-> FALSE, wmbs |-> 79, hmap |-> 44, fmo |-> TRUE, mbaff |-> FALSE, d8x8 |-> TRUE,
            crop |-> FALSE, cl |-> 0, cr |-> 0, ct |-> 0, cb |-> 4, vui |-> [VuiBase EXCEPT !.on = FALSE]]
SpsBases == {SpsBase,
             [SpsBase EXCEPT !.profile = 66, !.compat = 192, !.level = 30, !.id = 3],                       \* baseline: no high-profile fields
             [SpsBase EXCEPT !.profile = 244, !.chroma = 3, !.bdl = 2, !.bdc = 2, !.crop = TRUE, !.cl = 1, !.ct = 2],   \* 4:4:4
             [SpsBase EXCEPT !.fmo = FALSE, !.mbaff = TRUE, !.hmap = 33, !.crop = TRUE, !.cb = 2, !.id = 1],  \* interlaced
             [SpsBase EXCEPT !.poctype = 1, !.deltazero = FALSE, !.refcycle = <<2, 2>>, !.id = 31],           \* poc type 1
             [SpsBase EXCEPT !.poctype = 2, !.vui = VuiBase, !.crop = TRUE, !.cr = 3]}
SpsFieldVals ==
    [profile : {66, 77, 88, 100, 110, 122, 244, 44, 83, 86, 118, 128, 138, 139, 134, 135}] \cup [compat : {0, 255, 64}] \cup [level : {9, 11, 40, 51, 255}]
    \cup [id : {0, 1, 31}] \cup [chroma : {0, 1, 2, 3}] \cup [sepcol : BOOLEAN] \cup [bdl : {0, 2, 6}] \cup [bdc : {0, 2, 6}] \cup [qpprime : BOOLEAN]
    \cup [scaling : {"none", "flat", "ramp", "wrap", "stop", "all-ramp"}] \cup [log2fn : {0, 4, 12}] \cup [poctype : {0, 1, 2}] \cup [log2poc : {0, 6, 12}]
    \cup [deltazero : BOOLEAN] \cup [offnonref : {0, 1, -1, -200, 1000}] \cup [offtopbot : {0, 1, -1, 77}]
    \cup [refcycle : {<<>>, <<1>>, <<-1, 3>>, <<0, 0, 5, -7>>}] \cup [numref : {0, 1, 16}] \cup [gaps : BOOLEAN] \cup [wmbs : {0, 1, 119, 255}]
    \cup [hmap : {0, 8, 67, 134}] \cup [fmo : BOOLEAN] \cup [mbaff : BOOLEAN] \cup [d8x8 : BOOLEAN] \cup [crop : BOOLEAN]
    \cup [cl : {0, 1, 7}] \cup [cr : {0, 1, 7}] \cup [ct : {0, 1, 3}] \cup [cb : {0, 1, 4}]
VuiFieldVals ==
    [arflag : BOOLEAN] \cup [aridc : {0, 1, 13, 16, 255}] \cup [sarw : {1, 65535}] \cup [sarh : {1, 65535}] \cup [overscan : BOOLEAN] \cup [overscanapp : BOOLEAN]
    \cup [vsig : BOOLEAN] \cup [vformat : {0, 5, 7}] \cup [fullrange : BOOLEAN] \cup [colourdesc : BOOLEAN] \cup [prim : {1, 9, 255}] \cup [transfer : {1, 16, 18}]
    \cup [matrix : {0, 9}] \cup [chromaloc : BOOLEAN] \cup [loctop : {0, 5}] \cup [locbot : {0, 5}] \cup [timing : BOOLEAN]
    \cup [units : {U(32, 1), Ones(32), <<1>> \o Zeros(31)}] \cup [timescale : {U(32, 50), Ones(32)}] \cup [fixedrate : BOOLEAN]
    \cup [nalhrd : BOOLEAN] \cup [vclhrd : BOOLEAN] \cup [lowdelay : BOOLEAN] \cup [picstruct : BOOLEAN] \cup [bsr : BOOLEAN] \cup [mvover : BOOLEAN]
    \cup [maxbytes : {0, 16}] \cup [maxbits : {0, 16}] \cup [mvh : {0, 16}] \cup [mvv : {0, 16}] \cup [reorder : {0, 16}] \cup [decbuf : {0, 16}]
Override(base, ov) == [f \in DOMAIN base |-> IF f \in DOMAIN ov THEN ov[f] ELSE base[f]]
\* consistency the standard requires of a valid SPS (so that every generated vector is "syntactically valid")
SpsValid(v) == /\ (v.crop => (CropUnitX(v) * (v.cl + v.cr) < 16 * (v.wmbs + 1) /\ CropUnitY(v) * (v.ct + v.cb) < 16 * (2 - FrameMbsOnly(v)) * (v.hmap + 1)))
               /\ (v.profile \in HighProfiles /\ v.chroma = 0 => v.bdc = v.bdc)
SpsVectors ==
    LET one == {Override(b, o) : b \in SpsBases, o \in SpsFieldVals}
        vuis == {[b EXCEPT !.vui = Override(VuiBase, o)] : b \in {SpsBase, [SpsBase EXCEPT !.fmo = FALSE]}, o \in VuiFieldVals}
                \cup {[SpsBase EXCEPT !.vui = Override(Override(VuiBase, o1), o2)] :
                         o1 \in [vsig : {TRUE}] \cup [timing : {TRUE}] \cup [nalhrd : {TRUE}] \cup [vclhrd : {TRUE}] \cup [bsr : {TRUE}] \cup [arflag : {FALSE}],
                         o2 \in [colourdesc : {TRUE}] \cup [chromaloc : {TRUE}] \cup [nalhrd : {TRUE}] \cup [vclhrd : {TRUE}] \cup [bsr : {TRUE}] \cup [aridc : {255}]}
        two == IF Pairwise THEN {Override(Override(b, o1), o2) : b \in {SpsBase, [SpsBase EXCEPT !.fmo = FALSE, !.crop = TRUE]}, o1 \in SpsFieldVals, o2 \in SpsFieldVals} ELSE {}
    IN {v \in one \cup vuis \cup two : SpsValid(v)}

(* ------------------------------------------------------------------- PPS *)
\* p: record; the tail (transform_8x8_mode_flag ...) is present iff p.tail
\* slice groups (7.3.2.2): p.groups = num_slice_groups_minus1; the values inside are fixed per position
\*   type 0: run_length_minus1[0..groups]          type 2: top_left / bottom_right[0..groups-1]
\*   types 3..5: change direction flag + change rate    type 6: pic_size_in_map_units_minus1 + slice_group_id[0..that], each
\*   Ceil(Log2(groups + 1)) bits wide;   type 1: nothing more
CeilLog2(n) == CHOOSE k \in 0 .. 8 : 2 ^ k >= n /\ (k = 0 \/ 2 ^ (k - 1) < n)
GroupRun(i) == 3 * i + 1
GroupTL(i) == 2 * i
GroupBR(i) == 2 * i + 5
GroupIdOf(p, i) == i % (p.groups + 1)
SliceGroupBits(p) ==
    UECode(p.groups)
    \o (IF p.groups = 0 THEN <<>>
        ELSE UECode(p.maptype)
             \o (CASE p.maptype = 0 -> Cat([i \in 1 .. (p.groups + 1) |-> UECode(GroupRun(i - 1))])
                   [] p.maptype = 2 -> Cat([i \in 1 .. p.groups |-> UECode(GroupTL(i - 1)) \o UECode(GroupBR(i - 1))])
                   [] p.maptype \in {3, 4, 5} -> B(p.gdir) \o UECode(p.grate)
                   [] p.maptype = 6 -> UECode(p.gmapunits) \o Cat([i \in 1 .. (p.gmapunits + 1) |-> U(CeilLog2(p.groups + 1), GroupIdOf(p, i - 1))])
                   [] OTHER -> <<>>))
PpsData(p, sps) ==
    UECode(p.id) \o UECode(p.spsid) \o B(p.cabac) \o B(p.bottomfield) \o SliceGroupBits(p)
    \o UECode(p.l0) \o UECode(p.l1) \o B(p.wpred) \o U(2, p.wbipred) \o SECode(p.qp) \o SECode(p.qs) \o SECode(p.cqp)
    \o B(p.deblock) \o B(p.cintra) \o B(p.redundant)
    \o (IF p.tail THEN B(p.t8x8) \o B(p.pscaling # "none")
                       \o (IF p.pscaling # "none" THEN ScalingMatrixBits(MatrixOf(p.pscaling, 6 + (IF p.t8x8 THEN (IF ChromaOf(sps) # 3 THEN 2 ELSE 6) ELSE 0))) ELSE <<>>)
                       \o SECode(p.cqp2)
        ELSE <<>>)
PpsNal(p, sps) == NalBytes(104, PpsData(p, sps))
PpsBase == [id |-> 0, spsid |-> 0, cabac |-> TRUE, bottomfield |-> FALSE, l0 |-> 0, l1 |-> 0, wpred |-> FALSE, wbipred |-> 0, qp |-> 0, qs |-> 0,
            cqp |-> 0, deblock |-> TRUE, cintra |-> FALSE, redundant |-> FALSE, tail |-> TRUE, t8x8 |-> TRUE, pscaling |-> "none", cqp2 |-> -2,
            groups |-> 0, maptype |-> 0, gdir |-> FALSE, grate |-> 0, gmapunits |-> 0]
PpsFieldVals == [id : {0, 1, 7, 255}] \cup [cabac : BOOLEAN] \cup [bottomfield : BOOLEAN] \cup [l0 : {0, 1, 31}] \cup [l1 : {0, 1, 31}] \cup [wpred : BOOLEAN]
                \cup [wbipred : {0, 1, 2}] \cup [qp : {0, -26, 25, 1}] \cup [qs : {0, -26, 25}] \cup [cqp : {0, -12, 12}] \cup [deblock : BOOLEAN]
                \cup [cintra : BOOLEAN] \cup [redundant : BOOLEAN] \cup [tail : BOOLEAN] \cup [t8x8 : BOOLEAN] \cup [pscaling : {"none", "flat", "ramp", "wrap", "all-ramp"}]
                \cup [cqp2 : {0, -12, 12}]
\* pps id / sps id assignments with pps id # sps id (Y2)
IdPairs == {<<0, 0>>, <<1, 0>>, <<0, 1>>, <<2, 1>>, <<7, 31>>, <<255, 3>>}
\* second base: no 8x8 transform - the six 4x4 scaling lists are still coded when the matrix flag is set
\* slice group vectors: every map type with 2, 3 and 8 groups; type 6 with 1, 4 and 9 map units
GroupVectors == {[PpsBase EXCEPT !.groups = g, !.maptype = t, !.gdir = d, !.grate = r, !.gmapunits = u, !.deblock = db] :
                    g \in {1, 2, 7}, t \in 0 .. 6, d \in BOOLEAN, r \in {0, 5}, u \in {0, 3, 8}, db \in BOOLEAN}
PpsVectors == {Override(b, o) : b \in {PpsBase, [PpsBase EXCEPT !.t8x8 = FALSE, !.pscaling = "flat"]}, o \in PpsFieldVals}
              \cup {v \in GroupVectors : (v.maptype \notin {3, 4, 5} => ~v.gdir /\ v.grate = 0) /\ (v.maptype # 6 => v.gmapunits = 0)}
              \cup (IF Pairwise THEN {Override(Override(PpsBase, o1), o2) : o1 \in PpsFieldVals, o2 \in PpsFieldVals} ELSE {})

(* ----------------------------------------------------------------- slice *)
\* s: record of slice values; nal type 1 (non-IDR) or 5 (IDR), ref idc 0..3
SliceKind(st) == st % 5          \* 0 P, 1 B, 2 I, 3 SP, 4 SI
RefMod(flagv) == IF flagv = "none" THEN <<0>> ELSE <<1>> \o UECode(0) \o UECode(4) \o UECode(2) \o UECode(1) \o UECode(3)   \* idc 0 (abs_diff 4), idc 2 (long term 1), end
PredWeight(s, p, sps, k) ==
    IF (p.wpred /\ k \in {0, 3}) \/ (p.wbipred = 1 /\ k = 1)
    THEN LET n0 == (IF s.override THEN s.l0 ELSE p.l0) + 1
             n1 == (IF s.override THEN s.l1 ELSE p.l1) + 1
             chroma == ChromaArrayType(sps) # 0
             per == IF chroma THEN <<0, 0>> ELSE <<0>>
         IN UECode(s.lumadenom) \o (IF chroma THEN UECode(s.chromadenom) ELSE <<>>)
            \o Cat([i \in 1 .. n0 |-> per]) \o (IF k = 1 THEN Cat([i \in 1 .. n1 |-> per]) ELSE <<>>)
    ELSE <<>>
Marking(s, nalType, refIdc) ==
    IF refIdc = 0 THEN <<>>
    ELSE IF nalType = 5 THEN B(s.nooutput) \o B(s.longterm)
    ELSE B(s.adaptive) \o (IF s.adaptive THEN UECode(1) \o UECode(3) \o UECode(3) \o UECode(2) \o UECode(5) \o UECode(4) \o UECode(6) \o UECode(0) ELSE <<>>)
\* PicSizeInMapUnits = PicWidthInMbs * PicHeightInMapUnits (7-17); smallest k with 2^k >= PicSizeInMapUnits / rate + 1
PicSizeInMapUnits(sps) == (sps.wmbs + 1) * (sps.hmap + 1)
ChangeCycleBits(p, sps) == LET rate == p.grate + 1  n == PicSizeInMapUnits(sps) IN
                           CHOOSE k \in 0 .. 31 : (2 ^ k) * rate >= n + rate /\ (k = 0 \/ (2 ^ (k - 1)) * rate < n + rate)
SliceData(s, p, sps, nalType, refIdc) ==
    LET k == SliceKind(s.type) IN
    UECode(s.firstmb) \o UECode(s.type) \o UECode(p.id)
    \o (IF sps.profile \in HighProfiles /\ sps.chroma = 3 /\ sps.sepcol THEN U(2, s.colourplane) ELSE <<>>)
    \o U(sps.log2fn + 4, s.framenum)
    \o (IF ~sps.fmo THEN B(s.field) \o (IF s.field THEN B(s.bottom) ELSE <<>>) ELSE <<>>)
    \o (IF nalType = 5 THEN UECode(s.idrid) ELSE <<>>)
    \o (IF sps.poctype = 0 THEN U(sps.log2poc + 4, s.poclsb) \o (IF p.bottomfield /\ ~(~sps.fmo /\ s.field) THEN SECode(s.dpocbottom) ELSE <<>>)
        ELSE IF sps.poctype = 1 /\ ~sps.deltazero THEN SECode(s.dpoc0) \o (IF p.bottomfield /\ ~(~sps.fmo /\ s.field) THEN SECode(s.dpoc1) ELSE <<>>)
        ELSE <<>>)
    \o (IF p.redundant THEN UECode(s.redundantcnt) ELSE <<>>)
    \o (IF k = 1 THEN B(s.direct) ELSE <<>>)
    \o (IF k \in {0, 3, 1} THEN B(s.override) \o (IF s.override THEN UECode(s.l0) \o (IF k = 1 THEN UECode(s.l1) ELSE <<>>) ELSE <<>>) ELSE <<>>)
    \o (IF k \notin {2, 4} THEN RefMod(s.refmod0) ELSE <<>>)
    \o (IF k = 1 THEN RefMod(s.refmod1) ELSE <<>>)
    \o PredWeight(s, p, sps, k)
    \o Marking(s, nalType, refIdc)
    \o (IF p.cabac /\ k \notin {2, 4} THEN UECode(s.cabacidc) ELSE <<>>)
    \o SECode(s.qpdelta)
    \o (IF k \in {3, 4} THEN (IF k = 3 THEN B(s.spswitch) ELSE <<>>) \o SECode(s.qsdelta) ELSE <<>>)
    \o (IF p.deblock THEN UECode(s.deblockidc) \o (IF s.deblockidc # 1 THEN SECode(s.alpha) \o SECode(s.beta) ELSE <<>>) ELSE <<>>)
    \* slice_group_change_cycle: Ceil(Log2(PicSizeInMapUnits / SliceGroupChangeRate + 1)) bits (7.4.3; exact division), all ones
    \o (IF p.groups > 0 /\ p.maptype \in {3, 4, 5} THEN Ones(ChangeCycleBits(p, sps)) ELSE <<>>)
\* the slice NAL: header bits, then a 1 bit and filler standing in for slice data (never all zero)
SliceHdrBits(s, p, sps, nalType, refIdc) == SliceData(s, p, sps, nalType, refIdc)
SliceNal(s, p, sps, nalType, refIdc) ==
    LET hb == SliceHdrBits(s, p, sps, nalType, refIdc) IN
    <<32 * refIdc + nalType>> \o Escape(Pack(FlushPad(hb \o <<1, 0, 1, 1>>)) \o <<171, 205, 0, 0, 1, 239>>)
\* Y4: bytes the header occupies in the escaped NAL unit (incl. the NAL header byte)
SliceHdrSize(s, p, sps, nalType, refIdc) ==
    LET hb == SliceHdrBits(s, p, sps, nalType, refIdc)
        nraw == (Len(hb) + 7) \div 8
        raw == Pack(FlushPad(hb \o <<1, 0, 1, 1>>)) \o <<171, 205, 0, 0, 1, 239>>
    IN 1 + EscIdx(raw)[nraw]
SliceBase == [firstmb |-> 0, type |-> 7, colourplane |-> 1, framenum |-> 5, field |-> FALSE, bottom |-> FALSE, idrid |-> 3, poclsb |-> 9, dpocbottom |-> -1,
              dpoc0 |-> 2, dpoc1 |-> -2, redundantcnt |-> 1, direct |-> TRUE, override |-> FALSE, l0 |-> 2, l1 |-> 1, refmod0 |-> "none", refmod1 |-> "none",
              lumadenom |-> 5, chromadenom |-> 4, nooutput |-> FALSE, longterm |-> FALSE, adaptive |-> FALSE, cabacidc |-> 1, qpdelta |-> -3, spswitch |-> FALSE,
              qsdelta |-> 2, deblockidc |-> 0, alpha |-> -1, beta |-> 2]
SliceFieldVals == [firstmb : {0, 1, 3599}] \cup [type : 0 .. 9] \cup [framenum : {0, 15}] \cup [field : BOOLEAN] \cup [bottom : BOOLEAN] \cup [idrid : {0, 65535}]
                  \cup [poclsb : {0, 63}] \cup [dpocbottom : {0, 5, -5}] \cup [dpoc0 : {0, -9}] \cup [dpoc1 : {0, 9}] \cup [redundantcnt : {0, 127}] \cup [direct : BOOLEAN]
                  \cup [override : BOOLEAN] \cup [l0 : {0, 31}] \cup [l1 : {0, 31}] \cup [refmod0 : {"none", "mods"}] \cup [refmod1 : {"none", "mods"}]
                  \cup [nooutput : BOOLEAN] \cup [longterm : BOOLEAN] \cup [adaptive : BOOLEAN] \cup [cabacidc : {0, 2}] \cup [qpdelta : {0, 26, -26}]
                  \cup [spswitch : BOOLEAN] \cup [qsdelta : {0, -7}] \cup [deblockidc : {0, 1, 2}] \cup [alpha : {0, 6, -6}] \cup [beta : {0, 6, -6}]
\* contexts: (sps, pps) pairs with different ids and branch-selecting flags
SliceSpsSet == {SpsBase,
                [SpsBase EXCEPT !.id = 1, !.fmo = FALSE, !.log2fn = 4, !.log2poc = 6],
                [SpsBase EXCEPT !.id = 3, !.poctype = 1, !.refcycle = <<1>>],
                [SpsBase EXCEPT !.id = 31, !.poctype = 2, !.profile = 244, !.chroma = 3, !.sepcol = TRUE],
                [SpsBase EXCEPT !.id = 2, !.profile = 66]}
SlicePpsSet(sps) == {[PpsBase EXCEPT !.id = i, !.spsid = sps.id] : i \in {0, 1, 255}}
                    \cup {[PpsBase EXCEPT !.id = 5, !.spsid = sps.id, !.bottomfield = TRUE, !.redundant = TRUE, !.wpred = TRUE, !.wbipred = 1, !.cabac = FALSE, !.l0 = 1, !.l1 = 2],
                          [PpsBase EXCEPT !.id = 6, !.spsid = sps.id, !.deblock = FALSE, !.wbipred = 2],
                          \* slice groups with an evolving map: the header ends with slice_group_change_cycle
                          [PpsBase EXCEPT !.id = 7, !.spsid = sps.id, !.groups = 1, !.maptype = 3, !.grate = 0],
                          [PpsBase EXCEPT !.id = 8, !.spsid = sps.id, !.groups = 1, !.maptype = 5, !.gdir = TRUE, !.grate = 5, !.deblock = FALSE]}
SliceCtx == UNION {{<<x, p>> : p \in SlicePpsSet(x)} : x \in SliceSpsSet}
SliceCases == {[s |-> Override(SliceBase, o), p |-> cx[2], sps |-> cx[1], nal |-> nt, ref |-> ri] :
                  o \in SliceFieldVals, cx \in SliceCtx, nt \in {1, 5}, ri \in {0, 1, 3}}
SliceOK(c) == /\ (c.nal = 5 => (c.ref # 0 /\ SliceKind(c.s.type) \in {2, 4}))      \* IDR pictures: only I/SI slices, nal_ref_idc # 0
              /\ c.p.id # c.sps.id \/ c.p.id = 0

(* -------------------------------------------------------------- machine *)
VARIABLES c, phase
vars == <<c, phase>>
Init == /\ phase = "chosen"
        /\ CASE Struct = "sps" -> c \in [v : SpsVectors]
             [] Struct = "pps" -> c \in {[p |-> [p EXCEPT !.id = ids[1], !.spsid = ids[2]], sps |-> [sps EXCEPT !.id = ids[2]]] :
                                            p \in PpsVectors, ids \in IdPairs, sps \in {SpsBase, [SpsBase EXCEPT !.profile = 244, !.chroma = 3],
                                                                                     \* 4:4:4 coded as three separate planes: ChromaArrayType 0, but the PPS still
                                                                                     \* carries 12 scaling lists (7.3.2.2 tests chroma_format_idc, not ChromaArrayType)
                                                                                     [SpsBase EXCEPT !.profile = 244, !.chroma = 3, !.sepcol = TRUE]}}
             [] Struct = "slice" -> c \in {x \in SliceCases : SliceOK(x)}
Serialise == phase = "chosen" /\ phase' = "serialised" /\ UNCHANGED c
Next == Serialise
Spec == Init /\ [][Next]_vars

\* design checks on the oracle itself: NAL units are emulation free and byte aligned
NalOK(n) == NoForbidden(n) /\ \A i \in 1 .. Len(n) : n[i] \in 0 .. 255
Oracle == phase = "serialised" =>
    CASE Struct = "sps" -> NalOK(SpsNal(c.v)) /\ WidthOf(c.v) > 0 /\ HeightOf(c.v) > 0
      [] Struct = "pps" -> NalOK(PpsNal(c.p, c.sps))
      [] Struct = "slice" -> NalOK(SliceNal(c.s, c.p, c.sps, c.nal, c.ref)) /\ SliceHdrSize(c.s, c.p, c.sps, c.nal, c.ref) >= 2

Export == (DoExport /\ phase = "serialised") =>
    PrintT(ToJson(
      CASE Struct = "sps" -> [struct |-> "sps", v |-> c.v, nal |-> SpsNal(c.v), width |-> WidthOf(c.v), height |-> HeightOf(c.v),
                              chroma |-> ChromaOf(c.v), cat |-> ChromaArrayType(c.v),
                              scalingvals |-> IF c.v.profile \in HighProfiles /\ c.v.scaling # "none" THEN ScalingMatrixVals(MatrixOf(c.v.scaling, NLists(c.v))) ELSE <<>>]
        [] Struct = "pps" -> [struct |-> "pps", p |-> c.p, spsnal |-> SpsNal(c.sps), nal |-> PpsNal(c.p, c.sps),
                              scalingvals |-> IF c.p.tail /\ c.p.pscaling # "none"
                                              THEN ScalingMatrixVals(MatrixOf(c.p.pscaling, 6 + (IF c.p.t8x8 THEN (IF ChromaOf(c.sps) # 3 THEN 2 ELSE 6) ELSE 0))) ELSE <<>>]
        [] Struct = "slice" -> [struct |-> "slice", s |-> c.s, p |-> c.p, spsid |-> c.sps.id, naltype |-> c.nal, refidc |-> c.ref,
                                spsnal |-> SpsNal(c.sps), ppsnal |-> PpsNal(c.p, c.sps),
                                othersps |-> SpsNal([c.sps EXCEPT !.id = c.p.id, !.log2fn = 9, !.fmo = ~c.sps.fmo]),   \* a different SPS stored under the PPS's own id
                                nal |-> SliceNal(c.s, c.p, c.sps, c.nal, c.ref), size |-> SliceHdrSize(c.s, c.p, c.sps, c.nal, c.ref),
                                kind |-> SliceKind(c.s.type), poctype |-> c.sps.poctype, fmo |-> c.sps.fmo, sepcol |-> (c.sps.profile \in HighProfiles /\ c.sps.chroma = 3 /\ c.sps.sepcol),
                                deltazero |-> c.sps.deltazero,
                                changecycle |-> IF c.p.groups > 0 /\ c.p.maptype \in {3, 4, 5} THEN 2 ^ ChangeCycleBits(c.p, c.sps) - 1 ELSE -1]))
=============================================================================
