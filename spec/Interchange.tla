----------------------------- MODULE Interchange -----------------------------
(* C03: the two decoders (io.Reader / SliceReader) and the two encoders (Encode / EncodeSW) are
   interchangeable. Two implementations of each abstract action are observed on the same object or
   byte string; the recorded outcomes are validated event by event:
     E1 "enc2" : Encode and EncodeSW both fail or give identical bytes
     E2 "dec2" : a byte string that one decode path reproduces exactly on re-encoding (canonical for
                 that path) is accepted by the other path with an equivalent structure (same Info
                 dump, same size, same re-encoded bytes); at file level also the same grouping into
                 init / segments / fragments and the same recorded start positions
     E3 "tables": the two decoder dispatch tables have the same keys                        *)
EXTENDS Integers, Sequences, TLC, Json

Trace == ndJsonDeserialize("trace.ndjson")
VARIABLES l
Init == l = 1
IsEvent(e) == l <= Len(Trace) /\ Trace[l].ev = e /\ l' = l + 1
Reset == IsEvent("reset")
Enc2 == /\ IsEvent("enc2")
        /\ LET e == Trace[l] IN (e.errW = "") = (e.errSW = "") /\ ((e.errW = "" /\ e.errSW = "") => e.same)
Dec2 == /\ IsEvent("dec2")
        /\ LET e == Trace[l] IN
           /\ e.canonR => (e.accSR /\ e.equiv)
           /\ e.canonSR => (e.accR /\ e.equiv)
Tables == IsEvent("tables") /\ Trace[l].onlyReader = <<>> /\ Trace[l].onlySR = <<>>
Next == Reset \/ Enc2 \/ Dec2 \/ Tables
Spec == Init /\ [][Next]_l
Accepted == LET d == TLCGet("stats").diameter IN
            IF d - 1 = Len(Trace) THEN TRUE
            ELSE Print(<<"TRACE_REJECTED_AT_LINE", d, Trace[d]>>, FALSE)
=============================================================================
