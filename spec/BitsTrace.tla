----------------------------- MODULE BitsTrace -----------------------------
(* C13 trace validation: events recorded from the real bits.EBSPWriter / bits.EBSPReader
   (byte-granular, with the hook-exposed nr0 / zeroCount) are checked step by step against
   the Impl step operators of Bits.tla; the Prop predicates are invariants of every state.
   Traces are concatenated, separated by "reset" events. *)
EXTENDS Bits, TLC, Json

Trace == ndJsonDeserialize("trace.ndjson")

VARIABLES l, w, wire, raw, r, nread
vars == <<l, w, wire, raw, r, nread>>

Init == l = 1 /\ w = WInit /\ wire = <<>> /\ raw = <<>> /\ r = RInit /\ nread = 0

IsEvent(e) == l <= Len(Trace) /\ Trace[l].ev = e /\ l' = l + 1

Reset == IsEvent("reset") /\ w' = WInit /\ wire' = <<>> /\ raw' = <<>> /\ r' = RInit /\ nread' = 0

\* one byte handed to EBSPWriter.Write(b, 8): logged emitted bytes and nr0 must be the machine's
WByte == /\ IsEvent("w")
         /\ LET e == Trace[l] IN
            /\ e.emit = WEmit(w, e.b)
            /\ WNext(w, e.b).nr0 = e.nr0
            /\ w' = WNext(w, e.b)
            /\ wire' = wire \o e.emit
            /\ raw' = Append(raw, e.b)
         /\ UNCHANGED <<r, nread>>

\* one byte fetched by EBSPReader.Read(8) from the recorded wire
RByteEv == /\ IsEvent("r")
           /\ RCan(r, wire)
           /\ LET e == Trace[l] IN
              /\ e.v = RByte(r, wire)
              /\ e.pos = RNext(r, wire).pos
              /\ e.zc = RNext(r, wire).zc
              /\ e.v = raw[nread + 1]                \* Prop B5 on the real values
           /\ r' = RNext(r, wire)
           /\ nread' = nread + 1
           /\ UNCHANGED <<w, wire, raw>>

\* reader reports EOF exactly when the machine has nothing left
REof == /\ IsEvent("eof")
        /\ ~RCan(r, wire)
        /\ nread = Len(raw)
        /\ UNCHANGED <<w, wire, raw, r, nread>>

Next == Reset \/ WByte \/ RByteEv \/ REof
Spec == Init /\ [][Next]_vars

\* Prop on every state of every observed execution (window check keeps it linear)
Tail3(s) == IF Len(s) <= 3 THEN s ELSE SubSeq(s, Len(s) - 2, Len(s))
B2 == NoForbidden(Tail3(wire))

Accepted == LET d == TLCGet("stats").diameter IN
            IF d - 1 = Len(Trace) THEN TRUE
            ELSE Print(<<"TRACE_REJECTED_AT_LINE", d, Trace[d]>>, FALSE)
=============================================================================
