-------------------------------- MODULE Crop --------------------------------
(* C10: cropping a progressive file yields exactly a prefix of every track.

   Abstract progressive file: 1..2 tracks; a track = per-sample arrays (duration, size, composition
   offset, sync) in its own timescale + a chunking; chunks of the tracks are interleaved in mdat
   (round robin in trak order or, layout variant 6 of the replay, in reverse trak order: the first chunk
   in mdat then belongs to the last trak of the moov).
   Prop  : with E = start time of the first sync sample of the reference track (first video track,
           else first audio track; a track without stss has only sync samples) at or after the requested
           duration, and k_t = number of samples of track t that start before E (E converted to the
           track's timescale with the tool's integer rule), the output holds for every track exactly
           the first k_t samples (bytes, durations, composition offsets, sync flags, in order), chunk
           offsets inside the new mdat, nothing else in mdat, header durations not above the originals.
   Impl  : the tool's table-cropping routines (cropStts, cropCtts, cropStss, cropStsc, cropStsz) as
           operators over the run-length tables; TLC checks, for every table shape and every cut
           point, that expanding the cropped tables gives the prefix of the original expansion.
   Modes : "tables" (design check of the cropping routines), "files" (files x durations exported for
           replay against the built mp4ff-crop binary).                                          *)
EXTENDS SampleTablesOps, TLC, Json

CONSTANTS Mode, MaxN, NVideo, DurPats, WithAudio, Scales, DoExport

RunTables(N, Vals) == UNION {{[i \in 1 .. Len(c) |-> [n |-> c[i], v |-> vs[i]]] : vs \in [1 .. Len(c) -> Vals]} : c \in Comp(N)}

(* ----------------------------------------- Impl: the tool's cropping routines *)
\* cropStts: keep runs up to the one containing sample `last`, shorten it
RECURSIVE CropRuns(_, _, _)
CropRuns(t, last, counted) ==
    IF t = <<>> \/ counted >= last THEN <<>>
    ELSE IF counted + Head(t).n >= last THEN <<[n |-> last - counted, v |-> Head(t).v]>>
    ELSE <<Head(t)>> \o CropRuns(Tail(t), last, counted + Head(t).n)
\* cropStsc: keep entries up to the one containing `last`; add an entry for a partial last chunk
CropStsc(e, last) ==
    LET k == BSearchEntry(e, last, 0, Len(e)) + 1
        kept == SubSeq(e, 1, k)
        left == last - FirstSampleNr(e, k) + 1
        full == left \div e[k].spc
        rest == left - full * e[k].spc
    IN IF rest > 0 THEN Append(kept, [first |-> e[k].first + full, spc |-> rest, sdi |-> e[k].sdi]) ELSE kept
\* number of chunks that hold samples 1..last
NChunks(e, last) == ImplChunkOf(e, last).chunk
\* per-chunk sample counts implied by a (cropped) stsc for nchunks chunks
SpcOf(e, nchunks) == [c \in 1 .. nchunks |-> e[CHOOSE k \in 1 .. Len(e) : e[k].first <= c /\ (k = Len(e) \/ e[k + 1].first > c)].spc]

(* ----------------------------------------------------- Prop: crop semantics *)
DtsSeq(durs) == [s \in 1 .. Len(durs) |-> Dts(durs, s)]
\* first sample starting at or after t; Len+1 when t falls inside the last sample; 0 when t >= total
FirstAtOrAfter(durs, t) == IF t >= Total(durs) THEN 0
                           ELSE IF \E s \in 1 .. Len(durs) : Dts(durs, s) >= t
                           THEN CHOOSE s \in 1 .. Len(durs) : Dts(durs, s) >= t /\ \A q \in 1 .. (s - 1) : Dts(durs, q) < t
                           ELSE Len(durs) + 1
IsSync(tr, s) == tr.sync = {0} \/ s \in tr.sync
\* start time of the first sync sample of the reference track at or after the requested time; -1 = none
EndTime(ref, t) == LET s0 == FirstAtOrAfter(ref.durs, t) IN
                   IF s0 = 0 THEN -1
                   ELSE IF \E s \in s0 .. Len(ref.durs) : IsSync(ref, s)
                   THEN Dts(ref.durs, CHOOSE s \in s0 .. Len(ref.durs) : IsSync(ref, s) /\ \A q \in s0 .. (s - 1) : ~IsSync(ref, q))
                   ELSE -1
Kept(tr, endT) == Cardinality({s \in 1 .. Len(tr.durs) : Dts(tr.durs, s) < endT})

(* ----------------------------------------------------------------- generator *)
DurPat(name, n, scale) == [i \in 1 .. n |-> scale * (IF name = "const" THEN 10 ELSE IF i % 2 = 1 THEN 10 ELSE 20)]
Chunkings(n) == IF n <= 4 THEN Comp(n) ELSE {c \in Comp(n) : Len(c) <= 2 \/ c = Rep(1, n)}
VideoOfN(n) == {[kind |-> "video", ts |-> 1000 * sc, durs |-> DurPat(dp, n, sc), sizes |-> [i \in 1 .. n |-> i + 2],
                 ctos |-> IF ct THEN [i \in 1 .. n |-> sc * (IF i % 2 = 0 THEN 20 ELSE 0)] ELSE <<>>,
                 sync |-> sy, spc |-> ch, sdtp |-> FALSE] :
                   dp \in DurPats, sc \in Scales, ct \in BOOLEAN,
                   sy \in ({{0}, {}} \cup {S \cup {1} : S \in SUBSET (2 .. n)}), ch \in Chunkings(n)}    \* {0}: no stss box; {}: stss box without entries (no sync sample: no end time)
VideoTracks == UNION {VideoOfN(n) : n \in NVideo}
AudioOfN(n) == {[kind |-> "audio", ts |-> 500, durs |-> DurPat("const", n, 1), sizes |-> [i \in 1 .. n |-> 2], ctos |-> <<>>,
                 sync |-> {0}, spc |-> ch, sdtp |-> FALSE] : ch \in {<<n>>, Rep(1, n)}}
\* a sparse track: few samples, the last one long - the end time often falls INSIDE its last sample, so the track is kept whole
\* while the reference track loses samples (its chunks then move although none of its tables changes)
AudioLongLast(n) == {[kind |-> "audio", ts |-> 500, durs |-> [i \in 1 .. n |-> IF i = n THEN 40 ELSE 5], sizes |-> [i \in 1 .. n |-> 2], ctos |-> <<>>,
                      sync |-> {0}, spc |-> ch, sdtp |-> FALSE] : ch \in {<<n>>, Rep(1, n)}}
\* a timescale in which the end time of the reference track is NOT a whole number of ticks (44.1 kHz / 100): samples that start
\* between floor and exact value of the converted end time start before the end time
AudioOdd(n) == {[kind |-> "audio", ts |-> 441, durs |-> [i \in 1 .. n |-> 4], sizes |-> [i \in 1 .. n |-> 2], ctos |-> <<>>,
                 sync |-> {0}, spc |-> ch, sdtp |-> FALSE] : ch \in {<<n>>, Rep(1, n)}}
AudioTracks == AudioOfN(3) \cup AudioOfN(7) \cup AudioLongLast(2) \cup AudioOdd(9)
Files == {<<v>> : v \in VideoTracks} \cup (IF WithAudio THEN {<<v, a>> : v \in VideoTracks, a \in AudioTracks} \cup {<<a>> : a \in AudioTracks} ELSE {})
TotalMs(tr) == (Total(tr.durs) * 1000) \div tr.ts
\* requested durations: every sample start of the reference track in ms, +-1 ms, and 1 ms / beyond the end
GridMs(tr) == {x \in UNION {{m - 1, m, m + 1} : m \in {(Dts(tr.durs, s) * 1000) \div tr.ts : s \in 1 .. Len(tr.durs)} \cup {TotalMs(tr)}} : x >= 1}

VARIABLES file, d, phase, tab, cut
vars == <<file, d, phase, tab, cut>>
Init == /\ phase = "chosen"
        /\ IF Mode = "files"
           THEN /\ file \in Files /\ d \in GridMs(file[1]) /\ tab = <<>> /\ cut = 0
           ELSE /\ file = <<>> /\ d = 0
                /\ \E n \in 1 .. MaxN : /\ cut \in 1 .. n
                                        /\ tab \in [stts : RunTables(n, {1, 3}), ctts : RunTables(n, {0, 2}),
                                                    ch : {[spc |-> c, merge |-> m] : c \in Comp(n), m \in BOOLEAN}]
Run == phase = "chosen" /\ phase' = "done" /\ UNCHANGED <<file, d, tab, cut>>
Next == Run
Spec == Init /\ [][Next]_vars

\* ---- design check of the cropping routines: expansion of cropped tables = prefix of the expansion
TablesOK == (Mode = "tables" /\ phase = "done") =>
    LET n == Len(ExpandRuns(tab.stts))
        stsc == StscFrom(tab.ch.spc, Rep(1, Len(tab.ch.spc)), 1, tab.ch.merge)
        cs == CropStsc(stsc, cut)
        nch == NChunks(stsc, cut)
    IN /\ ExpandRuns(CropRuns(tab.stts, cut, 0)) = SubSeq(ExpandRuns(tab.stts), 1, cut)
       /\ ExpandRuns(CropRuns(tab.ctts, cut, 0)) = SubSeq(ExpandRuns(tab.ctts), 1, cut)
       /\ SumF(SpcOf(cs, nch), 1, nch) = cut                                  \* cropped stsc describes exactly `cut` samples in nch chunks
       /\ \A c \in 1 .. (nch - 1) : SpcOf(cs, nch)[c] = tab.ch.spc[c]          \* earlier chunks unchanged

\* ---- expectations for the built binary
Ref == file[1]
ReqT == (d * Ref.ts) \div 1000
E == EndTime(Ref, ReqT)
\* "starts before the end time" across timescales is an exact comparison of rationals: dts / ts < E / Ref.ts
StartsBefore(tr, s) == Dts(tr.durs, s) * Ref.ts < E * tr.ts
KeptOf(tr) == Cardinality({s \in 1 .. Len(tr.durs) : StartsBefore(tr, s)})
\* the tool is defined (may succeed) when an end time exists and it lies inside every track
Defined == E > 0 /\ \A i \in 1 .. Len(file) : E * file[i].ts < Total(file[i].durs) * Ref.ts /\ KeptOf(file[i]) > 0
Export == (DoExport /\ Mode = "files" /\ phase = "done") =>
    PrintT(ToJson([tracks |-> [i \in 1 .. Len(file) |-> [kind |-> file[i].kind, ts |-> file[i].ts, durs |-> file[i].durs, sizes |-> file[i].sizes,
                                                         ctos |-> file[i].ctos, hasstss |-> file[i].sync # {0},
                                                         sync |-> [s \in 1 .. Len(file[i].durs) |-> IsSync(file[i], s)], spc |-> file[i].spc]],
                   d |-> d, defined |-> Defined, endtime |-> E,
                   kept |-> IF Defined THEN [i \in 1 .. Len(file) |-> KeptOf(file[i])] ELSE <<>>]))
=============================================================================
