---------------------------- MODULE AnnexBTrace ----------------------------
(* C14 trace validation: long random Annex B streams (hundreds of bytes, many machine words)
   are run through the real scanner and converters; the events carry only lengths and
   positions, and TLC recomputes what the NAL unit sequence prescribes. *)
EXTENDS Integers, Sequences, TLC, Json

Trace == ndJsonDeserialize("trace.ndjson")
VARIABLES l, lens, scs
vars == <<l, lens, scs>>

RECURSIVE Starts(_, _, _)
Starts(ls, ss, at) == IF ls = <<>> THEN <<>>
                      ELSE <<<<at + Head(ss), Head(ss)>>>> \o Starts(Tail(ls), Tail(ss), at + Head(ss) + Head(ls))
RECURSIVE Min(_)
Min(ss) == IF Len(ss) = 1 THEN ss[1] ELSE LET m == Min(Tail(ss)) IN IF Head(ss) < m THEN Head(ss) ELSE m

Init == l = 1 /\ lens = <<>> /\ scs = <<>>
IsEvent(e) == l <= Len(Trace) /\ Trace[l].ev = e /\ l' = l + 1

\* reset carries the generated unit lengths and start-code lengths
Reset == IsEvent("reset") /\ lens' = Trace[l].lens /\ scs' = Trace[l].scs

\* N1 on a real execution: the scanner found exactly the start codes laid down
Scan == /\ IsEvent("scan")
        /\ Trace[l].found = Starts(lens, scs, 0)
        /\ Trace[l].minsc = Min(scs)
        /\ UNCHANGED <<lens, scs>>

\* N2: conversion to length-prefixed form: unit lengths and payloads preserved
ToSample == /\ IsEvent("tosample")
            /\ Trace[l].outlens = lens
            /\ Trace[l].payload_ok
            /\ UNCHANGED <<lens, scs>>

\* N3: and back, behind 4-byte start codes
Back == /\ IsEvent("back")
        /\ Trace[l].found = Starts(lens, [i \in 1 .. Len(lens) |-> 4], 0)
        /\ Trace[l].payload_ok
        /\ UNCHANGED <<lens, scs>>

\* N4: extraction / sample walkers see the same unit sequence
Walk == /\ IsEvent("walk")
        /\ Trace[l].extract_lens = lens
        /\ Trace[l].sample_lens = lens
        /\ Trace[l].payload_ok
        /\ UNCHANGED <<lens, scs>>

Next == Reset \/ Scan \/ ToSample \/ Back \/ Walk
Spec == Init /\ [][Next]_vars

Accepted == LET d == TLCGet("stats").diameter IN
            IF d - 1 = Len(Trace) THEN TRUE
            ELSE Print(<<"TRACE_REJECTED_AT_LINE", d, Trace[d]>>, FALSE)
=============================================================================
