-------------------------------- MODULE Mdat --------------------------------
(* C08: lazy-mdat mode is observationally equal to in-memory mode.

   A file is  pre ++ mdat(hdr in {8,16}, L payload bytes) ++ post ; the payload byte at absolute
   file offset o is the token o. Both decode modes are modelled side by side:
     Impl normal : payload held in memory, range served by slice arithmetic + bounds test
     Impl lazy   : only (start position, header form, payload size) kept; range served by
                   seek + read on the file; CopySampleData streams chunk pieces through an
                   optional work buffer (model of the flush logic of File.CopySampleData)
   Prop (L2..L4): for every VALID range both modes succeed and return tokens start..start+size-1;
   for every sample interval and every work-buffer size the copied bytes are the samples' bytes;
   a lazy box encodes to exactly its header.
   Kinds of behaviours (chosen in Init): "range" (ReadData/CopyData) and "copy" (CopySampleData). *)
EXTENDS SampleTablesOps, TLC, Json

CONSTANTS MaxL, MaxN, Pres, DoExport

VARIABLES kind, lay, op, resN, resL, phase
vars == <<kind, lay, op, resN, resL, phase>>

HdrBytes(hdr, L) == IF hdr = 8 THEN <<(8 + L) \div 16777216, ((8 + L) \div 65536) % 256, ((8 + L) \div 256) % 256, (8 + L) % 256, 109, 100, 97, 116>>
                    ELSE <<0, 0, 0, 1, 109, 100, 97, 116, 0, 0, 0, 0, 0, 0, ((16 + L) \div 256) % 256, (16 + L) % 256>>

\* ---- layouts: pre = bytes before the mdat box, post = bytes after it
\* emd: an additional EMPTY mdat box (8 bytes, as left behind by some muxers) directly before or after the
\* data mdat of a progressive file; File.Mdat must still be the data mdat in both modes
\* lead: a box with a 64-bit size header (free, size field 1, largesize 20) in front of the mdat / the fragment: an encoder
\* writes it back with a 32-bit header, so positions derived from recalculated sizes are 8 too low
RangeLayouts == {l \in [pre : Pres, hdr : {8, 16}, L : 1 .. MaxL, post : {0, 9}, order : {"moov-mdat", "mdat-moov", "frag"}, emd : {"none", "before", "after"},
                        lead : {"none", "free64"}] :
                    /\ (l.order = "frag" => l.emd = "none")
                    /\ (l.order = "moov-mdat" => l.emd # "before")
                    /\ (l.lead = "free64" => l.order # "moov-mdat" /\ l.emd = "none" /\ l.post = 0 /\ \A p \in Pres : l.pre <= p)}
HasEmd(l) == "emd" \in DOMAIN l /\ l.emd # "none"
EmdBefore(l) == IF "emd" \in DOMAIN l /\ l.emd = "before" THEN 8 ELSE 0
PayloadStart(l) == l.pre + EmdBefore(l) + l.hdr
\* model of File.AddChild for progressive files: keep the current mdat unless it is nil or empty
\* (emptiness = box size - header size, independent of the decode mode)
MdatLens(l) == IF ~HasEmd(l) THEN <<l.L>> ELSE IF l.emd = "before" THEN <<0, l.L>> ELSE <<l.L, 0>>
RECURSIVE PickMdat(_, _, _)
PickMdat(lens, i, cur) == IF i > Len(lens) THEN cur ELSE PickMdat(lens, i + 1, IF cur = 0 \/ lens[cur] = 0 THEN i ELSE cur)
ImplPicksData(l) == PickMdat(MdatLens(l), 1, 0) = (IF EmdBefore(l) > 0 THEN 2 ELSE 1)
CopyLayouts == UNION {{[pre |-> p, hdr |-> h, spc |-> c, uniform |-> u, gap |-> g, N |-> n] :
                          c \in Comp(n), u \in BOOLEAN, g \in {0, 2}, h \in {8, 16}, p \in Pres} : n \in 1 .. MaxN}
SizesOf(l) == IF l.uniform THEN Rep(3, l.N) ELSE [i \in 1 .. l.N |-> i + 1]
RECURSIVE OffsAbs(_, _, _, _, _)
OffsAbs(spc, sizes, gap, c, at) == IF c > Len(spc) THEN <<>>
                                   ELSE <<at + gap>> \o OffsAbs(spc, sizes, gap, c + 1, at + gap + SumF(sizes, ChunkStart(spc, c), ChunkStart(spc, c) + spc[c] - 1))
ChunkOffs(l) == OffsAbs(l.spc, SizesOf(l), l.gap, 1, l.pre + l.hdr)
PayloadLen(l) == LET o == ChunkOffs(l)  z == SizesOf(l)  C == Len(l.spc) IN
                 o[C] + SumF(z, ChunkStart(l.spc, C), l.N) - (l.pre + l.hdr)

\* ---- Impl: range reads
ImplReadNormal(l, start, size) ==
    LET off == start - PayloadStart(l)  end == off + size IN
    IF ~ImplPicksData(l) \/ off < 0 \/ off >= l.L \/ end > l.L THEN "err" ELSE [from |-> start, to |-> start + size - 1]
ImplReadLazy(l, start, size) ==
    IF ~ImplPicksData(l) \/ start + size > l.pre + l.hdr + l.L + l.post + (IF HasEmd(l) THEN 8 ELSE 0) THEN "err" ELSE [from |-> start, to |-> start + size - 1]

\* ---- Impl: CopySampleData. pieces = byte ranges per containing chunk; tokens as sequences
Toks(from, n) == [i \in 1 .. n |-> from + i - 1]
RECURSIVE FillPiece(_, _, _, _, _)
\* state st = [wp, buf, out]; reads piece (at, left) through work buffer of length W
FillPiece(st, at, left, W, fuel) ==
    IF fuel = 0 THEN st
    ELSE LET end == Min(W, st.wp + left)
             n == end - st.wp
             buf2 == SubSeq(st.buf, 1, st.wp) \o Toks(at, n)
             st2 == [wp |-> st.wp + n, buf |-> buf2, out |-> st.out]
         IN IF left - n = 0 THEN st2
            ELSE IF st2.wp = W THEN FillPiece([wp |-> 0, buf |-> <<>>, out |-> st2.out \o st2.buf], at + n, left - n, W, fuel - 1)
            ELSE FillPiece(st2, at + n, left - n, W, fuel - 1)
RECURSIVE CopyPieces(_, _, _, _)
CopyPieces(st, pieces, W, lazy) ==
    IF pieces = <<>> THEN (IF st.wp > 0 THEN st.out \o SubSeq(st.buf, 1, st.wp) ELSE st.out)
    ELSE LET p == Head(pieces) IN
         IF lazy /\ W > 0 THEN CopyPieces(FillPiece(st, p.off, p.size, W, 64), Tail(pieces), W, lazy)
         ELSE CopyPieces([st EXCEPT !.out = st.out \o Toks(p.off, p.size)], Tail(pieces), W, lazy)
ImplCopy(l, a, b, W, lazy) ==
    CopyPieces([wp |-> 0, buf |-> <<>>, out |-> <<>>], Ranges(l.spc, SizesOf(l), ChunkOffs(l), a, b), W, lazy)
\* Prop: the bytes of samples a..b in order
WantCopy(l, a, b) == Flat([k \in 1 .. (b - a + 1) |-> Toks(SampleOffset(l.spc, SizesOf(l), ChunkOffs(l), a + k - 1), SizesOf(l)[a + k - 1])])

Init == /\ phase = "chosen" /\ resN = "none" /\ resL = "none"
        /\ \/ /\ kind = "range" /\ lay \in RangeLayouts
              /\ op \in {[start |-> s, size |-> z] : s \in 0 .. (2 * 9 + 16 + MaxL), z \in 1 .. MaxL}
              /\ op.start >= PayloadStart(lay) /\ op.start + op.size <= PayloadStart(lay) + lay.L      \* valid ranges only
           \* "big": an mdat whose payload has 2^32 + x bytes, decoded lazily from a sparse file. 4.2: the 32-bit size field holds
           \* header + payload up to 2^32 - 1, i.e. x <= -9; beyond that size = 1 and a 64-bit largesize follows (header 16).
           \* (TLC integers are 32-bit: the payload length is kept as the offset x from 2^32.)
           \/ /\ kind = "big" /\ lay \in [x : {-10, -9, -8, 5}, post : {0, 9}, order : {"moov-mdat"}]
              /\ op \in [tail : {1, 4}]
           \/ /\ kind = "copy" /\ lay \in CopyLayouts
              /\ op \in {[a |-> a, b |-> b, W |-> w] : a \in 1 .. MaxN, b \in 1 .. MaxN, w \in 0 .. ((MaxN * (MaxN + 3)) \div 2 + 1)}
              /\ op.a <= op.b /\ op.b <= lay.N /\ op.W <= PayloadLen(lay) + 1

BigHdr(x) == IF x <= -9 THEN 8 ELSE 16         \* Prop: header form from the payload length alone
\* Impl (MdatBox.Size): LargeSize is switched on when the payload exceeds maxNormalPayloadSize = 2^32 - 1 - 8
ImplBigHdr(x) == IF x > -9 THEN 16 ELSE 8
Run == /\ phase = "chosen" /\ phase' = "done"
       /\ IF kind = "range"
          THEN resN' = ImplReadNormal(lay, op.start, op.size) /\ resL' = ImplReadLazy(lay, op.start, op.size)
          ELSE IF kind = "big" THEN resN' = BigHdr(lay.x) /\ resL' = ImplBigHdr(lay.x)
          ELSE resN' = ImplCopy(lay, op.a, op.b, op.W, FALSE) /\ resL' = ImplCopy(lay, op.a, op.b, op.W, TRUE)
       /\ UNCHANGED <<kind, lay, op>>

Next == Run
Spec == Init /\ [][Next]_vars

\* ---- Prop
L2 == (phase = "done" /\ kind = "range") => resN = [from |-> op.start, to |-> op.start + op.size - 1] /\ resL = resN
L3 == (phase = "done" /\ kind = "copy") => resN = WantCopy(lay, op.a, op.b) /\ resL = resN

LBig == (phase = "done" /\ kind = "big") => resL = resN
Export == (DoExport /\ phase = "done") =>
    PrintT(ToJson(IF kind = "big" THEN [kind |-> kind, lay |-> lay, op |-> op, want |-> resN]
                  ELSE IF kind = "range"
                  THEN [kind |-> kind, lay |-> lay, op |-> op, want |-> resN, header |-> HdrBytes(lay.hdr, lay.L)]
                  ELSE [kind |-> kind, lay |-> lay, op |-> op, want |-> resN, sizes |-> SizesOf(lay), offs |-> ChunkOffs(lay),
                        stsc |-> StscFrom(lay.spc, Rep(1, Len(lay.spc)), 1, TRUE), plen |-> PayloadLen(lay)]))
=============================================================================
