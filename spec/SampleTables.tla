---------------------------- MODULE SampleTables ----------------------------
(* C09: sample-table queries vs. the ISO/IEC 14496-12 (8.6.1 stts/ctts, 8.6.2 stss, 8.6.4
   sdtp, 8.7.3 stsz, 8.7.4 stsc, 8.7.5 stco/co64) semantics.

   Prop layer : Expand* - the naive per-sample expansion of the run-length tables; every
                query is DEFINED from the expansion.
   Impl layer : the library's algorithms with their cached helper columns (stsc entries with
                FirstSampleNr + binary search, ctts EndSampleNr + binary search, the stts
                accumulation loops); TLC checks Impl = Prop on every enumerated table.
   Generator  : all consistent tables for N <= MaxN samples, per query family, exported with
                the expected answer of every query for every sample number / interval / time. *)
EXTENDS Integers, Sequences, FiniteSets, TLC, Json

CONSTANTS Family, MaxN, DoExport

(* ----------------------------------------------------------------- helpers *)
RECURSIVE Comp(_)                     \* all compositions of n (sequences of positive ints)
Comp(n) == IF n = 0 THEN {<<>>} ELSE UNION {{<<k>> \o c : c \in Comp(n - k)} : k \in 1 .. n}
RECURSIVE Sum(_)
Sum(s) == IF s = <<>> THEN 0 ELSE Head(s) + Sum(Tail(s))
RECURSIVE SumF(_, _, _)               \* sum of f[i] for i in a..b
SumF(f, a, b) == IF a > b THEN 0 ELSE f[a] + SumF(f, a + 1, b)
RECURSIVE Flat(_)
Flat(ss) == IF ss = <<>> THEN <<>> ELSE Head(ss) \o Flat(Tail(ss))
Rep(x, n) == [i \in 1 .. n |-> x]

(* ------------------------------------------------------- Prop: expansions *)
\* run-length table <<[n, v]>> -> per-sample sequence of v
ExpandRuns(t) == Flat([i \in 1 .. Len(t) |-> Rep(t[i].v, t[i].n)])
Dts(durs, s) == SumF(durs, 1, s - 1)                     \* decode time of sample s (1-based)
Total(durs) == SumF(durs, 1, Len(durs))
\* first sample starting at or after time t; the virtual sample N+1 (end of track) stands for
\* "inside the last sample" (this is what the library documents and its callers rely on);
\* 0 = error expected (time beyond the end); -1 = not pinned (t = total duration, no zero-length last sample)
SampleAtTime(durs, t) ==
    LET N == Len(durs) IN
    IF \E s \in 1 .. N : Dts(durs, s) >= t
    THEN CHOOSE s \in 1 .. N : Dts(durs, s) >= t /\ \A q \in 1 .. (s - 1) : Dts(durs, q) < t
    ELSE IF t < Total(durs) THEN N + 1
    ELSE IF t = Total(durs) THEN -1
    ELSE 0
\* chunks: sequence of samples-per-chunk; chunk of sample s
ChunkStart(spc, c) == 1 + SumF(spc, 1, c - 1)            \* first sample of chunk c
ChunkOf(spc, s) == CHOOSE c \in 1 .. Len(spc) : ChunkStart(spc, c) <= s /\ s < ChunkStart(spc, c) + spc[c]
ChunkRec(spc, c) == [nr |-> c, start |-> ChunkStart(spc, c), n |-> spc[c]]
Containing(spc, a, b) == [k \in 1 .. (ChunkOf(spc, b) - ChunkOf(spc, a) + 1) |-> ChunkRec(spc, ChunkOf(spc, a) + k - 1)]
Max(a, b) == IF a > b THEN a ELSE b
Min(a, b) == IF a < b THEN a ELSE b
\* byte ranges of interval [a,b]: one per containing chunk
Ranges(spc, sizes, offs, a, b) ==
    LET cs == Containing(spc, a, b) IN
    [k \in 1 .. Len(cs) |->
        LET lo == Max(a, cs[k].start)
            hi == Min(b, cs[k].start + cs[k].n - 1)
        IN [off |-> offs[cs[k].nr] + SumF(sizes, cs[k].start, lo - 1), size |-> SumF(sizes, lo, hi)]]
\* file offset of every sample
SampleOffset(spc, sizes, offs, s) == LET c == ChunkOf(spc, s) IN offs[c] + SumF(sizes, ChunkStart(spc, c), s - 1)

(* ------------------------------------------------------------ Impl: stts *)
RECURSIVE ImplAtTime(_, _, _, _, _)
ImplAtTime(t, tab, i, accT, accN) ==
    IF i > Len(tab)
    THEN (IF tab[Len(tab)].v = 0 /\ tab[Len(tab)].n = 1 /\ t = accT THEN accN ELSE 0)
    ELSE LET d == tab[i].v  n == tab[i].n IN
         IF t < accT + n * d
         THEN LET rel == t - accT
                  k == (rel \div d) + (IF rel % d # 0 THEN 1 ELSE 0)
              IN accN + k + 1
         ELSE ImplAtTime(t, tab, i + 1, accT + n * d, accN + n)
RECURSIVE ImplDecodeTime(_, _, _, _)
ImplDecodeTime(tab, i, remaining, acc) ==
    IF remaining >= tab[i].n THEN ImplDecodeTime(tab, i + 1, remaining - tab[i].n, acc + tab[i].n * tab[i].v)
    ELSE [dts |-> acc + remaining * tab[i].v, dur |-> tab[i].v]

(* ------------------------------------------------------------ Impl: ctts *)
\* EndSampleNr column (0-based index h -> end[h+1]); binary search for first end >= s
EndCol(tab) == [h \in 1 .. (Len(tab) + 1) |-> SumF([i \in 1 .. Len(tab) |-> tab[i].n], 1, h - 1)]
RECURSIVE BSearchEnd(_, _, _, _)
BSearchEnd(end, s, i, j) == IF i >= j THEN i
                            ELSE LET h == (i + j) \div 2 IN
                                 IF end[h + 1] < s THEN BSearchEnd(end, s, h + 1, j) ELSE BSearchEnd(end, s, i, h)
ImplCto(tab, s) == tab[BSearchEnd(EndCol(tab), s, 0, Len(tab) + 1)].v      \* SampleOffset[i-1], 0-based

(* ------------------------------------------------------------ Impl: stsc *)
\* entries <<[first, spc, sdi]>> ; cached FirstSampleNr
RECURSIVE FirstSampleNr(_, _)
FirstSampleNr(e, i) == IF i = 1 THEN 1 ELSE FirstSampleNr(e, i - 1) + (e[i].first - e[i - 1].first) * e[i - 1].spc
RECURSIVE BSearchEntry(_, _, _, _)     \* 0-based low/high as in the code; returns low-1 (0-based entry index)
BSearchEntry(e, s, low, high) == IF low >= high THEN low - 1
                                 ELSE LET mid == (low + high) \div 2 IN
                                      IF FirstSampleNr(e, mid + 1) > s THEN BSearchEntry(e, s, low, mid)
                                      ELSE BSearchEntry(e, s, mid + 1, high)
ImplChunkOf(e, s) == LET k == BSearchEntry(e, s, 0, Len(e)) + 1
                         inE == (s - FirstSampleNr(e, k)) \div e[k].spc
                     IN [chunk |-> e[k].first + inE, first |-> FirstSampleNr(e, k) + inE * e[k].spc]
RECURSIVE ImplWalk(_, _, _, _)         \* GetContainingChunks loop
ImplWalk(e, c, cEnd, k) ==
    IF c > cEnd THEN <<>>
    ELSE <<[nr |-> c, start |-> FirstSampleNr(e, k) + (c - e[k].first) * e[k].spc, n |-> e[k].spc]>>
         \o ImplWalk(e, c + 1, cEnd, IF k < Len(e) /\ c + 1 = e[k + 1].first THEN k + 1 ELSE k)
ImplContaining(e, a, b) ==
    LET ka == BSearchEntry(e, a, 0, Len(e)) + 1
        kb == BSearchEntry(e, b, ka - 1, Len(e)) + 1
        ca == (a - FirstSampleNr(e, ka)) \div e[ka].spc + e[ka].first
        cb == (b - FirstSampleNr(e, kb)) \div e[kb].spc + e[kb].first
    IN ImplWalk(e, ca, cb, ka)

\* run-length compression of the per-chunk (spc, sdi) list into stsc entries
RECURSIVE StscFrom(_, _, _, _)
StscFrom(spc, sdi, c, merge) ==
    IF c > Len(spc) THEN <<>>
    ELSE (IF c > 1 /\ merge /\ spc[c] = spc[c - 1] /\ sdi[c] = sdi[c - 1] THEN <<>>
          ELSE <<[first |-> c, spc |-> spc[c], sdi |-> sdi[c]]>>) \o StscFrom(spc, sdi, c + 1, merge)

(* --------------------------------------------------------------- generator *)
Ns == 1 .. MaxN
RunTables(N, Vals) == UNION {{[i \in 1 .. Len(c) |-> [n |-> c[i], v |-> vs[i]]] : vs \in [1 .. Len(c) -> Vals]} : c \in Comp(N)}
SttsTables(N) == RunTables(N, {1, 3})
                 \cup {[t EXCEPT ![Len(t)].v = 0] : t \in {x \in RunTables(N, {1, 3}) : x[Len(x)].n = 1}}
CttsTables(N) == [ver : {0, 1}, tab : RunTables(N, {0, 2})] \cup [ver : {1}, tab : RunTables(N, {0, 2, -1})]
SdiPatterns(C) == {[c \in 1 .. C |-> IF c > k THEN 2 ELSE 1] : k \in 1 .. C}   \* k = C: all 1
ChunkTables(N) == UNION {{[spc |-> c, sdi |-> p, merge |-> m, uniform |-> u, gap |-> g, co64 |-> w] :
                              p \in SdiPatterns(Len(c)), m \in BOOLEAN, u \in BOOLEAN, g \in {0, 2}, w \in BOOLEAN} : c \in Comp(N)}
Sizes(N, uniform) == IF uniform THEN Rep(3, N) ELSE [i \in 1 .. N |-> i + 1]
RECURSIVE Offs(_, _, _, _, _)           \* chunk offsets relative to the mdat payload start
Offs(spc, sizes, gap, c, at) == IF c > Len(spc) THEN <<>>
                                ELSE <<at + gap>> \o Offs(spc, sizes, gap, c + 1, at + gap + SumF(sizes, ChunkStart(spc, c), ChunkStart(spc, c) + spc[c] - 1))
MetaTables(N) == [stts : {<<[n |-> N, v |-> 2]>>} \cup (IF N >= 2 THEN {<<[n |-> 1, v |-> 1], [n |-> N - 1, v |-> 3]>>} ELSE {}),
                  ctts : {<<>>, <<[n |-> N, v |-> 0]>>} \cup (IF N >= 2 THEN {<<[n |-> 1, v |-> 2], [n |-> N - 1, v |-> 1]>>} ELSE {}),
                  stss : {{0}} \cup {S \cup {1} : S \in SUBSET (2 .. N)},      \* {0} = box absent
                  sdtp : BOOLEAN]

VARIABLES N, tab, res, phase
vars == <<N, tab, res, phase>>

Init == /\ N \in Ns /\ res = "none" /\ phase = "tables"
        /\ CASE Family = "time" -> tab \in SttsTables(N)
             [] Family = "ctts" -> tab \in CttsTables(N)
             [] Family = "chunk" -> tab \in ChunkTables(N)
             [] Family = "meta" -> tab \in MetaTables(N)

Intervals == {<<a, b>> \in (1 .. N) \X (1 .. N) : a <= b}
IvSeq == LET RECURSIVE Build(_, _)
             Build(a, b) == IF a > N THEN <<>> ELSE IF b > N THEN Build(a + 1, a + 1) ELSE <<<<a, b>>>> \o Build(a, b + 1)
         IN Build(1, 1)

SdtpEntry(s) == [lead |-> s % 3, dep |-> (s + 1) % 3, depd |-> s % 2, red |-> (s + 1) % 2]
FlagsOf(sync, hasStss, hasSdtp, s) ==
    LET e == SdtpEntry(s) IN
    [nonsync |-> IF hasStss /\ ~sync THEN 1 ELSE 0,
     lead |-> IF hasSdtp THEN e.lead ELSE 0, dep |-> IF hasSdtp THEN e.dep ELSE -1,   \* -1: not determined by the tables
     depd |-> IF hasSdtp THEN e.depd ELSE 0, red |-> IF hasSdtp THEN e.red ELSE 0]

Query ==
    /\ phase = "tables" /\ phase' = "answered"
    /\ res' =
       CASE Family = "time" ->
              LET durs == ExpandRuns(tab) IN
              [decode |-> [s \in 1 .. N |-> [dts |-> Dts(durs, s), dur |-> durs[s]]],
               attime |-> [t1 \in 1 .. (Total(durs) + 2) |-> SampleAtTime(durs, t1 - 1)]]
         [] Family = "ctts" -> [cto |-> ExpandRuns(tab.tab)]
         [] Family = "chunk" ->
              LET spc == tab.spc
                  sizes == Sizes(N, tab.uniform)
                  offs == Offs(spc, sizes, tab.gap, 1, 0)
              IN [stsc |-> StscFrom(spc, tab.sdi, 1, tab.merge), sizes |-> sizes, offs |-> offs,
                  chunkOf |-> [s \in 1 .. N |-> [chunk |-> ChunkOf(spc, s), first |-> ChunkStart(spc, ChunkOf(spc, s))]],
                  chunks |-> [c \in 1 .. Len(spc) |-> ChunkRec(spc, c)],
                  sdis |-> tab.sdi,
                  sampleOff |-> [s \in 1 .. N |-> SampleOffset(spc, sizes, offs, s)],
                  iv |-> [k \in 1 .. Len(IvSeq) |->
                            LET a == IvSeq[k][1]  b == IvSeq[k][2] IN
                            [a |-> a, b |-> b, containing |-> Containing(spc, a, b), ranges |-> Ranges(spc, sizes, offs, a, b),
                             total |-> SumF(sizes, a, b)]]]
         [] Family = "meta" ->
              LET durs == ExpandRuns(tab.stts)
                  ctos == IF tab.ctts = <<>> THEN Rep(0, N) ELSE ExpandRuns(tab.ctts)
                  hasStss == tab.stss # {0}
              IN [samples |-> [s \in 1 .. N |-> [dur |-> durs[s], cto |-> ctos[s], size |-> s + 1,
                                                 sync |-> (~hasStss \/ s \in tab.stss),
                                                 flags |-> FlagsOf(s \in tab.stss, hasStss, tab.sdtp, s)]],
                  sdtp |-> IF tab.sdtp THEN [s \in 1 .. N |-> SdtpEntry(s)] ELSE <<>>,
                  stss |-> IF hasStss THEN [s \in 1 .. N |-> s \in tab.stss] ELSE <<>>]
    /\ UNCHANGED <<N, tab>>

Next == Query
Spec == Init /\ [][Next]_vars

(* ---------------------------------------------- design checks: Impl = Prop *)
ImplTime == (Family = "time" /\ phase = "answered") =>
    LET durs == ExpandRuns(tab) IN
    /\ \A s \in 1 .. N : ImplDecodeTime(tab, 1, s - 1, 0) = res.decode[s]
    /\ \A t \in 0 .. (Total(durs) + 1) : res.attime[t + 1] # -1 => ImplAtTime(t, tab, 1, 0, 0) = res.attime[t + 1]
ImplCtts == (Family = "ctts" /\ phase = "answered") => \A s \in 1 .. N : ImplCto(tab.tab, s) = res.cto[s]
ImplChunk == (Family = "chunk" /\ phase = "answered") =>
    /\ \A s \in 1 .. N : ImplChunkOf(res.stsc, s) = res.chunkOf[s]
    /\ \A k \in 1 .. Len(res.iv) : ImplContaining(res.stsc, res.iv[k].a, res.iv[k].b) = res.iv[k].containing
    /\ \A s \in 1 .. N : \E k \in 1 .. Len(res.iv) : res.iv[k].a = s /\ res.iv[k].b = s
                            /\ res.iv[k].ranges = <<[off |-> res.sampleOff[s], size |-> res.sizes[s]]>>

Export == (DoExport /\ phase = "answered") =>
    PrintT(ToJson([family |-> Family, n |-> N,
                   tab |-> IF Family = "meta" THEN [stts |-> tab.stts, ctts |-> tab.ctts, sdtp |-> tab.sdtp] ELSE tab,
                   res |-> res]))
=============================================================================
