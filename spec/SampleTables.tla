---------------------------- MODULE SampleTables ----------------------------
(* C09: sample-table queries vs. the ISO/IEC 14496-12 (8.6.1 stts/ctts, 8.6.2 stss, 8.6.4
   sdtp, 8.7.3 stsz, 8.7.4 stsc, 8.7.5 stco/co64) semantics.

   Prop layer : Expand* - the naive per-sample expansion of the run-length tables; every
                query is DEFINED from the expansion.
   Impl layer : the library's algorithms with their cached helper columns (stsc entries with
                FirstSampleNr + binary search, ctts EndSampleNr + binary search, the stts
                accumulation loops); TLC checks Impl = Prop on every enumerated table.
   Generator  : all consistent tables for N <= MaxN samples, per query family, exported with
                the expected answer of every query for every sample number / interval / time. *)
EXTENDS SampleTablesOps, TLC, Json, SequencesExt

CONSTANTS Family, MaxN, DoExport,
          Scales      \* time family: every table is also replayed with all durations multiplied by k \in Scales - all times then
                      \* scale by k (the per-sample expansion is linear), which takes decode times beyond 2^32 ticks for k = 2^30

(* --------------------------------------------------------------- generator *)
Ns == 1 .. MaxN
RunTables(N, Vals) == UNION {{[i \in 1 .. Len(c) |-> [n |-> c[i], v |-> vs[i]]] : vs \in [1 .. Len(c) -> Vals]} : c \in Comp(N)}
SttsTables(N) == RunTables(N, {1, 3})
                 \cup {[t EXCEPT ![Len(t)].v = 0] : t \in {x \in RunTables(N, {1, 3}) : x[Len(x)].n = 1}}
CttsTables(N) == [ver : {0, 1}, tab : RunTables(N, {0, 2})] \cup [ver : {1}, tab : RunTables(N, {0, 2, -1})]
\* sample description index per chunk: 1..1 2..2 1..1 (k2 = C: one change; k2 = k: all 1; otherwise the index RETURNS to its first value)
SdiPatterns(C) == {[c \in 1 .. C |-> IF c > k /\ c <= k2 THEN 2 ELSE 1] : k \in 1 .. C, k2 \in 1 .. C}
ChunkTables(N) == UNION {{[spc |-> c, sdi |-> p, merge |-> m, uniform |-> u, gap |-> g, co64 |-> w] :
                              p \in SdiPatterns(Len(c)), m \in BOOLEAN, u \in BOOLEAN, g \in {0, 2}, w \in BOOLEAN} : c \in Comp(N)}
Sizes(N, uniform) == IF uniform THEN Rep(3, N) ELSE [i \in 1 .. N |-> i + 1]
RECURSIVE Offs(_, _, _, _, _)           \* chunk offsets relative to the mdat payload start
Offs(spc, sizes, gap, c, at) == IF c > Len(spc) THEN <<>>
                                ELSE <<at + gap>> \o Offs(spc, sizes, gap, c + 1, at + gap + SumF(sizes, ChunkStart(spc, c), ChunkStart(spc, c) + spc[c] - 1))
MetaTables(N) == [stts : {<<[n |-> N, v |-> 2]>>} \cup (IF N >= 2 THEN {<<[n |-> 1, v |-> 1], [n |-> N - 1, v |-> 3]>>} ELSE {}),
                  ctts : {<<>>, <<[n |-> N, v |-> 0]>>} \cup (IF N >= 2 THEN {<<[n |-> 1, v |-> 2], [n |-> N - 1, v |-> 1]>>} ELSE {}),
                  stss : {{0}} \cup SUBSET (1 .. N),      \* {0} = box absent; {} = box present with entry_count 0: NO sample is a sync sample (8.6.2)
                  sdtp : BOOLEAN]

VARIABLES N, tab, res, phase
vars == <<N, tab, res, phase>>

Init == /\ N \in Ns /\ res = "none" /\ phase = "tables"
        /\ CASE Family = "time" -> tab \in SttsTables(N)
             [] Family = "ctts" -> tab \in CttsTables(N)
             [] Family = "chunk" -> tab \in ChunkTables(N)
             [] Family = "meta" -> tab \in MetaTables(N)

Intervals == {<<a, b>> \in (1 .. N) \X (1 .. N) : a <= b}
IvSeq == LET RECURSIVE Build(_, _)
             Build(a, b) == IF a > N THEN <<>> ELSE IF b > N THEN Build(a + 1, a + 1) ELSE <<<<a, b>>>> \o Build(a, b + 1)
         IN Build(1, 1)

SdtpEntry(s) == [lead |-> s % 3, dep |-> (s + 1) % 3, depd |-> s % 2, red |-> (s + 1) % 2]
FlagsOf(sync, hasStss, hasSdtp, s) ==
    LET e == SdtpEntry(s) IN
    [nonsync |-> IF hasStss /\ ~sync THEN 1 ELSE 0,
     lead |-> IF hasSdtp THEN e.lead ELSE 0, dep |-> IF hasSdtp THEN e.dep ELSE -1,   \* -1: not determined by the tables
     depd |-> IF hasSdtp THEN e.depd ELSE 0, red |-> IF hasSdtp THEN e.red ELSE 0]

Query ==
    /\ phase = "tables" /\ phase' = "answered"
    /\ res' =
       CASE Family = "time" ->
              LET durs == ExpandRuns(tab) IN
              [decode |-> [s \in 1 .. N |-> [dts |-> Dts(durs, s), dur |-> durs[s]]],
               attime |-> [t1 \in 1 .. (Total(durs) + 2) |-> SampleAtTime(durs, t1 - 1)]]
         [] Family = "ctts" -> [cto |-> ExpandRuns(tab.tab)]
         [] Family = "chunk" ->
              LET spc == tab.spc
                  sizes == Sizes(N, tab.uniform)
                  offs == Offs(spc, sizes, tab.gap, 1, 0)
              IN [stsc |-> StscFrom(spc, tab.sdi, 1, tab.merge), sizes |-> sizes, offs |-> offs,
                  chunkOf |-> [s \in 1 .. N |-> [chunk |-> ChunkOf(spc, s), first |-> ChunkStart(spc, ChunkOf(spc, s))]],
                  chunks |-> [c \in 1 .. Len(spc) |-> ChunkRec(spc, c)],
                  sdis |-> tab.sdi,
                  sampleOff |-> [s \in 1 .. N |-> SampleOffset(spc, sizes, offs, s)],
                  iv |-> [k \in 1 .. Len(IvSeq) |->
                            LET a == IvSeq[k][1]  b == IvSeq[k][2] IN
                            [a |-> a, b |-> b, containing |-> Containing(spc, a, b), ranges |-> Ranges(spc, sizes, offs, a, b),
                             total |-> SumF(sizes, a, b)]]]
         [] Family = "meta" ->
              LET durs == ExpandRuns(tab.stts)
                  ctos == IF tab.ctts = <<>> THEN Rep(0, N) ELSE ExpandRuns(tab.ctts)
                  hasStss == tab.stss # {0}
              IN [samples |-> [s \in 1 .. N |-> [dur |-> durs[s], cto |-> ctos[s], size |-> s + 1,
                                                 sync |-> (~hasStss \/ s \in tab.stss),
                                                 flags |-> FlagsOf(s \in tab.stss, hasStss, tab.sdtp, s)]],
                  sdtp |-> IF tab.sdtp THEN [s \in 1 .. N |-> SdtpEntry(s)] ELSE <<>>,
                  stss |-> IF hasStss THEN [s \in 1 .. N |-> s \in tab.stss] ELSE <<>>]
    /\ UNCHANGED <<N, tab>>

Next == Query
Spec == Init /\ [][Next]_vars

(* ---------------------------------------------- design checks: Impl = Prop *)
ImplTime == (Family = "time" /\ phase = "answered") =>
    LET durs == ExpandRuns(tab) IN
    /\ \A s \in 1 .. N : ImplDecodeTime(tab, 1, s - 1, 0) = res.decode[s]
    /\ \A t \in 0 .. (Total(durs) + 1) : res.attime[t + 1] # -1 => ImplAtTime(t, tab, 1, 0, 0) = res.attime[t + 1]
ImplCtts == (Family = "ctts" /\ phase = "answered") => \A s \in 1 .. N : ImplCto(tab.tab, s) = res.cto[s]
ImplChunk == (Family = "chunk" /\ phase = "answered") =>
    /\ \A s \in 1 .. N : ImplChunkOf(res.stsc, s) = res.chunkOf[s]
    /\ \A k \in 1 .. Len(res.iv) : ImplContaining(res.stsc, res.iv[k].a, res.iv[k].b) = res.iv[k].containing
    /\ \A s \in 1 .. N : \E k \in 1 .. Len(res.iv) : res.iv[k].a = s /\ res.iv[k].b = s
                            /\ res.iv[k].ranges = <<[off |-> res.sampleOff[s], size |-> res.sizes[s]]>>

Export == (DoExport /\ phase = "answered") =>
    PrintT(ToJson([family |-> Family, n |-> N,
                   tab |-> IF Family = "meta" THEN [stts |-> tab.stts, ctts |-> tab.ctts, sdtp |-> tab.sdtp] ELSE tab,
                   scales |-> IF Family = "time" THEN SetToSeq(Scales) ELSE <<1>>,
                   res |-> res]))
=============================================================================
