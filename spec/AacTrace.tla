------------------------------ MODULE AacTrace ------------------------------
(* C18 trace validation: encode/decode calls recorded from the real aac package (random
   configurations over the whole 24-bit explicit frequency range, random ADTS headers behind
   random junk) are checked against AacSyntax's reference serialiser / parser.
   An event is consumed only if Prop holds on the REAL values (decoded = input, offset = sync
   position); conformance of the real bytes with the ISO layout is the Drift* invariants. *)
EXTENDS AacSyntax

Trace == ndJsonDeserialize("trace.ndjson")
VARIABLES l, last
tvars == <<l, last, vars>>

TInit == l = 1 /\ last = [ev |-> "none"] /\ phase = "trace" /\ inp = 0 /\ bytes = <<>> /\ dec = 0
IsEvent(e) == l <= Len(Trace) /\ Trace[l].ev = e /\ l' = l + 1

Reset == IsEvent("reset") /\ last' = [ev |-> "none"]

AscEv == /\ IsEvent("asc")
         /\ LET e == Trace[l] IN
            /\ e.err = ""
            /\ e.dec = e.inp                                   \* D1 on real values
            /\ last' = [ev |-> "asc", inp |-> e.inp, bytes |-> e.bytes]

AdtsEv == /\ IsEvent("adts")
          /\ LET e == Trace[l] IN
             /\ e.err = ""
             /\ e.off = Len(e.junk)                             \* D2: offset of the sync word
             /\ e.dec = Proj(e.h)                               \* D2 on real values
             /\ last' = [ev |-> "adts", h |-> e.h, junk |-> e.junk, bytes |-> e.bytes]

TNext == (Reset \/ AscEv \/ AdtsEv) /\ UNCHANGED vars
TraceSpec == TInit /\ [][TNext]_tvars

\* conformance of the real encoder output with the standard's layout (diagnostic: MODEL-DRIFT)
DriftAscBytes == last.ev = "asc" => last.bytes = AscBytes(last.inp)
DriftAdtsBytes == last.ev = "adts" => last.bytes = last.junk \o AdtsBytes(last.h)

Accepted == LET d == TLCGet("stats").diameter IN
            IF d - 1 = Len(Trace) THEN TRUE
            ELSE Print(<<"TRACE_REJECTED_AT_LINE", d, Trace[d]>>, FALSE)
=============================================================================
