-------------------------------- MODULE Robust --------------------------------
(* C04 / C16: totality of the decoders on untrusted input.

   The decoder is modelled as a TOTAL function: for every input every entry point terminates with a
   value or an error - never a panic - within budgets linear in the input length:
        wall time  <= 2 s + 20 us per byte          allocated <= 16 MiB + 1024 x length
   Mode "gen"  : the malformed-structure grammar H1 of length-prefixed samples (0..MaxUnits units whose
                 4-byte length fields are drawn from {0, 1, true, true+1, 2^31, 2^32-4, 2^32-1}, payloads
                 of 0..2 bytes with NAL-header classes, single header-only / 2- / 3-byte units of every NAL type the
                 helpers look into, and every truncation of the result) is enumerated exhaustively. (The other families H2..H5 / G1..G5 are produced by applying
                 the mutation operators below - every prefix, byte substitutions, count inflation -
                 to the behaviours exported by AnnexB, AvcSyntax, SeiSyntax, AacSyntax, FileAsm and
                 to the corpus files; the orchestrator applies them, the counts are in the evidence.)
   Mode "trace": every (input, entry point) outcome recorded by the isolated monitor process is
                 validated against the totality invariant.                                        *)
EXTENDS Integers, Sequences, TLC, Json

CONSTANTS Mode, MaxUnits, DoExport

LenFields(true) == {<<0, 0, 0, 0>>, <<0, 0, 0, 1>>, <<0, 0, 0, true>>, <<0, 0, 0, true + 1>>, <<128, 0, 0, 0>>, <<255, 255, 255, 252>>, <<255, 255, 255, 255>>}
Payloads == {<<>>, <<103>>, <<101, 136>>, <<66, 1>>, <<0, 0>>, <<6, 5>>}
Units == UNION {{lf \o p : lf \in LenFields(Len(p))} : p \in Payloads}
\* header-only and 2 / 3-byte units of every NAL type the helpers look INTO (first byte = AVC SPS, PPS, IDR, non-IDR, SEI,
\* AUD; HEVC VPS, SPS, PPS, prefix / suffix SEI, IDR, TRAIL, AUD): used as single units (with all length fields and truncations)
TypeBytes == {103, 104, 101, 65, 6, 9, 64, 66, 68, 78, 80, 38, 2, 70}
ExtPayloads == {<<f>> : f \in TypeBytes} \cup {<<f, x>> : f \in TypeBytes, x \in {1, 136}} \cup {<<f, 1, x>> : f \in TypeBytes, x \in {5, 128}}
ExtUnits == UNION {{lf \o p : lf \in LenFields(Len(p))} : p \in ExtPayloads}

VARIABLES bytes, cut, l, ext
vars == <<bytes, cut, l, ext>>
Trace == IF Mode = "trace" THEN ndJsonDeserialize("trace.ndjson") ELSE <<>>
Init == bytes = <<>> /\ cut = FALSE /\ l = 1 /\ ext = FALSE

AddUnit == Mode = "gen" /\ ~cut /\ ~ext /\ Len(bytes) < 6 * MaxUnits /\ \E u \in Units : bytes' = bytes \o u /\ UNCHANGED <<cut, l, ext>>
AddExt == Mode = "gen" /\ ~cut /\ bytes = <<>> /\ \E u \in ExtUnits \ Units : bytes' = u /\ ext' = TRUE /\ UNCHANGED <<cut, l>>
Truncate == Mode = "gen" /\ ~cut /\ bytes # <<>> /\ \E k \in 0 .. (Len(bytes) - 1) : bytes' = SubSeq(bytes, 1, k) /\ cut' = TRUE /\ UNCHANGED <<l, ext>>

\* ---- totality invariant on recorded outcomes
IsEvent(e) == Mode = "trace" /\ l <= Len(Trace) /\ Trace[l].ev = e /\ l' = l + 1
Reset == IsEvent("reset") /\ UNCHANGED <<bytes, cut, ext>>
Total(e) == /\ e.outcome = "ok"                                   \* returned a value or an error: no panic, no fatal crash
            /\ e.us <= 2000000 + 20 * e.len
            /\ e.alloc_kb <= 16384 + e.len
Call == IsEvent("call") /\ Total(Trace[l]) /\ UNCHANGED <<bytes, cut, ext>>
Next == AddUnit \/ AddExt \/ Truncate \/ Reset \/ Call
Spec == Init /\ [][Next]_vars

Export == (DoExport /\ Mode = "gen") => PrintT(ToJson([id |-> "H1", kind |-> "sample", bytes |-> bytes]))
Accepted == Mode = "trace" =>
            LET d == TLCGet("stats").diameter IN
            IF d - 1 = Len(Trace) THEN TRUE
            ELSE Print(<<"TRACE_REJECTED_AT_LINE", d, Trace[d]>>, FALSE)
=============================================================================
