------------------------- MODULE SampleTablesTrace -------------------------
(* C09, code -> spec: queries on the sample tables of REAL progressive files.
   reset : the run-length tables of one track as read by the harness's own box walk
           (stts, ctts, stsc + number of chunks, stsz, stco/co64, stss)
   q     : one query of the library's API with its answer
   At reset the tables are expanded to one column per sample (durs, ctos, sizes, sync) and one per
   chunk (spc, offs) - the naive semantics of ISO/IEC 14496-12 8.6.1.2/8.6.1.3/8.7.3/8.7.4/8.7.5/8.6.2 -
   together with their prefix sums (decode times, byte counts, first sample of each chunk), so that a
   query is an index computation. Every query event is enabled only when the logged answer is the
   one these columns define. The definitions are those of SampleTablesOps (Dts, SampleAtTime, ChunkOf,
   Ranges) written on prefix-sum columns because real tracks have hundreds of samples; invariant
   ColumnsAgree has TLC compare the two formulations on every small track of a run.              *)
EXTENDS SampleTablesOps, TLC, Json

Trace == ndJsonDeserialize("trace.ndjson")
VARIABLES l, durs, ctos, sizes, spc, offs, sync, hasStss, dcol, scol, ccol
vars == <<l, durs, ctos, sizes, spc, offs, sync, hasStss, dcol, scol, ccol>>
Init == /\ l = 1 /\ durs = <<>> /\ ctos = <<>> /\ sizes = <<>> /\ spc = <<>> /\ offs = <<>> /\ sync = {} /\ hasStss = FALSE
        /\ dcol = <<0>> /\ scol = <<0>> /\ ccol = <<1>>
IsEvent(e) == l <= Len(Trace) /\ Trace[l].ev = e /\ l' = l + 1
Eager(f) == SubSeq(f, 1, Len(f))          \* a plain tuple instead of a lazily evaluated [i \in S |-> e]
Runs(t) == ExpandRuns([i \in 1 .. Len(t) |-> [n |-> t[i][1], v |-> t[i][2]]])
\* prefix sums: Prefix(s, a)[k] = a + s[1] + .. + s[k-1], k in 1 .. Len(s) + 1
RECURSIVE PrefixR(_, _, _)
PrefixR(s, i, acc) == IF i > Len(s) THEN <<acc>> ELSE <<acc>> \o PrefixR(s, i + 1, acc + s[i])
Prefix(s, a) == PrefixR(s, 1, a)
\* samples per chunk from the stsc entries <<first_chunk, samples_per_chunk, sdi>> and the chunk count
SpcFrom(e, nchunks) == [c \in 1 .. nchunks |->
    e[CHOOSE k \in 1 .. Len(e) : e[k][1] <= c /\ (k = Len(e) \/ e[k + 1][1] > c)][2]]
N == Len(durs)
\* the tables of one track describe the same number of samples (precondition for judging a track)
Consistent == Len(ctos) = N /\ Len(sizes) = N /\ ccol[Len(ccol)] = N + 1
DtsC(s) == dcol[s]                                   \* = Dts(durs, s)
ChunkOfC(s) == CHOOSE c \in 1 .. Len(spc) : ccol[c] <= s /\ s < ccol[c + 1]          \* = ChunkOf(spc, s)
Bytes(a, b) == scol[b + 1] - scol[a]                 \* = SumF(sizes, a, b)
AtTimeC(t) == IF \E s \in 1 .. N : dcol[s] >= t
              THEN CHOOSE s \in 1 .. N : dcol[s] >= t /\ (s = 1 \/ dcol[s - 1] < t)
              ELSE IF t < dcol[N + 1] THEN N + 1 ELSE IF t = dcol[N + 1] THEN -1 ELSE 0     \* = SampleAtTime(durs, t)
RangesC(a, b) == LET ca == ChunkOfC(a) cb == ChunkOfC(b) IN
    [k \in 1 .. (cb - ca + 1) |->
        LET c == ca + k - 1
            lo == Max(a, ccol[c])
            hi == Min(b, ccol[c + 1] - 1)
        IN <<offs[c] + Bytes(ccol[c], lo - 1), Bytes(lo, hi)>>]                           \* = Ranges(spc, sizes, offs, a, b)
\* evaluated once per track (in Reset, on the new columns): the prefix-sum formulations = the SampleTablesOps definitions
ColumnsAgree == (N > 0 /\ N <= 60 /\ Consistent) =>
    LET pts == {1, (N + 1) \div 2, N} IN
    /\ \A s \in pts : DtsC(s) = Dts(durs, s) /\ ChunkOfC(s) = ChunkOf(spc, s)
    /\ \A t \in {dcol[s] : s \in pts \cup {N + 1}} \cup {dcol[s] + 1 : s \in pts \cup {N + 1}} : AtTimeC(t) = SampleAtTime(durs, t)
    /\ \A ab \in {<<1, 1>>, <<1, Min(N, 5)>>, <<Max(1, N - 2), N>>, <<(N + 1) \div 2, Min(N, (N + 1) \div 2 + 3)>>} :
          RangesC(ab[1], ab[2]) = [k \in 1 .. Len(Ranges(spc, sizes, offs, ab[1], ab[2])) |->
                                     <<Ranges(spc, sizes, offs, ab[1], ab[2])[k].off, Ranges(spc, sizes, offs, ab[1], ab[2])[k].size>>]
Reset == /\ IsEvent("reset")
         /\ LET e == Trace[l]
                d == Eager(Runs(e.stts))
                z == Eager(IF e.uniform > 0 THEN [i \in 1 .. e.count |-> e.uniform] ELSE e.sizes)
                p == Eager(SpcFrom(e.stsc, Len(e.offs)))
            IN /\ durs' = d /\ dcol' = Prefix(d, 0)
               /\ ctos' = Eager(IF e.ctts = <<>> THEN [i \in 1 .. Len(d) |-> 0] ELSE Runs(e.ctts))
               /\ sizes' = z /\ scol' = Prefix(z, 0)
               /\ spc' = p /\ ccol' = Prefix(p, 1)
               /\ offs' = e.offs
               /\ hasStss' = e.hasstss
               /\ sync' = {e.stss[i] : i \in 1 .. Len(e.stss)}
               /\ ColumnsAgree'
Query == /\ IsEvent("q") /\ Consistent
         /\ LET e == Trace[l] IN
            CASE e.q = "dts" -> e.got = <<DtsC(e.s), durs[e.s]>>
              [] e.q = "dur" -> e.got = durs[e.s]
              [] e.q = "cto" -> e.got = ctos[e.s]
              [] e.q = "size" -> e.got = sizes[e.s]
              [] e.q = "total" -> e.got = Bytes(1, N)
              [] e.q = "chunk" -> e.got = <<ChunkOfC(e.s), ccol[ChunkOfC(e.s)]>>
              [] e.q = "sync" -> e.got = (~hasStss \/ e.s \in sync)
              [] e.q = "attime" -> LET w == AtTimeC(e.t) IN (w = -1 \/ e.got = w)
              [] e.q = "ranges" -> e.got = RangesC(e.a, e.b)
         /\ UNCHANGED <<durs, ctos, sizes, spc, offs, sync, hasStss, dcol, scol, ccol>>
Next == Reset \/ Query
Spec == Init /\ [][Next]_vars
Accepted == LET d == TLCGet("stats").diameter IN
            IF d - 1 = Len(Trace) THEN TRUE
            ELSE Print(<<"TRACE_REJECTED_AT_LINE", d, Trace[d]>>, FALSE)
=============================================================================
