------------------------------- MODULE FileAsm -------------------------------
(* C12 (grouping part; also the file-level input generator for C02/C03/C04):
   how File.AddChild groups the top-level boxes of a fragmented file into init segment,
   media segments and fragments.

   A file is a sequence of abstract top-level boxes [k, ...] with abstract sizes; positions are
   cumulative sizes. The generator builds files whose delimiters are mutually CONSISTENT:
   styp boxes, a top-level sidx whose references tile the segments, an mfra/tfra with one entry
   per segment (first moof), or none.
   Prop A1/A2 : the partition into segments/fragments is the one the delimiters (together with the
                decode flags) prescribe; every moof/mdat pair is in exactly one fragment, in order.
   Impl       : fold of File.AddChild / startSegmentIfNeeded over the box sequence with the same
                decision order as the code (top-level sidx, then tfra under the ISM flag, then the
                start-on-moof flag, else only the first media box).
   TLC checks Impl = Prop for every generated file and exports file + expected partition.    *)
EXTENDS Integers, Sequences, FiniteSets, TLC, Json

CONSTANTS MaxSegs, MaxFrags, Delims, EmsgOpts, SegSidxOpts, FlagOpts, TrackOpts, TrunOpts, DoExport

RECURSIVE SumSeq(_)
SumSeq(s) == IF s = <<>> THEN 0 ELSE Head(s) + SumSeq(Tail(s))
RECURSIVE Flat(_)
Flat(ss) == IF ss = <<>> THEN <<>> ELSE Head(ss) \o Flat(Tail(ss))

\* abstract sizes (only consistency matters; the materialiser uses real sizes)
SizeOf(b) == CASE b.k = "ftyp" -> 24 [] b.k = "moov" -> 300 [] b.k = "styp" -> 24 [] b.k = "emsg" -> 60
               [] b.k = "moof" -> 120 [] b.k = "mdat" -> 28 [] b.k = "sidx" -> 44 + 12 * b.nref
               [] b.k = "mfra" -> 16 + 43 * b.ntfra [] OTHER -> 8
RECURSIVE PosOf(_, _)
PosOf(file, i) == IF i = 1 THEN 0 ELSE PosOf(file, i - 1) + SizeOf(file[i - 1])

(* ------------------------------------------------------------- generator *)
\* frag = [seg, frag number in file]; a fragment's boxes: [emsg] moof mdat
FragBoxes(seg, nr, withEmsg) == (IF withEmsg THEN <<[k |-> "emsg", seg |-> seg, frag |-> nr]>> ELSE <<>>)
                                \o <<[k |-> "moof", seg |-> seg, frag |-> nr], [k |-> "mdat", seg |-> seg, frag |-> nr]>>
HasStyp(d) == d \in {"styp", "styp+sidx"}
HasTopSidx(d) == d \in {"sidx", "styp+sidx", "sidx+free", "2sidx"}
\* "sidx+free": a free box between the top-level sidx and the first fragment - the index then has first_offset = size of that box (8.16.3)
\* "2sidx": two top-level sidx boxes (one per track of a multiplexed on-demand file): the first one's first_offset is the size of the second
FirstOffset(p) == IF p.delim = "sidx+free" THEN 8 ELSE IF p.delim = "2sidx" THEN 44 + 12 * Len(p.fps) ELSE 0
HasMfra(d) == d \in {"mfra", "mfra-noflag"}
\* fps = frags per segment (sequence); first fragment number of segment s
FirstFragNr(fps, s) == 1 + SumSeq(SubSeq(fps, 1, s - 1))
EmsgHere(e, s, j) == CASE e = "none" -> FALSE [] e = "segstart" -> j = 1 [] e = "second" -> j = 2 [] e = "all" -> TRUE
SegBoxes(p, s) ==
    (IF HasStyp(p.delim) THEN <<[k |-> "styp", seg |-> s]>> ELSE <<>>)
    \o [i \in 1 .. (IF HasStyp(p.delim) THEN p.segsidx ELSE 0) |-> [k |-> "sidx", seg |-> s, nref |-> p.fps[s], level |-> "segment"]]
    \o Flat([j \in 1 .. p.fps[s] |-> FragBoxes(s, FirstFragNr(p.fps, s) + j - 1, EmsgHere(p.emsg, s, j))])
MediaBoxes(p) == Flat([s \in 1 .. Len(p.fps) |-> SegBoxes(p, s)])
FileOf(p) == <<[k |-> "ftyp"], [k |-> "moov", ntracks |-> p.ntracks]>>
             \o (IF HasTopSidx(p.delim) THEN <<[k |-> "sidx", seg |-> 0, nref |-> Len(p.fps), level |-> "file"]>> ELSE <<>>)
             \o (IF p.delim = "sidx+free" THEN <<[k |-> "free", seg |-> 0]>> ELSE <<>>)
             \o (IF p.delim = "2sidx" THEN <<[k |-> "sidx", seg |-> 0, nref |-> Len(p.fps), level |-> "file2"]>> ELSE <<>>)
             \o MediaBoxes(p)
             \o (IF HasMfra(p.delim) THEN <<[k |-> "mfra", ntfra |-> p.ntracks]>> ELSE <<>>)

RECURSIVE Comp(_, _)      \* compositions of n with parts <= m
Comp(n, m) == IF n = 0 THEN {<<>>} ELSE UNION {{<<k>> \o c : c \in Comp(n - k, m)} : k \in 1 .. (IF n < m THEN n ELSE m)}
Params == {p \in [fps : UNION {Comp(n, MaxFrags) : n \in 1 .. (MaxSegs * MaxFrags)}, delim : Delims, emsg : EmsgOpts,
                  segsidx : SegSidxOpts, ntracks : TrackOpts, flags : FlagOpts,
                  truns : TrunOpts,            \* track runs per track fragment (the two samples of a fragment in one trun or in two;
                                               \* 3: one trun without per-sample durations - the tfhd carries default_sample_duration)
                  rev : BOOLEAN] :             \* the media data of the tracks lies in the mdat in reverse track order (data offsets say where)
              /\ (p.rev => (p.ntracks >= 2 /\ p.truns = 1))
              /\ (p.truns = 3 => (p.emsg = "none" /\ p.segsidx = 0))
              /\ Len(p.fps) <= MaxSegs
              /\ (p.segsidx > 0 => HasStyp(p.delim))
              /\ (p.delim = "mfra" => p.flags = "ism") /\ (p.delim = "mfra-noflag" => p.flags = "none")
              /\ (p.delim = "onmoof" => p.flags = "onmoof")
              /\ (p.delim \notin {"mfra", "onmoof"} => p.flags \in {"none", "onmoof"})
              \* styp + start-on-moof flag: the code starts an extra segment at the first moof after a styp although the
              \* flag is documented to apply only without styp/sidx/mfra; the statement does not say which wins: not judged
              /\ (HasStyp(p.delim) => p.flags = "none")
              /\ (p.delim = "mfra" => p.emsg \in {"none", "second"})   \* emsg before the moof a tfra entry names: C04 material
              /\ (p.emsg = "second" => \E s \in 1 .. Len(p.fps) : p.fps[s] >= 2)}

(* ------------------------------------------- Prop: the prescribed partition *)
\* delimiters in force: which segmentation the file + flags prescribe
Effective(p) == CASE HasStyp(p.delim) \/ HasTopSidx(p.delim) -> "bysegs"       \* styp always starts a segment; sidx refs
                  [] p.delim = "mfra" -> "bysegs"                              \* tfra offsets under the ISM flag
                  [] p.flags = "onmoof" -> "permoof"                           \* no styp/sidx/mfra-in-force: start on every moof
                  [] OTHER -> "single"
\* expected: sequence of segments, each a sequence of fragments, each a sequence of file indices of moof/mdat
IdxOf(file, kind, nr) == CHOOSE i \in 1 .. Len(file) : file[i].k = kind /\ file[i].frag = nr
NFrags(p) == SumSeq(p.fps)
PairOf(file, nr) == <<IdxOf(file, "moof", nr), IdxOf(file, "mdat", nr)>>
Expected(p) ==
    LET file == FileOf(p) IN
    CASE Effective(p) = "bysegs" -> [s \in 1 .. Len(p.fps) |-> [j \in 1 .. p.fps[s] |-> PairOf(file, FirstFragNr(p.fps, s) + j - 1)]]
      [] Effective(p) = "permoof" -> [n \in 1 .. NFrags(p) |-> <<PairOf(file, n)>>]
      [] OTHER -> <<[n \in 1 .. NFrags(p) |-> PairOf(file, n)]>>

(* --------------------------------------------------- Impl: File.AddChild fold *)
\* sidx references of the top-level sidx: sizes of the segments; anchor = position after the sidx
SegSize(p, s) == SumSeq([i \in 1 .. Len(SegBoxes(p, s)) |-> SizeOf(SegBoxes(p, s)[i])])
\* tfra entries: position of the first moof of each segment
TfraOffsets(p, file) == [s \in 1 .. Len(p.fps) |-> PosOf(file, IdxOf(file, "moof", FirstFragNr(p.fps, s)))]

RECURSIVE SidxHit(_, _, _, _, _)   \* walk references: does a reference with running index = segIdx start at pos?
SidxHit(sizes, startPos, idx, segIdx, pos) ==
    IF sizes = <<>> THEN FALSE
    ELSE IF pos = startPos /\ idx = segIdx THEN TRUE
    ELSE SidxHit(Tail(sizes), startPos + Head(sizes), idx + 1, segIdx, pos)

LastFragHasMoof(file, st) ==
    LET n == Len(st.segs)  sg == st.segs[n]  m == Len(sg.frags) IN
    m > 0 /\ \E x \in 1 .. Len(sg.frags[m]) : file[sg.frags[m][x]].k = "moof"
StartNeeded(p, file, st, i) ==
    LET segIdx == Len(st.segs)  pos == PosOf(file, i) IN
    CASE st.fsidx # <<>> ->
           LET sx == st.fsidx[1] IN
           SidxHit([s \in 1 .. Len(p.fps) |-> SegSize(p, s)], PosOf(file, sx) + SizeOf(file[sx]) + FirstOffset(p), 0, segIdx, pos)
      [] p.flags = "ism" /\ HasMfra(p.delim) -> segIdx < Len(p.fps) /\ pos = TfraOffsets(p, file)[segIdx + 1]
      [] p.flags = "onmoof" -> ~(st.segs # <<>> /\ st.segs[Len(st.segs)].frags # <<>> /\ ~LastFragHasMoof(file, st))
      [] OTHER -> segIdx = 0
NewSeg(i, styp) == [start |-> i, styp |-> styp, nsidx |-> 0, frags |-> <<>>]
AddToLastFrag(st, i) ==
    LET n == Len(st.segs)  sg == st.segs[n]  m == Len(sg.frags) IN
    [st EXCEPT !.segs[n].frags[m] = Append(@, i)]
NewFrag(st) == LET n == Len(st.segs) IN [st EXCEPT !.segs[n].frags = Append(@, <<>>)]
Step(p, file, st, i) ==
    LET b == file[i] IN
    CASE b.k = "sidx" -> IF st.segs = <<>> THEN [st EXCEPT !.fsidx = Append(@, i)]
                         ELSE [st EXCEPT !.segs[Len(st.segs)].nsidx = @ + 1]
      [] b.k = "styp" -> [st EXCEPT !.segs = Append(@, NewSeg(i, TRUE))]
      [] b.k = "emsg" ->
           LET s1 == IF StartNeeded(p, file, st, i) THEN [st EXCEPT !.segs = Append(@, NewSeg(i, FALSE))] ELSE st
               s2 == IF s1.segs[Len(s1.segs)].frags = <<>> THEN NewFrag(s1) ELSE s1
           IN AddToLastFrag(s2, i)
      [] b.k = "moof" ->
           LET s1 == IF StartNeeded(p, file, st, i) THEN [st EXCEPT !.segs = Append(@, NewSeg(i, FALSE))] ELSE st
               s2 == IF s1.segs[Len(s1.segs)].frags = <<>> \/ LastFragHasMoof(file, s1) THEN NewFrag(s1) ELSE s1
           IN AddToLastFrag(s2, i)
      [] b.k = "mdat" -> AddToLastFrag(st, i)
      [] OTHER -> st
RECURSIVE Fold(_, _, _, _)
Fold(p, file, st, i) == IF i > Len(file) THEN st ELSE Fold(p, file, Step(p, file, st, i), i + 1)
ImplState(p) == Fold(p, FileOf(p), [segs |-> <<>>, fsidx |-> <<>>], 1)
\* projection: only moof/mdat indices per fragment
OnlyPairs(file, fr) == SelectSeq(fr, LAMBDA i : file[i].k \in {"moof", "mdat"})
\* fragments / segments that hold no moof/mdat pair (an emsg that was given a segment of its own
\* under the start-on-moof flag) are not part of the partition of pairs
NonEmpty(ss) == SelectSeq(ss, LAMBDA x : x # <<>>)
ImplPartition(p) == LET st == ImplState(p)  file == FileOf(p) IN
                    NonEmpty([s \in 1 .. Len(st.segs) |->
                                 NonEmpty([j \in 1 .. Len(st.segs[s].frags) |-> OnlyPairs(file, st.segs[s].frags[j])])])
ImplHasMooflessFragment(p) == LET st == ImplState(p)  file == FileOf(p) IN
                              \E s \in 1 .. Len(st.segs) : \E j \in 1 .. Len(st.segs[s].frags) : OnlyPairs(file, st.segs[s].frags[j]) = <<>>

VARIABLES p, phase
vars == <<p, phase>>
Init == p \in Params /\ phase = "file"
Decode == phase = "file" /\ phase' = "decoded" /\ UNCHANGED p
Next == Decode
Spec == Init /\ [][Next]_vars

A1A2 == phase = "decoded" => ImplPartition(p) = Expected(p)

Export == (DoExport /\ phase = "decoded") =>
    PrintT(ToJson([p |-> p, file |-> FileOf(p), expected |-> Expected(p), effective |-> Effective(p),
                   segstyp |-> HasStyp(p.delim), moofless |-> ImplHasMooflessFragment(p)]))
=============================================================================
