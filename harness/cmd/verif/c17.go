package main

// C17: SEI write/parse round trips. Replays SeiSyntax.tla message lists and typed message values.

import (
	"bytes"
	"encoding/json"
	"fmt"
	"reflect"

	"github.com/Eyevinn/mp4ff/avc"
	"github.com/Eyevinn/mp4ff/hevc"
	"github.com/Eyevinn/mp4ff/sei"
)

var c17NaluJudged int

func init() {
	register("c17-replay", c17Replay)
}

type seiClock struct {
	On, Full, Sflag, Mflag, Hflag, Units, Disc, Dropped bool
	Counting, Nframes, Seconds, Minutes, Hours, Tol     int
	Offset, Soffset, Cttype                             int
}

func c17Replay(args []string) error {
	rep := newReport()
	err := readLines(argValue(args, "-in", "-"), func(line []byte) error {
		var hd struct {
			Mode string `json:"mode"`
		}
		if err := json.Unmarshal(line, &hd); err != nil {
			return err
		}
		defer func() {
			if r := recover(); r != nil {
				rep.Violation("sei/"+hd.Mode+"/panic", fmt.Sprintf("SEI write/parse panics: %v", r), J{"line": string(line[:minInt(len(line), 600)])})
			}
		}()
		switch hd.Mode {
		case "list":
			var c struct {
				Msgs []struct {
					Type    uint  `json:"type"`
					Payload []int `json:"payload"`
				} `json:"msgs"`
				Ebsp []int `json:"ebsp"`
			}
			if err := json.Unmarshal(line, &c); err != nil {
				return err
			}
			var msgs []sei.SEIMessage
			var desc []string
			for _, m := range c.Msgs {
				msgs = append(msgs, sei.NewSEIData(m.Type, ints2bytes(m.Payload)))
				desc = append(desc, fmt.Sprintf("type=%d size=%d", m.Type, len(m.Payload)))
			}
			cs := J{"msgs": desc}
			var buf bytes.Buffer
			if err := sei.WriteSEIMessages(&buf, msgs); err != nil {
				rep.Violation("sei/list/write-error", "WriteSEIMessages fails: "+err.Error(), cs)
				break
			}
			if !bytes.Equal(buf.Bytes(), ints2bytes(c.Ebsp)) {
				rep.Drift("sei/list/bytes", "written SEI NAL payload differs from sei_rbsp syntax", cs)
			}
			got, err := sei.ExtractSEIData(bytes.NewReader(buf.Bytes()))
			if err != nil {
				rep.Violation("sei/list/extract-error", "ExtractSEIData fails on written messages: "+err.Error(), cs)
				break
			}
			ok := len(got) == len(c.Msgs)
			for i := 0; ok && i < len(got); i++ {
				ok = got[i].Type() == c.Msgs[i].Type && bytes.Equal(got[i].Payload(), ints2bytes(c.Msgs[i].Payload))
			}
			if !ok {
				var gd []string
				for _, g := range got {
					gd = append(gd, fmt.Sprintf("type=%d size=%d", g.Type(), len(g.Payload())))
				}
				rep.Violation("sei/list/roundtrip", "extracted (type, payload) list differs from the list written", J{"msgs": desc, "observed": gd})
			}
			// Z3: pass-through decoders return the payload unchanged
			for i := range got {
				for _, codec := range []sei.Codec{sei.AVC, sei.HEVC} {
					t := got[i].Type()
					if t == 4 || t == 5 || (t == 1 && codec == sei.HEVC) {
						if t == 5 && len(got[i].Payload()) < 16 || t == 4 && len(got[i].Payload()) < 3 {
							continue
						}
						m, err := sei.DecodeSEIMessage(&got[i], codec)
						if err == nil && m != nil && !bytes.Equal(m.Payload(), got[i].Payload()) {
							rep.Violation(fmt.Sprintf("sei/passthrough/type%d", t), "pass-through message does not return its payload unchanged", cs)
						}
					}
				}
			}
			// Z4: the codec packages' SEI NAL unit parsers (NAL header + sei_rbsp) return one message per written message,
			// in order, with the written type; messages without a typed decoder keep their payload
			for _, cd := range []struct {
				name  string
				hdr   []byte
				typed map[uint]bool
				parse func([]byte) ([]sei.SEIMessage, error)
			}{
				{"avc", []byte{0x06}, map[uint]bool{1: true, 4: true, 5: true}, func(n []byte) ([]sei.SEIMessage, error) { return avc.ParseSEINalu(n, nil) }},
				{"hevc", []byte{0x4e, 0x01}, map[uint]bool{4: true, 5: true, 136: true, 137: true, 144: true}, func(n []byte) ([]sei.SEIMessage, error) { return hevc.ParseSEINalu(n, nil) }},
			} {
				var ms []sei.SEIMessage
				var perr error
				func() {
					defer func() {
						if r := recover(); r != nil {
							perr = fmt.Errorf("panic: %v", r)
							rep.Violation("sei/nalu/"+cd.name+"/panic", "ParseSEINalu panics on written messages", cs)
						}
					}()
					ms, perr = cd.parse(append(append([]byte{}, cd.hdr...), buf.Bytes()...))
				}()
				if perr != nil {
					continue // a typed decoder refuses the generated payload: nothing to compare
				}
				c17NaluJudged++
				okN := len(ms) == len(c.Msgs)
				for i := 0; okN && i < len(ms); i++ {
					okN = ms[i] != nil && ms[i].Type() == c.Msgs[i].Type &&
						(cd.typed[c.Msgs[i].Type] || bytes.Equal(ms[i].Payload(), ints2bytes(c.Msgs[i].Payload)))
				}
				if !okN {
					var gd []string
					for _, g := range ms {
						if g != nil {
							gd = append(gd, fmt.Sprintf("type=%d size=%d", g.Type(), len(g.Payload())))
						}
					}
					rep.Violation("sei/nalu/"+cd.name+"/roundtrip", cd.name+".ParseSEINalu returns a (type, payload) list that differs from the list written", J{"msgs": desc, "observed": gd})
				}
			}
			var smp interface{}
			if len(c.Ebsp) < 40 && len(c.Msgs) == 2 {
				smp = J{"msgs": c.Msgs, "ebsp": c.Ebsp}
			}
			rep.Count(string(line), true, smp)
		case "timecode":
			var c struct {
				Clocks  []seiClock `json:"clocks"`
				Nbits   int        `json:"nbits"`
				Payload []int      `json:"payload"`
			}
			if err := json.Unmarshal(line, &c); err != nil {
				return err
			}
			msg := &sei.TimeCodeSEI{Clocks: []sei.ClockTS{}}
			for _, k := range c.Clocks {
				ct := sei.ClockTS{ClockTimeStampFlag: k.On}
				if k.On {
					ct.UnitsFieldBasedFlag, ct.CountingType, ct.FullTimeStampFlag = k.Units, byte(k.Counting), k.Full
					ct.DiscontinuityFlag, ct.CntDroppedFlag, ct.NFrames = k.Disc, k.Dropped, uint16(k.Nframes)
					ct.SecondsFlag, ct.MinutesFlag, ct.HoursFlag = k.Sflag, k.Mflag, k.Hflag
					if k.Full || k.Sflag {
						ct.Seconds = byte(k.Seconds)
					}
					if k.Full || k.Mflag {
						ct.Minutes = byte(k.Minutes)
					}
					if k.Full || k.Hflag {
						ct.Hours = byte(k.Hours)
					}
					ct.TimeOffsetLength = byte(k.Tol)
					ct.TimeOffsetValue = uint32(k.Offset)
				}
				msg.Clocks = append(msg.Clocks, ct)
			}
			cs := J{"clocks": c.Clocks, "nbits": c.Nbits}
			pl := msg.Payload()
			wantSize := (c.Nbits + 7) / 8
			if int(msg.Size()) != len(pl) {
				rep.Violation("sei/timecode/size", fmt.Sprintf("Size() = %d but Payload() has %d bytes", msg.Size(), len(pl)), cs)
			}
			if len(pl) != wantSize {
				key := "sei/timecode/length"
				if c.Nbits%8 == 0 {
					key += "/bits-multiple-of-8"
				}
				rep.Violation(key, fmt.Sprintf("serialised length %d, syntax needs %d bytes", len(pl), wantSize), cs)
			}
			if !bytes.Equal(pl, ints2bytes(c.Payload)) {
				rep.Drift("sei/timecode/bytes", "payload differs from the D.2.27 layout", cs)
			}
			dec, err := sei.DecodeTimeCodeSEI(sei.NewSEIData(136, pl))
			if err != nil {
				rep.Violation("sei/timecode/decode-error", "decoding a serialised time code fails: "+err.Error(), cs)
			} else if !reflect.DeepEqual(dec.(*sei.TimeCodeSEI).Clocks, msg.Clocks) {
				rep.Violation("sei/timecode/roundtrip", "Decode(Payload(m)) differs from m", J{"case": cs, "observed": dec.(*sei.TimeCodeSEI).Clocks})
			}
			// a message that came out of the decoder is a value like any other: serialising it again gives the same
			// bytes, and after changing a field it serialises like a freshly built message with those fields
			if err == nil {
				dm := dec.(*sei.TimeCodeSEI)
				if p2 := dm.Payload(); !bytes.Equal(p2, pl) || int(dm.Size()) != len(p2) {
					rep.Violation("sei/timecode/decoded-reserialise", fmt.Sprintf("Payload() of the decoded message: %d bytes, Size() = %d, original %d bytes", len(p2), dm.Size(), len(pl)), cs)
				}
				if len(dm.Clocks) > 0 {
					dm.Clocks[0].ClockTimeStampFlag = !dm.Clocks[0].ClockTimeStampFlag
					dm.Clocks[0].NFrames ^= 0x55
					fresh := &sei.TimeCodeSEI{Clocks: append([]sei.ClockTS{}, dm.Clocks...)}
					if p3, pf := dm.Payload(), fresh.Payload(); !bytes.Equal(p3, pf) || int(dm.Size()) != len(p3) {
						rep.Violation("sei/timecode/decoded-then-modified", fmt.Sprintf("a decoded and then modified message serialises to %d bytes (Size() = %d), a fresh message with the same fields to %d bytes", len(p3), dm.Size(), len(pf)), cs)
					}
				}
				// over-long payload (a trailing byte after the coded bits): whatever is accepted must still be self-consistent
				if d2, err := sei.DecodeTimeCodeSEI(sei.NewSEIData(136, append(append([]byte{}, pl...), 0x00))); err == nil {
					if int(d2.Size()) != len(d2.Payload()) {
						rep.Violation("sei/timecode/overlong-size", fmt.Sprintf("decoded from an over-long payload: Size() = %d but Payload() has %d bytes", d2.Size(), len(d2.Payload())), cs)
					}
				}
			}
			if len(msg.Clocks) > 0 {
				_ = msg.String()
			}
			rep.Count(string(line), len(c.Clocks) > 0, nil)
		case "pictiming":
			var c struct {
				Pt struct {
					Delays                               bool
					Cpblen, Dpblen, Cpb, Dpb, Pictstruct int
					Clocks                               []seiClock
				} `json:"pt"`
				Nbits   int   `json:"nbits"`
				Payload []int `json:"payload"`
				Size    int   `json:"size"`
			}
			if err := json.Unmarshal(line, &c); err != nil {
				return err
			}
			tol := 0
			msg := &sei.PicTimingAvcSEI{PictStruct: uint8(c.Pt.Pictstruct), Clocks: []sei.ClockTSAvc{}}
			var delay *sei.CbpDbpDelay
			if c.Pt.Delays {
				delay = &sei.CbpDbpDelay{CpbRemovalDelay: uint(c.Pt.Cpb), DpbOutputDelay: uint(c.Pt.Dpb), CpbRemovalDelayLengthMinus1: byte(c.Pt.Cpblen - 1), DpbOutputDelayLengthMinus1: byte(c.Pt.Dpblen - 1)}
				msg.CbpDbpDelay = delay
			}
			for _, k := range c.Pt.Clocks {
				tol = k.Tol
				ct := sei.ClockTSAvc{ClockTimeStampFlag: k.On, TimeOffsetLength: byte(k.Tol)}
				if k.On {
					ct.CtType, ct.NuitFieldBasedFlag, ct.CountingType, ct.FullTimeStampFlag = byte(k.Cttype), k.Units, byte(k.Counting), k.Full
					ct.DiscontinuityFlag, ct.CntDroppedFlag, ct.NFrames = k.Disc, k.Dropped, byte(k.Nframes%256)
					ct.SecondsFlag, ct.MinutesFlag, ct.HoursFlag = k.Sflag, k.Mflag, k.Hflag
					if k.Full || k.Sflag {
						ct.Seconds = byte(k.Seconds)
					}
					if k.Full || k.Mflag {
						ct.Minutes = byte(k.Minutes)
					}
					if k.Full || k.Hflag {
						ct.Hours = byte(k.Hours)
					}
					ct.TimeOffsetValue = k.Soffset
				}
				msg.Clocks = append(msg.Clocks, ct)
			}
			msg.TimeOffsetLength = uint8(tol)
			cs := J{"pt": c.Pt, "nbits": c.Nbits}
			pl := msg.Payload()
			if int(msg.Size()) != len(pl) || len(pl) != c.Size {
				rep.Violation("sei/pictiming/size", fmt.Sprintf("Size() = %d, Payload() has %d bytes, syntax needs %d", msg.Size(), len(pl), c.Size), cs)
			}
			var dd *sei.CbpDbpDelay
			if delay != nil {
				d2 := *delay
				d2.CpbRemovalDelay, d2.DpbOutputDelay = 0, 0
				dd = &d2
			}
			dec, err := sei.DecodePicTimingAvcSEIHRD(sei.NewSEIData(1, pl), dd, byte(tol))
			if err != nil {
				rep.Violation("sei/pictiming/decode-error", "decoding a serialised pic_timing fails: "+err.Error(), cs)
			} else if !reflect.DeepEqual(dec.(*sei.PicTimingAvcSEI), msg) {
				rep.Violation("sei/pictiming/roundtrip", "Decode(Payload(m)) differs from m", J{"case": cs, "observed": dec, "expected": msg})
			}
			_ = msg.String()
			rep.Count(string(line), true, nil)
		}
		return nil
	})
	// fixed-layout messages 137 / 144 over boundary values
	for _, v := range []uint16{0, 1, 0x7fff, 0x8000, 0xffff, 0x1234} {
		for _, l := range []uint32{0, 1, 0x7fffffff, 0x80000000, 0xffffffff, 0x11223344} {
			m := sei.MasteringDisplayColourVolumeSEI{DisplayPrimariesX: [3]uint16{v, v + 1, v + 2}, DisplayPrimariesY: [3]uint16{v + 3, v + 4, v + 5},
				WhitePointX: v + 6, WhitePointY: v + 7, MaxDisplayMasteringLuminance: l, MinDisplayMasteringLuminance: l + 1}
			pl := m.Payload()
			d, err := sei.DecodeMasteringDisplayColourVolumeSEI(sei.NewSEIData(137, pl))
			if err != nil || int(m.Size()) != len(pl) || len(pl) != 24 || !reflect.DeepEqual(*d.(*sei.MasteringDisplayColourVolumeSEI), m) {
				rep.Violation("sei/137/roundtrip", "mastering display colour volume does not round trip", J{"m": m, "err": fmt.Sprint(err)})
			}
			cl := sei.ContentLightLevelInformationSEI{MaxContentLightLevel: v, MaxPicAverageLightLevel: uint16(l)}
			pl = cl.Payload()
			d2, err := sei.DecodeContentLightLevelInformationSEI(sei.NewSEIData(144, pl))
			if err != nil || int(cl.Size()) != len(pl) || len(pl) != 4 || !reflect.DeepEqual(*d2.(*sei.ContentLightLevelInformationSEI), cl) {
				rep.Violation("sei/144/roundtrip", "content light level does not round trip", J{"m": cl, "err": fmt.Sprint(err)})
			}
			rep.Count(fmt.Sprint("fixed", v, l), true, nil)
		}
	}
	rep.Extra["nalu_parses_judged"] = c17NaluJudged
	rep.Done()
	return err
}

func minInt(a, b int) int {
	if a < b {
		return a
	}
	return b
}
