package main

// C05: samples written into fragments are read back exactly. Replays Fragment.tla histories
// through the real Fragment / MediaSegment API in several API variants, encodes with both encoders,
// decodes together with an independently built init segment, and compares per track with what was
// added - through mp4ff's GetFullSamples and through the harness's own ISO 8.8.7/8.8.8 reader.

import (
	"bytes"
	"encoding/binary"
	"encoding/json"
	"fmt"

	"github.com/Eyevinn/mp4ff/bits"
	"github.com/Eyevinn/mp4ff/mp4"
)

func init() {
	register("c05-replay", c05Replay)
}

type c05Add struct {
	T   int    `json:"t"`
	Cls string `json:"cls"`
	Dts int64  `json:"dts"`
	D   struct {
		Dur   int64 `json:"dur"`
		Size  int64 `json:"size"`
		Flags int64 `json:"flags"`
		Cto   int64 `json:"cto"`
	} `json:"d"`
	First bool `json:"first"` // added with AddSample / AddSamples to the first trun of the first track (Fragment.tla AddFirst)
}

type c05Case struct {
	Kind   string   `json:"kind"`
	Tracks []int    `json:"tracks"`
	Opt    bool     `json:"opt"`
	Hist   []c05Add `json:"hist"`
	Data   []int    `json:"data"` // tokens (history index + 1) in the order their data lies in the mdat
	Impl   struct {
		Truns [][]struct {
			Wo  int `json:"wo"`
			N   int `json:"n"`
			Off int `json:"off"`
		} `json:"truns"`
		Tfdt []int64 `json:"tfdt"`
		Moof int     `json:"moof"`
		Next int     `json:"next"`
	} `json:"impl"`
}

type rdSample struct {
	Dur, Size, Flags, Cto, Dts int64
	Data                       []byte
}

// expected per-track sample lists for a segment of nfrags fragments each built from the history
func (c *c05Case) expected(nfrags int) map[int][]rdSample {
	exp := map[int][]rdSample{}
	shift := map[int]int64{}
	for fr := 0; fr < nfrags; fr++ {
		durIn := map[int]int64{}
		for k, a := range c.Hist {
			exp[a.T] = append(exp[a.T], rdSample{a.D.Dur, a.D.Size, a.D.Flags, a.D.Cto, a.Dts + shift[a.T], tokenBytes(a.T, fr*100+k+1, int(a.D.Size))})
			durIn[a.T] += a.D.Dur
		}
		for t, d := range durIn {
			shift[t] += d
		}
	}
	return exp
}

func extraBoxes() ([]mp4.Box, error) {
	raw := [][]byte{
		mkFull("prft", 1, 0, be32(1), be64(0x1122334455667788), be64(1234)),
		mkBox("free", []byte{1, 2, 3}),
		mkBox("uuid", []byte("0123456789abcdef"), []byte{9, 9, 9}),
		mkBox("zzzz", []byte{7, 7}),
	}
	var out []mp4.Box
	for _, r := range raw {
		b, err := mp4.DecodeBox(0, bytes.NewReader(r))
		if err != nil {
			return nil, err
		}
		out = append(out, b)
	}
	return out, nil
}

// buildSegment drives the real API. Returns the encoded segment bytes.
func (c *c05Case) buildSegment(api, encoder string, nfrags int, extras bool) (out []byte, err error) {
	defer func() {
		if r := recover(); r != nil {
			err = fmt.Errorf("panic: %v", r)
		}
	}()
	seg := mp4.NewMediaSegment()
	var lazyData [][]byte
	shift := map[int]int64{}
	// one scratch slice for every batch handed to AddSamples / AddSampleInterval, refilled in place: the API takes the samples
	// by value, so reusing the caller's slice for the next batch (or the next fragment) must not change what was added
	scratch := make([]mp4.Sample, 0, 16)
	for fr := 0; fr < nfrags; fr++ {
		var frag *mp4.Fragment
		if c.Kind == "single" {
			frag, err = mp4.CreateFragment(uint32(fr+1), 1)
		} else {
			ids := make([]uint32, len(c.Tracks))
			for i, t := range c.Tracks {
				ids[i] = uint32(t)
			}
			frag, err = mp4.CreateMultiTrackFragment(uint32(fr+1), ids)
		}
		if err != nil {
			return nil, err
		}
		var data []byte
		var all []mp4.Sample
		var pieces [][]byte
		var pendingFirst []mp4.Sample
		durIn := map[int]int64{}
		// the payloads handed to the API are sub-slices (with spare capacity) of ONE source buffer laid out
		// first sample, then the others in reverse order - as when samples come out of a demuxed buffer in
		// another order than they are added. The expected bytes are generated separately (pristine).
		src := make([][]byte, len(c.Hist))
		{
			var buf []byte
			offs := make([]int, len(c.Hist))
			order := []int{}
			if len(c.Hist) > 0 {
				order = append(order, 0)
				for k := len(c.Hist) - 1; k >= 1; k-- {
					order = append(order, k)
				}
			}
			for _, k := range order {
				offs[k] = len(buf)
				buf = append(buf, tokenBytes(c.Hist[k].T, fr*100+k+1, int(c.Hist[k].D.Size))...)
			}
			for k := range c.Hist {
				src[k] = buf[offs[k] : offs[k]+int(c.Hist[k].D.Size)]
			}
		}
		for k, a := range c.Hist {
			s := mp4.Sample{Flags: uint32(a.D.Flags), Dur: uint32(a.D.Dur), Size: uint32(a.D.Size), CompositionTimeOffset: int32(a.D.Cto)}
			d := src[k]
			dts := uint64(a.Dts + shift[a.T])
			durIn[a.T] += a.D.Dur
			switch api {
			case "fullToTrack":
				if err := frag.AddFullSampleToTrack(mp4.FullSample{Sample: s, DecodeTime: dts, Data: d}, uint32(a.T)); err != nil {
					return nil, err
				}
			case "full":
				frag.AddFullSample(mp4.FullSample{Sample: s, DecodeTime: dts, Data: d})
			case "meta":
				frag.AddSample(s, dts)
				data = append(data, d...)
			case "metaToTrack", "metaToTrack+samples":
				switch {
				case a.First && api == "metaToTrack":
					frag.AddSample(s, dts)
				case a.First:
					// consecutive samples for the first trun as one batch through the scratch slice
					pendingFirst = append(pendingFirst, s)
					if k+1 == len(c.Hist) || !c.Hist[k+1].First {
						scratch = append(scratch[:0], pendingFirst...)
						frag.AddSamples(scratch, dts)
						pendingFirst = pendingFirst[:0]
					}
				default:
					if err := frag.AddSampleToTrack(s, uint32(a.T), dts); err != nil {
						return nil, err
					}
				}
				pieces = append(pieces, d)
			case "samples", "interval":
				all = append(all, s)
				data = append(data, d...)
				pieces = append(pieces, d)
			case "interval+full": // the first half of the samples as one interval, the others one by one as full samples afterwards
				if k < (len(c.Hist)+1)/2 {
					all = append(all, s)
					pieces = append(pieces, d)
					if k == (len(c.Hist)+1)/2-1 {
						var bd []byte
						for _, pc := range pieces {
							bd = append(bd, pc...)
						}
						if err := frag.AddSampleInterval(mp4.SampleInterval{FirstDecodeTime: uint64(c.Hist[0].Dts + shift[c.Hist[0].T]), Samples: append([]mp4.Sample{}, all...), Data: bd}); err != nil {
							return nil, err
						}
					}
				} else {
					frag.AddFullSample(mp4.FullSample{Sample: s, DecodeTime: dts, Data: d})
				}
			}
		}
		// a track id the fragment does not have: the call must refuse, not put the sample into another track
		if api == "fullToTrack" || api == "metaToTrack" {
			if err := frag.AddSampleToTrack(mp4.Sample{Flags: 0x02000000, Dur: 1, Size: 0}, 9999, 0); err == nil {
				return nil, fmt.Errorf("AddSampleToTrack accepts a sample for track 9999, which the fragment does not have")
			}
		}
		if api == "metaToTrack" || api == "metaToTrack+samples" {
			// the caller writes the data in the order of the truns: Fragment.tla's mdat sequence
			for _, tok := range c.Data {
				data = append(data, pieces[tok-1]...)
			}
		}
		first := uint64(c.Hist[0].Dts + shift[c.Hist[0].T])
		if api == "samples" || api == "interval" {
			// two batches when there are at least two samples, through the SAME scratch slice
			batches := [][2]int{{0, len(all)}}
			if len(all) >= 2 {
				batches = [][2]int{{0, len(all) / 2}, {len(all) / 2, len(all)}}
			}
			for _, b := range batches {
				scratch = append(scratch[:0], all[b[0]:b[1]]...)
				if api == "samples" {
					frag.AddSamples(scratch, first)
					continue
				}
				var bd []byte
				for _, pc := range pieces[b[0]:b[1]] {
					bd = append(bd, pc...)
				}
				if err := frag.AddSampleInterval(mp4.SampleInterval{FirstDecodeTime: first, Samples: scratch, Data: bd}); err != nil {
					return nil, err
				}
			}
			if api == "interval" {
				data = nil
			}
		}
		for t, d := range durIn {
			shift[t] += d
		}
		if extras {
			ex, err := extraBoxes()
			if err != nil {
				return nil, err
			}
			emsgB, err := mp4.DecodeBox(0, bytes.NewReader(mEmsg(int64(fr+1))))
			if err != nil {
				return nil, err
			}
			frag.Children = append(append([]mp4.Box{}, ex...), frag.Children...)
			frag.AddEmsg(emsgB.(*mp4.EmsgBox))
		}
		lazyData = append(lazyData, data)
		seg.AddFragment(frag)
	}
	if c.Opt {
		seg.EncOptimize = mp4.OptimizeTrun
	}
	lazy := api == "meta" || api == "metaToTrack" || api == "metaToTrack+samples" || api == "samples"
	var buf bytes.Buffer
	if !lazy {
		if encoder == "W" {
			err = seg.Encode(&buf)
		} else {
			sw := bits.NewFixedSliceWriter(int(seg.Size()) + 64)
			err = seg.EncodeSW(sw)
			buf.Write(sw.Bytes())
		}
		return buf.Bytes(), err
	}
	// metadata-only samples: the caller writes the media data after each fragment
	if err := seg.Styp.Encode(&buf); err != nil {
		return nil, err
	}
	for i, frag := range seg.Fragments {
		frag.EncOptimize = seg.EncOptimize
		if encoder == "W" {
			err = frag.Encode(&buf)
		} else {
			sw := bits.NewFixedSliceWriter(int(frag.Size()) + 64)
			err = frag.EncodeSW(sw)
			buf.Write(sw.Bytes())
		}
		if err != nil {
			return nil, err
		}
		buf.Write(lazyData[i])
	}
	return buf.Bytes(), nil
}

// ---- independent ISO reader of fragments (8.8.7 tfhd, 8.8.8 trun, 8.8.12 tfdt); trex defaults are zero here
func isoReadFragments(file []byte) (map[int][]rdSample, error) {
	res := map[int][]rdSample{}
	top, err := walkBoxes(file, 0)
	if err != nil {
		return nil, err
	}
	for _, b := range top {
		if b.Type != "moof" {
			continue
		}
		kids, err := walkBoxes(b.Payload, b.Start+b.HdrLen)
		if err != nil {
			return nil, err
		}
		for _, traf := range kids {
			if traf.Type != "traf" {
				continue
			}
			tk, err := walkBoxes(traf.Payload, traf.Start+traf.HdrLen)
			if err != nil {
				return nil, err
			}
			var track int
			var base = int64(b.Start)
			var defDur, defSize, defFlags int64
			var t0 int64
			for _, x := range tk {
				p := x.Payload
				switch x.Type {
				case "tfhd":
					fl := int(binary.BigEndian.Uint32(p)) & 0xffffff
					track = int(binary.BigEndian.Uint32(p[4:]))
					q := p[8:]
					if fl&0x1 != 0 {
						base = int64(binary.BigEndian.Uint64(q))
						q = q[8:]
					}
					if fl&0x2 != 0 {
						q = q[4:]
					}
					if fl&0x8 != 0 {
						defDur = int64(binary.BigEndian.Uint32(q))
						q = q[4:]
					}
					if fl&0x10 != 0 {
						defSize = int64(binary.BigEndian.Uint32(q))
						q = q[4:]
					}
					if fl&0x20 != 0 {
						defFlags = int64(binary.BigEndian.Uint32(q))
					}
				case "tfdt":
					if p[0] == 1 {
						t0 = int64(binary.BigEndian.Uint64(p[4:]))
					} else {
						t0 = int64(binary.BigEndian.Uint32(p[4:]))
					}
				}
			}
			for _, x := range tk {
				if x.Type != "trun" {
					continue
				}
				p := x.Payload
				ver := p[0]
				fl := int(binary.BigEndian.Uint32(p)) & 0xffffff
				n := int(binary.BigEndian.Uint32(p[4:]))
				q := p[8:]
				pos := base
				if fl&0x1 != 0 {
					pos = base + int64(int32(binary.BigEndian.Uint32(q)))
					q = q[4:]
				}
				firstFlags := int64(-1)
				if fl&0x4 != 0 {
					firstFlags = int64(binary.BigEndian.Uint32(q))
					q = q[4:]
				}
				for i := 0; i < n; i++ {
					s := rdSample{Dur: defDur, Size: defSize, Flags: defFlags, Dts: t0}
					if i == 0 && firstFlags >= 0 {
						s.Flags = firstFlags
					}
					if fl&0x100 != 0 {
						s.Dur = int64(binary.BigEndian.Uint32(q))
						q = q[4:]
					}
					if fl&0x200 != 0 {
						s.Size = int64(binary.BigEndian.Uint32(q))
						q = q[4:]
					}
					if fl&0x400 != 0 {
						s.Flags = int64(binary.BigEndian.Uint32(q))
						q = q[4:]
					}
					if fl&0x800 != 0 {
						if ver == 0 {
							s.Cto = int64(binary.BigEndian.Uint32(q))
						} else {
							s.Cto = int64(int32(binary.BigEndian.Uint32(q)))
						}
						q = q[4:]
					}
					if pos < 0 || pos+s.Size > int64(len(file)) {
						return nil, fmt.Errorf("sample data outside file")
					}
					s.Data = file[pos : pos+s.Size]
					pos += s.Size
					t0 += s.Dur
					res[track] = append(res[track], s)
				}
			}
		}
	}
	return res, nil
}

func diffSamples(got, want []rdSample) string {
	if len(got) != len(want) {
		return fmt.Sprintf("count %d, expected %d", len(got), len(want))
	}
	for i := range got {
		g, w := got[i], want[i]
		switch {
		case g.Dur != w.Dur:
			return fmt.Sprintf("sample %d duration %d, expected %d", i, g.Dur, w.Dur)
		case g.Size != w.Size:
			return fmt.Sprintf("sample %d size %d, expected %d", i, g.Size, w.Size)
		case g.Flags != w.Flags:
			return fmt.Sprintf("sample %d flags %#x, expected %#x", i, g.Flags, w.Flags)
		case g.Cto != w.Cto:
			return fmt.Sprintf("sample %d composition offset %d, expected %d", i, g.Cto, w.Cto)
		case g.Dts != w.Dts:
			return fmt.Sprintf("sample %d decode time %d, expected %d", i, g.Dts, w.Dts)
		case !bytes.Equal(g.Data, w.Data):
			return fmt.Sprintf("sample %d bytes differ", i)
		}
	}
	return ""
}

func whichField(d string) string {
	for _, f := range []string{"count", "duration", "size", "flags", "composition", "decode time", "bytes"} {
		if bytes.Contains([]byte(d), []byte(f)) {
			return f
		}
	}
	return "other"
}

func c05Replay(args []string) error {
	rep := newReport()
	var rtw *TraceWriter
	if p := argValue(args, "-readtrace", ""); p != "" {
		var err error
		if rtw, err = newTraceWriter(p); err != nil {
			return err
		}
	}
	readStride := argInt(args, "-readstride", 1)
	readTraced, nline := 0, 0
	err := readLines(argValue(args, "-in", "-"), func(line []byte) error {
		var c c05Case
		if err := json.Unmarshal(line, &c); err != nil {
			return err
		}
		nline++
		apis := []string{"fullToTrack", "metaToTrack"}
		if c.Kind == "single" {
			apis = []string{"fullToTrack", "full", "meta", "metaToTrack", "samples", "interval", "interval+full"}
		}
		for _, a := range c.Hist {
			if a.First { // only the metadata calls can add to the first trun after another one was written
				apis = []string{"metaToTrack", "metaToTrack+samples"}
			}
		}
		if len(c.Data) != len(c.Hist) {
			return fmt.Errorf("case without the data order of Fragment.tla")
		}
		ids := make([]int64, len(c.Tracks))
		for i, t := range c.Tracks {
			ids[i] = int64(t)
		}
		initSeg := mFragInit(ids, 1000)
		hist := make([]string, len(c.Hist))
		for i, a := range c.Hist {
			hist[i] = fmt.Sprintf("%d%s", a.T, a.Cls)
			if a.First {
				hist[i] += "(first trun)"
			}
		}
		// tracks that received no sample
		emptyFirst := false
		if c.Kind == "multi" {
			emptyFirst = true
			for _, a := range c.Hist {
				if a.T == c.Tracks[0] {
					emptyFirst = false
				}
			}
		}
		for _, api := range apis {
			for _, encoder := range []string{"W", "SW"} {
				for _, shape := range []struct {
					n      int
					extras bool
				}{{1, false}, {2, true}} {
					cs := J{"kind": c.Kind, "tracks": c.Tracks, "opt": c.Opt, "hist": hist, "api": api, "encoder": encoder, "fragments": shape.n, "extras": shape.extras}
					segBytes, err := c.buildSegment(api, encoder, shape.n, shape.extras)
					if err != nil {
						key := "build-or-encode-error"
						if emptyFirst && c.Opt {
							key = "encode/optimize-with-empty-first-track"
						}
						rep.Violation(key, "adding samples / encoding through the public API fails: "+err.Error(), cs)
						continue
					}
					file := cat(initSeg, segBytes)
					exp := c.expected(shape.n)
					// code -> spec: raw fields and returned samples of every track fragment, for FragmentRead.tla
					if rtw != nil && api == "fullToTrack" && nline%readStride == 0 {
						if d, _, err := traceFragmentReads(rtw, fmt.Sprintf("hist%d/%s/%s/n%d/x%v", nline, api, encoder, shape.n, shape.extras), file); err == nil {
							readTraced += d
						}
					}
					// (a) mp4ff's own reader, both decoders
					for _, dn := range []string{"reader", "sr"} {
						func() {
							defer func() {
								if r := recover(); r != nil {
									rep.Violation("readback/panic", fmt.Sprintf("decoding / GetFullSamples panics: %v", r), cs)
								}
							}()
							var f *mp4.File
							var err error
							if dn == "reader" {
								f, err = mp4.DecodeFile(bytes.NewReader(file))
							} else {
								f, err = mp4.DecodeFileSR(bits.NewFixedSliceReader(file))
							}
							if err != nil {
								rep.Violation("readback/decode-error", "encoded segment does not decode: "+err.Error(), cs)
								return
							}
							for _, t := range c.Tracks {
								trex, _ := f.Init.Moov.Mvex.GetTrex(uint32(t))
								var got []rdSample
								for _, seg := range f.Segments {
									for _, fr := range seg.Fragments {
										fs, err := fr.GetFullSamples(trex)
										if err != nil {
											rep.Violation("readback/getfullsamples-error", "GetFullSamples fails: "+err.Error(), cs)
											return
										}
										for _, s := range fs {
											got = append(got, rdSample{int64(s.Dur), int64(s.Size), int64(s.Flags), int64(s.CompositionTimeOffset), int64(s.DecodeTime), s.Data})
										}
									}
								}
								if d := diffSamples(got, exp[t]); d != "" {
									rep.Violation("readback/"+whichField(d), "samples read back differ from the samples added (track "+fmt.Sprint(t)+"): "+d, cs)
								}
							}
						}()
					}
					// (b) the harness's independent ISO reader
					got, err := isoReadFragments(file)
					if err != nil {
						rep.Violation("iso-readback/malformed", "encoded segment is not readable by ISO rules: "+err.Error(), cs)
					} else {
						for _, t := range c.Tracks {
							if d := diffSamples(got[t], exp[t]); d != "" {
								rep.Violation("iso-readback/"+whichField(d), "ISO 14496-12 read-back differs from the samples added (track "+fmt.Sprint(t)+"): "+d, cs)
							}
						}
					}
					// drift diagnostics: moof size and data offsets of the single-fragment shape
					if shape.n == 1 && !shape.extras && api == "fullToTrack" && encoder == "W" {
						if mb, err := walkPath(file[len(initSeg):], 0, "moof"); err == nil && mb.Size != c.Impl.Moof {
							rep.Drift("moof-size", "moof size differs from Impl model", J{"case": cs, "observed": mb.Size, "model": c.Impl.Moof})
						}
					}
				}
			}
		}
		var smp interface{}
		if len(c.Hist) == 3 && c.Kind == "multi" {
			smp = J{"kind": c.Kind, "opt": c.Opt, "hist": hist}
		}
		rep.Count(string(line), true, smp)
		return nil
	})
	// large uniform fragments: n equal samples (same duration, size, flags, no cto) - with trun optimisation every per-sample
	// field moves into tfhd and the trun carries the bare count
	for _, n := range []int{1024, 1025, 3000} {
		for _, opt := range []bool{false, true} {
			cs := J{"uniform_samples": n, "opt": opt}
			func() {
				defer func() {
					if r := recover(); r != nil {
						rep.Violation("uniform/panic", fmt.Sprintf("panic: %v", r), cs)
					}
				}()
				seg := mp4.NewMediaSegment()
				frag, err := mp4.CreateFragment(1, 1)
				if err != nil {
					return
				}
				for i := 0; i < n; i++ {
					frag.AddFullSample(mp4.FullSample{Sample: mp4.Sample{Flags: 0x02000000, Dur: 1024, Size: 2}, DecodeTime: uint64(1024 * i), Data: []byte{byte(i), byte(i >> 8)}})
				}
				seg.AddFragment(frag)
				if opt {
					seg.EncOptimize = mp4.OptimizeTrun
				}
				var buf bytes.Buffer
				if err := seg.Encode(&buf); err != nil {
					rep.Violation("uniform/encode", "encoding fails: "+err.Error(), cs)
					return
				}
				file := cat(mFragInit([]int64{1}, 48000), buf.Bytes())
				f, err := mp4.DecodeFile(bytes.NewReader(file))
				if err != nil {
					key := "uniform/decode"
					if opt && n > 1024 {
						key = "readback/optimized-trun-of-more-than-1024-uniform-samples"
					}
					rep.Violation(key, "what the encoder wrote is rejected by the decoder: "+err.Error(), cs)
					return
				}
				fss, err := f.Segments[0].Fragments[0].GetFullSamples(f.Init.Moov.Mvex.Trex)
				ok := err == nil && len(fss) == n
				for i := 0; ok && i < n; i++ {
					ok = fss[i].Dur == 1024 && fss[i].Size == 2 && fss[i].DecodeTime == uint64(1024*i) && fss[i].Data[0] == byte(i) && fss[i].Data[1] == byte(i>>8)
				}
				if !ok {
					rep.Violation("uniform/readback", fmt.Sprintf("samples read back differ (%v)", err), cs)
				}
				rep.Count(fmt.Sprintf("uniform-%d-%v", n, opt), true, nil)
			}()
		}
	}
	rep.Extra["read_traced_track_fragments"] = readTraced
	if rtw != nil {
		rep.Extra["read_trace_events"] = rtw.N
		if err := rtw.Close(); err != nil {
			return err
		}
	}
	rep.Done()
	return err
}
