package main

// The committed don't-care list (/verif/dontcare.json) applied to arbitrary byte strings: an
// independent walk over the box tree marks the listed positions. Used for corpus objects (which
// have no generated mask) and cross-checked against the masks BoxLayouts.tla generates.

import (
	"encoding/binary"
	"encoding/json"
	"io/ioutil"
)

type dcField struct {
	Box         string      `json:"box"`
	SampleEntry string      `json:"sample_entry"`
	Version     *int        `json:"version"`
	Offset      int         `json:"offset"`
	Bytes       int         `json:"bytes"`
	Mask        interface{} `json:"mask"`
}

type dcList struct {
	Fields []dcField `json:"fields"`
}

var dcLoaded *dcList

func loadDontCare(path string) (*dcList, error) {
	if dcLoaded != nil {
		return dcLoaded, nil
	}
	b, err := ioutil.ReadFile(path)
	if err != nil {
		return nil, err
	}
	var l dcList
	if err := json.Unmarshal(b, &l); err != nil {
		return nil, err
	}
	dcLoaded = &l
	return dcLoaded, nil
}

var dcVisual = map[string]bool{"avc1": true, "avc3": true, "hvc1": true, "hev1": true, "encv": true, "av01": true, "vp08": true, "vp09": true}
var dcAudio = map[string]bool{"mp4a": true, "enca": true, "ac-3": true, "ec-3": true}
var dcOtherEntry = map[string]bool{"stpp": true, "wvtt": true, "evte": true}

// payload bytes before the children of a container
var dcContainers = map[string]int{"moov": 0, "trak": 0, "mdia": 0, "minf": 0, "stbl": 0, "edts": 0, "dinf": 0, "mvex": 0, "moof": 0, "traf": 0,
	"mfra": 0, "udta": 0, "sinf": 0, "schi": 0, "tref": 0, "ilst": 0, "\xa9too": 0, "ludt": 0, "vttc": 0, "meta": 4, "stsd": 8, "dref": 8, "trep": 8,
	"wvtt": 8, "evte": 8}

// dontCareMask returns the per-byte don't-care mask of data (a sequence of boxes).
func (l *dcList) mask(data []byte) []int {
	m := make([]int, len(data))
	l.walk(data, 0, len(data), m)
	return m
}

func (l *dcList) walk(data []byte, pos, end int, m []int) {
	for pos+8 <= end {
		size := int(binary.BigEndian.Uint32(data[pos:]))
		hdr := 8
		if size == 1 {
			if pos+16 > end {
				return
			}
			size = int(binary.BigEndian.Uint64(data[pos+8:]))
			hdr = 16
		}
		if size < hdr || pos+size > end {
			return
		}
		typ := string(data[pos+4 : pos+8])
		pl := pos + hdr
		ver := -1
		if pl < pos+size {
			ver = int(data[pl])
		}
		for _, f := range l.Fields {
			applies := f.Box == typ
			switch f.SampleEntry {
			case "all":
				applies = dcVisual[typ] || dcAudio[typ] || dcOtherEntry[typ]
			case "visual":
				applies = dcVisual[typ]
			case "audio":
				applies = dcAudio[typ]
			}
			if !applies || (f.Version != nil && *f.Version != ver) {
				continue
			}
			for k := 0; k < f.Bytes; k++ {
				if pl+f.Offset+k < pos+size {
					mv := 255
					if v, ok := f.Mask.(float64); ok {
						mv = int(v)
					}
					m[pl+f.Offset+k] |= mv
				}
			}
		}
		if skip, ok := dcContainers[typ]; ok {
			l.walk(data, pl+skip, pos+size, m)
		} else if dcVisual[typ] {
			l.walk(data, pl+78, pos+size, m)
		} else if dcAudio[typ] {
			l.walk(data, pl+28, pos+size, m)
		} else if typ == "stpp" {
			p := pl + 8
			for n := 0; n < 3 && p < pos+size; n++ {
				for p < pos+size && data[p] != 0 {
					p++
				}
				p++
			}
			l.walk(data, p, pos+size, m)
		}
		pos += size
	}
}
