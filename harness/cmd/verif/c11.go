package main

// C11: segmenter / resegmenter / Fragmentify / combine-segs conserve every sample. Replays
// Segmenter.tla inputs through the BUILT example binaries (and the library call for Fragmentify) and
// reads every output with the harness's independent readers.

import (
	"bytes"
	"strings"
	"encoding/json"
	"fmt"
	"io/ioutil"
	"os"
	"os/exec"
	"path/filepath"
	"sort"
	"sync"
	"sync/atomic"

	"github.com/Eyevinn/mp4ff/mp4"
)

func init() {
	register("c11-replay", c11Replay)
}

type segCase struct {
	Mode      string      `json:"mode"`
	Tracks    []cropTrack `json:"tracks"`
	Track     cropTrack   `json:"track"`
	Frags     []int       `json:"frags"`
	TwoTruns  bool        `json:"twotruns"`
	D         int         `json:"d"`
	Starts    []int       `json:"starts"`
	Defined   bool        `json:"defined"`
	Intervals [][][]int   `json:"intervals"`
	NewSegs   []int       `json:"newsegs"`
	Indep     []bool      `json:"indep"`
}

func expectedOf(tr cropTrack, trackNo int) []rdSample {
	var out []rdSample
	dts := int64(0)
	for s := range tr.Durs {
		cto := int64(0)
		if len(tr.Ctos) > 0 {
			cto = int64(tr.Ctos[s])
		}
		fl := int64(0x01010000)
		if tr.Sync[s] {
			fl = 0x02000000
		}
		out = append(out, rdSample{int64(tr.Durs[s]), int64(tr.Sizes[s]), fl, cto, dts, tokenBytes(trackNo, s+1, tr.Sizes[s])})
		dts += int64(tr.Durs[s])
	}
	return out
}

// diffConserved compares ignoring all flag bits except non-sync.
func diffConserved(got, want []rdSample) string {
	g2 := make([]rdSample, len(got))
	w2 := make([]rdSample, len(want))
	for i, s := range got {
		s.Flags = (s.Flags >> 16) & 1
		g2[i] = s
	}
	for i, s := range want {
		s.Flags = (s.Flags >> 16) & 1
		w2[i] = s
	}
	return diffSamples(g2, w2)
}

// mFragmentTruns builds moof(mfhd, traf(tfhd, tfdt, trun...)) + mdat with the samples split into runs.
func mFragmentTruns(seq, trackID, base int64, runs [][]mSample, payload []byte) []byte {
	build := func(first int64) []byte {
		kids := [][]byte{mTfhd(0x20000, trackID, 0, 0, 0, 0, 0), mTfdt(1, base)}
		off := first
		for _, r := range runs {
			kids = append(kids, mTrun(1, 0xf01, off, 0, r))
			for _, s := range r {
				off += s.Size
			}
		}
		return mkBox("moof", mMfhd(seq), mkBox("traf", kids...))
	}
	m := build(0)
	return cat(build(int64(len(m)+8)), mMdat(payload, false))
}

func fragFileOf(tr cropTrack, frags []int, twoTruns bool, trackID int64) []byte {
	out := mFragInit([]int64{trackID}, int64(tr.Ts))
	s := 0
	dts := int64(0)
	for fi, n := range frags {
		var all []mSample
		var payload []byte
		start := dts
		for k := 0; k < n; k++ {
			cto := int64(0)
			if len(tr.Ctos) > 0 {
				cto = int64(tr.Ctos[s])
			}
			fl := int64(0x01010000)
			if tr.Sync[s] {
				fl = 0x02000000
			} else if s < len(tr.Indep) && tr.Indep[s] {
				fl = 0x02010000 // independent, but NOT a sync sample
			}
			all = append(all, mSample{int64(tr.Durs[s]), int64(tr.Sizes[s]), fl, cto})
			payload = append(payload, tokenBytes(int(trackID), s+1, tr.Sizes[s])...)
			dts += int64(tr.Durs[s])
			s++
		}
		runs := [][]mSample{all}
		if twoTruns && n >= 2 {
			runs = [][]mSample{all[:n-1], all[n-1:]}
		}
		out = cat(out, mStyp("msdh", 0, "msdh"), mFragmentTruns(int64(fi+1), trackID, start, runs, payload))
	}
	return out
}

// segmentsOf splits a fragmented file into (first sample index per moof) per track using the independent reader.
var c11M2Checked int64 // segment starts whose sync flag was actually judged (guards against a vacuous M2 check)

func firstSamplesSync(file []byte, track int) ([]bool, error) {
	got, err := isoReadFragments(file)
	if err != nil {
		return nil, err
	}
	trafs, err := rawTrafs(file) // per moof: the track fragments with their truns (own walker)
	if err != nil {
		return nil, err
	}
	var res []bool
	idx := 0
	for _, moof := range trafs {
		n := 0
		for _, tf := range moof {
			if tf.track != track {
				continue
			}
			for _, tr := range tf.truns {
				n += len(tr.coded)
			}
		}
		if n > 0 {
			if idx >= len(got[track]) {
				return nil, fmt.Errorf("track %d: fragment starts at sample %d, only %d samples read", track, idx, len(got[track]))
			}
			res = append(res, (got[track][idx].Flags>>16)&1 == 0)
		}
		idx += n
	}
	if len(res) == 0 {
		return nil, fmt.Errorf("track %d: no fragment with samples found", track)
	}
	atomic.AddInt64(&c11M2Checked, int64(len(res)))
	return res, nil
}

func c11Replay(args []string) error {
	rep := newReport()
	segBin, resegBin, combBin := argValue(args, "-segmenter", ""), argValue(args, "-resegmenter", ""), argValue(args, "-combine", "")
	tmp, err := ioutil.TempDir("", "c11.")
	if err != nil {
		return err
	}
	defer os.RemoveAll(tmp)
	var cases []segCase
	var raws []string
	if err := readLines(argValue(args, "-in", "-"), func(line []byte) error {
		var c segCase
		if err := json.Unmarshal(line, &c); err != nil {
			return err
		}
		cases = append(cases, c)
		raws = append(raws, string(line))
		return nil
	}); err != nil {
		return err
	}
	var wg sync.WaitGroup
	sem := make(chan struct{}, 16)
	var mu sync.Mutex
	toolOK, toolFail := map[string]int{}, map[string]int{}
	note := func(tool string, ok bool) {
		mu.Lock()
		if ok {
			toolOK[tool]++
		} else {
			toolFail[tool]++
		}
		mu.Unlock()
	}
	for i := range cases {
		wg.Add(1)
		sem <- struct{}{}
		go func(i int) {
			defer wg.Done()
			defer func() { <-sem }()
			c := &cases[i]
			dir := filepath.Join(tmp, fmt.Sprint("c", i))
			_ = os.MkdirAll(dir, 0755)
			defer os.RemoveAll(dir)
			judged := false
			if c.Mode == "prog" {
				judged = c11Prog(rep, c, dir, segBin, combBin, i, note)
			} else {
				judged = c11Frag(rep, c, dir, resegBin, note)
			}
			var smp interface{}
			if judged && c.Mode == "prog" && len(c.Tracks) == 2 && len(c.Starts) == 2 {
				smp = J{"d": c.D, "starts": c.Starts, "intervals": c.Intervals}
			}
			rep.Count(raws[i], judged, smp)
		}(i)
	}
	wg.Wait()
	rep.Extra["tool_ok"] = toolOK
	rep.Extra["m2_segment_starts_checked"] = atomic.LoadInt64(&c11M2Checked)
	rep.Extra["tool_failed"] = toolFail
	rep.Done()
	return nil
}

// dilated stretches time a hundredfold (video durations, composition offsets and the target duration) and gives the audio
// track a timescale of about 2*10^9: sample durations stay below 2^32 but decode times pass it from the third sample on,
// as they do in a recording of a day at 48 kHz. Sample numbers, sync points and the segment layout are unchanged.
func dilated(c *segCase) (*segCase, bool) {
	d := *c
	d.D = c.D * 100
	d.Tracks = make([]cropTrack, len(c.Tracks))
	for t, tr := range c.Tracks {
		k := 100
		if tr.Kind == "audio" {
			if tr.Ts <= 0 || tr.Ts > 1000000 {
				return c, false
			}
			k = 100 * (2000000000 / tr.Ts)
			tr.Ts = tr.Ts * (2000000000 / tr.Ts)
		}
		durs, ctos := make([]int, len(tr.Durs)), make([]int, len(tr.Ctos))
		for i, v := range tr.Durs {
			durs[i] = v * k
			if durs[i] >= 1<<32 {
				return c, false
			}
		}
		for i, v := range tr.Ctos {
			ctos[i] = v * k
		}
		tr.Durs, tr.Ctos = durs, ctos
		d.Tracks[t] = tr
	}
	return &d, true
}

func c11Prog(rep *Report, c *segCase, dir, segBin, combBin string, idx int, note func(string, bool)) bool {
	long := false
	if idx%4 == 3 {
		c, long = dilated(c)
	}
	in := buildMultiProg(c.Tracks, idx%3 == 1, false, false, false, false)
	inPath := filepath.Join(dir, "in.mp4")
	_ = ioutil.WriteFile(inPath, in, 0644)
	judged := false
	kinds := make([]string, len(c.Tracks))
	for t, tr := range c.Tracks {
		kinds[t] = fmt.Sprintf("%s n=%d sync=%v ctts=%v spc=%v", tr.Kind, len(tr.Durs), tr.Sync, len(tr.Ctos) > 0, tr.Spc)
	}
	for _, mode := range []string{"single", "mux", "lazy", "mux-lazy"} {
		cs := J{"tool": "segmenter", "mode": mode, "d": c.D, "tracks": kinds, "decode_times_beyond_2^32": long}
		a := []string{"-d", fmt.Sprint(c.D)}
		if mode == "mux" || mode == "mux-lazy" {
			a = append(a, "-m")
		}
		if mode == "lazy" || mode == "mux-lazy" {
			a = append(a, "-lazy")
		}
		pre := "out_" + mode
		cmd := exec.Command(segBin, append(a, inPath, pre)...)
		cmd.Dir = dir
		var stderr bytes.Buffer
		cmd.Stderr = &stderr
		if err := cmd.Run(); err != nil {
			note("segmenter/"+mode, false)
			if i := strings.Index(stderr.String(), "panic: runtime error"); i >= 0 {
				msg := stderr.String()[i:]
				if nl := strings.IndexByte(msg, '\n'); nl > 0 {
					msg = msg[:nl]
				}
				rep.Violation("segmenter/"+mode+"/panic", "the segmenter crashes on a legal input: "+msg, cs)
				continue
			}
			if c.Defined {
				rep.Drift("segmenter/fails-where-defined", "segmenter exits non-zero on an input the model segments", J{"case": cs})
			}
			continue
		}
		note("segmenter/"+mode, true)
		judged = true
		for t, tr := range c.Tracks {
			want := expectedOf(tr, t+1)
			var file []byte
			track := 1
			var segFiles []string
			if mode == "mux" || mode == "mux-lazy" {
				ib, _ := ioutil.ReadFile(filepath.Join(dir, pre+"_init.mp4"))
				file = ib
				segFiles, _ = filepath.Glob(filepath.Join(dir, pre+"_media_*.m4s"))
				track = t + 1
			} else {
				tag := map[string]string{"video": "_v", "audio": "_a"}[tr.Kind]
				ib, _ := ioutil.ReadFile(filepath.Join(dir, pre+tag+"1_init.mp4"))
				file = ib
				segFiles, _ = filepath.Glob(filepath.Join(dir, pre+tag+"1_*.m4s"))
			}
			sort.Slice(segFiles, func(a, b int) bool { return segNr(segFiles[a]) < segNr(segFiles[b]) })
			for _, sf := range segFiles {
				b, _ := ioutil.ReadFile(sf)
				file = append(file, b...)
			}
			got, err := isoReadFragments(file)
			if err != nil {
				rep.Violation("segmenter/"+mode+"/output-unreadable", "segmenter output is not readable: "+err.Error(), cs)
				continue
			}
			if d := diffConserved(got[track], want); d != "" {
				key := "segmenter/" + mode + "/" + whichField(d)
				if len(got[track]) == len(want)-1 {
					key = "segmenter/" + mode + "/last-sample-dropped"
				}
				rep.Violation(key, fmt.Sprintf("track %d (%s): produced segments do not conserve the sample sequence: %s", t+1, tr.Kind, d), cs)
			}
			if tr.Kind == "video" {
				syncs, err := firstSamplesSync(file, track)
				if err != nil {
					rep.Drift("segmenter/"+mode+"/first-samples-unreadable", err.Error(), cs)
				} else {
					for k, ok := range syncs {
						if !ok {
							rep.Violation("segmenter/"+mode+"/segment-starts-non-sync", fmt.Sprintf("segment %d does not start with a sync sample", k+1), cs)
							break
						}
					}
				}
			}
		}
	}
	// combine-segs: video + audio single-track segments with fully explicit truns
	if len(c.Tracks) == 2 && idx%7 == 0 && combBin != "" {
		cs := J{"tool": "combine-segs", "tracks": kinds}
		for t, sub := range []string{"testdata/V300", "testdata/A48"} {
			_ = os.MkdirAll(filepath.Join(dir, sub), 0755)
			tr := c.Tracks[t]
			f := fragFileOf(tr, []int{len(tr.Durs)}, false, 1)
			ini := mFragInit([]int64{1}, int64(tr.Ts))
			_ = ioutil.WriteFile(filepath.Join(dir, sub, "init.mp4"), ini, 0644)
			_ = ioutil.WriteFile(filepath.Join(dir, sub, "1.m4s"), f[len(ini):], 0644)
		}
		cmd := exec.Command(combBin)
		cmd.Dir = dir
		if err := cmd.Run(); err != nil {
			note("combine-segs", false)
		} else {
			note("combine-segs", true)
			ib, _ := ioutil.ReadFile(filepath.Join(dir, "combined-init.mp4"))
			sb, _ := ioutil.ReadFile(filepath.Join(dir, "combined-1.m4s"))
			got, err := isoReadFragments(cat(ib, sb))
			if err != nil {
				rep.Violation("combine-segs/output-unreadable", "combined output not readable: "+err.Error(), cs)
			} else {
				for t, tr := range c.Tracks {
					want := expectedOf(tr, 1) // both inputs use track id 1 tokens
					if d := diffConserved(got[t+1], want); d != "" {
						rep.Violation("combine-segs/"+whichField(d), fmt.Sprintf("track %d: combined segment does not conserve the samples: %s", t+1, d), cs)
					}
				}
			}
			judged = true
		}
	}
	return judged
}

func segNr(path string) int {
	base := filepath.Base(path)
	n := 0
	// number between the last '_' and ".m4s"
	i := len(base) - 5
	mul := 1
	for i >= 0 && base[i] >= '0' && base[i] <= '9' {
		n += int(base[i]-'0') * mul
		mul *= 10
		i--
	}
	return n
}

func c11Frag(rep *Report, c *segCase, dir, resegBin string, note func(string, bool)) bool {
	tr := c.Track
	tr.Indep = c.Indep
	in := fragFileOf(tr, c.Frags, c.TwoTruns, 1)
	want := expectedOf(tr, 1)
	cs := J{"tool": "resegmenter", "d": c.D, "frags": c.Frags, "twotruns": c.TwoTruns, "sync": tr.Sync, "indep": c.Indep, "ctts": len(tr.Ctos) > 0}
	judged := false
	inPath := filepath.Join(dir, "in.mp4")
	outPath := filepath.Join(dir, "out.mp4")
	_ = ioutil.WriteFile(inPath, in, 0644)
	cmd := exec.Command(resegBin, "-d", fmt.Sprint(c.D), inPath, outPath)
	cmd.Dir = dir
	if err := cmd.Run(); err != nil {
		note("resegmenter", false)
	} else {
		note("resegmenter", true)
		judged = true
		out, _ := ioutil.ReadFile(outPath)
		got, err := isoReadFragments(out)
		if err != nil {
			rep.Violation("resegmenter/output-unreadable", "resegmenter output not readable: "+err.Error(), cs)
		} else {
			if d := diffConserved(got[1], want); d != "" {
				key := "resegmenter/" + whichField(d)
				if c.TwoTruns {
					key += "/multi-trun-input"
				}
				rep.Violation(key, "resegmented output does not conserve the sample sequence: "+d, cs)
			}
			syncs, err := firstSamplesSync(out, 1)
			if err != nil {
				rep.Drift("resegmenter/first-samples-unreadable", err.Error(), cs)
			} else {
				for k, ok := range syncs {
					if !ok {
						rep.Violation("resegmenter/segment-starts-non-sync", fmt.Sprintf("segment %d does not start with a sync sample", k+1), cs)
						break
					}
				}
			}
		}
	}
	// Fragmentify (library): split every segment into fragments of duration d
	func() {
		cs := J{"tool": "Fragmentify", "d": c.D, "frags": c.Frags, "twotruns": c.TwoTruns}
		defer func() {
			if r := recover(); r != nil {
				rep.Violation("fragmentify/panic", fmt.Sprintf("Fragmentify panics: %v", r), cs)
			}
		}()
		f, err := mp4.DecodeFile(bytes.NewReader(in))
		if err != nil {
			return
		}
		trex := f.Init.Moov.Mvex.Trex
		var buf bytes.Buffer
		if err := f.Init.Encode(&buf); err != nil {
			return
		}
		for _, seg := range f.Segments {
			frs, err := seg.Fragmentify(uint64(tr.Ts), trex, uint32(c.D))
			if err != nil {
				rep.Violation("fragmentify/error", "Fragmentify fails: "+err.Error(), cs)
				return
			}
			ns := mp4.NewMediaSegment()
			for _, fr := range frs {
				ns.AddFragment(fr)
			}
			if err := ns.Encode(&buf); err != nil {
				rep.Violation("fragmentify/encode-error", "encoding fragmentified segment fails: "+err.Error(), cs)
				return
			}
		}
		got, err := isoReadFragments(buf.Bytes())
		if err != nil {
			rep.Violation("fragmentify/output-unreadable", err.Error(), cs)
			return
		}
		if d := diffConserved(got[1], want); d != "" {
			key := "fragmentify/" + whichField(d)
			if c.TwoTruns {
				key += "/multi-trun-input"
			}
			rep.Violation(key, "fragmentified segment does not conserve the sample sequence: "+d, cs)
		}
		judged = true
		note("Fragmentify", true)
	}()
	return judged
}
