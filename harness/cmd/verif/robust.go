package main

// Robustness monitor shared by C04 (container input) and C16 (elementary-stream input):
// runs every entry point on every input inside recover(), measures wall time and allocated bytes,
// and records one event per (input, entry point). A progress file lets the orchestrator attribute a
// fatal crash (out of memory, stack overflow) of this worker to the input being processed.

import (
	"bytes"
	"encoding/hex"
	"encoding/binary"
	"encoding/json"
	"fmt"
	"io/ioutil"
	"os"
	"path/filepath"
	"regexp"
	"runtime"
	"sync"
	"time"

	"github.com/Eyevinn/mp4ff/aac"
	"github.com/Eyevinn/mp4ff/av1"
	"github.com/Eyevinn/mp4ff/avc"
	"github.com/Eyevinn/mp4ff/bits"
	"github.com/Eyevinn/mp4ff/hevc"
	"github.com/Eyevinn/mp4ff/mp4"
	"github.com/Eyevinn/mp4ff/sei"
)

func init() {
	register("robust-run", robustRun)
	register("c16-inits", c16Inits)
}

type robustInput struct {
	ID    string `json:"id"`
	Kind  string `json:"kind"` // which entry-point family applies
	Bytes []int  `json:"bytes"`
	Hex   string `json:"hex"`
}

type entryPoint struct {
	name string
	f    func(b []byte)
}

var refSpsAvc, refSpsHevc interface{}

func avcMaps() (map[uint32]*avc.SPS, map[uint32]*avc.PPS) {
	loadCorpusPS()
	spsMap, ppsMap := map[uint32]*avc.SPS{}, map[uint32]*avc.PPS{}
	for _, n := range corpusSPS {
		if s, err := avc.ParseSPSNALUnit(n, true); err == nil {
			spsMap[s.ParameterID] = s
		}
	}
	for _, n := range corpusPPS {
		if p, err := avc.ParsePPSNALUnit(n, spsMap); err == nil {
			ppsMap[p.PicParameterSetID] = p
		}
	}
	return spsMap, ppsMap
}

func hevcMaps() (map[uint32]*hevc.SPS, map[uint32]*hevc.PPS) {
	ctx := hevcContexts()
	return ctx[0].sps, ctx[0].pps
}

type hevcCtx struct {
	sps map[uint32]*hevc.SPS
	pps map[uint32]*hevc.PPS
}

var hexLit = regexp.MustCompile(`"([0-9a-fA-F]{16,})"`)

// hevcContexts: one (SPS map, PPS map) per distinct HEVC SPS found among the repository's own test
// vectors (hex literals in hevc/*_test.go) so that slice headers are parsed against SPSs with
// different numbers of short-term RPS sets, bit depths etc.
func hevcContexts() []hevcCtx {
	var out []hevcCtx
	mk := func(spsBytes []byte) {
		s, err := hevc.ParseSPSNALUnit(spsBytes)
		if err != nil || s == nil {
			return
		}
		spsMap := map[uint32]*hevc.SPS{uint32(s.SpsID): s}
		ppsMap := map[uint32]*hevc.PPS{}
		if p, err := hevc.ParsePPSNALUnit(unhex(hevcPPSnalu), spsMap); err == nil {
			ppsMap[p.PicParameterSetID] = p
		}
		out = append(out, hevcCtx{spsMap, ppsMap})
	}
	mk(unhex(hevcSPSnalu))
	seen := map[string]bool{hevcSPSnalu: true}
	files, _ := filepath.Glob("/repo/hevc/*_test.go")
	for _, f := range files {
		data, err := ioutil.ReadFile(f)
		if err != nil {
			continue
		}
		for _, m := range hexLit.FindAllSubmatch(data, -1) {
			h := string(m[1])
			if len(h)%2 != 0 || seen[h] || len(out) >= 8 {
				continue
			}
			seen[h] = true
			b := unhex(h)
			if len(b) > 2 && (b[0]>>1)&0x3f == 33 {
				func() {
					defer func() { _ = recover() }()
					mk(b)
				}()
			}
		}
	}
	return out
}

func callSEI(msgs []sei.SEIMessage) {
	for _, m := range msgs {
		if m == nil {
			continue
		}
		_ = m.String()
		_ = m.Payload()
		_ = m.Size()
		_ = m.Type()
	}
}

func esEntryPoints() map[string][]entryPoint {
	aS, aP := avcMaps()
	hS, hP := hevcMaps()
	hCtx := hevcContexts()
	var anyAvcSps *avc.SPS
	for _, s := range aS {
		anyAvcSps = s
	}
	var anyHevcSps *hevc.SPS
	for _, s := range hS {
		anyHevcSps = s
	}
	cp := func(b []byte) []byte { return append([]byte{}, b...) }
	sample := []entryPoint{
		{"avc.GetNalusFromSample", func(b []byte) { _, _ = avc.GetNalusFromSample(b) }},
		{"avc.FindNaluTypes", func(b []byte) { _ = avc.FindNaluTypes(b) }},
		{"avc.FindNaluTypesUpToFirstVideoNALU", func(b []byte) { _ = avc.FindNaluTypesUpToFirstVideoNALU(b) }},
		{"avc.ContainsNaluType", func(b []byte) { _ = avc.ContainsNaluType(b, avc.NALU_SPS) }},
		{"avc.IsIDRSample", func(b []byte) { _ = avc.IsIDRSample(b) }},
		{"avc.HasParameterSets", func(b []byte) { _ = avc.HasParameterSets(b) }},
		{"avc.GetParameterSets", func(b []byte) { _, _ = avc.GetParameterSets(b) }},
		{"avc.ConvertSampleToByteStream", func(b []byte) { _ = avc.ConvertSampleToByteStream(cp(b)) }},
		{"hevc.FindNaluTypes", func(b []byte) { _ = hevc.FindNaluTypes(b) }},
		{"hevc.FindNaluTypesUpToFirstVideoNalu", func(b []byte) { _ = hevc.FindNaluTypesUpToFirstVideoNalu(b) }},
		{"hevc.ContainsNaluType", func(b []byte) { _ = hevc.ContainsNaluType(b, hevc.NALU_SPS) }},
		{"hevc.IsRAPSample", func(b []byte) { _ = hevc.IsRAPSample(b) }},
		{"hevc.IsIDRSample", func(b []byte) { _ = hevc.IsIDRSample(b) }},
		{"hevc.HasParameterSets", func(b []byte) { _ = hevc.HasParameterSets(b) }},
		{"hevc.GetParameterSets", func(b []byte) { _, _, _ = hevc.GetParameterSets(b) }},
		{"mp4.GetAVCProtectRanges", func(b []byte) { _, _ = mp4.GetAVCProtectRanges(aS, aP, b, "cenc") }},
		{"mp4.GetHEVCProtectRanges", func(b []byte) { _, _ = mp4.GetHEVCProtectRanges(hS, hP, b, "cenc") }},
	}
	stream := []entryPoint{
		{"avc.ExtractNalusFromByteStream", func(b []byte) { _ = avc.ExtractNalusFromByteStream(b) }},
		{"avc.ConvertByteStreamToNaluSample", func(b []byte) { _ = avc.ConvertByteStreamToNaluSample(cp(b)) }},
		{"avc.GetParameterSetsFromByteStream", func(b []byte) { _, _ = avc.GetParameterSetsFromByteStream(cp(b)) }},
		{"avc.ExtractNalusOfTypeFromByteStream", func(b []byte) { _ = avc.ExtractNalusOfTypeFromByteStream(avc.NALU_SPS, b, true) }},
		{"avc.GetFirstAVCVideoNALUFromByteStream", func(b []byte) { _ = avc.GetFirstAVCVideoNALUFromByteStream(b) }},
		{"hevc.GetParameterSetsFromByteStream", func(b []byte) { _, _, _ = hevc.GetParameterSetsFromByteStream(cp(b)) }},
		{"hevc.ExtractNalusOfTypeFromByteStream", func(b []byte) { _ = hevc.ExtractNalusOfTypeFromByteStream(hevc.NALU_SPS, b, false) }},
	}
	nalAvc := []entryPoint{
		{"avc.ParseSPSNALUnit(full)", func(b []byte) { _, _ = avc.ParseSPSNALUnit(b, true) }},
		{"avc.ParseSPSNALUnit(short)", func(b []byte) { _, _ = avc.ParseSPSNALUnit(b, false) }},
		{"avc.ParsePPSNALUnit", func(b []byte) { _, _ = avc.ParsePPSNALUnit(b, aS) }},
		{"avc.ParseSliceHeader", func(b []byte) { _, _ = avc.ParseSliceHeader(b, aS, aP) }},
		{"avc.GetSliceTypeFromNALU", func(b []byte) { _, _ = avc.GetSliceTypeFromNALU(b) }},
		{"avc.ParseSEINalu", func(b []byte) { m, _ := avc.ParseSEINalu(b, anyAvcSps); callSEI(m) }},
		{"avc.ParseSEINalu(nil sps)", func(b []byte) { m, _ := avc.ParseSEINalu(b, nil); callSEI(m) }},
		{"avc.CreateAVCDecConfRec", func(b []byte) { _, _ = avc.CreateAVCDecConfRec([][]byte{b}, nil, true) }},
	}
	nalHevc := []entryPoint{
		{"hevc.ParseSPSNALUnit", func(b []byte) { _, _ = hevc.ParseSPSNALUnit(b) }},
		{"hevc.ParsePPSNALUnit", func(b []byte) { _, _ = hevc.ParsePPSNALUnit(b, hS) }},
		{"hevc.ParseSliceHeader", func(b []byte) {
			for _, c := range hCtx {
				_, _ = hevc.ParseSliceHeader(b, c.sps, c.pps)
			}
		}},
		{"hevc.ParseSEINalu", func(b []byte) { m, _ := hevc.ParseSEINalu(b, anyHevcSps); callSEI(m) }},
		{"hevc.ParseSEINalu(nil sps)", func(b []byte) { m, _ := hevc.ParseSEINalu(b, nil); callSEI(m) }},
	}
	seiEP := []entryPoint{
		{"sei.ExtractSEIData+Decode", func(b []byte) {
			sds, _ := sei.ExtractSEIData(bytes.NewReader(b))
			for i := range sds {
				for _, c := range []sei.Codec{sei.AVC, sei.HEVC} {
					m, _ := sei.DecodeSEIMessage(&sds[i], c)
					callSEI([]sei.SEIMessage{m})
				}
			}
		}},
	}
	seiPayload := []entryPoint{}
	for _, t := range []uint{1, 4, 5, 136, 137, 144, 6, 45} {
		t := t
		seiPayload = append(seiPayload, entryPoint{fmt.Sprintf("sei.DecodeSEIMessage(type %d)", t), func(b []byte) {
			for _, c := range []sei.Codec{sei.AVC, sei.HEVC} {
				m, _ := sei.DecodeSEIMessage(sei.NewSEIData(t, b), c)
				callSEI([]sei.SEIMessage{m})
			}
			if t == 1 {
				m, _ := sei.DecodePicTimingAvcSEIHRD(sei.NewSEIData(1, b), &sei.CbpDbpDelay{CpbRemovalDelayLengthMinus1: 23, DpbOutputDelayLengthMinus1: 23}, 24)
				callSEI([]sei.SEIMessage{m})
				m2, _ := sei.DecodePicTimingHevcSEI(sei.NewSEIData(1, b), sei.HEVCPicTimingParams{})
				callSEI([]sei.SEIMessage{m2})
			}
			if t == 4 {
				if c, err := sei.ExtractCEA608sei(sei.NewSEIData(4, b)); err == nil && c != nil {
					_ = c.String()
				}
			}
		}})
	}
	cfg := []entryPoint{
		{"aac.DecodeADTSHeader", func(b []byte) { _, _, _ = aac.DecodeADTSHeader(bytes.NewReader(b)) }},
		{"aac.DecodeAudioSpecificConfig", func(b []byte) { _, _ = aac.DecodeAudioSpecificConfig(bytes.NewReader(b)) }},
		{"avc.DecodeAVCDecConfRec", func(b []byte) { _, _ = avc.DecodeAVCDecConfRec(b) }},
		{"hevc.DecodeHEVCDecConfRec", func(b []byte) { _, _ = hevc.DecodeHEVCDecConfRec(b) }},
		{"av1.DecodeAV1CodecConfRec", func(b []byte) { _, _ = av1.DecodeAV1CodecConfRec(b) }},
		{"mp4.DecodeDescriptor(esds)", func(b []byte) {
			_, _ = mp4.DecodeBoxSR(0, bits.NewFixedSliceReader(mkFull("esds", 0, 0, b)))
		}},
	}
	all := append(append(append(append(append(append(append([]entryPoint{}, sample...), stream...), nalAvc...), nalHevc...), seiEP...), seiPayload...), cfg...)
	// "ctx" kinds: the input is a length-prefixed NAL unit sequence that brings its own context - parameter sets are
	// parsed first and every later PPS / slice header / SEI is parsed against what was accepted before it
	nalsOf := func(b []byte) [][]byte {
		var out [][]byte
		for pos := 0; pos+4 <= len(b); {
			n := int(binary.BigEndian.Uint32(b[pos:]))
			if n < 0 || pos+4+n > len(b) {
				break
			}
			out = append(out, b[pos+4:pos+4+n])
			pos += 4 + n
		}
		return out
	}
	ctxAvc := []entryPoint{{"avc context: SPS, PPS, slice header, SEI in sequence", func(b []byte) {
		sm, pm := map[uint32]*avc.SPS{}, map[uint32]*avc.PPS{}
		var last *avc.SPS
		for _, n := range nalsOf(b) {
			if len(n) == 0 {
				continue
			}
			switch avc.GetNaluType(n[0]) {
			case avc.NALU_SPS:
				if sp, err := avc.ParseSPSNALUnit(n, true); err == nil && sp != nil {
					sm[uint32(sp.ParameterID)] = sp
					last = sp
				}
			case avc.NALU_PPS:
				if pp, err := avc.ParsePPSNALUnit(n, sm); err == nil && pp != nil {
					pm[uint32(pp.PicParameterSetID)] = pp
				}
			case avc.NALU_SEI:
				m, _ := avc.ParseSEINalu(n, last)
				callSEI(m)
			default:
				_, _ = avc.ParseSliceHeader(n, sm, pm)
			}
		}
		_, _ = mp4.GetAVCProtectRanges(sm, pm, b, "cbcs")
	}}}
	ctxHevc := []entryPoint{{"hevc context: SPS, PPS, slice header, SEI in sequence", func(b []byte) {
		sm, pm := map[uint32]*hevc.SPS{}, map[uint32]*hevc.PPS{}
		var last *hevc.SPS
		for _, n := range nalsOf(b) {
			if len(n) < 2 {
				continue
			}
			switch t := hevc.GetNaluType(n[0]); {
			case t == hevc.NALU_SPS:
				if sp, err := hevc.ParseSPSNALUnit(n); err == nil && sp != nil {
					sm[uint32(sp.SpsID)] = sp
					last = sp
				}
			case t == hevc.NALU_PPS:
				if pp, err := hevc.ParsePPSNALUnit(n, sm); err == nil && pp != nil {
					pm[pp.PicParameterSetID] = pp
				}
			case t == hevc.NALU_SEI_PREFIX || t == hevc.NALU_SEI_SUFFIX:
				m, _ := hevc.ParseSEINalu(n, last)
				callSEI(m)
			case t < 32:
				_, _ = hevc.ParseSliceHeader(n, sm, pm)
			}
		}
		_, _ = mp4.GetHEVCProtectRanges(sm, pm, b, "cbcs")
	}}}
	return map[string][]entryPoint{"sample": sample, "stream": stream, "nal-avc": nalAvc, "nal-hevc": nalHevc, "ctx-avc": ctxAvc, "ctx-hevc": ctxHevc, "sei-nal": append(append([]entryPoint{}, seiEP...), nalAvc[5], nalHevc[3]),
		"sei-payload": seiPayload, "config": cfg, "any": all}
}

func containerEntryPoints() map[string][]entryPoint {
	decodeAnd := func(name string, dec func(b []byte) (*mp4.File, error)) entryPoint {
		return entryPoint{name, func(b []byte) {
			f, err := dec(b)
			if err != nil || f == nil {
				return
			}
			for _, lvl := range []string{"", "all:1", "all:2", "trun:1,senc:1"} {
				_ = f.Info(ioutil.Discard, lvl, "", "  ")
			}
			for _, mode := range []mp4.EncFragFileMode{mp4.EncModeSegment, mp4.EncModeBoxTree} {
				for _, opt := range []mp4.EncOptimize{mp4.OptimizeNone, mp4.OptimizeTrun} {
					f.FragEncMode, f.EncOptimize = mode, opt
					_ = f.Encode(ioutil.Discard)
					if len(b) < 1<<20 {
						sw := bits.NewFixedSliceWriter(len(b)*2 + 1024)
						_ = f.EncodeSW(sw)
					}
				}
			}
		}}
	}
	var eps []entryPoint
	for _, fl := range []struct {
		n string
		f mp4.DecFileFlags
	}{{"none", mp4.DecNoFlags}, {"ism", mp4.DecISMFlag}, {"onmoof", mp4.DecStartOnMoof}, {"ism+onmoof", mp4.DecISMFlag | mp4.DecStartOnMoof}} {
		fl := fl
		eps = append(eps, decodeAnd("DecodeFile("+fl.n+")", func(b []byte) (*mp4.File, error) {
			return mp4.DecodeFile(bytes.NewReader(b), mp4.WithDecodeFlags(fl.f))
		}))
		eps = append(eps, decodeAnd("DecodeFile(lazy,"+fl.n+")", func(b []byte) (*mp4.File, error) {
			return mp4.DecodeFile(bytes.NewReader(b), mp4.WithDecodeFlags(fl.f), mp4.WithDecodeMode(mp4.DecModeLazyMdat))
		}))
		eps = append(eps, decodeAnd("DecodeFileSR("+fl.n+")", func(b []byte) (*mp4.File, error) {
			return mp4.DecodeFileSR(bits.NewFixedSliceReader(b), mp4.WithDecodeFlags(fl.f))
		}))
	}
	boxLoop := func(name string, sr bool) entryPoint {
		return entryPoint{name, func(b []byte) {
			pos := uint64(0)
			rd := bytes.NewReader(b)
			srd := bits.NewFixedSliceReader(b)
			for i := 0; i < 10000; i++ {
				var bx mp4.Box
				var err error
				if sr {
					if srd.NrRemainingBytes() == 0 {
						return
					}
					bx, err = mp4.DecodeBoxSR(pos, srd)
				} else {
					bx, err = mp4.DecodeBox(pos, rd)
				}
				if err != nil || bx == nil {
					return
				}
				_ = bx.Info(ioutil.Discard, "all:1", "", " ")
				_ = bx.Encode(ioutil.Discard)
				if bx.Size() == 0 {
					return
				}
				pos += bx.Size()
			}
		}}
	}
	eps = append(eps, boxLoop("DecodeBox loop", false), boxLoop("DecodeBoxSR loop", true))
	return map[string][]entryPoint{"file": eps, "any": eps}
}

func robustRun(args []string) error {
	target := argValue(args, "-target", "c16")
	var eps map[string][]entryPoint
	if target == "c16" {
		eps = esEntryPoints()
	} else {
		eps = containerEntryPoints()
	}
	start := argInt(args, "-start", 0)
	progress := argValue(args, "-progress", "progress.txt")
	tw, err := newTraceWriter(argValue(args, "-trace", "trace.ndjson"))
	if err != nil {
		return err
	}
	defer tw.Close()
	rep := newReport()
	idx := -1
	runtime.GOMAXPROCS(2)
	// watchdog: an entry point that does not return within the hard limit ends the worker; the
	// orchestrator attributes the death to the input in the progress file
	var wdMu sync.Mutex
	wdName, wdStart := "", time.Time{}
	go func() {
		for {
			time.Sleep(200 * time.Millisecond)
			wdMu.Lock()
			n, st := wdName, wdStart
			wdMu.Unlock()
			if n != "" && time.Since(st) > 6*time.Second {
				fmt.Fprintf(os.Stderr, "fatal error: watchdog: %s did not return within 6 s (unbounded loop)\n", n)
				buf := make([]byte, 1<<16)
				k := runtime.Stack(buf, true)
				os.Stderr.Write(buf[:k])
				os.Exit(3)
			}
		}
	}()
	err = readLines(argValue(args, "-in", "-"), func(line []byte) error {
		idx++
		if idx < start {
			return nil
		}
		var in robustInput
		if err := json.Unmarshal(line, &in); err != nil {
			return err
		}
		data := ints2bytes(in.Bytes)
		if in.Hex != "" {
			data = unhex(in.Hex)
		}
		_ = ioutil.WriteFile(progress, []byte(fmt.Sprintf("%d %s\n", idx, in.ID)), 0644)
		list := eps[in.Kind]
		if list == nil {
			list = eps["any"]
		}
		tw.Reset(J{"id": in.ID, "kind": in.Kind, "len": len(data), "idx": idx})
		tw.w.Flush()
		var maxUs, maxAlloc int64
		nOK := 0
		for _, ep := range list {
			var ms0, ms1 runtime.MemStats
			runtime.ReadMemStats(&ms0)
			t0 := time.Now()
			outcome, what := "ok", ""
			wdMu.Lock()
			wdName, wdStart = ep.name, t0
			wdMu.Unlock()
			func() {
				defer func() {
					if r := recover(); r != nil {
						outcome, what = "panic", fmt.Sprint(r)
						buf := make([]byte, 4096)
						n := runtime.Stack(buf, false)
						what += " @ " + topFrame(string(buf[:n]))
					}
				}()
				ep.f(data)
			}()
			wdMu.Lock()
			wdName = ""
			wdMu.Unlock()
			us := time.Since(t0).Microseconds()
			runtime.ReadMemStats(&ms1)
			alloc := int64(ms1.TotalAlloc-ms0.TotalAlloc) / 1024
			// wall time depends on what else the machine is doing: a call that returned but took too long is measured
			// again (twice at most) and the shortest time counts; a slow code path is slow every time, a busy machine is not
			for retry := 0; retry < 2 && outcome == "ok" && us > 2000000+20*int64(len(data)); retry++ {
				t1 := time.Now()
				wdMu.Lock()
				wdName, wdStart = ep.name, t1
				wdMu.Unlock()
				func() {
					defer func() {
						if r := recover(); r != nil {
							outcome, what = "panic", fmt.Sprint(r)
						}
					}()
					ep.f(data)
				}()
				wdMu.Lock()
				wdName = ""
				wdMu.Unlock()
				if u := time.Since(t1).Microseconds(); u < us {
					us = u
				}
			}
			over := us > 2000000+20*int64(len(data)) || alloc > 16384+int64(len(data))
			if outcome != "ok" || over {
				// one event per failing entry point (the summary event below covers the others)
				tw.Ev(J{"ev": "call", "ep": ep.name, "outcome": outcome, "what": what, "us": us, "alloc_kb": alloc, "len": len(data)})
				continue
			}
			nOK++
			if us > maxUs {
				maxUs = us
			}
			if alloc > maxAlloc {
				maxAlloc = alloc
			}
		}
		tw.Ev(J{"ev": "call", "ep": fmt.Sprintf("%d entry points", nOK), "outcome": "ok", "what": "", "us": maxUs, "alloc_kb": maxAlloc, "len": len(data)})
		rep.Count(in.ID, true, nil)
		return nil
	})
	tw.w.Flush()
	_ = os.Remove(progress)
	rep.Extra["events"] = tw.N
	rep.Extra["traces"] = tw.T
	rep.Done()
	return err
}

// topFrame extracts the first mp4ff frame of a stack dump (the panic site).
func topFrame(stack string) string {
	lines := bytes.Split([]byte(stack), []byte("\n"))
	for i, l := range lines {
		if bytes.Contains(l, []byte("github.com/Eyevinn/mp4ff/")) && !bytes.Contains(l, []byte("verifharness")) {
			fn := string(bytes.TrimSpace(l))
			if p := bytes.LastIndexByte([]byte(fn), '('); p > 0 {
				fn = fn[:p]
			}
			loc := ""
			if i+1 < len(lines) {
				loc = string(bytes.TrimSpace(lines[i+1]))
				if sp := bytes.IndexByte([]byte(loc), ' '); sp > 0 {
					loc = loc[:sp]
				}
				if sl := bytes.LastIndex([]byte(loc), []byte("/mp4ff/")); sl >= 0 {
					loc = loc[sl+7:]
				} else if sl := bytes.LastIndex([]byte(loc), []byte("/repo/")); sl >= 0 {
					loc = loc[sl+6:]
				}
			}
			if sl := bytes.LastIndex([]byte(fn), []byte("/mp4ff/")); sl >= 0 {
				fn = fn[sl+7:]
			}
			return fn + " " + loc
		}
	}
	return "?"
}

// c16Inits prints init segments built through the public API, one per sample entry type, with the parameter sets inside
// the decoder configuration record (avc1, hvc1) or without them (avc3, hev1: parameter sets travel in band).
func c16Inits(args []string) error {
	unhex := func(name string) []byte {
		b, _ := hex.DecodeString(argValue(args, name, ""))
		return b
	}
	avcSPS, avcPPS := unhex("-avcsps"), unhex("-avcpps")
	vps, sps, pps := unhex("-vps"), unhex("-sps"), unhex("-pps")
	for _, v := range []struct {
		entry string
		hevc  bool
		incl  bool
	}{{"avc1", false, true}, {"avc3", false, false}, {"hvc1", true, true}, {"hev1", true, false}} {
		init := mp4.CreateEmptyInit()
		init.AddEmptyTrack(90000, "video", "und")
		var err error
		if v.hevc {
			err = init.Moov.Trak.SetHEVCDescriptor(v.entry, [][]byte{vps}, [][]byte{sps}, [][]byte{pps}, nil, v.incl)
		} else {
			err = init.Moov.Trak.SetAVCDescriptor(v.entry, [][]byte{avcSPS}, [][]byte{avcPPS}, v.incl)
		}
		if err != nil {
			return fmt.Errorf("%s: %w", v.entry, err)
		}
		var buf bytes.Buffer
		if err := init.Encode(&buf); err != nil {
			return err
		}
		emit(J{"type": "init", "entry": v.entry, "parameter_sets_in_record": v.incl, "hex": hex.EncodeToString(buf.Bytes())})
	}
	return nil
}
