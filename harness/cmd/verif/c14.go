package main

// C14: NAL unit framing. Replays AnnexB.tla behaviours (windows, structured unit streams) into
// the real avc / hevc helpers and records traces of long random streams for AnnexBTrace.tla.

import (
	"bytes"
	"encoding/binary"
	"encoding/json"
	"fmt"
	"math/rand"

	"github.com/Eyevinn/mp4ff/avc"
	"github.com/Eyevinn/mp4ff/hevc"
)

func init() {
	register("c14-replay", c14Replay)
	register("c14-drive", c14Drive)
}

type scRec struct {
	Pos int `json:"pos"`
	Len int `json:"len"`
}

type c14Case struct {
	Mode         string  `json:"mode"`
	Codec        string  `json:"codec"`
	Units        [][]int `json:"units"`
	Scs          []int   `json:"scs"`
	Stream       []int   `json:"stream"`
	Sample       []int   `json:"sample"`
	Back         []int   `json:"back"`
	Scan         []scRec `json:"scan"`
	Types        []int   `json:"types"`
	TypesToVideo []int   `json:"typesToVideo"`
	Sps          [][]int `json:"sps"`
	Pps          [][]int `json:"pps"`
	Vps          [][]int `json:"vps"`
	HasPS        bool    `json:"hasPS"`
	FirstVideo   []int   `json:"firstVideo"`
	HasVideo     bool    `json:"hasVideo"`
	PerType      []struct {
		T      int     `json:"t"`
		All    [][]int `json:"all"`
		Before [][]int `json:"before"`
	} `json:"perType"`
}

func eqUnits(got [][]byte, want [][]int) bool {
	if len(got) != len(want) {
		return false
	}
	for i := range got {
		if !bytes.Equal(got[i], ints2bytes(want[i])) {
			return false
		}
	}
	return true
}

func unitsJ(u [][]byte) [][]int {
	r := make([][]int, len(u))
	for i := range u {
		r[i] = bytes2ints(u[i])
	}
	return r
}

func eqInts(a, b []int) bool {
	if len(a) != len(b) {
		return false
	}
	for i := range a {
		if a[i] != b[i] {
			return false
		}
	}
	return true
}

// guarded runs f and reports a panic as a violation of the helper named key.
func guarded(rep *Report, key string, cs J, f func()) {
	defer func() {
		if r := recover(); r != nil {
			rep.Violation(key+"/panic", fmt.Sprintf("%s panics on a well-formed input: %v", key, r), cs)
		}
	}()
	f()
}

func scanOf(stream []byte) ([]scRec, int) {
	pos, minLen := avc.VerifStartCodePositions(stream)
	r := make([]scRec, len(pos))
	for i, p := range pos {
		r[i] = scRec{p[0], p[1]}
	}
	return r, minLen
}

func eqScan(a, b []scRec) bool {
	if len(a) != len(b) {
		return false
	}
	for i := range a {
		if a[i] != b[i] {
			return false
		}
	}
	return true
}

func c14Replay(args []string) error {
	rep := newReport()
	rng := rand.New(rand.NewSource(seedFromEnv()))
	err := readLines(argValue(args, "-in", "-"), func(line []byte) error {
		var c c14Case
		if err := json.Unmarshal(line, &c); err != nil {
			return err
		}
		stream := ints2bytes(c.Stream)
		if c.Mode == "windows" {
			// concretise the filler / "other" class (value 2) with seeded bytes >= 2
			for variant := 0; variant < 2; variant++ {
				s := append([]byte{}, stream...)
				if variant == 1 {
					for i := range s {
						if s[i] == 2 {
							s[i] = byte(2 + rng.Intn(254))
						}
					}
				}
				cs := J{"stream": bytes2ints(s), "expected": c.Scan}
				guarded(rep, "scanner", cs, func() {
					got, _ := scanOf(s)
					if !eqScan(got, c.Scan) {
						cs["observed"] = got
						rep.Violation("scanner/start-codes", "word-at-a-time scanner disagrees with the byte-by-byte scan", cs)
					}
				})
			}
			var sample interface{}
			if len(c.Scan) == 2 {
				sample = J{"stream": c.Stream, "scan": c.Scan}
			}
			rep.Count(string(line), len(c.Scan) > 0, sample)
			return nil
		}
		// ---- structured streams
		sample := ints2bytes(c.Sample)
		back := ints2bytes(c.Back)
		cs := J{"codec": c.Codec, "units": c.Units, "scs": c.Scs}
		guarded(rep, "scanner", cs, func() {
			got, _ := scanOf(stream)
			if !eqScan(got, c.Scan) {
				rep.Violation("scanner/start-codes", "scanner disagrees with the start codes laid down", J{"case": cs, "observed": got, "expected": c.Scan})
			}
		})
		guarded(rep, "ConvertByteStreamToNaluSample", cs, func() {
			got := avc.ConvertByteStreamToNaluSample(append([]byte{}, stream...))
			if !bytes.Equal(got, sample) {
				rep.Violation("tosample/bytes", "ConvertByteStreamToNaluSample does not yield the NAL units behind 4-byte lengths",
					J{"case": cs, "observed": bytes2ints(got), "expected": c.Sample})
			}
		})
		guarded(rep, "ConvertSampleToByteStream", cs, func() {
			got := avc.ConvertSampleToByteStream(append([]byte{}, sample...))
			if !bytes.Equal(got, back) {
				rep.Violation("tobytestream/bytes", "ConvertSampleToByteStream does not yield the units behind 4-byte start codes",
					J{"case": cs, "observed": bytes2ints(got), "expected": c.Back})
			}
		})
		guarded(rep, "ExtractNalusFromByteStream", cs, func() {
			for _, s := range [][]byte{stream, back} {
				got := avc.ExtractNalusFromByteStream(s)
				if !eqUnits(got, c.Units) {
					rep.Violation("extract/units", "ExtractNalusFromByteStream differs from the NAL unit sequence", J{"case": cs, "observed": unitsJ(got)})
				}
			}
		})
		guarded(rep, "GetNalusFromSample", cs, func() {
			got, err := avc.GetNalusFromSample(sample)
			if err != nil || !eqUnits(got, c.Units) {
				rep.Violation("getnalus/units", "GetNalusFromSample differs from the NAL unit sequence", J{"case": cs, "observed": unitsJ(got), "err": fmt.Sprint(err)})
			}
		})
		anyIn := func(lo, hi int) bool {
			for _, t := range c.Types {
				if lo <= t && t <= hi {
					return true
				}
			}
			return false
		}
		if c.Codec == "avc" {
			guarded(rep, "avc.FindNaluTypes", cs, func() {
				got := avc.FindNaluTypes(sample)
				gi := make([]int, len(got))
				for i, t := range got {
					gi[i] = int(t)
				}
				if !eqInts(gi, c.Types) {
					rep.Violation("avc/findtypes", "FindNaluTypes differs from the unit types", J{"case": cs, "observed": gi})
				}
			})
			guarded(rep, "avc.FindNaluTypesUpToFirstVideoNALU", cs, func() {
				got := avc.FindNaluTypesUpToFirstVideoNALU(sample)
				gi := make([]int, len(got))
				for i, t := range got {
					gi[i] = int(t)
				}
				if !eqInts(gi, c.TypesToVideo) {
					rep.Violation("avc/findtypes-to-video", "FindNaluTypesUpToFirstVideoNALU differs from the unit types up to the first video unit", J{"case": cs, "observed": gi})
				}
			})
			guarded(rep, "avc.ContainsNaluType", cs, func() {
				for _, pt := range c.PerType {
					if avc.ContainsNaluType(sample, avc.NaluType(pt.T)) != (len(pt.All) > 0) {
						rep.Violation("avc/contains", "ContainsNaluType disagrees with the unit sequence", J{"case": cs, "type": pt.T})
					}
				}
				if avc.IsIDRSample(sample) != anyIn(5, 5) {
					rep.Violation("avc/isidr", "IsIDRSample disagrees with the unit sequence", cs)
				}
			})
			guarded(rep, "avc.HasParameterSets", cs, func() {
				if avc.HasParameterSets(sample) != c.HasPS {
					rep.Violation("avc/hasps", "HasParameterSets disagrees with the unit sequence", cs)
				}
			})
			guarded(rep, "avc.GetParameterSets", cs, func() {
				sps, pps := avc.GetParameterSets(sample)
				if !eqUnits(sps, c.Sps) || !eqUnits(pps, c.Pps) {
					rep.Violation("avc/getps-sample", "GetParameterSets differs from the SPS/PPS units of the sample", J{"case": cs, "sps": unitsJ(sps), "pps": unitsJ(pps)})
				}
			})
			guarded(rep, "avc.GetParameterSetsFromByteStream", cs, func() {
				sps, pps := avc.GetParameterSetsFromByteStream(append([]byte{}, stream...))
				if !eqUnits(sps, c.Sps) || !eqUnits(pps, c.Pps) {
					key := "avc/getps-bytestream"
					if !c.HasVideo {
						key = "avc/getps-bytestream/no-video-unit-follows"
					}
					rep.Violation(key, "GetParameterSetsFromByteStream differs from the SPS/PPS units of the stream",
						J{"case": cs, "sps": unitsJ(sps), "pps": unitsJ(pps), "expected_sps": c.Sps, "expected_pps": c.Pps})
				}
			})
			guarded(rep, "avc.GetFirstAVCVideoNALUFromByteStream", cs, func() {
				got := avc.GetFirstAVCVideoNALUFromByteStream(stream)
				if !bytes.Equal(got, ints2bytes(c.FirstVideo)) {
					rep.Violation("avc/firstvideo", "GetFirstAVCVideoNALUFromByteStream differs from the first video unit", J{"case": cs, "observed": bytes2ints(got)})
				}
			})
			guarded(rep, "avc.ExtractNalusOfTypeFromByteStream", cs, func() {
				for _, pt := range c.PerType {
					got := avc.ExtractNalusOfTypeFromByteStream(avc.NaluType(pt.T), stream, false)
					if !eqUnits(got, pt.All) {
						rep.Violation("avc/extract-of-type", "ExtractNalusOfTypeFromByteStream differs from the units of that type", J{"case": cs, "type": pt.T, "observed": unitsJ(got)})
					}
					if pt.T > 5 {
						got = avc.ExtractNalusOfTypeFromByteStream(avc.NaluType(pt.T), stream, true)
						if !eqUnits(got, pt.Before) {
							rep.Violation("avc/extract-of-type-stop", "ExtractNalusOfTypeFromByteStream(stopAtVideo) differs from the units of that type before the first video unit", J{"case": cs, "type": pt.T, "observed": unitsJ(got)})
						}
					}
				}
			})
		} else {
			guarded(rep, "hevc.FindNaluTypes", cs, func() {
				got := hevc.FindNaluTypes(sample)
				gi := make([]int, len(got))
				for i, t := range got {
					gi[i] = int(t)
				}
				if !eqInts(gi, c.Types) {
					rep.Violation("hevc/findtypes", "FindNaluTypes differs from the unit types", J{"case": cs, "observed": gi})
				}
			})
			guarded(rep, "hevc.FindNaluTypesUpToFirstVideoNalu", cs, func() {
				got := hevc.FindNaluTypesUpToFirstVideoNalu(sample)
				gi := make([]int, len(got))
				for i, t := range got {
					gi[i] = int(t)
				}
				if !eqInts(gi, c.TypesToVideo) {
					rep.Violation("hevc/findtypes-to-video", "FindNaluTypesUpToFirstVideoNalu differs", J{"case": cs, "observed": gi})
				}
			})
			guarded(rep, "hevc.ContainsNaluType", cs, func() {
				for _, pt := range c.PerType {
					if hevc.ContainsNaluType(sample, hevc.NaluType(pt.T)) != (len(pt.All) > 0) {
						rep.Violation("hevc/contains", "ContainsNaluType disagrees with the unit sequence", J{"case": cs, "type": pt.T})
					}
				}
				if hevc.IsIDRSample(sample) != anyIn(19, 20) {
					rep.Violation("hevc/isidr", "IsIDRSample disagrees with the unit sequence", cs)
				}
				if hevc.IsRAPSample(sample) != anyIn(16, 23) {
					rep.Violation("hevc/israp", "IsRAPSample disagrees with the unit sequence", cs)
				}
			})
			guarded(rep, "hevc.HasParameterSets", cs, func() {
				if hevc.HasParameterSets(sample) != c.HasPS {
					rep.Violation("hevc/hasps", "HasParameterSets disagrees with the unit sequence", cs)
				}
			})
			guarded(rep, "hevc.GetParameterSets", cs, func() {
				vps, sps, pps := hevc.GetParameterSets(sample)
				if !eqUnits(vps, c.Vps) || !eqUnits(sps, c.Sps) || !eqUnits(pps, c.Pps) {
					rep.Violation("hevc/getps-sample", "GetParameterSets differs from the VPS/SPS/PPS units of the sample", J{"case": cs})
				}
			})
			guarded(rep, "hevc.GetParameterSetsFromByteStream", cs, func() {
				vps, sps, pps := hevc.GetParameterSetsFromByteStream(append([]byte{}, stream...))
				if !eqUnits(vps, c.Vps) || !eqUnits(sps, c.Sps) || !eqUnits(pps, c.Pps) {
					key := "hevc/getps-bytestream"
					if !c.HasVideo {
						key = "hevc/getps-bytestream/no-video-unit-follows"
					}
					rep.Violation(key, "GetParameterSetsFromByteStream differs from the VPS/SPS/PPS units of the stream",
						J{"case": cs, "vps": unitsJ(vps), "sps": unitsJ(sps), "pps": unitsJ(pps)})
				}
			})
			guarded(rep, "hevc.ExtractNalusOfTypeFromByteStream", cs, func() {
				for _, pt := range c.PerType {
					got := hevc.ExtractNalusOfTypeFromByteStream(hevc.NaluType(pt.T), stream, false)
					if !eqUnits(got, pt.All) {
						rep.Violation("hevc/extract-of-type", "ExtractNalusOfTypeFromByteStream differs from the units of that type", J{"case": cs, "type": pt.T, "observed": unitsJ(got)})
					}
					if pt.T > 31 {
						got = hevc.ExtractNalusOfTypeFromByteStream(hevc.NaluType(pt.T), stream, true)
						if !eqUnits(got, pt.Before) {
							rep.Violation("hevc/extract-of-type-stop", "ExtractNalusOfTypeFromByteStream(stopAtVideo) differs", J{"case": cs, "type": pt.T, "observed": unitsJ(got)})
						}
					}
				}
			})
		}
		var smp interface{}
		if len(c.Units) == 2 && len(c.Stream) < 24 {
			smp = J{"codec": c.Codec, "units": c.Units, "scs": c.Scs, "types": c.Types}
		}
		rep.Count(string(line), true, smp)
		return nil
	})
	rep.Done()
	return err
}

// walkSample is the harness's own length-prefixed walker (independent of mp4ff).
func walkSample(s []byte) (lens []int, payload []byte, ok bool) {
	pos := 0
	for pos < len(s) {
		if pos+4 > len(s) {
			return lens, payload, false
		}
		n := int(binary.BigEndian.Uint32(s[pos:]))
		pos += 4
		if pos+n > len(s) {
			return lens, payload, false
		}
		lens = append(lens, n)
		payload = append(payload, s[pos:pos+n]...)
		pos += n
	}
	return lens, payload, true
}

func c14Drive(args []string) error {
	rng := rand.New(rand.NewSource(seedFromEnv()))
	n := argInt(args, "-n", 200)
	tw, err := newTraceWriter(argValue(args, "-trace", "trace.ndjson"))
	if err != nil {
		return err
	}
	rep := newReport()
	for t := 0; t < n; t++ {
		nu := 1 + rng.Intn(8)
		var stream, allPayload []byte
		lens := make([]int, nu)
		scs := make([]int, nu)
		allFour := rng.Intn(3) == 0
		for u := 0; u < nu; u++ {
			ln := 1 + rng.Intn(40)
			if rng.Intn(4) == 0 {
				ln = 1 + rng.Intn(700)
			}
			b := make([]byte, ln)
			for i := range b {
				b[i] = byte(2 + rng.Intn(254))
				// isolated zeros / 00 00 03 escapes that never form a start code
				if i >= 1 && i < ln-1 && b[i-1] != 0 && rng.Intn(12) == 0 {
					b[i] = 0
				}
			}
			lens[u], scs[u] = ln, 3+rng.Intn(2)
			if allFour {
				scs[u] = 4
			}
			if scs[u] == 4 {
				stream = append(stream, 0)
			}
			stream = append(stream, 0, 0, 1)
			stream = append(stream, b...)
			allPayload = append(allPayload, b...)
		}
		tw.Reset(J{"t": t, "lens": lens, "scs": scs})
		found, minsc := scanOf(stream)
		fj := make([][]int, len(found))
		for i, f := range found {
			fj[i] = []int{f.Pos, f.Len}
		}
		tw.Ev(J{"ev": "scan", "found": fj, "minsc": minsc})
		sample := avc.ConvertByteStreamToNaluSample(append([]byte{}, stream...))
		ol, pl, ok := walkSample(sample)
		if ol == nil {
			ol = []int{}
		}
		tw.Ev(J{"ev": "tosample", "outlens": ol, "payload_ok": ok && bytes.Equal(pl, allPayload)})
		back := avc.ConvertSampleToByteStream(append([]byte{}, sample...))
		bf, _ := scanOf(back)
		bj := make([][]int, len(bf))
		for i, f := range bf {
			bj[i] = []int{f.Pos, f.Len}
		}
		// payload check of the 4-byte start-code stream with the harness's own arithmetic
		var bp []byte
		okb := true
		at := 0
		for _, ln := range lens {
			if at+4+ln > len(back) || !bytes.Equal(back[at:at+4], []byte{0, 0, 0, 1}) {
				okb = false
				break
			}
			bp = append(bp, back[at+4:at+4+ln]...)
			at += 4 + ln
		}
		tw.Ev(J{"ev": "back", "found": bj, "payload_ok": okb && at == len(back) && bytes.Equal(bp, allPayload)})
		ex := avc.ExtractNalusFromByteStream(stream)
		gs, gerr := avc.GetNalusFromSample(sample)
		el, sl := make([]int, len(ex)), make([]int, len(gs))
		var ep, sp []byte
		for i, u := range ex {
			el[i] = len(u)
			ep = append(ep, u...)
		}
		for i, u := range gs {
			sl[i] = len(u)
			sp = append(sp, u...)
		}
		tw.Ev(J{"ev": "walk", "extract_lens": el, "sample_lens": sl,
			"payload_ok": gerr == nil && bytes.Equal(ep, allPayload) && bytes.Equal(sp, allPayload)})
		rep.Count(fmt.Sprint(lens, scs), true, nil)
	}
	rep.Extra["events"] = tw.N
	rep.Extra["traces"] = tw.T
	rep.Done()
	return tw.Close()
}
