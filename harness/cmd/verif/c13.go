package main

// C13: bit, Exp-Golomb and emulation-prevention coding. Replays behaviours exported by
// BitsBytes.tla / BitsOps.tla into the real bits package and records byte-granular traces
// for BitsTrace.tla.

import (
	"bytes"
	"encoding/json"
	"fmt"
	"io"
	"math/rand"
	"testing/iotest"

	"github.com/Eyevinn/mp4ff/bits"
)

func init() {
	register("c13-bytes", c13Bytes)
	register("c13-ops", c13Ops)
	register("c13-drive", c13Drive)
}

type c13ByteCase struct {
	Raw []int `json:"raw"`
	Esc []int `json:"esc"`
	Idx []int `json:"idx"`
	Nr0 int   `json:"nr0"`
}

// writeChunked writes raw through an EBSPWriter using the named chunking of the bit stream.
func writeChunked(raw []byte, chunk string) ([]byte, int, error) {
	var buf bytes.Buffer
	w := bits.NewEBSPWriter(&buf)
	switch chunk {
	case "bytes":
		for _, b := range raw {
			w.Write(uint(b), 8)
		}
	case "3+5":
		for _, b := range raw {
			w.Write(uint(b>>5), 3)
			w.Write(uint(b&0x1f), 5)
		}
	default: // "13", "32", "1": fixed-size pieces of the whole bit stream
		var n int
		fmt.Sscanf(chunk, "%d", &n)
		total := 8 * len(raw)
		bitAt := func(i int) uint { return uint(raw[i/8]>>(7-uint(i%8))) & 1 }
		for pos := 0; pos < total; {
			k := n
			if total-pos < k {
				k = total - pos
			}
			var v uint
			for j := 0; j < k; j++ {
				v = v<<1 | bitAt(pos+j)
			}
			w.Write(v, k)
			pos += k
		}
	}
	return buf.Bytes(), w.VerifNr0(), w.AccError()
}

func noForbidden(s []byte) bool {
	for i := 0; i+2 < len(s); i++ {
		if s[i] == 0 && s[i+1] == 0 && s[i+2] <= 2 {
			return false
		}
	}
	return true
}

func c13Bytes(args []string) error {
	rep := newReport()
	rng := rand.New(rand.NewSource(seedFromEnv()))
	chunks := []string{"bytes", "3+5", "13", "32", "1"}
	err := readLines(argValue(args, "-in", "-"), func(line []byte) error {
		var c c13ByteCase
		if err := json.Unmarshal(line, &c); err != nil {
			return err
		}
		// concretise the class representative 171 ("other") with a seeded byte > 3
		raw := ints2bytes(c.Raw)
		esc := ints2bytes(c.Esc)
		variants := [][2][]byte{{raw, esc}}
		if bytes.IndexByte(raw, 171) >= 0 {
			r2 := append([]byte{}, raw...)
			e2 := append([]byte{}, esc...)
			sub := byte(4 + rng.Intn(252))
			for i := range r2 {
				if r2[i] == 171 {
					r2[i] = sub
				}
			}
			for i := range e2 {
				if e2[i] == 171 {
					e2[i] = sub
				}
			}
			variants = append(variants, [2][]byte{r2, e2})
		}
		nontrivial := len(c.Esc) > len(c.Raw)
		for _, v := range variants {
			raw, esc := v[0], v[1]
			for _, ch := range chunks {
				out, nr0, err := writeChunked(raw, ch)
				cs := J{"raw": bytes2ints(raw), "chunk": ch, "expected": bytes2ints(esc), "observed": bytes2ints(out)}
				if err != nil {
					rep.Violation("ebspwriter/error", "EBSPWriter reported an error: "+err.Error(), cs)
					continue
				}
				if !bytes.Equal(out, esc) {
					key := "ebspwriter/output-differs"
					if !noForbidden(out) {
						key = "ebspwriter/forbidden-pattern"
					} else if len(out) > len(esc) {
						key = "ebspwriter/unneeded-escape"
					}
					rep.Violation(key, "EBSPWriter output differs from the minimal escaping of the raw bytes (chunking "+ch+")", cs)
				}
				if nr0 != c.Nr0 {
					rep.Drift("ebspwriter/nr0", "nr0 differs from model", cs)
				}
			}
			// read back, byte-wise
			rd := bits.NewEBSPReader(bytes.NewReader(esc))
			for i, b := range raw {
				got := rd.Read(8)
				cs := J{"esc": bytes2ints(esc), "i": i, "expected": b, "observed": got, "pos": rd.NrBytesRead()}
				if rd.AccError() != nil {
					rep.Violation("ebspreader/error", "EBSPReader error inside valid stream: "+rd.AccError().Error(), cs)
					break
				}
				if got != uint(b) {
					rep.Violation("ebspreader/value", "EBSPReader returned a byte different from the one written", cs)
				}
				if rd.NrBytesRead() != c.Idx[i] || rd.NrBitsRead() != 8*c.Idx[i] {
					rep.Violation("ebspreader/position", "NrBytesRead/NrBitsRead is not the position in the escaped stream", cs)
				}
			}
			rd.Read(8)
			if rd.AccError() != io.EOF {
				rep.Violation("ebspreader/eof", "EBSPReader did not report EOF after the last byte", J{"esc": bytes2ints(esc)})
			}
			// read back with 3+5 bit reads and ReadBytes for the second half
			rd = bits.NewEBSPReader(bytes.NewReader(esc))
			half := len(raw) / 2
			for i := 0; i < half; i++ {
				hi := rd.Read(3)
				if want := 8*c.Idx[i] - 5; rd.NrBitsRead() != want {
					rep.Violation("ebspreader/position", "NrBitsRead inside a byte is not the position in the escaped stream",
						J{"esc": bytes2ints(esc), "i": i, "expected": want, "observed": rd.NrBitsRead()})
				}
				lo := rd.Read(5)
				if byte(hi<<5|lo) != raw[i] {
					rep.Violation("ebspreader/value", "EBSPReader 3+5 bit reads differ from the byte written",
						J{"esc": bytes2ints(esc), "i": i})
				}
			}
			rest := rd.ReadBytes(len(raw) - half)
			if !bytes.Equal(rest, raw[half:]) && !(len(rest) == 0 && len(raw[half:]) == 0) {
				rep.Violation("ebspreader/readbytes", "ReadBytes differs from the bytes written",
					J{"esc": bytes2ints(esc), "expected": bytes2ints(raw[half:]), "observed": bytes2ints(rest)})
			}
		}
		rep.Count(string(line), nontrivial, J{"raw": c.Raw, "esc": c.Esc})
		return nil
	})
	rep.Extra["chunkings"] = chunks
	rep.Done()
	return err
}

type c13Op struct {
	K    string `json:"k"`
	Bits []int  `json:"bits"`
	V    int    `json:"v"`
}

type c13OpsCase struct {
	Ops      []c13Op `json:"ops"`
	Ends     []int   `json:"ends"`
	Flush    []int   `json:"flush"`
	FlushEsc []int   `json:"flushEsc"`
	FlushIdx []int   `json:"flushIdx"`
	Rbsp     []int   `json:"rbsp"`
	RbspEsc  []int   `json:"rbspEsc"`
}

func bitsVal(b []int) uint {
	var v uint
	for _, x := range b {
		v = v<<1 | uint(x)
	}
	return v
}

func signedVal(b []int) int {
	v := int(bitsVal(b))
	if b[0] == 1 {
		v |= -1 << uint(len(b))
	}
	return v
}

// codeBits returns the bits an op puts on the wire (ue/se: zeros prefix + bits).
func (o c13Op) codeBits() []int {
	if o.K == "ue" || o.K == "se" {
		z := make([]int, len(o.Bits)-1)
		return append(z, o.Bits...)
	}
	return o.Bits
}

func writePieces(write func(uint, int), code []int) {
	for len(code) > 0 {
		k := len(code)
		if k > 32 {
			k = 32
		}
		write(bitsVal(code[:k]), k)
		code = code[k:]
	}
}

type readerSource struct {
	name, suffix string
	r            io.Reader
}

// zeroNilReader returns (0, nil) on every third call before delivering data: allowed by io.Reader ("discouraged", not forbidden)
type zeroNilReader struct {
	r io.Reader
	n int
}

func (z *zeroNilReader) Read(p []byte) (int, error) {
	z.n++
	if z.n%3 == 0 {
		return 0, nil
	}
	return z.r.Read(p)
}

func readerSources(b []byte) []readerSource {
	return []readerSource{
		{"bytes.Reader", "", bytes.NewReader(b)},
		{"data together with io.EOF", "/data-with-eof", iotest.DataErrReader(bytes.NewReader(b))},
		{"one byte per call", "/one-byte-reads", iotest.OneByteReader(bytes.NewReader(b))},
		{"(0, nil) now and then", "/zero-nil-reads", &zeroNilReader{r: bytes.NewReader(b)}},
	}
}

func c13Ops(args []string) error {
	rep := newReport()
	err := readLines(argValue(args, "-in", "-"), func(line []byte) error {
		var c c13OpsCase
		if err := json.Unmarshal(line, &c); err != nil {
			return err
		}
		flush, flushEsc, rbspEsc := ints2bytes(c.Flush), ints2bytes(c.FlushEsc), ints2bytes(c.RbspEsc)
		cs := func(extra J) J {
			extra["ops"] = c.Ops
			return extra
		}
		// --- bits.Writer
		{
			var buf bytes.Buffer
			w := bits.NewWriter(&buf)
			for _, o := range c.Ops {
				switch o.K {
				case "u", "f", "s":
					w.Write(bitsVal(o.Bits), len(o.Bits))
				default:
					writePieces(w.Write, o.codeBits())
				}
			}
			w.Flush()
			if w.AccError() != nil || !bytes.Equal(buf.Bytes(), flush) {
				rep.Violation("writer/output", "bits.Writer output differs from the concatenated codes",
					cs(J{"expected": c.Flush, "observed": bytes2ints(buf.Bytes())}))
			}
		}
		// --- bits.FixedSliceWriter
		{
			sw := bits.NewFixedSliceWriter(len(flush))
			for _, o := range c.Ops {
				switch o.K {
				case "f":
					sw.WriteFlag(o.Bits[0] == 1)
				case "u", "s":
					sw.WriteBits(bitsVal(o.Bits), len(o.Bits))
				default:
					writePieces(sw.WriteBits, o.codeBits())
				}
			}
			sw.FlushBits()
			if sw.AccError() != nil || !bytes.Equal(sw.Bytes(), flush) {
				rep.Violation("fixedslicewriter/output", "FixedSliceWriter bit output differs from the concatenated codes",
					cs(J{"expected": c.Flush, "observed": bytes2ints(sw.Bytes())}))
			}
		}
		// --- bits.EBSPWriter, both endings
		for _, ending := range []string{"stuff", "rbsp"} {
			var buf bytes.Buffer
			w := bits.NewEBSPWriter(&buf)
			for _, o := range c.Ops {
				switch o.K {
				case "u", "f", "s":
					w.Write(bitsVal(o.Bits), len(o.Bits))
				case "b":
					writePieces(w.Write, o.Bits)
				default:
					w.WriteExpGolomb(bitsVal(o.Bits) - 1)
				}
			}
			want := flushEsc
			if ending == "stuff" {
				w.StuffByteWithZeros()
			} else {
				w.WriteRbspTrailingBits()
				want = rbspEsc
			}
			if w.AccError() != nil || !bytes.Equal(buf.Bytes(), want) {
				rep.Violation("ebspwriter/ops-output-"+ending, "EBSPWriter output differs from the escaped concatenated codes",
					cs(J{"expected": bytes2ints(want), "observed": bytes2ints(buf.Bytes())}))
			}
		}
		// --- bits.Reader over the flushed stream, fed by sources with every behaviour the io.Reader contract allows
		// (all at once; data delivered together with io.EOF; one byte per call; an occasional (0, nil) return)
		for _, src := range readerSources(flush) {
			rd := bits.NewReader(src.r)
			for i, o := range c.Ops {
				bad := false
				switch o.K {
				case "u":
					bad = rd.Read(len(o.Bits)) != bitsVal(o.Bits)
				case "f":
					bad = rd.ReadFlag() != (o.Bits[0] == 1)
				case "s":
					bad = rd.ReadSigned(len(o.Bits)) != signedVal(o.Bits)
				default:
					code := o.codeBits()
					for len(code) > 0 && !bad {
						k := len(code)
						if k > 32 {
							k = 32
						}
						bad = rd.Read(k) != bitsVal(code[:k])
						code = code[k:]
					}
				}
				if bad || rd.AccError() != nil {
					rep.Violation("reader/value-"+o.K+src.suffix, "bits.Reader returned a value different from the one written", cs(J{"i": i, "source": src.name}))
					break
				}
				if rd.NrBitsRead() != c.Ends[i] {
					rep.Violation("reader/position", "bits.Reader NrBitsRead is not the number of bits consumed",
						cs(J{"i": i, "expected": c.Ends[i], "observed": rd.NrBitsRead()}))
				}
			}
		}
		// --- bits.EBSPReader over the escaped stream (stuffed and rbsp endings); the second round through a source
		// that delivers its last bytes together with io.EOF
		for ei, ending := range []string{"stuff", "rbsp", "stuff", "rbsp"} {
			stream := flushEsc
			if ending == "rbsp" {
				stream = rbspEsc
			}
			var source io.Reader = bytes.NewReader(stream)
			if ei >= 2 {
				if len(c.Ops)%3 != 0 {
					continue
				}
				source = iotest.DataErrReader(bytes.NewReader(stream))
			}
			rd := bits.NewEBSPReader(source)
			okSoFar := true
			for i, o := range c.Ops {
				if ending == "rbsp" && ei < 2 { // MoreRbspData needs a ReadSeeker: only asked of the seekable source
					more, err := rd.MoreRbspData()
					if err != nil || !more {
						rep.Violation("ebspreader/more-rbsp-data", "MoreRbspData is false although syntax elements remain",
							cs(J{"i": i, "stream": bytes2ints(stream)}))
					}
				}
				bad := false
				switch o.K {
				case "u", "s":
					bad = rd.Read(len(o.Bits)) != bitsVal(o.Bits)
				case "f":
					bad = rd.ReadFlag() != (o.Bits[0] == 1)
				case "ue":
					bad = rd.ReadExpGolomb() != bitsVal(o.Bits)-1
				case "se":
					bad = rd.ReadSignedGolomb() != o.V
				case "b": // one ReadBytes call, at whatever bit alignment the earlier ops left
					want := make([]byte, len(o.Bits)/8)
					for k := range want {
						want[k] = byte(bitsVal(o.Bits[8*k : 8*k+8]))
					}
					bad = !bytes.Equal(rd.ReadBytes(len(want)), want)
				}
				if bad || rd.AccError() != nil {
					rep.Violation("ebspreader/value-"+o.K, "EBSPReader returned a value different from the one written",
						cs(J{"i": i, "stream": bytes2ints(stream)}))
					okSoFar = false
					break
				}
				if ending == "stuff" {
					p := c.Ends[i]
					want := 0
					if p > 0 {
						bi := (p + 7) / 8
						want = c.FlushIdx[bi-1]*8 - (8*bi - p)
					}
					if rd.NrBitsRead() != want {
						rep.Violation("ebspreader/position", "EBSPReader NrBitsRead is not the position in the escaped stream",
							cs(J{"i": i, "expected": want, "observed": rd.NrBitsRead(), "stream": bytes2ints(stream)}))
					}
				}
			}
			if ending == "rbsp" && okSoFar && ei < 2 {
				more, err := rd.MoreRbspData()
				if err != nil || more {
					rep.Violation("ebspreader/more-rbsp-data", "MoreRbspData is true at the rbsp trailing bits",
						cs(J{"stream": bytes2ints(stream)}))
				}
				if err := rd.ReadRbspTrailingBits(); err != nil || rd.AccError() != nil {
					rep.Violation("ebspreader/trailing-bits", "ReadRbspTrailingBits fails on written trailing bits",
						cs(J{"stream": bytes2ints(stream)}))
				}
			}
		}
		var sample interface{}
		if len(c.FlushEsc) > len(c.Flush) {
			sample = J{"ops": c.Ops, "flushEsc": c.FlushEsc}
		}
		rep.Count(string(line), len(c.Ops) > 0, sample)
		return nil
	})
	rep.Done()
	return err
}

// c13Drive records byte-granular traces of seeded random streams with planted zero runs.
func c13Drive(args []string) error {
	rng := rand.New(rand.NewSource(seedFromEnv()))
	n := argInt(args, "-n", 100)
	maxLen := argInt(args, "-len", 120)
	tw, err := newTraceWriter(argValue(args, "-trace", "trace.ndjson"))
	if err != nil {
		return err
	}
	rep := newReport()
	for t := 0; t < n; t++ {
		ln := 1 + rng.Intn(maxLen)
		raw := make([]byte, ln)
		for i := range raw {
			switch r := rng.Intn(10); {
			case r < 5:
				raw[i] = 0
			case r < 8:
				raw[i] = byte(rng.Intn(5))
			default:
				raw[i] = byte(rng.Intn(256))
			}
		}
		tw.Reset(J{"t": t})
		var buf bytes.Buffer
		w := bits.NewEBSPWriter(&buf)
		for _, b := range raw {
			before := buf.Len()
			w.Write(uint(b), 8)
			tw.Ev(J{"ev": "w", "b": int(b), "emit": bytes2ints(buf.Bytes()[before:]), "nr0": w.VerifNr0()})
		}
		wire := append([]byte{}, buf.Bytes()...)
		rd := bits.NewEBSPReader(bytes.NewReader(wire))
		for {
			v := rd.Read(8)
			if rd.AccError() != nil {
				tw.Ev(J{"ev": "eof"})
				break
			}
			tw.Ev(J{"ev": "r", "v": int(v), "pos": rd.NrBytesRead(), "zc": rd.VerifZeroCount()})
		}
		rep.Count(fmt.Sprint(raw), len(wire) > len(raw), nil)
	}
	rep.Extra["events"] = tw.N
	rep.Extra["traces"] = tw.T
	rep.Done()
	return tw.Close()
}
