package main

// C18: AudioSpecificConfig / ADTS / esds. Replays AacSyntax.tla behaviours and records
// traces for AacTrace.tla.

import (
	"bytes"
	"encoding/json"
	"fmt"
	"math/rand"

	"github.com/Eyevinn/mp4ff/aac"
	"github.com/Eyevinn/mp4ff/mp4"
)

func init() {
	register("c18-replay", c18Replay)
	register("c18-drive", c18Drive)
}

type ascRec struct {
	Ot  int  `json:"ot"`
	Sf  int  `json:"sf"`
	Ch  int  `json:"ch"`
	Ef  int  `json:"ef"`
	Sbr bool `json:"sbr"`
	Ps  bool `json:"ps"`
}

type adtsRec struct {
	ID  int `json:"id"`
	Pa  int `json:"pa"`
	Ot  int `json:"ot"`
	Sfi int `json:"sfi"`
	Ch  int `json:"ch"`
	Pl  int `json:"pl"`
	Bf  int `json:"bf"`
	Crc int `json:"crc"`
	Hl  int `json:"hl"`
}

func (r adtsRec) inJ() J {
	return J{"id": r.ID, "pa": r.Pa, "ot": r.Ot, "sfi": r.Sfi, "ch": r.Ch, "pl": r.Pl, "bf": r.Bf, "crc": r.Crc}
}

func (r adtsRec) projJ() J {
	return J{"id": r.ID, "hl": r.Hl, "ot": r.Ot, "sfi": r.Sfi, "ch": r.Ch, "pl": r.Pl, "bf": r.Bf}
}

func ascOf(a *aac.AudioSpecificConfig) ascRec {
	return ascRec{int(a.ObjectType), a.SamplingFrequency, int(a.ChannelConfiguration), a.ExtensionFrequency, a.SBRPresentFlag, a.PSPresentFlag}
}

func (r ascRec) toAsc() *aac.AudioSpecificConfig {
	return &aac.AudioSpecificConfig{ObjectType: byte(r.Ot), ChannelConfiguration: byte(r.Ch), SamplingFrequency: r.Sf,
		ExtensionFrequency: r.Ef, SBRPresentFlag: r.Sbr, PSPresentFlag: r.Ps}
}

func adtsProj(h *aac.ADTSHeader) adtsRec {
	return adtsRec{ID: int(h.ID), Hl: int(h.HeaderLength), Ot: int(h.ObjectType), Sfi: int(h.SamplingFrequencyIndex),
		Ch: int(h.ChannelConfig), Pl: int(h.PayloadLength), Bf: int(h.BufferFullness)}
}

// ascFromEsds digs the AudioSpecificConfig out of a decoded esds box.
func ascFromEsds(e *mp4.EsdsBox) (*aac.AudioSpecificConfig, error) {
	dc := e.DecConfigDescriptor
	if dc == nil || dc.DecSpecificInfo == nil {
		return nil, fmt.Errorf("no DecSpecificInfo")
	}
	return aac.DecodeAudioSpecificConfig(bytes.NewReader(dc.DecSpecificInfo.DecConfig))
}

func c18Replay(args []string) error {
	rep := newReport()
	doneSet := map[string]bool{}
	err := readLines(argValue(args, "-in", "-"), func(line []byte) error {
		var hd struct {
			Mode  string          `json:"mode"`
			Inp   json.RawMessage `json:"inp"`
			Bytes []int           `json:"bytes"`
			Dec   json.RawMessage `json:"dec"`
			Clean bool            `json:"clean"`
		}
		if err := json.Unmarshal(line, &hd); err != nil {
			return err
		}
		specBytes := ints2bytes(hd.Bytes)
		switch hd.Mode {
		case "asc":
			var in ascRec
			if err := json.Unmarshal(hd.Inp, &in); err != nil {
				return err
			}
			var buf bytes.Buffer
			if err := in.toAsc().Encode(&buf); err != nil {
				rep.Violation("asc/encode-error", "AudioSpecificConfig.Encode fails inside the supported domain: "+err.Error(), J{"inp": in})
				break
			}
			enc := buf.Bytes()
			if !bytes.Equal(enc, specBytes) {
				rep.Drift("asc/bytes", "encoded ASC differs from ISO 14496-3 layout", J{"inp": in, "expected": hd.Bytes, "observed": bytes2ints(enc)})
			}
			dec, err := aac.DecodeAudioSpecificConfig(bytes.NewReader(enc))
			if err != nil {
				rep.Violation("asc/decode-error", "decoding an encoded ASC fails: "+err.Error(), J{"inp": in, "bytes": bytes2ints(enc)})
				break
			}
			if got := ascOf(dec); got != in {
				rep.Violation("asc/roundtrip", "decode(encode(asc)) differs from asc", J{"inp": in, "observed": got, "bytes": bytes2ints(enc)})
			}
			// decode the spec's own serialisation too (conformance of the decoder alone)
			if d2, err := aac.DecodeAudioSpecificConfig(bytes.NewReader(specBytes)); err != nil || ascOf(d2) != in {
				rep.Drift("asc/decode-spec-bytes", "decoder disagrees with reference serialiser", J{"inp": in})
			}
			// D3: esds wrapping
			esds := mp4.CreateEsdsBox(enc)
			var bb bytes.Buffer
			if err := esds.Encode(&bb); err != nil {
				rep.Violation("esds/encode-error", "esds encode fails: "+err.Error(), J{"inp": in})
				break
			}
			box, err := mp4.DecodeBox(0, bytes.NewReader(bb.Bytes()))
			if err != nil {
				rep.Violation("esds/decode-error", "esds decode fails: "+err.Error(), J{"inp": in})
				break
			}
			a3, err := ascFromEsds(box.(*mp4.EsdsBox))
			if err != nil || ascOf(a3) != in {
				rep.Violation("esds/config", "configuration decoded from the esds box differs from the one supplied", J{"inp": in, "err": fmt.Sprint(err)})
			}
			// D3: full sample entry via SetAACDescriptor, once per (ot, sf)
			k := fmt.Sprintf("%d/%d", in.Ot, in.Sf)
			// HE-AAC doubles the frequency: only representable (24 bits) below 2^23
			if !doneSet[k] && !(in.Ot != 2 && 2*in.Sf >= 1<<24) {
				doneSet[k] = true
				c18SampleEntry(rep, in.Ot, in.Sf)
			}
			rep.Count(string(hd.Inp), true, J{"asc": in, "bytes": bytes2ints(enc)})
		case "adts", "sync":
			var h adtsRec
			var junk []int
			if hd.Mode == "adts" {
				if err := json.Unmarshal(hd.Inp, &h); err != nil {
					return err
				}
			} else {
				var si struct {
					H    adtsRec `json:"h"`
					Junk []int   `json:"junk"`
				}
				if err := json.Unmarshal(hd.Inp, &si); err != nil {
					return err
				}
				h, junk = si.H, si.Junk
			}
			var want struct {
				Off int             `json:"off"`
				H   json.RawMessage `json:"h"`
			}
			if err := json.Unmarshal(hd.Dec, &want); err != nil {
				return err
			}
			encodable := h.ID == 0 && h.Pa == 1
			stream := specBytes
			judged := encodable && hd.Clean
			if encodable {
				var hdr *aac.ADTSHeader
				if h.Ot == 2 && h.Bf == 0x7ff {
					var err error
					hdr, err = aac.NewADTSHeader(aac.FrequencyTable[byte(h.Sfi)], byte(h.Ch), byte(h.Ot), uint16(h.Pl))
					if err != nil {
						rep.Violation("adts/new-error", "NewADTSHeader fails inside the domain: "+err.Error(), J{"h": h})
						break
					}
				} else {
					hdr = &aac.ADTSHeader{ObjectType: byte(h.Ot), SamplingFrequencyIndex: byte(h.Sfi), ChannelConfig: byte(h.Ch),
						HeaderLength: 7, PayloadLength: uint16(h.Pl), BufferFullness: uint16(h.Bf)}
				}
				enc := hdr.Encode()
				if !bytes.Equal(append(ints2bytes(junk), enc...), specBytes) {
					rep.Drift("adts/bytes", "encoded ADTS header differs from ISO 13818-7 layout", J{"h": h, "observed": bytes2ints(enc)})
				}
				stream = append(ints2bytes(junk), enc...)
			}
			got, off, err := aac.DecodeADTSHeader(bytes.NewReader(stream))
			cs := J{"h": h, "junk": junk, "stream": bytes2ints(stream), "expected": J{"off": want.Off, "h": want.H}}
			report := func(key, what string) {
				if judged {
					rep.Violation(key, what, cs)
				} else {
					rep.Drift(key, what, cs)
				}
			}
			if string(want.H) == `"err"` {
				if err == nil {
					report("adts/accepts-invalid", "decoder accepts a header the reference parser rejects")
				}
			} else {
				var wh adtsRec
				if e := json.Unmarshal(want.H, &wh); e != nil {
					return e
				}
				if err != nil {
					cs["err"] = err.Error()
					report("adts/decode-error", "DecodeADTSHeader fails on a valid header")
				} else {
					if off != want.Off {
						cs["observed_off"] = off
						report("adts/offset", "reported offset is not the position of the sync word")
					}
					if g := adtsProj(got); g != wh {
						cs["observed"] = g
						report("adts/roundtrip", "decoded ADTS header differs from the encoded one")
					}
					// a decoded header written again (always as a 7-byte header without CRC) describes the same frame:
					// same object type, frequency index, channels and payload length when decoded once more
					if got != nil {
						re := got.Encode()
						got2, off2, err2 := aac.DecodeADTSHeader(bytes.NewReader(re))
						if err2 != nil || off2 != 0 || got2 == nil {
							cs["reencoded"] = bytes2ints(re)
							rep.Violation("adts/reencode-decoded/error", "a decoded header, encoded again, does not decode at offset 0", cs)
						} else if got2.PayloadLength != got.PayloadLength || got2.ObjectType != got.ObjectType || got2.HeaderLength != 7 ||
							got2.SamplingFrequencyIndex != got.SamplingFrequencyIndex || got2.ChannelConfig != got.ChannelConfig {
							cs["reencoded"] = bytes2ints(re)
							cs["observed_again"] = adtsProj(got2)
							rep.Violation("adts/reencode-decoded/differs", fmt.Sprintf("a decoded header (header length %d, payload %d), encoded again, decodes to payload %d", got.HeaderLength, got.PayloadLength, got2.PayloadLength), cs)
						}
					}
					// the sampling frequency the decoded header states (ISO/IEC 14496-3 table 1.18)
					isoFreq := []int{96000, 88200, 64000, 48000, 44100, 32000, 24000, 22050, 16000, 12000, 11025, 8000, 7350}
					if wh.Sfi < len(isoFreq) && int(got.Frequency()) != isoFreq[wh.Sfi] {
						cs["observed_frequency"] = got.Frequency()
						report(fmt.Sprintf("adts/frequency/index%d", wh.Sfi), fmt.Sprintf("ADTSHeader.Frequency() = %d for sampling_frequency_index %d (%d Hz)", got.Frequency(), wh.Sfi, isoFreq[wh.Sfi]))
					}
				}
			}
			var sample interface{}
			if len(junk) > 0 && len(junk) < 6 {
				sample = J{"junk": junk, "h": h, "off": want.Off}
			}
			rep.Count(string(hd.Inp), judged, sample)
		}
		return nil
	})
	rep.Done()
	return err
}

// c18SampleEntry builds an init segment with an AAC track through the public API and reads the
// configuration back from the decoded sample entry.
func c18SampleEntry(rep *Report, ot, sf int) {
	cs := J{"ot": ot, "sf": sf}
	init := mp4.CreateEmptyInit()
	init.AddEmptyTrack(uint32(sf), "audio", "und")
	trak := init.Moov.Trak
	if err := trak.SetAACDescriptor(byte(ot), sf); err != nil {
		rep.Violation("sampleentry/set-error", "SetAACDescriptor fails inside the domain: "+err.Error(), cs)
		return
	}
	var buf bytes.Buffer
	if err := init.Encode(&buf); err != nil {
		rep.Violation("sampleentry/encode-error", "init encode fails: "+err.Error(), cs)
		return
	}
	f, err := mp4.DecodeFile(bytes.NewReader(buf.Bytes()))
	if err != nil || f.Init == nil || f.Init.Moov.Trak == nil {
		rep.Violation("sampleentry/decode-error", "decoding the init segment fails: "+fmt.Sprint(err), cs)
		return
	}
	stsd := f.Init.Moov.Trak.Mdia.Minf.Stbl.Stsd
	if stsd.Mp4a == nil || stsd.Mp4a.Esds == nil {
		rep.Violation("sampleentry/no-mp4a", "no mp4a/esds in decoded sample description", cs)
		return
	}
	a, err := ascFromEsds(stsd.Mp4a.Esds)
	if err != nil {
		rep.Violation("sampleentry/asc-error", "ASC in sample entry does not decode: "+err.Error(), cs)
		return
	}
	want := ascRec{Ot: ot, Sf: sf, Ch: 2}
	if ot == 5 || ot == 29 {
		want.Ef = 2 * sf
		want.Sbr = true
	}
	if ot == 29 {
		want.Ch = 1
		want.Ps = true
	}
	if got := ascOf(a); got != want {
		cs["observed"] = got
		cs["expected"] = want
		rep.Violation("sampleentry/config", "AAC sample entry decodes to a different configuration than supplied", cs)
	}
}

func c18Drive(args []string) error {
	rng := rand.New(rand.NewSource(seedFromEnv()))
	n := argInt(args, "-n", 300)
	tw, err := newTraceWriter(argValue(args, "-trace", "trace.ndjson"))
	if err != nil {
		return err
	}
	rep := newReport()
	ots := []int{2, 5, 29}
	freq := func() int {
		switch rng.Intn(3) {
		case 0:
			return aac.FrequencyTable[byte(rng.Intn(13))]
		case 1:
			return 1 + rng.Intn(1<<24-1)
		default:
			return aac.FrequencyTable[byte(rng.Intn(13))] + rng.Intn(3) - 1
		}
	}
	for t := 0; t < n; t++ {
		tw.Reset(J{"t": t})
		// ASC
		in := ascRec{Ot: ots[rng.Intn(3)], Sf: freq(), Ch: rng.Intn(16)}
		if in.Ot != 2 {
			in.Ef, in.Sbr, in.Ps = freq(), true, in.Ot == 29
		}
		var buf bytes.Buffer
		ev := J{"ev": "asc", "inp": in, "err": "", "bytes": []int{}, "dec": ascRec{}}
		if err := in.toAsc().Encode(&buf); err != nil {
			ev["err"] = "encode: " + err.Error()
		} else {
			ev["bytes"] = bytes2ints(buf.Bytes())
			d, err := aac.DecodeAudioSpecificConfig(bytes.NewReader(buf.Bytes()))
			if err != nil {
				ev["err"] = "decode: " + err.Error()
			} else {
				ev["dec"] = ascOf(d)
			}
		}
		tw.Ev(ev)
		// ADTS behind junk without sync pattern
		h := adtsRec{ID: 0, Pa: 1, Ot: 1 + rng.Intn(4), Sfi: rng.Intn(13), Ch: rng.Intn(8), Pl: rng.Intn(8185), Bf: rng.Intn(2048)}
		jl := rng.Intn(188)
		if rng.Intn(4) == 0 {
			jl = 180 + rng.Intn(8)
		}
		junk := make([]byte, jl)
		for i := range junk {
			switch rng.Intn(4) {
			case 0:
				junk[i] = 0xff
			case 1:
				junk[i] = []byte{0xf2, 0xf4, 0xf6, 0xfa, 0xfc, 0xfe, 0xff, 0xf7}[rng.Intn(8)]
			default:
				junk[i] = byte(rng.Intn(0xf0))
			}
		}
		hdr := &aac.ADTSHeader{ObjectType: byte(h.Ot), SamplingFrequencyIndex: byte(h.Sfi), ChannelConfig: byte(h.Ch),
			HeaderLength: 7, PayloadLength: uint16(h.Pl), BufferFullness: uint16(h.Bf)}
		stream := append(append([]byte{}, junk...), hdr.Encode()...)
		ev = J{"ev": "adts", "h": h.inJ(), "junk": bytes2ints(junk), "bytes": bytes2ints(stream), "err": "", "off": -1, "dec": adtsRec{}.projJ()}
		got, off, err := aac.DecodeADTSHeader(bytes.NewReader(stream))
		if err != nil {
			ev["err"] = err.Error()
		} else {
			ev["off"] = off
			ev["dec"] = adtsProj(got).projJ()
		}
		tw.Ev(ev)
		rep.Count(fmt.Sprint(in, h, jl), true, nil)
	}
	rep.Extra["events"] = tw.N
	rep.Extra["traces"] = tw.T
	rep.Done()
	return tw.Close()
}
