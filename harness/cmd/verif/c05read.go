package main

// C05, code -> spec: records, for every track fragment of a file, the raw tfhd / trex / trun fields (from the
// harness's own box walk) together with the samples mp4ff returns, for validation by FragmentRead.tla.

import (
	"bytes"
	"encoding/binary"
	"fmt"
	"io/ioutil"

	"github.com/Eyevinn/mp4ff/mp4"
)

func init() {
	register("c05-read-trace", c05ReadTrace)
}

type rawTrun struct {
	flags int
	first int64
	coded [][4]int64
}

type rawTraf struct {
	track                        int
	tfhdDur, tfhdSize, tfhdFlags int64
	truns                        []rawTrun
}

// rawTrexOf: track -> (default duration, size, flags) from moov/mvex/trex, by the independent walker.
func rawTrexOf(file []byte) map[int][3]int64 {
	res := map[int][3]int64{}
	top, err := walkBoxes(file, 0)
	if err != nil {
		return res
	}
	for _, b := range top {
		if b.Type != "moov" {
			continue
		}
		kids, _ := walkBoxes(b.Payload, 0)
		for _, k := range kids {
			if k.Type != "mvex" {
				continue
			}
			xs, _ := walkBoxes(k.Payload, 0)
			for _, x := range xs {
				if x.Type == "trex" && len(x.Payload) >= 24 {
					p := x.Payload
					res[int(binary.BigEndian.Uint32(p[4:]))] = [3]int64{int64(binary.BigEndian.Uint32(p[12:])), int64(binary.BigEndian.Uint32(p[16:])), int64(binary.BigEndian.Uint32(p[20:]))}
				}
			}
		}
	}
	return res
}

// rawTrafs: the trafs of every top-level moof, in order.
func rawTrafs(file []byte) ([][]rawTraf, error) {
	var out [][]rawTraf
	top, err := walkBoxes(file, 0)
	if err != nil {
		return nil, err
	}
	for _, b := range top {
		if b.Type != "moof" {
			continue
		}
		kids, err := walkBoxes(b.Payload, 0)
		if err != nil {
			return nil, err
		}
		var trafs []rawTraf
		for _, tb := range kids {
			if tb.Type != "traf" {
				continue
			}
			tk, err := walkBoxes(tb.Payload, 0)
			if err != nil {
				return nil, err
			}
			rt := rawTraf{tfhdDur: -1, tfhdSize: -1, tfhdFlags: -1}
			for _, x := range tk {
				p := x.Payload
				switch x.Type {
				case "tfhd":
					fl := int(binary.BigEndian.Uint32(p)) & 0xffffff
					rt.track = int(binary.BigEndian.Uint32(p[4:]))
					q := p[8:]
					if fl&0x1 != 0 {
						q = q[8:]
					}
					if fl&0x2 != 0 {
						q = q[4:]
					}
					if fl&0x8 != 0 {
						rt.tfhdDur = int64(binary.BigEndian.Uint32(q))
						q = q[4:]
					}
					if fl&0x10 != 0 {
						rt.tfhdSize = int64(binary.BigEndian.Uint32(q))
						q = q[4:]
					}
					if fl&0x20 != 0 {
						rt.tfhdFlags = int64(binary.BigEndian.Uint32(q))
					}
				case "trun":
					ver := p[0]
					fl := int(binary.BigEndian.Uint32(p)) & 0xffffff
					n := int(binary.BigEndian.Uint32(p[4:]))
					q := p[8:]
					if fl&0x1 != 0 {
						q = q[4:]
					}
					tr := rawTrun{flags: fl, first: -1}
					if fl&0x4 != 0 {
						tr.first = int64(binary.BigEndian.Uint32(q))
						q = q[4:]
					}
					for i := 0; i < n; i++ {
						c := [4]int64{-1, -1, -1, -1}
						for fi, bit := range []int{0x100, 0x200, 0x400, 0x800} {
							if fl&bit == 0 {
								continue
							}
							if len(q) < 4 {
								return nil, fmt.Errorf("trun shorter than its sample count")
							}
							v := int64(binary.BigEndian.Uint32(q))
							if fi == 3 && ver != 0 {
								v = int64(int32(binary.BigEndian.Uint32(q)))
							}
							c[fi] = v
							q = q[4:]
						}
						tr.coded = append(tr.coded, c)
					}
					rt.truns = append(rt.truns, tr)
				}
			}
			trafs = append(trafs, rt)
		}
		out = append(out, trafs)
	}
	return out, nil
}

const tlcMax = int64(1) << 31

// traceFragmentReads writes one trace per traf of file; returns (trafs traced, trafs skipped).
func traceFragmentReads(tw *TraceWriter, name string, file []byte) (int, int, error) {
	raw, err := rawTrafs(file)
	if err != nil {
		return 0, 0, err
	}
	if len(raw) == 0 {
		return 0, 0, nil
	}
	trexs := rawTrexOf(file)
	f, err := mp4.DecodeFile(bytes.NewReader(file))
	if err != nil || f.Init == nil || f.Init.Moov == nil || f.Init.Moov.Mvex == nil {
		return 0, 0, nil
	}
	var frags []*mp4.Fragment
	for _, s := range f.Segments {
		frags = append(frags, s.Fragments...)
	}
	if len(frags) != len(raw) {
		return 0, 0, fmt.Errorf("%s: %d moof boxes but %d fragments decoded", name, len(raw), len(frags))
	}
	done, skipped := 0, 0
	for fi, trafs := range raw {
		seen := map[int]bool{}
		for _, rt := range trafs {
			trex, ok := f.Init.Moov.Mvex.GetTrex(uint32(rt.track))
			rx, ok2 := trexs[rt.track]
			if !ok || !ok2 || seen[rt.track] || frags[fi].Mdat == nil {
				skipped++
				continue
			}
			seen[rt.track] = true
			var fs []mp4.FullSample
			var gerr error
			func() {
				defer func() {
					if r := recover(); r != nil {
						gerr = fmt.Errorf("panic: %v", r)
					}
				}()
				fs, gerr = frags[fi].GetFullSamples(trex)
			}()
			total := 0
			big := rx[0] >= tlcMax || rx[1] >= tlcMax || rx[2] >= tlcMax || rt.tfhdDur >= tlcMax || rt.tfhdSize >= tlcMax || rt.tfhdFlags >= tlcMax
			for _, tr := range rt.truns {
				total += len(tr.coded)
				if tr.first >= tlcMax {
					big = true
				}
				for _, c := range tr.coded {
					for _, v := range c {
						if v >= tlcMax || v < -tlcMax {
							big = true
						}
					}
				}
			}
			if gerr != nil || big || total == 0 {
				skipped++
				continue
			}
			var base uint64
			if len(fs) > 0 {
				base = fs[0].DecodeTime
			}
			tw.Reset(J{"obj": fmt.Sprintf("%s#moof%d/track%d", name, fi, rt.track), "trex_dur": rx[0], "trex_size": rx[1], "trex_flags": rx[2],
				"tfhd_dur": rt.tfhdDur, "tfhd_size": rt.tfhdSize, "tfhd_flags": rt.tfhdFlags})
			at := 0
			for _, tr := range rt.truns {
				got := [][5]int64{}
				for i := 0; i < len(tr.coded) && at+i < len(fs); i++ {
					s := fs[at+i]
					got = append(got, [5]int64{int64(s.Dur), int64(s.Size), int64(s.Flags), int64(s.CompositionTimeOffset), int64(s.DecodeTime - base)})
				}
				at += len(tr.coded)
				tw.Ev(J{"ev": "trun", "flags": tr.flags, "first": tr.first, "coded": tr.coded, "got": got, "returned_total": len(fs)})
			}
			done++
		}
	}
	return done, skipped, nil
}

func c05ReadTrace(args []string) error {
	rep := newReport()
	tw, err := newTraceWriter(argValue(args, "-trace", "trace.ndjson"))
	if err != nil {
		return err
	}
	done, skipped := 0, 0
	for _, dir := range []string{"/repo/mp4/testdata", "/repo/examples/testdata", "/repo/cmd/mp4ff-crop/testdata", "/repo/cmd/mp4ff-decrypt/testdata", "/repo/cmd/mp4ff-encrypt/testdata", "/repo/cmd/mp4ff-info/testdata"} {
		for _, p := range corpusFiles(dir) {
			data, err := ioutil.ReadFile(p)
			if err != nil {
				continue
			}
			d, s, err := traceFragmentReads(tw, p[len("/repo/"):], data)
			if err != nil {
				rep.Drift("read-trace/unwalkable", err.Error(), nil)
				continue
			}
			done += d
			skipped += s
			if d > 0 {
				rep.Count(p, true, J{"file": p[len("/repo/"):], "track_fragments": d})
			}
		}
	}
	for _, m := range materialisedFiles() {
		d, s, err := traceFragmentReads(tw, m.name, m.data)
		if err == nil {
			done += d
			skipped += s
			if d > 0 {
				rep.Count(m.name, true, nil)
			}
		}
	}
	rep.Extra["track_fragments"] = done
	rep.Extra["skipped"] = skipped
	rep.Extra["events"] = tw.N
	rep.Done()
	return tw.Close()
}
