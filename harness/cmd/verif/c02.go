package main

// C02: Size() = bytes written = header size field. Call histories enumerated by BoxSize.tla are
// executed on every object of the pool; the recorded numbers form the trace that BoxSize.tla validates.

import (
	"bytes"
	"encoding/json"
	"fmt"
	"io/ioutil"

	"github.com/Eyevinn/mp4ff/bits"
	"github.com/Eyevinn/mp4ff/mp4"
)

func init() {
	register("c02-drive", c02Drive)
}

type c02Hist struct {
	Ops []string `json:"ops"`
	Opt bool     `json:"opt"`
}

func c02Drive(args []string) error {
	var hists []c02Hist
	if err := readLines(argValue(args, "-in", "-"), func(line []byte) error {
		var h c02Hist
		if err := json.Unmarshal(line, &h); err != nil {
			return err
		}
		hists = append(hists, h)
		return nil
	}); err != nil {
		return err
	}
	seed0 := int(seedFromEnv())
	pool, err := buildPool(argValue(args, "-corpus", "/repo/mp4/testdata"), true)
	if err != nil {
		return err
	}
	// every box shape of BoxLayouts.tla (versions, flag subsets, counts, boundary values), alone and inside its parent:
	// decoded objects whose fields sit at the edges of their ranges
	nLayouts := 0
	if ip := argValue(args, "-instances", ""); ip != "" {
		stride := argInt(args, "-instance-stride", 1)
		k := 0
		if err := readLines(ip, func(line []byte) error {
			var e struct {
				Layout string        `json:"layout"`
				Ver    int           `json:"ver"`
				Flags  int           `json:"flags"`
				Cnt    int           `json:"cnt"`
				Pick   []interface{} `json:"pick"`
				Hdr    string        `json:"hdr"`
				Wrap   string        `json:"wrap"`
				Bytes  []int         `json:"bytes"`
			}
			if err := json.Unmarshal(line, &e); err != nil {
				return err
			}
			if e.Wrap != "none" && e.Wrap != "parent" {
				return nil
			}
			k++
			if k%stride != seed0%stride {
				return nil
			}
			raw := ints2bytes(e.Bytes)
			b, err := func() (b mp4.Box, err error) {
				defer func() {
					if r := recover(); r != nil {
						err = fmt.Errorf("panic: %v", r)
					}
				}()
				return mp4.DecodeBox(0, bytes.NewReader(raw))
			}()
			if err != nil || b == nil || b.Size() != uint64(len(raw)) {
				return nil // shapes the decoder refuses (or that are not one box) are C01 / C04 material
			}
			name := fmt.Sprintf("layout:%s/v%d/f%x/c%d/%v/%s/%s", e.Layout, e.Ver, e.Flags, e.Cnt, e.Pick, e.Hdr, e.Wrap)
			pool = append(pool, poolObj{Name: name, Kind: "box", Type: b.Type(), raw: raw,
				fresh: func() (sizedObj, error) { return mp4.DecodeBox(0, bytes.NewReader(raw)) }})
			nLayouts++
			return nil
		}); err != nil {
			return err
		}
	}
	perObj := argInt(args, "-per", 4)
	seed := int(seedFromEnv())
	tw, err := newTraceWriter(argValue(args, "-trace", "trace.ndjson"))
	if err != nil {
		return err
	}
	rep := newReport()
	types := map[string]int{}
	hi := seed
	for oi, po := range pool {
		types[po.Kind+":"+po.Type]++
		for k := 0; k < perObj; k++ {
			h := hists[(hi)%len(hists)]
			hi += 7
			if h.Opt && po.setOpt == nil {
				h.Opt = false
			}
			obj, err := po.fresh()
			if err != nil || obj == nil {
				continue
			}
			if h.Opt {
				po.setOpt(obj)
			}
			tw.Reset(J{"obj": po.Name, "kind": po.Kind, "type": po.Type, "opt": h.Opt, "ops": h.Ops, "oi": oi, "omitted": omittedTopLevel(obj)})
			func() {
				defer func() {
					if r := recover(); r != nil {
						tw.Ev(J{"ev": "panic", "what": fmt.Sprint(r)})
					}
				}()
				for _, op := range h.Ops {
					switch op {
					case "size":
						tw.Ev(J{"ev": "size", "v": int(obj.Size())})
					case "info0", "info1":
						lvl := ""
						if op == "info1" {
							lvl = "all:1"
						}
						err := obj.Info(ioutil.Discard, lvl, "", "  ")
						tw.Ev(J{"ev": "info", "ok": err == nil})
					case "encW", "encSW":
						before := obj.Size()
						var out []byte
						var err error
						if op == "encW" {
							var buf bytes.Buffer
							err = obj.Encode(&buf)
							out = buf.Bytes()
						} else {
							sw := bits.NewFixedSliceWriter(int(before) + 32)
							err = obj.EncodeSW(sw)
							out = sw.Bytes()
						}
						ev := J{"ev": "encode", "enc": op, "err": "", "written": len(out), "size_before": int(before), "size_after": int(obj.Size()),
							"wellsized": true, "digest": 0}
						if err != nil {
							ev["err"] = err.Error()
						} else {
							ev["wellsized"] = wellSized(out)
							ev["digest"] = fnvDigest(out)
						}
						tw.Ev(ev)
					}
				}
			}()
			rep.Count(fmt.Sprint(po.Name, h), true, nil)
		}
	}
	rep.Samples = append(rep.Samples, J{"object": pool[0].Name, "history": hists[seed%len(hists)]})
	rep.Extra["events"] = tw.N
	rep.Extra["traces"] = tw.T
	rep.Extra["objects"] = len(pool)
	rep.Extra["layout_objects"] = nLayouts
	rep.Extra["object_types"] = len(types)
	rep.Done()
	return tw.Close()
}

// omittedTopLevel lists the top-level box types of a fragmented File that segment-mode encoding does
// not write (boxes that are neither part of the init segment, a media segment, a sidx nor the mfra).
func omittedTopLevel(o sizedObj) []string {
	out := []string{}
	f, ok := o.(*mp4.File)
	if !ok || !f.IsFragmented() || f.FragEncMode != mp4.EncModeSegment {
		return out
	}
	written := map[mp4.Box]bool{}
	if f.Init != nil {
		for _, c := range f.Init.Children {
			written[c] = true
		}
	}
	for _, s := range f.Sidxs {
		written[s] = true
	}
	for _, seg := range f.Segments {
		if seg.Styp != nil {
			written[seg.Styp] = true
		}
		for _, s := range seg.Sidxs {
			written[s] = true
		}
		for _, fr := range seg.Fragments {
			for _, c := range fr.Children {
				written[c] = true
			}
		}
	}
	if f.Mfra != nil {
		written[f.Mfra] = true
	}
	for _, c := range f.Children {
		if !written[c] {
			out = append(out, c.Type())
		}
	}
	return out
}
