package main

// C15 (AVC): replays AvcSyntax.tla value vectors - the NAL units are produced by the TLA+ serialiser -
// through the real SPS / PPS / slice-header parsers and the configuration-record / codec-string
// builders, comparing field by field with the chosen values and the standard's derived quantities.

import (
	"bytes"
	"encoding/json"
	"fmt"
	"reflect"

	"github.com/Eyevinn/mp4ff/avc"
	"github.com/Eyevinn/mp4ff/mp4"
)

func init() {
	register("c15-replay", c15Replay)
}

type mism struct {
	field string
	got   interface{}
	want  interface{}
}

type cmp struct {
	m []mism
}

func (c *cmp) eq(field string, got, want interface{}) {
	if !reflect.DeepEqual(toI64(got), toI64(want)) {
		c.m = append(c.m, mism{field, got, want})
	}
}

func toI64(v interface{}) interface{} {
	rv := reflect.ValueOf(v)
	switch rv.Kind() {
	case reflect.Int, reflect.Int8, reflect.Int16, reflect.Int32, reflect.Int64:
		return rv.Int()
	case reflect.Uint, reflect.Uint8, reflect.Uint16, reflect.Uint32, reflect.Uint64:
		return int64(rv.Uint())
	case reflect.Float64:
		return int64(rv.Float())
	}
	return v
}

func bitsToU(b []int) uint {
	var v uint
	for _, x := range b {
		v = v<<1 | uint(x)
	}
	return v
}

type avcHrd struct {
	Cpbcnt, Brscale, Cpbscale, Br, Cpb, Initlen, Cpblen, Dpblen, Tol int
}

type avcVui struct {
	On                                                bool
	Arflag                                            bool
	Aridc, Sarw, Sarh                                 int
	Overscan, Overscanapp, Vsig                       bool
	Vformat                                           int
	Fullrange, Colourdesc                             bool
	Prim, Transfer, Matrix                            int
	Chromaloc                                         bool
	Loctop, Locbot                                    int
	Timing                                            bool
	Units, Timescale                                  []int
	Fixedrate, Nalhrd, Vclhrd                         bool
	Hrd                                               avcHrd
	Lowdelay, Picstruct, Bsr, Mvover                  bool
	Maxbytes, Maxbits, Mvh, Mvv, Reorder, Decbuf      int
}

type avcSpsV struct {
	Profile, Compat, Level, ID, Chroma int
	Sepcol                             bool
	Bdl, Bdc                           int
	Qpprime                            bool
	Scaling                            string
	Log2fn, Poctype, Log2poc           int
	Deltazero                          bool
	Offnonref, Offtopbot               int
	Refcycle                           []int
	Numref                             int
	Gaps                               bool
	Wmbs, Hmap                         int
	Fmo, Mbaff, D8x8, Crop             bool
	Cl, Cr, Ct, Cb                     int
	Vui                                avcVui
}

type avcPpsV struct {
	ID, Spsid                          int
	Cabac, Bottomfield                 bool
	L0, L1                             int
	Wpred                              bool
	Wbipred, Qp, Qs, Cqp               int
	Deblock, Cintra, Redundant, Tail   bool
	T8x8                               bool
	Pscaling                           string
	Cqp2                               int
	Groups, Maptype                    int
	Gdir                               bool
	Grate, Gmapunits                   int
}

type avcSliceV struct {
	Firstmb, Type, Colourplane, Framenum      int
	Field, Bottom                             bool
	Idrid, Poclsb, Dpocbottom, Dpoc0, Dpoc1   int
	Redundantcnt                              int
	Direct, Override                          bool
	L0, L1                                    int
	Refmod0, Refmod1                          string
	Lumadenom, Chromadenom                    int
	Nooutput, Longterm, Adaptive              bool
	Cabacidc, Qpdelta                         int
	Spswitch                                  bool
	Qsdelta, Deblockidc, Alpha, Beta          int
}

var highProfiles = map[int]bool{100: true, 110: true, 122: true, 244: true, 44: true, 83: true, 86: true, 118: true, 128: true, 138: true, 139: true, 134: true, 135: true}

var sarTable = [][2]int{{0, 0}, {1, 1}, {12, 11}, {10, 11}, {16, 11}, {40, 33}, {24, 11}, {20, 11}, {32, 11}, {80, 33}, {18, 11}, {15, 11}, {64, 33}, {160, 99}, {4, 3}, {3, 2}, {2, 1}}

func scalingEq(got []avc.ScalingList, want [][]int) bool {
	if len(got) != len(want) {
		return false
	}
	for i := range got {
		if len(want[i]) == 0 {
			if len(got[i]) != 0 {
				return false
			}
			continue
		}
		if len(got[i]) != len(want[i]) {
			return false
		}
		for j := range want[i] {
			if got[i][j] != want[i][j] {
				return false
			}
		}
	}
	return true
}

func c15Replay(args []string) error {
	rep := newReport()
	err := readLines(argValue(args, "-in", "-"), func(line []byte) error {
		var hd struct {
			Struct string `json:"struct"`
		}
		if err := json.Unmarshal(line, &hd); err != nil {
			return err
		}
		var err error
		switch hd.Struct {
		case "sps":
			err = c15Sps(rep, line)
		case "pps":
			err = c15Pps(rep, line)
		case "slice":
			err = c15Slice(rep, line)
		}
		return err
	})
	rep.Done()
	return err
}

func reportMism(rep *Report, prefix string, c *cmp, cs J) {
	for _, m := range c.m {
		rep.Violation(prefix+"/"+m.field, fmt.Sprintf("parsed %s = %v, coded value %v", m.field, m.got, m.want), cs)
	}
}

func c15Sps(rep *Report, line []byte) error {
	var c struct {
		V           avcSpsV `json:"v"`
		Nal         []int   `json:"nal"`
		Width       int     `json:"width"`
		Height      int     `json:"height"`
		Chroma      int     `json:"chroma"`
		Scalingvals [][]int `json:"scalingvals"`
	}
	if err := json.Unmarshal(line, &c); err != nil {
		return err
	}
	v := c.V
	nal := ints2bytes(c.Nal)
	cs := J{"v": v, "nal": c.Nal}
	defer func() {
		if r := recover(); r != nil {
			rep.Violation("avc/sps/panic", fmt.Sprintf("ParseSPSNALUnit panics on a valid SPS: %v", r), cs)
		}
	}()
	sps, err := avc.ParseSPSNALUnit(nal, true)
	if err != nil {
		key := "avc/sps/rejected"
		if v.Vui.On && v.Vui.Arflag && v.Vui.Aridc == 0 {
			key = "avc/sps/rejected/aspect_ratio_idc-0-unspecified"
		}
		rep.Violation(key, "valid SPS rejected: "+err.Error(), cs)
		rep.Count(string(line), true, nil)
		return nil
	}
	k := &cmp{}
	k.eq("profile_idc", sps.Profile, v.Profile)
	k.eq("constraint_flags", sps.ProfileCompatibility, v.Compat)
	k.eq("level_idc", sps.Level, v.Level)
	k.eq("seq_parameter_set_id", sps.ParameterID, v.ID)
	k.eq("chroma_format_idc", sps.ChromaFormatIDC, c.Chroma)
	if highProfiles[v.Profile] {
		if v.Chroma == 3 {
			k.eq("separate_colour_plane_flag", sps.SeparateColourPlaneFlag, v.Sepcol)
		}
		k.eq("bit_depth_luma_minus8", sps.BitDepthLumaMinus8, v.Bdl)
		k.eq("bit_depth_chroma_minus8", sps.BitDepthChromaMinus8, v.Bdc)
		k.eq("qpprime_y_zero_transform_bypass_flag", sps.QPPrimeYZeroTransformBypassFlag, v.Qpprime)
		k.eq("seq_scaling_matrix_present_flag", sps.SeqScalingMatrixPresentFlag, v.Scaling != "none")
		if v.Scaling != "none" && v.Scaling != "stop" && !scalingEq(sps.SeqScalingLists, c.Scalingvals) {
			k.m = append(k.m, mism{"scaling_list", sps.SeqScalingLists, c.Scalingvals})
		}
	}
	k.eq("log2_max_frame_num_minus4", sps.Log2MaxFrameNumMinus4, v.Log2fn)
	k.eq("pic_order_cnt_type", sps.PicOrderCntType, v.Poctype)
	switch v.Poctype {
	case 0:
		k.eq("log2_max_pic_order_cnt_lsb_minus4", sps.Log2MaxPicOrderCntLsbMinus4, v.Log2poc)
	case 1:
		k.eq("delta_pic_order_always_zero_flag", sps.DeltaPicOrderAlwaysZeroFlag, v.Deltazero)
		k.eq("offset_for_non_ref_pic", int64(int(sps.OffsetForNonRefPic)), v.Offnonref)
		k.eq("offset_for_top_to_bottom_field", int64(int(sps.OffsetForTopToBottomField)), v.Offtopbot)
		rc := make([]int, len(sps.RefFramesInPicOrderCntCycle))
		for i, x := range sps.RefFramesInPicOrderCntCycle {
			rc[i] = int(x)
		}
		if fmt.Sprint(rc) != fmt.Sprint(v.Refcycle) {
			k.m = append(k.m, mism{"offset_for_ref_frame", rc, v.Refcycle})
		}
	}
	k.eq("max_num_ref_frames", sps.NumRefFrames, v.Numref)
	k.eq("gaps_in_frame_num_value_allowed_flag", sps.GapsInFrameNumValueAllowedFlag, v.Gaps)
	k.eq("frame_mbs_only_flag", sps.FrameMbsOnlyFlag, v.Fmo)
	if !v.Fmo {
		k.eq("mb_adaptive_frame_field_flag", sps.MbAdaptiveFrameFieldFlag, v.Mbaff)
	}
	k.eq("direct_8x8_inference_flag", sps.Direct8x8InferenceFlag, v.D8x8)
	k.eq("frame_cropping_flag", sps.FrameCroppingFlag, v.Crop)
	if v.Crop {
		k.eq("frame_crop_left_offset", sps.FrameCropLeftOffset, v.Cl)
		k.eq("frame_crop_right_offset", sps.FrameCropRightOffset, v.Cr)
		k.eq("frame_crop_top_offset", sps.FrameCropTopOffset, v.Ct)
		k.eq("frame_crop_bottom_offset", sps.FrameCropBottomOffset, v.Cb)
	}
	k.eq("width", sps.Width, c.Width)
	k.eq("height", sps.Height, c.Height)
	if (sps.VUI != nil) != v.Vui.On {
		k.m = append(k.m, mism{"vui_parameters_present_flag", sps.VUI != nil, v.Vui.On})
	} else if v.Vui.On {
		u, w := sps.VUI, v.Vui
		if w.Arflag {
			sw, sh := w.Sarw, w.Sarh
			if w.Aridc != 255 && w.Aridc < len(sarTable) {
				sw, sh = sarTable[w.Aridc][0], sarTable[w.Aridc][1]
			}
			k.eq("sar_width", u.SampleAspectRatioWidth, sw)
			k.eq("sar_height", u.SampleAspectRatioHeight, sh)
		}
		k.eq("overscan_info_present_flag", u.OverscanInfoPresentFlag, w.Overscan)
		if w.Overscan {
			k.eq("overscan_appropriate_flag", u.OverscanAppropriateFlag, w.Overscanapp)
		}
		k.eq("video_signal_type_present_flag", u.VideoSignalTypePresentFlag, w.Vsig)
		if w.Vsig {
			k.eq("video_format", u.VideoFormat, w.Vformat)
			k.eq("video_full_range_flag", u.VideoFullRangeFlag, w.Fullrange)
			k.eq("colour_description_present_flag", u.ColourDescriptionFlag, w.Colourdesc)
			if w.Colourdesc {
				k.eq("colour_primaries", u.ColourPrimaries, w.Prim)
				k.eq("transfer_characteristics", u.TransferCharacteristics, w.Transfer)
				k.eq("matrix_coefficients", u.MatrixCoefficients, w.Matrix)
			}
		}
		k.eq("chroma_loc_info_present_flag", u.ChromaLocInfoPresentFlag, w.Chromaloc)
		if w.Chromaloc {
			k.eq("chroma_sample_loc_type_top_field", u.ChromaSampleLocTypeTopField, w.Loctop)
			k.eq("chroma_sample_loc_type_bottom_field", u.ChromaSampleLocTypeBottomField, w.Locbot)
		}
		k.eq("timing_info_present_flag", u.TimingInfoPresentFlag, w.Timing)
		if w.Timing {
			k.eq("num_units_in_tick", u.NumUnitsInTick, bitsToU(w.Units))
			k.eq("time_scale", u.TimeScale, bitsToU(w.Timescale))
			k.eq("fixed_frame_rate_flag", u.FixedFrameRateFlag, w.Fixedrate)
		}
		k.eq("nal_hrd_parameters_present_flag", u.NalHrdParametersPresentFlag, w.Nalhrd)
		k.eq("vcl_hrd_parameters_present_flag", u.VclHrdParametersPresentFlag, w.Vclhrd)
		hrdEq := func(name string, h *avc.HrdParameters, cnt int) {
			if h == nil {
				k.m = append(k.m, mism{name, nil, "present"})
				return
			}
			k.eq(name+".cpb_cnt_minus1", h.CpbCountMinus1, cnt)
			k.eq(name+".bit_rate_scale", h.BitRateScale, w.Hrd.Brscale)
			k.eq(name+".cpb_size_scale", h.CpbSizeScale, w.Hrd.Cpbscale)
			if len(h.CpbEntries) == cnt+1 {
				for i, e := range h.CpbEntries {
					k.eq(name+".bit_rate_value_minus1", e.BitRateValueMinus1, w.Hrd.Br+i+1)
					k.eq(name+".cpb_size_value_minus1", e.CpbSizeValueMinus1, w.Hrd.Cpb+i+1)
					k.eq(name+".cbr_flag", e.CbrFlag, (i+1)%2 == 1)
				}
			} else {
				k.m = append(k.m, mism{name + ".entries", len(h.CpbEntries), cnt + 1})
			}
			k.eq(name+".initial_cpb_removal_delay_length_minus1", h.InitialCpbRemovalDelayLengthMinus1, w.Hrd.Initlen)
			k.eq(name+".cpb_removal_delay_length_minus1", h.CpbRemovalDelayLengthMinus1, w.Hrd.Cpblen)
			k.eq(name+".dpb_output_delay_length_minus1", h.DpbOutputDelayLengthMinus1, w.Hrd.Dpblen)
			k.eq(name+".time_offset_length", h.TimeOffsetLength, w.Hrd.Tol)
		}
		if w.Nalhrd {
			hrdEq("nal_hrd", u.NalHrdParameters, w.Hrd.Cpbcnt)
		}
		if w.Vclhrd {
			hrdEq("vcl_hrd", u.VclHrdParameters, 1)
		}
		if w.Nalhrd || w.Vclhrd {
			k.eq("low_delay_hrd_flag", u.LowDelayHrdFlag, w.Lowdelay)
		}
		k.eq("pic_struct_present_flag", u.PicStructPresentFlag, w.Picstruct)
		k.eq("bitstream_restriction_flag", u.BitstreamRestrictionFlag, w.Bsr)
		if w.Bsr {
			k.eq("motion_vectors_over_pic_boundaries_flag", u.MotionVectorsOverPicBoundariesFlag, w.Mvover)
			k.eq("max_bytes_per_pic_denom", u.MaxBytesPerPicDenom, w.Maxbytes)
			k.eq("max_bits_per_mb_denom", u.MaxBitsPerMbDenom, w.Maxbits)
			k.eq("log2_max_mv_length_horizontal", u.Log2MaxMvLengthHorizontal, w.Mvh)
			k.eq("log2_max_mv_length_vertical", u.Log2MaxMvLengthVertical, w.Mvv)
			k.eq("max_num_reorder_frames", u.MaxNumReorderFrames, w.Reorder)
			k.eq("max_dec_frame_buffering", u.MaxDecFrameBuffering, w.Decbuf)
		}
	}
	reportMism(rep, "avc/sps", k, cs)
	// Y5: configuration record, codec string, sample entry
	pps := []byte{0x68, 0xce, 0x38, 0x80}
	k2 := &cmp{}
	if rec, err := avc.CreateAVCDecConfRec([][]byte{nal}, [][]byte{pps}, true); err != nil {
		rep.Violation("avc/confrec/error", "CreateAVCDecConfRec fails on a valid SPS: "+err.Error(), cs)
	} else {
		k2.eq("AVCProfileIndication", rec.AVCProfileIndication, v.Profile)
		k2.eq("profile_compatibility", rec.ProfileCompatibility, v.Compat)
		k2.eq("AVCLevelIndication", rec.AVCLevelIndication, v.Level)
		if highProfiles[v.Profile] {
			k2.eq("chroma_format", rec.ChromaFormat, v.Chroma)
			k2.eq("bit_depth_luma_minus8", rec.BitDepthLumaMinus1, v.Bdl)
			k2.eq("bit_depth_chroma_minus8", rec.BitDepthChromaMinus1, v.Bdc)
		}
		if len(rec.SPSnalus) != 1 || !bytes.Equal(rec.SPSnalus[0], nal) || len(rec.PPSnalus) != 1 || !bytes.Equal(rec.PPSnalus[0], pps) {
			k2.m = append(k2.m, mism{"parameter_set_nalus", "changed", "verbatim"})
		}
		// encode / decode of the record keeps them
		var b bytes.Buffer
		if err := rec.Encode(&b); err == nil {
			if d, err := avc.DecodeAVCDecConfRec(b.Bytes()); err != nil || len(d.SPSnalus) != 1 || !bytes.Equal(d.SPSnalus[0], nal) ||
				d.AVCProfileIndication != rec.AVCProfileIndication || d.ChromaFormat != rec.ChromaFormat && highProfiles[v.Profile] {
				k2.m = append(k2.m, mism{"record_roundtrip", fmt.Sprint(err), "equal"})
			}
		}
	}
	k2.eq("codec_string", avc.CodecString("avc1", sps), fmt.Sprintf("avc1.%02X%02X%02X", v.Profile, v.Compat, v.Level))
	reportMism(rep, "avc/confrec", k2, cs)
	// sample entry via the init API
	func() {
		defer func() {
			if r := recover(); r != nil {
				rep.Violation("avc/sampleentry/panic", fmt.Sprintf("SetAVCDescriptor panics: %v", r), cs)
			}
		}()
		ini := mp4.CreateEmptyInit()
		ini.AddEmptyTrack(90000, "video", "und")
		if err := ini.Moov.Trak.SetAVCDescriptor("avc1", [][]byte{nal}, [][]byte{pps}, true); err != nil {
			rep.Violation("avc/sampleentry/error", "SetAVCDescriptor fails on a valid SPS: "+err.Error(), cs)
			return
		}
		e := ini.Moov.Trak.Mdia.Minf.Stbl.Stsd.AvcX
		if int(e.Width) != c.Width%65536 || int(e.Height) != c.Height%65536 {
			rep.Violation("avc/sampleentry/dimensions", fmt.Sprintf("sample entry %dx%d, SPS says %dx%d", e.Width, e.Height, c.Width, c.Height), cs)
		}
	}()
	var smp interface{}
	if v.Crop && !v.Fmo {
		smp = J{"sps": v, "width": c.Width, "height": c.Height}
	}
	rep.Count(string(line), true, smp)
	return nil
}

func c15Pps(rep *Report, line []byte) error {
	var c struct {
		P           avcPpsV `json:"p"`
		Spsnal      []int   `json:"spsnal"`
		Nal         []int   `json:"nal"`
		Scalingvals [][]int `json:"scalingvals"`
	}
	if err := json.Unmarshal(line, &c); err != nil {
		return err
	}
	p := c.P
	cs := J{"p": p, "nal": c.Nal}
	defer func() {
		if r := recover(); r != nil {
			rep.Violation("avc/pps/panic", fmt.Sprintf("ParsePPSNALUnit panics on a valid PPS: %v", r), cs)
		}
	}()
	sps, err := avc.ParseSPSNALUnit(ints2bytes(c.Spsnal), true)
	if err != nil {
		return nil // judged by the sps cases
	}
	got, err := avc.ParsePPSNALUnit(ints2bytes(c.Nal), map[uint32]*avc.SPS{sps.ParameterID: sps})
	if err != nil {
		rep.Violation("avc/pps/rejected", "valid PPS rejected: "+err.Error(), cs)
		rep.Count(string(line), true, nil)
		return nil
	}
	k := &cmp{}
	k.eq("pic_parameter_set_id", got.PicParameterSetID, p.ID)
	k.eq("seq_parameter_set_id", got.SeqParameterSetID, p.Spsid)
	k.eq("entropy_coding_mode_flag", got.EntropyCodingModeFlag, p.Cabac)
	k.eq("bottom_field_pic_order_in_frame_present_flag", got.BottomFieldPicOrderInFramePresentFlag, p.Bottomfield)
	k.eq("num_slice_groups_minus1", got.NumSliceGroupsMinus1, p.Groups)
	if p.Groups > 0 {
		k.eq("slice_group_map_type", got.SliceGroupMapType, p.Maptype)
		var want []uint
		switch p.Maptype {
		case 0:
			for i := 0; i <= p.Groups; i++ {
				want = append(want, uint(3*i+1))
			}
			if !reflect.DeepEqual(got.RunLengthMinus1, want) {
				k.m = append(k.m, mism{"run_length_minus1", got.RunLengthMinus1, want})
			}
		case 2:
			var tl, br []uint
			for i := 0; i < p.Groups; i++ {
				tl, br = append(tl, uint(2*i)), append(br, uint(2*i+5))
			}
			if !reflect.DeepEqual(got.TopLeft, tl) || !reflect.DeepEqual(got.BottomRight, br) {
				k.m = append(k.m, mism{"top_left / bottom_right", []interface{}{got.TopLeft, got.BottomRight}, []interface{}{tl, br}})
			}
		case 3, 4, 5:
			k.eq("slice_group_change_direction_flag", got.SliceGroupChangeDirectionFlag, p.Gdir)
			k.eq("slice_group_change_rate_minus1", got.SliceGroupChangeRateMinus1, p.Grate)
		case 6:
			k.eq("pic_size_in_map_units_minus1", got.PicSizeInMapUnitsMinus1, p.Gmapunits)
			for i := 0; i <= p.Gmapunits; i++ {
				want = append(want, uint(i%(p.Groups+1)))
			}
			if !reflect.DeepEqual(got.SliceGroupID, want) {
				k.m = append(k.m, mism{"slice_group_id", got.SliceGroupID, want})
			}
		}
	}
	k.eq("num_ref_idx_l0_default_active_minus1", got.NumRefIdxI0DefaultActiveMinus1, p.L0)
	k.eq("num_ref_idx_l1_default_active_minus1", got.NumRefIdxI1DefaultActiveMinus1, p.L1)
	k.eq("weighted_pred_flag", got.WeightedPredFlag, p.Wpred)
	k.eq("weighted_bipred_idc", got.WeightedBipredIDC, p.Wbipred)
	k.eq("pic_init_qp_minus26", got.PicInitQpMinus26, p.Qp)
	k.eq("pic_init_qs_minus26", got.PicInitQsMinus26, p.Qs)
	k.eq("chroma_qp_index_offset", got.ChromaQpIndexOffset, p.Cqp)
	k.eq("deblocking_filter_control_present_flag", got.DeblockingFilterControlPresentFlag, p.Deblock)
	k.eq("constrained_intra_pred_flag", got.ConstrainedIntraPredFlag, p.Cintra)
	k.eq("redundant_pic_cnt_present_flag", got.RedundantPicCntPresentFlag, p.Redundant)
	if p.Tail {
		k.eq("transform_8x8_mode_flag", got.Transform8x8ModeFlag, p.T8x8)
		k.eq("pic_scaling_matrix_present_flag", got.PicScalingMatrixPresentFlag, p.Pscaling != "none")
		if p.Pscaling != "none" && !scalingEq(got.PicScalingLists, c.Scalingvals) {
			k.m = append(k.m, mism{"pic_scaling_list", got.PicScalingLists, c.Scalingvals})
		}
		k.eq("second_chroma_qp_index_offset", got.SecondChromaQpIndexOffset, p.Cqp2)
	}
	reportMism(rep, "avc/pps", k, cs)
	rep.Count(string(line), true, nil)
	return nil
}

func c15Slice(rep *Report, line []byte) error {
	var c struct {
		S         avcSliceV `json:"s"`
		P         avcPpsV   `json:"p"`
		Spsid     int       `json:"spsid"`
		Naltype   int       `json:"naltype"`
		Refidc    int       `json:"refidc"`
		Spsnal    []int     `json:"spsnal"`
		Ppsnal    []int     `json:"ppsnal"`
		Othersps  []int     `json:"othersps"`
		Nal       []int     `json:"nal"`
		Size      int       `json:"size"`
		Kind      int       `json:"kind"`
		Poctype   int       `json:"poctype"`
		Fmo       bool      `json:"fmo"`
		Sepcol    bool      `json:"sepcol"`
		Deltazero bool      `json:"deltazero"`
		ChangeCyc int       `json:"changecycle"`
	}
	if err := json.Unmarshal(line, &c); err != nil {
		return err
	}
	s, p := c.S, c.P
	cs := J{"s": s, "pps_id": p.ID, "sps_id": c.Spsid, "nal_type": c.Naltype, "ref_idc": c.Refidc, "nal": c.Nal}
	defer func() {
		if r := recover(); r != nil {
			rep.Violation("avc/slice/panic", fmt.Sprintf("ParseSliceHeader panics on a valid slice: %v", r), cs)
		}
	}()
	sps, err := avc.ParseSPSNALUnit(ints2bytes(c.Spsnal), true)
	if err != nil {
		return nil
	}
	spsMap := map[uint32]*avc.SPS{}
	// a different SPS is stored under the PPS's own id so that a wrong lookup is visible
	if p.ID != c.Spsid {
		if o, err := avc.ParseSPSNALUnit(ints2bytes(c.Othersps), true); err == nil {
			spsMap[uint32(p.ID)] = o
		}
	}
	spsMap[sps.ParameterID] = sps
	pps, err := avc.ParsePPSNALUnit(ints2bytes(c.Ppsnal), spsMap)
	if err != nil {
		return nil
	}
	ppsMap := map[uint32]*avc.PPS{pps.PicParameterSetID: pps}
	sh, err := avc.ParseSliceHeader(ints2bytes(c.Nal), spsMap, ppsMap)
	idsDiffer := p.ID != c.Spsid
	pre := "avc/slice"
	if idsDiffer {
		pre = "avc/slice(pps_id!=sps_id)"
	}
	if err != nil {
		rep.Violation(pre+"/rejected", "valid slice header rejected: "+err.Error(), cs)
		rep.Count(string(line), true, nil)
		return nil
	}
	k := &cmp{}
	k.eq("first_mb_in_slice", sh.FirstMBInSlice, s.Firstmb)
	k.eq("slice_type", sh.SliceType, s.Type)
	k.eq("pic_parameter_set_id", sh.PicParamID, p.ID)
	if c.Sepcol {
		k.eq("colour_plane_id", sh.ColorPlaneID, s.Colourplane)
	}
	k.eq("frame_num", sh.FrameNum, s.Framenum)
	if !c.Fmo {
		k.eq("field_pic_flag", sh.FieldPicFlag, s.Field)
		if s.Field {
			k.eq("bottom_field_flag", sh.BottomFieldFlag, s.Bottom)
		}
	}
	if c.Naltype == 5 {
		k.eq("idr_pic_id", sh.IDRPicID, s.Idrid)
	}
	fieldPic := !c.Fmo && s.Field
	if c.Poctype == 0 {
		k.eq("pic_order_cnt_lsb", sh.PicOrderCntLsb, s.Poclsb)
		if p.Bottomfield && !fieldPic {
			k.eq("delta_pic_order_cnt_bottom", sh.DeltaPicOrderCntBottom, s.Dpocbottom)
		}
	} else if c.Poctype == 1 && !c.Deltazero {
		k.eq("delta_pic_order_cnt[0]", sh.DeltaPicOrderCnt[0], s.Dpoc0)
		if p.Bottomfield && !fieldPic {
			k.eq("delta_pic_order_cnt[1]", sh.DeltaPicOrderCnt[1], s.Dpoc1)
		}
	}
	if p.Redundant {
		k.eq("redundant_pic_cnt", sh.RedundantPicCnt, s.Redundantcnt)
	}
	if c.Kind == 1 {
		k.eq("direct_spatial_mv_pred_flag", sh.DirectSpatialMvPredFlag, s.Direct)
	}
	if c.Kind == 0 || c.Kind == 1 || c.Kind == 3 {
		k.eq("num_ref_idx_active_override_flag", sh.NumRefIdxActiveOverrideFlag, s.Override)
		if s.Override {
			k.eq("num_ref_idx_l0_active_minus1", sh.NumRefIdxL0ActiveMinus1, s.L0)
			if c.Kind == 1 {
				k.eq("num_ref_idx_l1_active_minus1", sh.NumRefIdxL1ActiveMinus1, s.L1)
			}
		}
		k.eq("ref_pic_list_modification_flag_l0", sh.RefPicListModificationL0Flag, s.Refmod0 != "none")
	}
	if c.Kind == 1 {
		k.eq("ref_pic_list_modification_flag_l1", sh.RefPicListModificationL1Flag, s.Refmod1 != "none")
	}
	if c.Refidc != 0 {
		if c.Naltype == 5 {
			k.eq("no_output_of_prior_pics_flag", sh.NoOutputOfPriorPicsFlag, s.Nooutput)
			k.eq("long_term_reference_flag", sh.LongTermReferenceFlag, s.Longterm)
		} else {
			k.eq("adaptive_ref_pic_marking_mode_flag", sh.AdaptiveRefPicMarkingModeFlag, s.Adaptive)
		}
	}
	if p.Cabac && c.Kind != 2 && c.Kind != 4 {
		k.eq("cabac_init_idc", sh.CabacInitIDC, s.Cabacidc)
	}
	k.eq("slice_qp_delta", sh.SliceQPDelta, s.Qpdelta)
	if c.Kind == 3 {
		k.eq("sp_for_switch_flag", sh.SPForSwitchFlag, s.Spswitch)
	}
	if c.Kind == 3 || c.Kind == 4 {
		k.eq("slice_qs_delta", sh.SliceQSDelta, s.Qsdelta)
	}
	if p.Deblock {
		k.eq("disable_deblocking_filter_idc", sh.DisableDeblockingFilterIDC, s.Deblockidc)
		if s.Deblockidc != 1 {
			k.eq("slice_alpha_c0_offset_div2", sh.SliceAlphaC0OffsetDiv2, s.Alpha)
			k.eq("slice_beta_offset_div2", sh.SliceBetaOffsetDiv2, s.Beta)
		}
	}
	k.eq("seq_parameter_set_id (resolved through the PPS)", sh.SeqParamID, c.Spsid)
	if c.ChangeCyc >= 0 {
		k.eq("slice_group_change_cycle", sh.SliceGroupChangeCycle, c.ChangeCyc)
	}
	k.eq("slice_header_size", sh.Size, c.Size)
	reportMism(rep, pre, k, cs)
	var smp interface{}
	if idsDiffer && c.Kind == 1 && s.Override {
		smp = J{"slice": s, "pps_id": p.ID, "sps_id": c.Spsid, "size": c.Size}
	}
	rep.Count(string(line), true, smp)
	return nil
}
