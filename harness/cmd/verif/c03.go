package main

// C03: interchangeability of the two decoders and the two encoders. Observes both implementations
// on every pool object / canonical byte string and records the outcomes for Interchange.tla.

import (
	"bufio"
	"bytes"
	"io"
	"strings"
	"testing/iotest"
	"encoding/json"
	"fmt"

	"github.com/Eyevinn/mp4ff/bits"
	"github.com/Eyevinn/mp4ff/mp4"
)

func init() {
	register("c03-drive", c03Drive)
}

func encBoth(o sizedObj) (w []byte, errW error, s []byte, errSW error) {
	func() {
		defer func() {
			if r := recover(); r != nil {
				errW = fmt.Errorf("panic: %v", r)
			}
		}()
		var buf bytes.Buffer
		errW = o.Encode(&buf)
		w = buf.Bytes()
	}()
	func() {
		defer func() {
			if r := recover(); r != nil {
				errSW = fmt.Errorf("panic: %v", r)
			}
		}()
		sw := bits.NewFixedSliceWriter(int(o.Size()) + 64)
		errSW = o.EncodeSW(sw)
		s = sw.Bytes()
	}()
	return
}

func errStr(e error) string {
	if e == nil {
		return ""
	}
	return e.Error()
}

func infoStr(o sizedObj) (out string) {
	var b bytes.Buffer
	defer func() {
		if r := recover(); r != nil {
			out = fmt.Sprintf("%spanic in Info: %v", b.String(), r)
		}
	}()
	_ = o.Info(&b, "all:1", "", " ")
	return b.String()
}

// fileProjection: grouping into init / segments / fragments with child types and start positions.
func fileProjection(f *mp4.File) string {
	p := J{"frag": f.IsFragmented(), "init": f.Init != nil, "nsidx": len(f.Sidxs), "mfra": f.Mfra != nil}
	var kids []string
	for _, c := range f.Children {
		kids = append(kids, c.Type())
	}
	p["kids"] = kids
	var segs []J
	for _, s := range f.Segments {
		sj := J{"pos": s.StartPos, "styp": s.Styp != nil, "nsidx": len(s.Sidxs)}
		var frs []J
		for _, fr := range s.Fragments {
			var ck []string
			for _, c := range fr.Children {
				ck = append(ck, c.Type())
			}
			fj := J{"pos": fr.StartPos, "kids": ck}
			if fr.Moof != nil {
				fj["moof"] = fr.Moof.StartPos
			}
			if fr.Mdat != nil {
				fj["mdat"] = fr.Mdat.StartPos
			}
			frs = append(frs, fj)
		}
		sj["frags"] = frs
		segs = append(segs, sj)
	}
	p["segs"] = segs
	b, _ := json.Marshal(p)
	return string(b)
}

func c03Drive(args []string) error {
	pool, err := buildPool(argValue(args, "-corpus", "/repo/mp4/testdata"), true)
	if err != nil {
		return err
	}
	tw, err := newTraceWriter(argValue(args, "-trace", "trace.ndjson"))
	if err != nil {
		return err
	}
	rep := newReport()
	// E3
	rd, srk := mp4.VerifRegisteredBoxTypes()
	inR, inS := map[string]bool{}, map[string]bool{}
	for _, k := range rd {
		inR[k] = true
	}
	for _, k := range srk {
		inS[k] = true
	}
	onlyR, onlyS := []string{}, []string{}
	for _, k := range rd {
		if !inS[k] {
			onlyR = append(onlyR, k)
		}
	}
	for _, k := range srk {
		if !inR[k] {
			onlyS = append(onlyS, k)
		}
	}
	tw.Reset(J{"obj": "dispatch tables"})
	tw.Ev(J{"ev": "tables", "onlyReader": onlyR, "onlySR": onlyS, "n": len(rd)})
	// extra canonical files: materialised FileAsm layouts given on -layouts
	type rawFile struct {
		name string
		data []byte
	}
	var extra []rawFile
	if lp := argValue(args, "-layouts", ""); lp != "" {
		n := 0
		_ = readLines(lp, func(line []byte) error {
			var c faCase
			if err := json.Unmarshal(line, &c); err != nil {
				return err
			}
			n++
			if c.P.Flags == "none" {
				extra = append(extra, rawFile{fmt.Sprintf("layout%d:%s/%s", n, c.P.Delim, c.P.Emsg), cat(c.materialise()...)})
			}
			return nil
		})
	}
	for _, po := range pool {
		obj, err := po.fresh()
		if err != nil || obj == nil {
			continue
		}
		tw.Reset(J{"obj": po.Name, "kind": po.Kind, "type": po.Type})
		w, eW, s, eS := encBoth(obj)
		tw.Ev(J{"ev": "enc2", "errW": errStr(eW), "errSW": errStr(eS), "same": bytes.Equal(w, s), "lenW": len(w), "lenSW": len(s)})
		if po.Kind == "box" && po.raw != nil {
			c03Dec2Box(tw, po.raw)
		}
		if po.Kind == "file" && po.raw != nil && po.Name[len(po.Name)-1] != ')' {
			c03Dec2File(tw, po.raw)
		}
		rep.Count(po.Name, true, nil)
	}
	// lazily sized mdat boxes (payload written separately) around the limit of the 32-bit size field: every encoder on its OWN
	// fresh object, so that neither benefits from state the other one left behind (MdatBox.Size switches LargeSize on)
	for _, n := range []uint64{1<<32 - 10, 1<<32 - 9, 1<<32 - 8, 1<<32 + 5} {
		for _, level := range []string{"mdat", "fragment"} {
			mk := func() (sizedObj, error) {
				if level == "mdat" {
					m := &mp4.MdatBox{}
					m.SetLazyDataSize(n)
					return m, nil
				}
				fr, err := mp4.CreateFragment(1, 1)
				if err != nil {
					return nil, err
				}
				fr.AddSample(mp4.Sample{Flags: 0x02000000, Dur: 10, Size: uint32(n >> 1)}, 0)
				fr.AddSample(mp4.Sample{Flags: 0x01010000, Dur: 10, Size: uint32(n - n>>1)}, 10)
				return fr, nil
			}
			name := fmt.Sprintf("api:lazy-%s(payload=2^32%+d)", level, int64(n)-1<<32)
			a, err1 := mk()
			b, err2 := mk()
			if err1 != nil || err2 != nil {
				continue
			}
			var w, sbytes []byte
			var eW, eS error
			func() {
				defer func() {
					if r := recover(); r != nil {
						eW = fmt.Errorf("panic: %v", r)
					}
				}()
				var buf bytes.Buffer
				eW = a.Encode(&buf)
				w = buf.Bytes()
			}()
			func() {
				defer func() {
					if r := recover(); r != nil {
						eS = fmt.Errorf("panic: %v", r)
					}
				}()
				sw := bits.NewFixedSliceWriter(4096)
				eS = b.EncodeSW(sw)
				sbytes = sw.Bytes()
			}()
			tw.Reset(J{"obj": name, "kind": "box", "type": level})
			tw.Ev(J{"ev": "enc2", "errW": errStr(eW), "errSW": errStr(eS), "same": bytes.Equal(w, sbytes), "lenW": len(w), "lenSW": len(sbytes)})
			rep.Count(name, true, nil)
		}
	}
	for _, rf := range extra {
		tw.Reset(J{"obj": rf.name, "kind": "file", "type": "file"})
		c03Dec2File(tw, rf.data)
		rep.Count(rf.name, true, nil)
	}
	// canonical byte strings over all box shapes: the instances enumerated by BoxLayouts.tla
	nInst := 0
	if ip := argValue(args, "-instances", ""); ip != "" {
		_ = readLines(ip, func(line []byte) error {
			var in c01Inst
			if err := json.Unmarshal(line, &in); err != nil {
				return err
			}
			raw := toBytes(in.Bytes)
			id := fmt.Sprintf("inst:%s/v%d/f%x/c%d/%v/%s/%s", in.Layout, in.Ver, in.Flags, in.Cnt, in.Pick, in.Hdr, in.Wrap)
			if len(in.Ord) > 0 {
				id += "=" + strings.Join(in.Ord, "+")
			}
			tw.Reset(J{"obj": id, "kind": "box", "type": in.Layout})
			c03Dec2Box(tw, raw)
			c03Dec2File(tw, raw)
			if d := c01Decode("DecodeBoxSR", raw); d.err == nil {
				wb, eW, sb, eS := encBoth(d.obj)
				tw.Ev(J{"ev": "enc2", "errW": errStr(eW), "errSW": errStr(eS), "same": bytes.Equal(wb, sb), "lenW": len(wb), "lenSW": len(sb)})
			}
			nInst++
			rep.Count(id, true, nil)
			return nil
		})
	}
	rep.Extra["instances"] = nInst
	rep.Samples = append(rep.Samples, J{"object": pool[0].Name})
	rep.Extra["events"] = tw.N
	rep.Extra["traces"] = tw.T
	rep.Extra["objects"] = len(pool) + len(extra)
	rep.Done()
	return tw.Close()
}

func c03Dec2Box(tw *TraceWriter, raw []byte) {
	var bR, bS mp4.Box
	var eR, eS error
	func() {
		defer func() {
			if r := recover(); r != nil {
				eR = fmt.Errorf("panic: %v", r)
			}
		}()
		bR, eR = mp4.DecodeBox(0, bytes.NewReader(raw))
	}()
	func() {
		defer func() {
			if r := recover(); r != nil {
				eS = fmt.Errorf("panic: %v", r)
			}
		}()
		bS, eS = mp4.DecodeBoxSR(0, bits.NewFixedSliceReader(raw))
	}()
	canon := func(b mp4.Box, e error) bool {
		if e != nil || b == nil {
			return false
		}
		var buf bytes.Buffer
		if err := b.Encode(&buf); err != nil {
			return false
		}
		return bytes.Equal(buf.Bytes(), raw)
	}
	cR, cS := canon(bR, eR), canon(bS, eS)
	equiv := eR == nil && eS == nil && bR != nil && bS != nil && bR.Size() == bS.Size() && infoStr(bR) == infoStr(bS)
	if equiv {
		w1, e1, _, _ := encBoth(bR)
		w2, e2, _, _ := encBoth(bS)
		equiv = (e1 == nil) == (e2 == nil) && bytes.Equal(w1, w2)
	}
	tw.Ev(J{"ev": "dec2", "level": "box", "canonR": cR, "canonSR": cS, "accR": eR == nil, "accSR": eS == nil, "equiv": equiv})
}

// pieceReader returns at most sizes[k] bytes on its k-th call
type pieceReader struct {
	r     io.Reader
	sizes []int
	k     int
}

func (p *pieceReader) Read(b []byte) (int, error) {
	n := p.sizes[p.k%len(p.sizes)]
	p.k++
	if n < len(b) {
		b = b[:n]
	}
	return p.r.Read(b)
}

func shortReaders(raw []byte) map[string]io.Reader {
	m := map[string]io.Reader{
		"half (iotest.HalfReader)":            iotest.HalfReader(bytes.NewReader(raw)),
		"data+EOF (iotest.DataErrReader)":     iotest.DataErrReader(bytes.NewReader(raw)),
		"pieces of 1, 7, 3, 64, 2 bytes":      &pieceReader{r: bytes.NewReader(raw), sizes: []int{1, 7, 3, 64, 2}},
		"buffered, 16 byte buffer over halves": bufio.NewReaderSize(iotest.HalfReader(bytes.NewReader(raw)), 16),
	}
	if len(raw) <= 1<<16 {
		m["one byte (iotest.OneByteReader)"] = iotest.OneByteReader(bytes.NewReader(raw))
	}
	return m
}

func c03Dec2File(tw *TraceWriter, raw []byte) {
	var fR, fS *mp4.File
	var eR, eS error
	func() {
		defer func() {
			if r := recover(); r != nil {
				eR = fmt.Errorf("panic: %v", r)
			}
		}()
		fR, eR = mp4.DecodeFile(bytes.NewReader(raw))
	}()
	func() {
		defer func() {
			if r := recover(); r != nil {
				eS = fmt.Errorf("panic: %v", r)
			}
		}()
		fS, eS = mp4.DecodeFileSR(bits.NewFixedSliceReader(raw))
	}()
	canon := func(f *mp4.File, e error) bool {
		if e != nil || f == nil {
			return false
		}
		f.FragEncMode = mp4.EncModeBoxTree
		var buf bytes.Buffer
		err := f.Encode(&buf)
		f.FragEncMode = mp4.EncModeSegment
		return err == nil && bytes.Equal(buf.Bytes(), raw)
	}
	cR, cS := canon(fR, eR), canon(fS, eS)
	equiv := eR == nil && eS == nil && fR != nil && fS != nil && fR.Size() == fS.Size() && infoStr(fR) == infoStr(fS) && fileProjection(fR) == fileProjection(fS)
	// the same bytes through readers that deliver them in pieces (a pipe, a socket, a decompressor): acceptance and the
	// decoded structure with every start position are those of the in-memory reader
	pieces := ""
	if equiv {
		want := fileProjection(fR)
		for name, rd := range shortReaders(raw) {
			var fX *mp4.File
			var eX error
			func() {
				defer func() {
					if r := recover(); r != nil {
						eX = fmt.Errorf("panic: %v", r)
					}
				}()
				fX, eX = mp4.DecodeFile(rd)
			}()
			if eX != nil || fX == nil || fileProjection(fX) != want {
				equiv = false
				pieces = "DecodeFile over a reader delivering " + name + " differs from the in-memory reader: " + errStr(eX)
				break
			}
		}
	}
	tw.Ev(J{"ev": "dec2", "level": "file", "canonR": cR, "canonSR": cS, "accR": eR == nil, "accSR": eS == nil, "equiv": equiv, "pieces": pieces})
}
