package main

// matter: the harness's own, mp4ff-independent materialiser of ISOBMFF boxes (ISO/IEC 14496-12).
// Inputs of the checks are built with it so that a broken mp4ff encoder cannot silently corrupt
// another property's inputs. It also contains an independent box walker.

import (
	"encoding/binary"
	"fmt"
)

func be16(v int) []byte { return []byte{byte(v >> 8), byte(v)} }
func be24(v int) []byte { return []byte{byte(v >> 16), byte(v >> 8), byte(v)} }
func be32(v int64) []byte {
	b := make([]byte, 4)
	binary.BigEndian.PutUint32(b, uint32(v))
	return b
}
func be64(v int64) []byte {
	b := make([]byte, 8)
	binary.BigEndian.PutUint64(b, uint64(v))
	return b
}

func cat(parts ...[]byte) []byte {
	var out []byte
	for _, p := range parts {
		out = append(out, p...)
	}
	return out
}

func zeros(n int) []byte { return make([]byte, n) }

// mkBox builds a box with a 32-bit size header.
func mkBox(typ string, payload ...[]byte) []byte {
	p := cat(payload...)
	return cat(be32(int64(8+len(p))), []byte(typ), p)
}

// mkBoxLarge builds a box with size field 1 and a 64-bit largesize.
func mkBoxLarge(typ string, payload ...[]byte) []byte {
	p := cat(payload...)
	return cat(be32(1), []byte(typ), be64(int64(16+len(p))), p)
}

func mkFull(typ string, version int, flags int, payload ...[]byte) []byte {
	return mkBox(typ, append([][]byte{{byte(version)}, be24(flags)}, payload...)...)
}

var unityMatrix = cat(be32(0x00010000), be32(0), be32(0), be32(0), be32(0x00010000), be32(0), be32(0), be32(0), be32(0x40000000))

func mFtyp(major string, minor int, compat ...string) []byte {
	p := cat([]byte(major), be32(int64(minor)))
	for _, c := range compat {
		p = append(p, []byte(c)...)
	}
	return mkBox("ftyp", p)
}

func mStyp(major string, minor int, compat ...string) []byte {
	b := mFtyp(major, minor, compat...)
	copy(b[4:8], "styp")
	return b
}

func mMvhd(timescale, duration, nextTrackID int64) []byte {
	return mkFull("mvhd", 0, 0, be32(0), be32(0), be32(timescale), be32(duration), be32(0x00010000), be16(0x0100), zeros(10),
		unityMatrix, zeros(24), be32(nextTrackID))
}

func mTkhd(trackID, duration int64, audio bool, width, height int) []byte {
	vol := 0
	if audio {
		vol = 0x0100
	}
	return mkFull("tkhd", 0, 7, be32(0), be32(0), be32(trackID), be32(0), be32(duration), zeros(8), be16(0), be16(0), be16(vol), be16(0),
		unityMatrix, be32(int64(width)<<16), be32(int64(height)<<16))
}

func mMdhd(timescale, duration int64) []byte {
	// language "und" packed: 0x55c4
	return mkFull("mdhd", 0, 0, be32(0), be32(0), be32(timescale), be32(duration), be16(0x55c4), be16(0))
}

func mHdlr(handler, name string) []byte {
	return mkFull("hdlr", 0, 0, be32(0), []byte(handler), zeros(12), []byte(name), []byte{0})
}

func mVmhd() []byte { return mkFull("vmhd", 0, 1, zeros(8)) }
func mSmhd() []byte { return mkFull("smhd", 0, 0, zeros(4)) }
func mDinf() []byte {
	return mkBox("dinf", mkFull("dref", 0, 0, be32(1), mkFull("url ", 0, 1)))
}

// mAvc1 builds a minimal avc1 sample entry with the given avcC payload (config record bytes).
func mVisualEntry(typ string, width, height int, children ...[]byte) []byte {
	compressor := zeros(32)
	return mkBox(typ, zeros(6), be16(1), zeros(16), be16(width), be16(height), be32(0x00480000), be32(0x00480000), be32(0), be16(1),
		compressor, be16(0x0018), be16(0xffff), cat(children...))
}

func mAudioEntry(typ string, channels, sampleSize, sampleRate int, children ...[]byte) []byte {
	return mkBox(typ, zeros(6), be16(1), zeros(8), be16(channels), be16(sampleSize), be16(0), be16(0), be32(int64(sampleRate)<<16), cat(children...))
}

func mStsd(entries ...[]byte) []byte {
	return mkFull("stsd", 0, 0, be32(int64(len(entries))), cat(entries...))
}

type runEntry struct {
	N int `json:"n"`
	V int `json:"v"`
}

func mStts(runs []runEntry) []byte {
	p := be32(int64(len(runs)))
	for _, r := range runs {
		p = cat(p, be32(int64(r.N)), be32(int64(r.V)))
	}
	return mkFull("stts", 0, 0, p)
}

func mCtts(version int, runs []runEntry) []byte {
	p := be32(int64(len(runs)))
	for _, r := range runs {
		p = cat(p, be32(int64(r.N)), be32(int64(r.V)))
	}
	return mkFull("ctts", version, 0, p)
}

type stscEntry struct {
	First int `json:"first"`
	Spc   int `json:"spc"`
	Sdi   int `json:"sdi"`
}

func mStsc(entries []stscEntry) []byte {
	p := be32(int64(len(entries)))
	for _, e := range entries {
		p = cat(p, be32(int64(e.First)), be32(int64(e.Spc)), be32(int64(e.Sdi)))
	}
	return mkFull("stsc", 0, 0, p)
}

func mStsz(uniform int, sizes []int) []byte {
	if uniform != 0 {
		return mkFull("stsz", 0, 0, be32(int64(uniform)), be32(int64(len(sizes))))
	}
	p := cat(be32(0), be32(int64(len(sizes))))
	for _, s := range sizes {
		p = cat(p, be32(int64(s)))
	}
	return mkFull("stsz", 0, 0, p)
}

func mStco(offsets []int64) []byte {
	p := be32(int64(len(offsets)))
	for _, o := range offsets {
		p = cat(p, be32(o))
	}
	return mkFull("stco", 0, 0, p)
}

func mCo64(offsets []int64) []byte {
	p := be32(int64(len(offsets)))
	for _, o := range offsets {
		p = cat(p, be64(o))
	}
	return mkFull("co64", 0, 0, p)
}

func mStss(nums []int) []byte {
	p := be32(int64(len(nums)))
	for _, n := range nums {
		p = cat(p, be32(int64(n)))
	}
	return mkFull("stss", 0, 0, p)
}

func mSdtp(entries []byte) []byte { return mkFull("sdtp", 0, 0, entries) }

func mElst(segDur, mediaTime int64) []byte {
	return mkBox("edts", mkFull("elst", 0, 0, be32(1), be32(segDur), be32(mediaTime), be16(1), be16(0)))
}

func mTrex(trackID int64, defDur, defSize, defFlags int64) []byte {
	return mkFull("trex", 0, 0, be32(trackID), be32(1), be32(defDur), be32(defSize), be32(defFlags))
}

func mMdat(payload []byte, large bool) []byte {
	if large {
		return mkBoxLarge("mdat", payload)
	}
	return mkBox("mdat", payload)
}

// mTrak assembles a track from stbl children.
func mTrak(trackID, timescale, duration int64, video bool, extraTrakChildren []byte, stblChildren ...[]byte) []byte {
	mh := mSmhd()
	hd := mHdlr("soun", "s")
	if video {
		mh = mVmhd()
		hd = mHdlr("vide", "v")
	}
	stbl := mkBox("stbl", stblChildren...)
	minf := mkBox("minf", mh, mDinf(), stbl)
	mdia := mkBox("mdia", mMdhd(timescale, duration), hd, minf)
	return mkBox("trak", mTkhd(trackID, duration, !video, 16, 16), extraTrakChildren, mdia)
}

// tokenBytes: deterministic payload for (track, sample): every byte identifies its owner so any
// output byte range can be mapped back to "byte k of sample s of track t".
func tokenBytes(track, sample, size int) []byte {
	b := make([]byte, size)
	for i := range b {
		b[i] = byte((track*97 + sample*31 + i*7 + 13) & 0xff)
	}
	if size >= 4 {
		b[0] = 0xA0 | byte(track&0xf)
		b[1] = byte(sample >> 8)
		b[2] = byte(sample)
	}
	return b
}

// ---------------------------------------------------------------- independent walker

type wBox struct {
	Type    string
	Start   int // absolute offset of the box
	HdrLen  int
	Size    int
	Payload []byte
}

// walkBoxes splits data into top-level boxes (independent of mp4ff). ok=false if malformed.
func walkBoxes(data []byte, base int) (boxes []wBox, err error) {
	pos := 0
	for pos < len(data) {
		if pos+8 > len(data) {
			return boxes, fmt.Errorf("truncated header at %d", base+pos)
		}
		size := int(binary.BigEndian.Uint32(data[pos:]))
		hdr := 8
		if size == 1 {
			if pos+16 > len(data) {
				return boxes, fmt.Errorf("truncated largesize at %d", base+pos)
			}
			size = int(binary.BigEndian.Uint64(data[pos+8:]))
			hdr = 16
		} else if size == 0 {
			size = len(data) - pos
		}
		if size < hdr || pos+size > len(data) {
			return boxes, fmt.Errorf("bad size %d at %d", size, base+pos)
		}
		boxes = append(boxes, wBox{Type: string(data[pos+4 : pos+8]), Start: base + pos, HdrLen: hdr, Size: size, Payload: data[pos+hdr : pos+size]})
		pos += size
	}
	return boxes, nil
}

// findBox returns the first child of the given type.
func findBox(boxes []wBox, typ string) *wBox {
	for i := range boxes {
		if boxes[i].Type == typ {
			return &boxes[i]
		}
	}
	return nil
}

// walkPath descends through container boxes: walkPath(data, "moov", "trak", "mdia").
func walkPath(data []byte, base int, path ...string) (*wBox, error) {
	cur := data
	curBase := base
	var b *wBox
	for _, p := range path {
		bs, err := walkBoxes(cur, curBase)
		if err != nil {
			return nil, err
		}
		b = findBox(bs, p)
		if b == nil {
			return nil, fmt.Errorf("no %s", p)
		}
		cur = b.Payload
		curBase = b.Start + b.HdrLen
	}
	return b, nil
}

// ---------------------------------------------------------------- fragments

func mMfhd(seq int64) []byte { return mkFull("mfhd", 0, 0, be32(seq)) }

// mTfhd: flags select optional fields (0x1 base-data-offset, 0x2 sdi, 0x8 dur, 0x10 size, 0x20 flags,
// 0x10000 duration-is-empty, 0x20000 default-base-is-moof).
func mTfhd(flags int, trackID int64, baseOff, sdi, defDur, defSize, defFlags int64) []byte {
	p := be32(trackID)
	if flags&0x1 != 0 {
		p = cat(p, be64(baseOff))
	}
	if flags&0x2 != 0 {
		p = cat(p, be32(sdi))
	}
	if flags&0x8 != 0 {
		p = cat(p, be32(defDur))
	}
	if flags&0x10 != 0 {
		p = cat(p, be32(defSize))
	}
	if flags&0x20 != 0 {
		p = cat(p, be32(defFlags))
	}
	return mkFull("tfhd", 0, flags, p)
}

func mTfdt(version int, t int64) []byte {
	if version == 1 {
		return mkFull("tfdt", 1, 0, be64(t))
	}
	return mkFull("tfdt", 0, 0, be32(t))
}

type mSample struct {
	Dur, Size, Flags, Cto int64
}

// mTrun: flags 0x1 data-offset, 0x4 first-sample-flags, 0x100 dur, 0x200 size, 0x400 flags, 0x800 cto
func mTrun(version, flags int, dataOffset int64, firstFlags int64, samples []mSample) []byte {
	p := be32(int64(len(samples)))
	if flags&0x1 != 0 {
		p = cat(p, be32(dataOffset))
	}
	if flags&0x4 != 0 {
		p = cat(p, be32(firstFlags))
	}
	for _, s := range samples {
		if flags&0x100 != 0 {
			p = cat(p, be32(s.Dur))
		}
		if flags&0x200 != 0 {
			p = cat(p, be32(s.Size))
		}
		if flags&0x400 != 0 {
			p = cat(p, be32(s.Flags))
		}
		if flags&0x800 != 0 {
			p = cat(p, be32(s.Cto))
		}
	}
	return mkFull("trun", version, flags, p)
}

// mFragInit: minimal fragmented init segment (ftyp + moov with empty sample tables and mvex).
func mFragInit(trackIDs []int64, timescale int64, trexes ...[]byte) []byte {
	var traks, trex []byte
	for _, id := range trackIDs {
		traks = cat(traks, mTrak(id, timescale, 0, true, nil, mStsd(), mStts(nil), mStsc(nil), mStsz(0, nil), mStco(nil)))
		trex = cat(trex, mTrex(id, 0, 0, 0))
	}
	if len(trexes) > 0 {
		trex = cat(trexes...)
	}
	return cat(mFtyp("iso6", 0, "iso6", "cmfc"), mkBox("moov", mMvhd(timescale, 0, int64(len(trackIDs)+1)), traks, mkBox("mvex", trex)))
}

// mSimpleFragment: moof(mfhd, traf(tfhd default-base-is-moof, tfdt, trun all-explicit)) + mdat(payload)
func mSimpleFragment(seq, trackID, baseTime int64, samples []mSample, payload []byte, largeMdat bool) []byte {
	build := func(off int64) []byte {
		traf := mkBox("traf", mTfhd(0x20000, trackID, 0, 0, 0, 0, 0), mTfdt(1, baseTime), mTrun(1, 0xf01, off, 0, samples))
		return mkBox("moof", mMfhd(seq), traf)
	}
	moof := build(0)
	hdr := 8
	if largeMdat {
		hdr = 16
	}
	moof = build(int64(len(moof) + hdr))
	return cat(moof, mMdat(payload, largeMdat))
}
