package main

// C09: sample-table queries. Replays SampleTables.tla behaviours: the tables are materialised
// with the harness's own box writer, decoded by the real decoder (so that cached helper columns
// are filled by real code), every query is called and compared with the spec's expansion.

import (
	"math/big"
	"bytes"
	"encoding/json"
	"fmt"

	"github.com/Eyevinn/mp4ff/bits"
	"github.com/Eyevinn/mp4ff/mp4"
)

func init() {
	register("c09-replay", c09Replay)
}

// decodeBoth decodes one box through both decoder paths and returns both results.
func decodeBoth(data []byte) (mp4.Box, mp4.Box, error) {
	b1, err := mp4.DecodeBox(0, bytes.NewReader(data))
	if err != nil {
		return nil, nil, fmt.Errorf("DecodeBox: %w", err)
	}
	b2, err := mp4.DecodeBoxSR(0, bits.NewFixedSliceReader(data))
	if err != nil {
		return nil, nil, fmt.Errorf("DecodeBoxSR: %w", err)
	}
	return b1, b2, nil
}

type c09Chunk struct {
	Nr    int `json:"nr"`
	Start int `json:"start"`
	N     int `json:"n"`
}

type c09Range struct {
	Off  int `json:"off"`
	Size int `json:"size"`
}

type c09Flags struct {
	Nonsync int `json:"nonsync"`
	Lead    int `json:"lead"`
	Dep     int `json:"dep"`
	Depd    int `json:"depd"`
	Red     int `json:"red"`
}

type c09Case struct {
	Family string          `json:"family"`
	N      int             `json:"n"`
	Tab    json.RawMessage `json:"tab"`
	Res    json.RawMessage `json:"res"`
	Scales []int64         `json:"scales"`
}

// query runs f under recover and reports a panic as a violation of that query.
func query(rep *Report, name string, cs J, f func()) {
	defer func() {
		if r := recover(); r != nil {
			rep.Violation(name+"/panic", fmt.Sprintf("%s panics on a valid query of consistent tables: %v", name, r), cs)
		}
	}()
	f()
}

func c09Replay(args []string) error {
	rep := newReport()
	err := readLines(argValue(args, "-in", "-"), func(line []byte) error {
		var c c09Case
		if err := json.Unmarshal(line, &c); err != nil {
			return err
		}
		var err error
		switch c.Family {
		case "time":
			err = c09Time(rep, &c)
		case "ctts":
			err = c09Ctts(rep, &c)
		case "chunk":
			err = c09ChunkFam(rep, &c)
		case "meta":
			err = c09Meta(rep, &c)
		}
		if err != nil {
			return err
		}
		var smp interface{}
		if c.N == 3 {
			smp = J{"family": c.Family, "tab": c.Tab}
		}
		rep.Count(string(c.Tab)+c.Family, true, smp)
		return nil
	})
	rep.Done()
	return err
}

func c09Time(rep *Report, c *c09Case) error {
	var tab []runEntry
	var res struct {
		Decode []struct {
			Dts int `json:"dts"`
			Dur int `json:"dur"`
		} `json:"decode"`
		Attime []int `json:"attime"`
	}
	if err := json.Unmarshal(c.Tab, &tab); err != nil {
		return err
	}
	if err := json.Unmarshal(c.Res, &res); err != nil {
		return err
	}
	scales := c.Scales
	if len(scales) == 0 {
		scales = []int64{1}
	}
	for _, k := range scales {
		if err := c09TimeScaled(rep, c, tab, res.Decode, res.Attime, k); err != nil {
			return err
		}
	}
	return nil
}

// c09TimeScaled: the table with every duration multiplied by k; all expected times scale by k.
func c09TimeScaled(rep *Report, c *c09Case, tab0 []runEntry, decode []struct {
	Dts int `json:"dts"`
	Dur int `json:"dur"`
}, attime []int, k int64) error {
	tab := make([]runEntry, len(tab0))
	for i, r := range tab0 {
		tab[i] = runEntry{r.N, int(int64(r.V) * k)}
	}
	var res struct {
		Decode []struct{ Dts, Dur int64 }
		Attime []int
	}
	for _, d := range decode {
		res.Decode = append(res.Decode, struct{ Dts, Dur int64 }{int64(d.Dts) * k, int64(d.Dur) * k})
	}
	res.Attime = attime
	b1, b2, err := decodeBoth(mStts(tab))
	if err != nil {
		rep.Violation("stts/decode", "valid stts rejected: "+err.Error(), J{"tab": tab})
		return nil
	}
	for pi, bx := range []mp4.Box{b1, b2} {
		stts := bx.(*mp4.SttsBox)
		cs := J{"stts": tab, "path": pi, "scale": k}
		for s := 1; s <= c.N; s++ {
			s := s
			query(rep, "stts.GetDecodeTime", cs, func() {
				dts, dur := stts.GetDecodeTime(uint32(s))
				if int64(dts) != res.Decode[s-1].Dts || int64(dur) != res.Decode[s-1].Dur {
					rep.Violation("stts/decodetime", "GetDecodeTime differs from the per-sample expansion", J{"stts": tab, "sample": s, "observed": []int64{int64(dts), int64(dur)}, "expected": res.Decode[s-1]})
				}
			})
			query(rep, "stts.GetTimeCode", cs, func() {
				// time code = decode time / timescale; timescale 2^20 ticks per second keeps the division exact in nanoseconds / 2^20
				const ts = 1 << 20
				want := new(big.Int).Div(new(big.Int).Mul(big.NewInt(res.Decode[s-1].Dts), big.NewInt(1000000000)), big.NewInt(ts))
				if got := stts.GetTimeCode(uint32(s), ts); want.IsInt64() && int64(got) != want.Int64() {
					rep.Violation("stts/timecode", "GetTimeCode differs from decode time / timescale", J{"stts": tab, "sample": s, "observed": int64(got), "expected": want.Int64()})
				}
			})
			query(rep, "stts.GetDur", cs, func() {
				if d := stts.GetDur(uint32(s)); int64(d) != res.Decode[s-1].Dur {
					rep.Violation("stts/dur", "GetDur differs from the per-sample expansion", J{"stts": tab, "sample": s, "observed": d})
				}
			})
		}
		for t, want := range res.Attime {
			t, want := t, want
			if want == -1 {
				continue
			}
			query(rep, "stts.GetSampleNrAtTime", cs, func() {
				nr, err := stts.GetSampleNrAtTime(uint64(int64(t) * k))
				if want == 0 {
					if err == nil {
						rep.Violation("stts/attime-no-error", "GetSampleNrAtTime returns a sample for a time beyond the end", J{"stts": tab, "time": t, "observed": nr})
					}
					return
				}
				if err != nil || int(nr) != want {
					rep.Violation("stts/attime", "GetSampleNrAtTime differs from the first sample starting at or after the time", J{"stts": tab, "time": t, "observed": nr, "err": fmt.Sprint(err), "expected": want})
				}
			})
		}
	}
	return nil
}

func c09Ctts(rep *Report, c *c09Case) error {
	var tab struct {
		Ver int        `json:"ver"`
		Tab []runEntry `json:"tab"`
	}
	var res struct {
		Cto []int `json:"cto"`
	}
	if err := json.Unmarshal(c.Tab, &tab); err != nil {
		return err
	}
	if err := json.Unmarshal(c.Res, &res); err != nil {
		return err
	}
	b1, b2, err := decodeBoth(mCtts(tab.Ver, tab.Tab))
	if err != nil {
		rep.Violation("ctts/decode", "valid ctts rejected: "+err.Error(), J{"tab": tab})
		return nil
	}
	boxes := []*mp4.CttsBox{b1.(*mp4.CttsBox), b2.(*mp4.CttsBox)}
	// API-built variants: one call, and one call per run
	for variant := 0; variant < 2; variant++ {
		cb := &mp4.CttsBox{Version: byte(tab.Ver)}
		var counts []uint32
		var offs []int32
		for _, r := range tab.Tab {
			counts = append(counts, uint32(r.N))
			offs = append(offs, int32(r.V))
		}
		if variant == 0 {
			_ = cb.AddSampleCountsAndOffset(counts, offs)
		} else {
			for i := range counts {
				_ = cb.AddSampleCountsAndOffset(counts[i:i+1], offs[i:i+1])
			}
		}
		boxes = append(boxes, cb)
	}
	for pi, ctts := range boxes {
		ctts := ctts
		for s := 1; s <= c.N; s++ {
			s := s
			query(rep, "ctts.GetCompositionTimeOffset", J{"ctts": tab, "path": pi}, func() {
				if got := ctts.GetCompositionTimeOffset(uint32(s)); int(got) != res.Cto[s-1] {
					rep.Violation("ctts/cto", "GetCompositionTimeOffset differs from the per-sample expansion", J{"ctts": tab, "path": pi, "sample": s, "observed": got, "expected": res.Cto[s-1]})
				}
			})
		}
	}
	return nil
}

type c09ChunkTab struct {
	Spc     []int `json:"spc"`
	Sdi     []int `json:"sdi"`
	Merge   bool  `json:"merge"`
	Uniform bool  `json:"uniform"`
	Gap     int   `json:"gap"`
	Co64    bool  `json:"co64"`
}

type c09ChunkRes struct {
	Stsc    []stscEntry `json:"stsc"`
	Sizes   []int       `json:"sizes"`
	Offs    []int       `json:"offs"`
	ChunkOf []struct {
		Chunk int `json:"chunk"`
		First int `json:"first"`
	} `json:"chunkOf"`
	Chunks    []c09Chunk `json:"chunks"`
	Sdis      []int      `json:"sdis"`
	SampleOff []int      `json:"sampleOff"`
	Iv        []struct {
		A          int        `json:"a"`
		B          int        `json:"b"`
		Containing []c09Chunk `json:"containing"`
		Ranges     []c09Range `json:"ranges"`
		Total      int        `json:"total"`
	} `json:"iv"`
}

// buildProgFile lays out ftyp, moov, mdat for one video track. stblKids must not contain the
// chunk offset box: it is added here once the payload position is known. Returns the file, the
// absolute payload start and the mdat payload.
func buildProgFile(stblKids [][]byte, relOffs []int, co64 bool, payload []byte, trakExtra []byte, timescale, duration int64, largeMdat bool) ([]byte, int) {
	ftyp := mFtyp("isom", 0x200, "isom", "iso2", "mp41")
	build := func(base int64) []byte {
		offs := make([]int64, len(relOffs))
		for i, o := range relOffs {
			offs[i] = base + int64(o)
		}
		co := mStco(offs)
		if co64 {
			co = mCo64(offs)
		}
		kids := append(append([][]byte{}, stblKids...), co)
		trak := mTrak(1, timescale, duration, true, trakExtra, kids...)
		return mkBox("moov", mMvhd(timescale, duration, 2), trak)
	}
	moov := build(0)
	hdr := 8
	if largeMdat {
		hdr = 16
	}
	base := len(ftyp) + len(moov) + hdr
	moov = build(int64(base))
	return cat(ftyp, moov, mMdat(payload, largeMdat)), base
}

func c09ChunkFam(rep *Report, c *c09Case) error {
	var tab c09ChunkTab
	var res c09ChunkRes
	if err := json.Unmarshal(c.Tab, &tab); err != nil {
		return err
	}
	if err := json.Unmarshal(c.Res, &res); err != nil {
		return err
	}
	cs := J{"tab": tab, "stsc": res.Stsc}
	// --- stsc alone, through both decoders and through AddEntry
	b1, b2, err := decodeBoth(mStsc(res.Stsc))
	if err != nil {
		rep.Violation("stsc/decode", "valid stsc rejected: "+err.Error(), cs)
		return nil
	}
	api := &mp4.StscBox{}
	for _, e := range res.Stsc {
		if err := api.AddEntry(uint32(e.First), uint32(e.Spc), uint32(e.Sdi)); err != nil {
			rep.Violation("stsc/addentry", "AddEntry rejects a valid entry: "+err.Error(), cs)
		}
	}
	for pi, stsc := range []*mp4.StscBox{b1.(*mp4.StscBox), b2.(*mp4.StscBox), api} {
		stsc, pi := stsc, pi
		for s := 1; s <= c.N; s++ {
			s := s
			query(rep, "stsc.ChunkNrFromSampleNr", cs, func() {
				ch, first, err := stsc.ChunkNrFromSampleNr(s)
				if err != nil || ch != res.ChunkOf[s-1].Chunk || first != res.ChunkOf[s-1].First {
					rep.Violation("stsc/chunk-of-sample", "ChunkNrFromSampleNr differs from the expansion", J{"case": cs, "path": pi, "sample": s, "observed": []int{ch, first}, "expected": res.ChunkOf[s-1]})
				}
			})
			query(rep, "stsc.FindEntryNrForSampleNr", cs, func() {
				got := int(stsc.FindEntryNrForSampleNr(uint32(s), 0))
				want := 0
				for k, e := range res.Stsc {
					if e.First <= res.ChunkOf[s-1].Chunk {
						want = k
					}
				}
				if got != want {
					rep.Violation("stsc/entry-of-sample", "FindEntryNrForSampleNr differs from the entry covering the sample's chunk", J{"case": cs, "path": pi, "sample": s, "observed": got, "expected": want})
				}
			})
		}
		for _, ch := range res.Chunks {
			ch := ch
			query(rep, "stsc.GetChunk", cs, func() {
				got := stsc.GetChunk(uint32(ch.Nr))
				if int(got.ChunkNr) != ch.Nr || int(got.StartSampleNr) != ch.Start || int(got.NrSamples) != ch.N {
					rep.Violation("stsc/chunk", "GetChunk differs from the expansion", J{"case": cs, "path": pi, "observed": got, "expected": ch})
				}
			})
			query(rep, "stsc.GetSampleDescriptionID", cs, func() {
				if got := stsc.GetSampleDescriptionID(ch.Nr); int(got) != res.Sdis[ch.Nr-1] {
					rep.Violation("stsc/sample-description-id", "GetSampleDescriptionID differs from the chunk's description id", J{"case": cs, "path": pi, "chunk": ch.Nr, "observed": got, "expected": res.Sdis[ch.Nr-1]})
				}
			})
		}
		for _, iv := range res.Iv {
			iv := iv
			query(rep, "stsc.GetContainingChunks", cs, func() {
				got, err := stsc.GetContainingChunks(uint32(iv.A), uint32(iv.B))
				ok := err == nil && len(got) == len(iv.Containing)
				if ok {
					for i := range got {
						w := iv.Containing[i]
						ok = ok && int(got[i].ChunkNr) == w.Nr && int(got[i].StartSampleNr) == w.Start && int(got[i].NrSamples) == w.N
					}
				}
				if !ok {
					rep.Violation("stsc/containing-chunks", "GetContainingChunks differs from the expansion", J{"case": cs, "path": pi, "a": iv.A, "b": iv.B, "observed": got, "expected": iv.Containing})
				}
			})
		}
	}
	// --- stsz
	uni := 0
	if tab.Uniform {
		uni = res.Sizes[0]
	}
	z1, z2, err := decodeBoth(mStsz(uni, res.Sizes))
	if err != nil {
		rep.Violation("stsz/decode", "valid stsz rejected: "+err.Error(), cs)
		return nil
	}
	for pi, bx := range []mp4.Box{z1, z2} {
		stsz := bx.(*mp4.StszBox)
		pi := pi
		if int(stsz.GetNrSamples()) != c.N {
			rep.Violation("stsz/nr-samples", "GetNrSamples differs", J{"case": cs, "path": pi})
		}
		for s := 1; s <= c.N; s++ {
			s := s
			query(rep, "stsz.GetSampleSize", cs, func() {
				if got := stsz.GetSampleSize(s); int(got) != res.Sizes[s-1] {
					rep.Violation("stsz/size", "GetSampleSize differs from the expansion", J{"case": cs, "path": pi, "sample": s, "observed": got})
				}
			})
		}
		for _, iv := range res.Iv {
			iv := iv
			query(rep, "stsz.GetTotalSampleSize", cs, func() {
				got, err := stsz.GetTotalSampleSize(uint32(iv.A), uint32(iv.B))
				if err != nil || int(got) != iv.Total {
					rep.Violation("stsz/total-size", "GetTotalSampleSize differs from the summed sizes", J{"case": cs, "path": pi, "a": iv.A, "b": iv.B, "observed": got, "err": fmt.Sprint(err), "expected": iv.Total})
				}
			})
		}
	}
	// --- whole file: chunk offsets, ranges, copied sample data
	var payload []byte
	for ci, spc := range tab.Spc {
		for len(payload) < res.Offs[ci] {
			payload = append(payload, 0xEE) // gap bytes belong to no sample
		}
		start := res.Chunks[ci].Start
		for s := start; s < start+spc; s++ {
			payload = append(payload, tokenBytes(1, s, res.Sizes[s-1])...)
		}
	}
	stblKids := [][]byte{mStsd(), mStts([]runEntry{{c.N, 1}}), mStsc(res.Stsc), mStsz(uni, res.Sizes)}
	file, base := buildProgFile(stblKids, res.Offs, tab.Co64, payload, nil, 1000, int64(c.N), false)
	for _, mode := range []string{"normal", "lazy", "sr"} {
		mode := mode
		var f *mp4.File
		var err error
		switch mode {
		case "normal":
			f, err = mp4.DecodeFile(bytes.NewReader(file))
		case "lazy":
			f, err = mp4.DecodeFile(bytes.NewReader(file), mp4.WithDecodeMode(mp4.DecModeLazyMdat))
		case "sr":
			f, err = mp4.DecodeFileSR(bits.NewFixedSliceReader(file))
		}
		if err != nil || f.Moov == nil || f.Moov.Trak == nil {
			rep.Violation("file/decode", "valid progressive file rejected: "+fmt.Sprint(err), J{"case": cs, "mode": mode})
			continue
		}
		trak := f.Moov.Trak
		stbl := trak.Mdia.Minf.Stbl
		for ci := range tab.Spc {
			ci := ci
			query(rep, "GetOffset", cs, func() {
				var got uint64
				var err error
				if tab.Co64 {
					got, err = stbl.Co64.GetOffset(ci + 1)
				} else {
					got, err = stbl.Stco.GetOffset(ci + 1)
				}
				if err != nil || int(got) != base+res.Offs[ci] {
					rep.Violation("chunk-offset", "GetOffset differs from the chunk offset table", J{"case": cs, "mode": mode, "chunk": ci + 1, "observed": got})
				}
			})
		}
		for _, iv := range res.Iv {
			iv := iv
			query(rep, "trak.GetRangesForSampleInterval", cs, func() {
				got, err := trak.GetRangesForSampleInterval(uint32(iv.A), uint32(iv.B))
				ok := err == nil && len(got) == len(iv.Ranges)
				if ok {
					for i := range got {
						ok = ok && int(got[i].Offset) == base+iv.Ranges[i].Off && int(got[i].Size) == iv.Ranges[i].Size
					}
				}
				if !ok {
					rep.Violation("trak/ranges", "GetRangesForSampleInterval differs from the byte ranges of the expansion", J{"case": cs, "mode": mode, "a": iv.A, "b": iv.B, "observed": got, "err": fmt.Sprint(err), "expected": iv.Ranges, "base": base})
				}
			})
			if mode == "sr" {
				continue
			}
			var want []byte
			for s := iv.A; s <= iv.B; s++ {
				want = append(want, tokenBytes(1, s, res.Sizes[s-1])...)
			}
			for _, wl := range []int{0, 1, 3, 64} {
				wl := wl
				query(rep, "File.CopySampleData", cs, func() {
					var out bytes.Buffer
					var ws []byte
					if wl > 0 {
						ws = make([]byte, wl)
					}
					err := f.CopySampleData(&out, bytes.NewReader(file), trak, uint32(iv.A), uint32(iv.B), ws)
					if err != nil || !bytes.Equal(out.Bytes(), want) {
						rep.Violation("file/copy-sample-data", "CopySampleData does not return the bytes of the samples of the interval", J{"case": cs, "mode": mode, "a": iv.A, "b": iv.B, "work": wl, "err": fmt.Sprint(err), "observed_len": out.Len(), "expected_len": len(want)})
					}
				})
			}
		}
	}
	return nil
}

func c09Meta(rep *Report, c *c09Case) error {
	var tab struct {
		Stts []runEntry `json:"stts"`
		Ctts []runEntry `json:"ctts"`
		Sdtp bool       `json:"sdtp"`
	}
	var res struct {
		Stss []bool `json:"stss"`
		Sdtp []struct {
			Lead int `json:"lead"`
			Dep  int `json:"dep"`
			Depd int `json:"depd"`
			Red  int `json:"red"`
		} `json:"sdtp"`
		Samples []struct {
			Size  int      `json:"size"`
			Dur   int      `json:"dur"`
			Sync  bool     `json:"sync"`
			Cto   int      `json:"cto"`
			Flags c09Flags `json:"flags"`
		} `json:"samples"`
	}
	if err := json.Unmarshal(c.Tab, &tab); err != nil {
		return err
	}
	if err := json.Unmarshal(c.Res, &res); err != nil {
		return err
	}
	sizes := make([]int, c.N)
	var payload []byte
	for s := 1; s <= c.N; s++ {
		sizes[s-1] = res.Samples[s-1].Size
		payload = append(payload, tokenBytes(1, s, sizes[s-1])...)
	}
	kids := [][]byte{mStsd(), mStts(tab.Stts)}
	if len(tab.Ctts) > 0 {
		kids = append(kids, mCtts(0, tab.Ctts))
	}
	kids = append(kids, mStsc([]stscEntry{{1, c.N, 1}}), mStsz(0, sizes))
	var syncNums []int
	if len(res.Stss) > 0 {
		for s, b := range res.Stss {
			if b {
				syncNums = append(syncNums, s+1)
			}
		}
		kids = append(kids, mStss(syncNums))
	}
	if tab.Sdtp {
		var e []byte
		for _, x := range res.Sdtp {
			e = append(e, byte(x.Lead<<6|x.Dep<<4|x.Depd<<2|x.Red))
		}
		kids = append(kids, mSdtp(e))
	}
	file, _ := buildProgFile(kids, []int{0}, false, payload, nil, 1000, 10, false)
	cs := J{"tab": tab, "sync": syncNums}
	modes := []string{"normal", "sr"}
	if tab.Sdtp {
		modes = append(modes, "api-sdtp") // the sdtp table built through the public constructors instead of decoded
	}
	for _, mode := range modes {
		mode := mode
		var f *mp4.File
		var err error
		if mode != "sr" {
			f, err = mp4.DecodeFile(bytes.NewReader(file))
		} else {
			f, err = mp4.DecodeFileSR(bits.NewFixedSliceReader(file))
		}
		if err != nil || f.Moov == nil || f.Moov.Trak == nil {
			rep.Violation("file/decode", "valid progressive file rejected: "+fmt.Sprint(err), J{"case": cs, "mode": mode})
			continue
		}
		trak := f.Moov.Trak
		stbl := trak.Mdia.Minf.Stbl
		if mode == "api-sdtp" {
			var es []mp4.SdtpEntry
			for _, x := range res.Sdtp {
				es = append(es, mp4.NewSdtpEntry(uint8(x.Lead), uint8(x.Dep), uint8(x.Depd), uint8(x.Red)))
			}
			nb := mp4.CreateSdtpBox(es)
			for i, ch := range stbl.Children {
				if ch.Type() == "sdtp" {
					stbl.Children[i] = nb
				}
			}
			stbl.Sdtp = nb
		}
		if stbl.Stss != nil {
			for s := 1; s <= c.N; s++ {
				s := s
				query(rep, "stss.IsSyncSample", cs, func() {
					if stbl.Stss.IsSyncSample(uint32(s)) != res.Samples[s-1].Sync {
						rep.Violation("stss/is-sync", "IsSyncSample differs from the sync sample table", J{"case": cs, "sample": s})
					}
				})
			}
		}
		for a := 1; a <= c.N; a++ {
			for b := a; b <= c.N; b++ {
				a, b := a, b
				query(rep, "trak.GetSampleData", J{"case": cs, "from_first_sample": a == 1}, func() {
					got, err := trak.GetSampleData(uint32(a), uint32(b))
					if err != nil || len(got) != b-a+1 {
						rep.Violation("trak/sample-data-len", "GetSampleData fails or returns a wrong number of samples", J{"case": cs, "a": a, "b": b, "err": fmt.Sprint(err), "n": len(got)})
						return
					}
					for i, g := range got {
						w := res.Samples[a-1+i]
						fl := g.Flags
						obs := c09Flags{Nonsync: int(fl>>16) & 1, Lead: int(fl>>26) & 3, Dep: int(fl>>24) & 3, Depd: int(fl>>22) & 3, Red: int(fl>>20) & 3}
						wf := w.Flags
						if wf.Dep == -1 { // not determined by the tables
							obs.Dep = -1
						}
						if int(g.Dur) != w.Dur || int(g.Size) != w.Size || int(g.CompositionTimeOffset) != w.Cto || obs != wf {
							rep.Violation("trak/sample-data", "GetSampleData differs from the per-sample expansion", J{"case": cs, "a": a, "b": b, "i": i, "observed": J{"dur": g.Dur, "size": g.Size, "cto": g.CompositionTimeOffset, "flags": obs}, "expected": w})
						}
					}
				})
			}
		}
	}
	return nil
}
