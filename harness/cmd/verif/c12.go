package main

// C12: grouping of fragments into segments and sidx tiling. Replays FileAsm.tla behaviours:
// the abstract file is materialised (two passes so that sidx references and tfra offsets are
// consistent with the real sizes), decoded by the real file decoders, and the partition, the
// segment-mode re-encoding and the index written by UpdateSidx are compared with the spec.

import (
	"bytes"
	"encoding/binary"
	"encoding/json"
	"fmt"
	"io/ioutil"
	"os"
	"os/exec"
	"path/filepath"

	"github.com/Eyevinn/mp4ff/bits"
	"github.com/Eyevinn/mp4ff/mp4"
)

func init() {
	register("c12-replay", c12Replay)
	register("c12-tool", c12Tool)
}

type faBox struct {
	K       string `json:"k"`
	Seg     int    `json:"seg"`
	Frag    int    `json:"frag"`
	Nref    int    `json:"nref"`
	Level   string `json:"level"`
	Ntracks int    `json:"ntracks"`
	Truns   int    `json:"truns"`
	Ntfra   int    `json:"ntfra"`
}

type faCase struct {
	P struct {
		Fps     []int  `json:"fps"`
		Delim   string `json:"delim"`
		Segsidx int    `json:"segsidx"`
		Emsg    string `json:"emsg"`
		Ntracks int    `json:"ntracks"`
		Truns   int    `json:"truns"`
		Rev     bool   `json:"rev"`
		Flags   string `json:"flags"`
	} `json:"p"`
	File      []faBox   `json:"file"`
	Expected  [][][]int `json:"expected"`
	Effective string    `json:"effective"`
	Moofless  bool      `json:"moofless"`
}

func mEmsg(id int64) []byte {
	return mkFull("emsg", 1, 0, be32(1000), be64(id*10), be32(5), be32(id), []byte("urn:x"), []byte{0}, []byte("v"), []byte{0}, []byte{0xDE, 0xAD})
}

type sidxRefM struct {
	Size, Dur int64
}

func mSidx(refID, timescale, ept, firstOffset int64, refs []sidxRefM) []byte {
	p := cat(be32(refID), be32(timescale), be64(ept), be64(firstOffset), be16(0), be16(len(refs)))
	for _, r := range refs {
		p = cat(p, be32(r.Size), be32(r.Dur), be32(0x90000000))
	}
	return mkFull("sidx", 1, 0, p)
}

func mMfra(trackIDs []int64, moofOffsets []int64) []byte {
	var tfras []byte
	for _, id := range trackIDs {
		p := cat(be32(id), be32(0), be32(int64(len(moofOffsets))))
		for i, o := range moofOffsets {
			p = cat(p, be32(int64(i*100)), be32(o), []byte{1, 1, 1})
		}
		tfras = cat(tfras, mkFull("tfra", 0, 0, p))
	}
	size := 8 + len(tfras) + 16
	return mkBox("mfra", tfras, mkFull("mfro", 0, 0, be32(int64(size))))
}

// c12DefDur (FileAsm.tla p.truns = 3): the truns carry no per-sample durations; the duration of both samples is the
// default_sample_duration of the tfhd, which differs from the trex default (0). Set per case before materialising / judging.
var c12DefDur bool

// fragment contents: per track two samples; durations depend on fragment and track
func fragSamples(fragNr, track int) []mSample {
	cto := int64(0)
	if track == 1 {
		cto = 2
	}
	if c12DefDur {
		d := int64(15*track + 2*fragNr)
		return []mSample{{Dur: d, Size: int64(3 + track), Flags: 0x02000000, Cto: cto}, {Dur: d, Size: int64(5 + fragNr%3), Flags: 0x01010000, Cto: 0}}
	}
	return []mSample{{Dur: int64(10*track + fragNr), Size: int64(3 + track), Flags: 0x02000000, Cto: cto},
		{Dur: int64(20*track + 2*fragNr), Size: int64(5 + fragNr%3), Flags: 0x01010000, Cto: 0}}
}

func fragDur(fragNr, track int) int64 {
	var d int64
	for _, s := range fragSamples(fragNr, track) {
		d += s.Dur
	}
	return d
}

func baseTime(fragNr, track int) int64 {
	var t int64 = 1000 // non-zero start so that earliest presentation time is visible
	for n := 1; n < fragNr; n++ {
		t += fragDur(n, track)
	}
	return t
}

// c12EncBoxes: every traf additionally carries saiz, saio and senc boxes (left-over encryption boxes of a
// decrypted file, what `add-sidx -removeEnc` is meant to strip).
var c12EncBoxes bool

// truns: track runs per track fragment (FileAsm.tla p.truns): 2 = every sample in its own trun
func mMultiFragment(fragNr, ntracks, truns int, rev bool) (moof, mdat []byte) {
	var payload []byte
	build := func(offs []int64) []byte {
		var trafs []byte
		for t := 1; t <= ntracks; t++ {
			kids := [][]byte{mTfhd(0x20000, int64(t), 0, 0, 0, 0, 0), mTfdt(1, baseTime(fragNr, t))}
			if smp := fragSamples(fragNr, t); truns == 3 {
				kids[0] = mTfhd(0x20008, int64(t), 0, 0, smp[0].Dur, 0, 0)
				kids = append(kids, mTrun(1, 0xe01, offs[t-1], 0, smp))
			} else if truns == 2 && len(smp) == 2 {
				kids = append(kids, mTrun(1, 0xf01, offs[t-1], 0, smp[:1]), mTrun(1, 0xf01, offs[t-1]+smp[0].Size, 0, smp[1:]))
			} else {
				kids = append(kids, mTrun(1, 0xf01, offs[t-1], 0, smp))
			}
			if c12EncBoxes {
				n := len(fragSamples(fragNr, t))
				ivs := make([]byte, 8*n)
				for i := range ivs {
					ivs[i] = byte(i + 1)
				}
				kids = append(kids, mkFull("saiz", 0, 0, []byte{8}, be32(int64(n))), mkFull("saio", 0, 0, be32(1), be32(0)),
					mkFull("senc", 0, 0, be32(int64(n)), ivs))
			}
			trafs = cat(trafs, mkBox("traf", kids...))
		}
		return mkBox("moof", mMfhd(int64(fragNr)), trafs)
	}
	offs := make([]int64, ntracks)
	moof = build(offs)
	at := int64(len(moof) + 8)
	for k := 1; k <= ntracks; k++ {
		t := k
		if rev { // the last track's data first
			t = ntracks + 1 - k
		}
		offs[t-1] = at
		for si, s := range fragSamples(fragNr, t) {
			payload = append(payload, tokenBytes(t, fragNr*10+si, int(s.Size))...)
			at += s.Size
		}
	}
	return build(offs), mMdat(payload, false)
}

// materialise builds the real bytes of every abstract box (two passes for sizes/offsets).
func (c *faCase) materialise() [][]byte {
	n := len(c.File)
	out := make([][]byte, n)
	trackIDs := make([]int64, c.P.Ntracks)
	for i := range trackIDs {
		trackIDs[i] = int64(i + 1)
	}
	for i, b := range c.File {
		switch b.K {
		case "ftyp":
			out[i] = mFtyp("iso6", 0, "iso6", "cmfc")
		case "moov":
			var traks, trex []byte
			for _, id := range trackIDs {
				traks = cat(traks, mTrak(id, 1000*id, 0, id == 1, nil, mStsd(), mStts(nil), mStsc(nil), mStsz(0, nil), mStco(nil)))
				trex = cat(trex, mTrex(id, 0, 0, 0))
			}
			out[i] = mkBox("moov", mMvhd(1000, 0, int64(len(trackIDs)+1)), traks, mkBox("mvex", trex))
		case "styp":
			out[i] = mStyp("msdh", 0, "msdh", "msix")
		case "free":
			out[i] = mkBox("free")
		case "emsg":
			out[i] = mEmsg(int64(b.Frag))
		case "moof":
			out[i], out[i+1] = mMultiFragment(b.Frag, c.P.Ntracks, c.P.Truns, c.P.Rev)
		case "mdat":
			// built with its moof
		case "sidx":
			out[i] = mSidx(1, 1000, 0, 0, make([]sidxRefM, b.Nref)) // sizes filled below
		case "mfra":
			out[i] = mMfra(trackIDs, make([]int64, len(c.P.Fps)))
		}
	}
	// second pass: positions are now known (sizes do not change when values are filled in)
	pos := make([]int64, n+1)
	for i := range out {
		pos[i+1] = pos[i] + int64(len(out[i]))
	}
	// segment extents: boxes with seg == s (styp, segment sidx, emsg, moof, mdat)
	segStart := map[int]int64{}
	segEnd := map[int]int64{}
	firstMoof := map[int]int64{}
	fragStart := map[int]int64{}
	fragEnd := map[int]int64{}
	for i, b := range c.File {
		if b.Seg > 0 {
			if _, ok := segStart[b.Seg]; !ok {
				segStart[b.Seg] = pos[i]
			}
			segEnd[b.Seg] = pos[i+1]
		}
		if b.K == "moof" {
			if _, ok := firstMoof[b.Seg]; !ok {
				firstMoof[b.Seg] = pos[i]
			}
		}
		if b.K == "emsg" || b.K == "moof" || b.K == "mdat" {
			if _, ok := fragStart[b.Frag]; !ok {
				fragStart[b.Frag] = pos[i]
			}
			fragEnd[b.Frag] = pos[i+1]
		}
	}
	fragOfSeg := func(s int) (first, count int) {
		first = 1
		for k := 1; k < s; k++ {
			first += c.P.Fps[k-1]
		}
		return first, c.P.Fps[s-1]
	}
	for i, b := range c.File {
		switch {
		case b.K == "sidx" && (b.Level == "file" || b.Level == "file2"):
			refs := make([]sidxRefM, len(c.P.Fps))
			for s := range c.P.Fps {
				first, cnt := fragOfSeg(s + 1)
				var d int64
				for f := first; f < first+cnt; f++ {
					d += fragDur(f, 1)
				}
				refs[s] = sidxRefM{segEnd[s+1] - segStart[s+1], d}
			}
			refID := int64(1)
			if b.Level == "file2" {
				refID = 2
			}
			out[i] = mSidx(refID, 1000, 0, segStart[1]-pos[i+1], refs) // first_offset: from the end of the sidx to the first segment
		case b.K == "sidx" && b.Level == "segment":
			first, cnt := fragOfSeg(b.Seg)
			refs := make([]sidxRefM, cnt)
			for f := 0; f < cnt; f++ {
				refs[f] = sidxRefM{fragEnd[first+f] - fragStart[first+f], fragDur(first+f, 1)}
			}
			out[i] = mSidx(1, 1000, 0, 0, refs)
		case b.K == "mfra":
			offs := make([]int64, len(c.P.Fps))
			for s := range c.P.Fps {
				offs[s] = firstMoof[s+1]
			}
			out[i] = mMfra(trackIDs, offs)
		}
	}
	return out
}

func (c *faCase) decodeFlags() mp4.DecFileFlags {
	switch c.P.Flags {
	case "ism":
		return mp4.DecISMFlag
	case "onmoof":
		return mp4.DecStartOnMoof
	}
	return mp4.DecNoFlags
}

// partitionOf projects the decoded File onto box indices (by real start positions).
func partitionOf(f *mp4.File, posIdx map[uint64]int) ([][][]int, bool) {
	var segs [][][]int
	moofless := false
	for _, s := range f.Segments {
		var frs [][]int
		for _, fr := range s.Fragments {
			if fr.Moof == nil {
				moofless = true
				continue
			}
			pair := []int{posIdx[fr.Moof.StartPos] + 1}
			if fr.Mdat != nil {
				pair = append(pair, posIdx[fr.Mdat.StartPos]+1)
			}
			frs = append(frs, pair)
		}
		if len(frs) > 0 {
			segs = append(segs, frs)
		}
	}
	return segs, moofless
}

func eqPartition(a, b [][][]int) bool {
	ja, _ := json.Marshal(a)
	jb, _ := json.Marshal(b)
	return string(ja) == string(jb)
}

func c12Replay(args []string) error {
	rep := newReport()
	err := readLines(argValue(args, "-in", "-"), func(line []byte) error {
		var c faCase
		if err := json.Unmarshal(line, &c); err != nil {
			return err
		}
		c12DefDur = c.P.Truns == 3
		boxes := c.materialise()
		file := cat(boxes...)
		posIdx := map[uint64]int{}
		var at uint64
		for i, b := range boxes {
			posIdx[at] = i
			at += uint64(len(b))
		}
		kinds := make([]string, len(c.File))
		for i, b := range c.File {
			kinds[i] = b.K
		}
		cs := J{"p": c.P, "boxes": kinds}
		hasMfra := c.File[len(c.File)-1].K == "mfra"
		noMfra := file
		if hasMfra {
			noMfra = file[:len(file)-len(boxes[len(boxes)-1])]
		}
		type dec struct {
			name string
			f    *mp4.File
		}
		var decs []dec
		func() {
			defer func() {
				if r := recover(); r != nil {
					rep.Violation("decode/panic", fmt.Sprintf("DecodeFile panics on a well-formed fragmented file: %v", r), cs)
				}
			}()
			f, err := mp4.DecodeFile(bytes.NewReader(file), mp4.WithDecodeFlags(c.decodeFlags()))
			if err != nil {
				rep.Violation("decode/error", "well-formed fragmented file rejected: "+err.Error(), cs)
				return
			}
			decs = append(decs, dec{"reader", f})
			if c.P.Flags != "ism" {
				f2, err := mp4.DecodeFileSR(bits.NewFixedSliceReader(file), mp4.WithDecodeFlags(c.decodeFlags()))
				if err != nil {
					rep.Violation("decode/error-sr", "well-formed fragmented file rejected by DecodeFileSR: "+err.Error(), cs)
					return
				}
				decs = append(decs, dec{"sr", f2})
			}
		}()
		for _, d := range decs {
			d := d
			got, moofless := partitionOf(d.f, posIdx)
			if !eqPartition(got, c.Expected) {
				rep.Violation("grouping/"+c.Effective, "fragments are not grouped into segments as the delimiters prescribe ("+d.name+")",
					J{"case": cs, "observed": got, "expected": c.Expected})
			}
			if moofless != c.Moofless {
				rep.Drift("grouping/moofless", "moof-less fragment presence differs from Impl model", cs)
			}
			// A3: segment-mode re-encoding
			func() {
				defer func() {
					if r := recover(); r != nil {
						rep.Violation("reencode/panic", fmt.Sprintf("segment-mode Encode panics: %v", r), cs)
					}
				}()
				var buf bytes.Buffer
				err := d.f.Encode(&buf)
				key := "reencode"
				if moofless {
					key = "reencode/emsg-started-segment-under-start-on-moof"
				}
				if err != nil {
					rep.Violation(key+"/error", "segment-mode re-encoding of a decoded file fails: "+err.Error(), cs)
					return
				}
				out := buf.Bytes()
				if hasMfra && len(out) >= len(noMfra) {
					out = out[:len(noMfra)]
				}
				// a top-level free box is neither an init box nor part of a fragment: segment mode does not write it (see the
				// C02 finding on File.Size); what must come out identically is everything else, in order
				want := noMfra
				for i, b := range c.File {
					if b.K == "free" {
						var w2 []byte
						for j, bb := range boxes {
							if j != i && !(hasMfra && j == len(boxes)-1) {
								w2 = append(w2, bb...)
							}
						}
						want = w2
					}
				}
				if !bytes.Equal(out, want) {
					rep.Violation(key+"/bytes", "segment-mode re-encoding does not emit init and fragments byte-identically and in order",
						J{"case": cs, "in_len": len(noMfra), "out_len": len(out)})
				}
			}()
		}
		// ---- index part: UpdateSidx on a fresh decode, then encode and read the index back independently
		if len(decs) > 0 && !c.Moofless {
			for _, nz := range []bool{false, true} {
				c12Index(rep, &c, file, boxes, cs, nz)
			}
		}
		var smp interface{}
		if len(c.P.Fps) == 2 && c.P.Delim == "sidx" && c.P.Emsg == "segstart" {
			smp = J{"p": c.P, "boxes": kinds, "expected": c.Expected}
		}
		rep.Count(string(line), len(decs) > 0, smp)
		return nil
	})
	rep.Done()
	return err
}

// c12Tool runs the built examples/add-sidx binary on every materialised layout (and on the same layouts with
// left-over encryption boxes in every traf, with -removeEnc) and judges the index of its output.
func c12Tool(args []string) error {
	rep := newReport()
	bin := argValue(args, "-bin", "")
	stride := argInt(args, "-stride", 1)
	dir, err := ioutil.TempDir("", "c12tool")
	if err != nil {
		return err
	}
	defer os.RemoveAll(dir)
	runs, fails, n := 0, 0, 0
	err = readLines(argValue(args, "-in", "-"), func(line []byte) error {
		var c faCase
		if err := json.Unmarshal(line, &c); err != nil {
			return err
		}
		n++
		c12DefDur = c.P.Truns == 3
		if c.Moofless || c.P.Flags == "ism" || c.P.Flags == "both" || n%stride != int(seedFromEnv())%stride {
			return nil
		}
		kinds := make([]string, len(c.File))
		for i, b := range c.File {
			kinds[i] = b.K
		}
		for _, enc := range []bool{false, true} {
			c12EncBoxes = enc
			file := cat(c.materialise()...)
			c12EncBoxes = false
			in := filepath.Join(dir, "in.mp4")
			if err := ioutil.WriteFile(in, file, 0o644); err != nil {
				return err
			}
			for _, nz := range []bool{false, true} {
				var targs []string
				if c.P.Flags == "onmoof" {
					targs = append(targs, "-startSegOnMoof")
				}
				if nz {
					targs = append(targs, "-nzEPT")
				}
				if enc {
					targs = append(targs, "-removeEnc")
				}
				outp := filepath.Join(dir, "out.mp4")
				cmd := exec.Command(bin, append(targs, in, outp)...)
				var stderr bytes.Buffer
				cmd.Stderr = &stderr
				runs++
				cs := J{"p": c.P, "boxes": kinds, "tool_args": targs, "leftover_encryption_boxes": enc}
				if err := cmd.Run(); err != nil {
					fails++
					rep.Drift("tool/add-sidx-fails", "add-sidx exits non-zero on a well-formed fragmented file: "+stderr.String(), cs)
					continue
				}
				out, err := ioutil.ReadFile(outp)
				if err != nil {
					return err
				}
				c12JudgeIndex(rep, &c, out, cs, nz, "tool/")
				if enc {
					// the stripped boxes are gone and every sample is still where its trun says
					if bytes.Contains(out, []byte("senc")) || bytes.Contains(out, []byte("saiz")) || bytes.Contains(out, []byte("saio")) {
						rep.Violation("tool/removeenc/boxes-left", "add-sidx -removeEnc leaves encryption boxes in the output", cs)
					}
					a, e1 := isoReadFragments(file)
					b, e2 := isoReadFragments(out)
					if e1 != nil || e2 != nil {
						rep.Violation("tool/removeenc/unreadable", fmt.Sprintf("output of add-sidx -removeEnc cannot be read back: %v %v", e1, e2), cs)
					} else {
						for t, sa := range a {
							if d := diffSamples(sa, b[t]); d != "" {
								rep.Violation("tool/removeenc/samples", "samples differ after add-sidx -removeEnc (track "+fmt.Sprint(t)+"): "+d, cs)
								break
							}
						}
					}
				}
			}
		}
		var smp interface{}
		if len(c.P.Fps) == 2 && c.P.Delim == "styp" {
			smp = J{"p": c.P, "boxes": kinds, "tool": "add-sidx [-startSegOnMoof] [-nzEPT] [-removeEnc]"}
		}
		rep.Count("tool:"+string(line), true, smp)
		return nil
	})
	rep.Extra["tool_runs"] = runs
	rep.Extra["tool_failed"] = fails
	rep.Done()
	return err
}

type wSidx struct {
	Pos, End    int64
	Timescale   int64
	Ept, First  int64
	Sizes, Durs []int64
	Types       []int
}

func parseSidx(b wBox) (*wSidx, error) {
	p := b.Payload
	if len(p) < 4 {
		return nil, fmt.Errorf("short sidx")
	}
	ver := p[0]
	s := &wSidx{Pos: int64(b.Start), End: int64(b.Start + b.Size)}
	p = p[4:]
	s.Timescale = int64(binary.BigEndian.Uint32(p[4:]))
	p = p[8:]
	if ver == 0 {
		s.Ept = int64(binary.BigEndian.Uint32(p))
		s.First = int64(binary.BigEndian.Uint32(p[4:]))
		p = p[8:]
	} else {
		s.Ept = int64(binary.BigEndian.Uint64(p))
		s.First = int64(binary.BigEndian.Uint64(p[8:]))
		p = p[16:]
	}
	n := int(binary.BigEndian.Uint16(p[2:]))
	p = p[4:]
	for i := 0; i < n; i++ {
		w := binary.BigEndian.Uint32(p)
		s.Types = append(s.Types, int(w>>31))
		s.Sizes = append(s.Sizes, int64(w&0x7fffffff))
		s.Durs = append(s.Durs, int64(binary.BigEndian.Uint32(p[4:])))
		p = p[12:]
	}
	return s, nil
}

func c12Index(rep *Report, c *faCase, file []byte, boxes [][]byte, cs J, nonZeroEPT bool) {
	defer func() {
		if r := recover(); r != nil {
			rep.Violation("updatesidx/panic", fmt.Sprintf("UpdateSidx/Encode panics: %v", r), cs)
		}
	}()
	f, err := mp4.DecodeFile(bytes.NewReader(file), mp4.WithDecodeFlags(c.decodeFlags()))
	if err != nil {
		return
	}
	if err := f.UpdateSidx(true, nonZeroEPT); err != nil {
		rep.Violation("updatesidx/error", "UpdateSidx fails on a well-formed fragmented file: "+err.Error(), cs)
		return
	}
	var buf bytes.Buffer
	if err := f.Encode(&buf); err != nil {
		rep.Violation("updatesidx/encode-error", "Encode after UpdateSidx fails: "+err.Error(), cs)
		return
	}
	c12JudgeIndex(rep, c, buf.Bytes(), cs, nonZeroEPT, "")
}

// c12JudgeIndex reads the first top-level sidx of out with the independent walker and compares it with the
// segments the specification prescribes (reference starts, contiguity, end of media, durations, EPT, timescale).
func c12JudgeIndex(rep *Report, c *faCase, out []byte, cs J, nonZeroEPT bool, pfx string) {
	top, err := walkBoxes(out, 0)
	if err != nil {
		rep.Violation(pfx+"updatesidx/output-malformed", "output after UpdateSidx is not a well-formed box sequence: "+err.Error(), cs)
		return
	}
	// first top-level sidx and the position after the last top-level sidx preceding the media
	var sx *wSidx
	mediaStart := int64(-1)
	var mdatEnds []int64
	seenMedia := false
	for _, b := range top {
		switch b.Type {
		case "sidx":
			if !seenMedia {
				if sx == nil {
					sx, _ = parseSidx(b)
				}
				mediaStart = int64(b.Start + b.Size)
			}
		case "styp", "emsg", "moof":
			seenMedia = true
		case "mdat":
			seenMedia = true
			mdatEnds = append(mdatEnds, int64(b.Start+b.Size))
		}
	}
	if sx == nil {
		rep.Violation(pfx+"index/missing", "no top-level sidx in the output after UpdateSidx(addIfNotExists=true)", cs)
		return
	}
	nseg := len(c.Expected)
	info := J{"case": cs, "nonZeroEPT": nonZeroEPT, "sidx": sx}
	key := func(k string) string {
		if c.P.Segsidx >= 1 {
			return pfx + k + "/segment-level-sidx-present"
		}
		return pfx + k
	}
	if len(sx.Sizes) != nseg {
		rep.Violation(key("index/ref-count"), fmt.Sprintf("index has %d references for %d segments", len(sx.Sizes), nseg), info)
		return
	}
	// segment extents in the output from the expected partition: segment k ends with the mdat of its last fragment
	fragCount := 0
	start := mediaStart
	anchor := sx.End + sx.First
	refStart := anchor
	for k := 0; k < nseg; k++ {
		fragCount += len(c.Expected[k])
		if fragCount > len(mdatEnds) {
			rep.Violation(pfx+"index/fragments-missing", "output holds fewer fragments than the input", info)
			return
		}
		end := mdatEnds[fragCount-1]
		if sx.Types[k] != 0 {
			rep.Violation(key("index/ref-type"), "media reference expected", info)
		}
		if refStart != start {
			rep.Violation(key("index/ref-start"), fmt.Sprintf("reference %d starts at %d but its segment starts at %d", k+1, refStart, start), info)
			return
		}
		if refStart+sx.Sizes[k] != end {
			rep.Violation(key("index/ref-size"), fmt.Sprintf("reference %d ends at %d but its segment ends at %d", k+1, refStart+sx.Sizes[k], end), info)
			return
		}
		// X3: duration = summed sample durations of the reference track (video = track 1)
		var want int64
		for _, pair := range c.Expected[k] {
			want += fragDur(c.File[pair[0]-1].Frag, 1)
		}
		if sx.Durs[k] != want {
			rep.Violation(key("index/duration"), fmt.Sprintf("reference %d duration %d, summed sample durations %d", k+1, sx.Durs[k], want), info)
		}
		refStart += sx.Sizes[k]
		start = end
	}
	wantEpt := int64(0)
	if nonZeroEPT {
		wantEpt = baseTime(1, 1) + 2
	}
	if sx.Ept != wantEpt {
		rep.Violation(pfx+"index/ept", fmt.Sprintf("earliest presentation time %d, expected %d", sx.Ept, wantEpt), info)
	}
	if sx.Timescale != 1000 {
		rep.Violation(pfx+"index/timescale", "index timescale differs from the reference track's", info)
	}
}
