package main

// C04: materialiser of the G1 shape grammar (ContainerShapes.tla). Turns each abstract variant
// into bytes with the harness's own box writer.

import (
	"encoding/hex"
	"encoding/json"
	"fmt"
)

func init() {
	register("c04-shapes", c04Shapes)
}

func shapeTrak(id int64, variant string) []byte {
	stbl := [][]byte{mStsd(), mStts(nil), mStsc(nil), mStsz(0, nil), mStco(nil)}
	switch variant {
	case "prog":
		stbl = [][]byte{mStsd(mVisualEntry("avc1", 16, 16)), mStts([]runEntry{{2, 10}}), mStsc([]stscEntry{{1, 2, 1}}), mStsz(0, []int{3, 4}), mStco([]int64{400}), mStss([]int{1})}
	case "nostts":
		stbl = [][]byte{mStsd(), mStsc(nil), mStsz(0, nil), mStco(nil)}
	case "enc":
		sinf := mkBox("sinf", mkBox("frma", []byte("avc1")), mkFull("schm", 0, 0, []byte("cenc"), be32(0x10000)),
			mkBox("schi", mkFull("tenc", 0, 0, []byte{0, 0, 1, 8}, make([]byte, 16))))
		stbl[0] = mStsd(mVisualEntry("encv", 16, 16, sinf))
	}
	hd := mHdlr("vide", "v")
	minf := mkBox("minf", mVmhd(), mDinf(), mkBox("stbl", stbl...))
	mdiaKids := [][]byte{mMdhd(1000, 0), hd, minf}
	switch variant {
	case "nomdia":
		return mkBox("trak", mTkhd(id, 0, false, 16, 16))
	case "nominf":
		mdiaKids = [][]byte{mMdhd(1000, 0), hd}
	case "nostbl":
		mdiaKids = [][]byte{mMdhd(1000, 0), hd, mkBox("minf", mVmhd(), mDinf())}
	case "nohdlr":
		mdiaKids = [][]byte{mMdhd(1000, 0), minf}
	case "notkhd":
		return mkBox("trak", mkBox("mdia", mdiaKids...))
	}
	return mkBox("trak", mTkhd(id, 0, false, 16, 16), mkBox("mdia", mdiaKids...))
}

func shapeMoof(variant string, at int) []byte {
	samples := []mSample{{10, 3, 0x02000000, 0}, {10, 4, 0x01010000, 2}}
	tfhd := mTfhd(0x20000, 1, 0, 0, 0, 0, 0)
	tfdt := mTfdt(1, 100)
	build := func(off int64) []byte {
		trun := mTrun(1, 0xf01, off, 0, samples)
		senc := mkFull("senc", 0, 2, be32(2), make([]byte, 8), be16(1), be16(1), be32(2), make([]byte, 8), be16(1), be16(1), be32(3))
		saiz := mkFull("saiz", 0, 0, []byte{16}, be32(2))
		saio := func(senc []byte, before int) []byte { return mkFull("saio", 0, 0, be32(1), be32(int64(before))) }
		_ = saio
		switch variant {
		case "notraf":
			return mkBox("moof", mMfhd(1))
		case "nomfhd":
			return mkBox("moof", mkBox("traf", tfhd, tfdt, trun))
		case "traf-notfhd":
			return mkBox("moof", mMfhd(1), mkBox("traf", tfdt, trun))
		case "traf-notrun":
			return mkBox("moof", mMfhd(1), mkBox("traf", tfhd, tfdt))
		case "trun-offset0":
			return mkBox("moof", mMfhd(1), mkBox("traf", tfhd, tfdt, mTrun(1, 0xf01, 0, 0, samples)))
		case "twotrafs":
			return mkBox("moof", mMfhd(1), mkBox("traf", tfhd, tfdt, trun), mkBox("traf", mTfhd(0x20000, 2, 0, 0, 0, 0, 0), tfdt, trun))
		case "track2":
			return mkBox("moof", mMfhd(1), mkBox("traf", mTfhd(0x20000, 2, 0, 0, 0, 0, 0), tfdt, trun))
		case "senc-nosaio":
			return mkBox("moof", mMfhd(1), mkBox("traf", tfhd, tfdt, trun, senc))
		case "saio0":
			return mkBox("moof", mMfhd(1), mkBox("traf", tfhd, tfdt, trun, saiz, mkFull("saio", 0, 0, be32(0)), senc))
		case "senc-bigcount":
			big := mkFull("senc", 0, 2, be32(0x7fffffff), make([]byte, 20))
			return mkBox("moof", mMfhd(1), mkBox("traf", tfhd, tfdt, trun, saiz, mkFull("saio", 0, 0, be32(1), be32(100)), big))
		case "seig-badidx":
			sbgp := mkFull("sbgp", 0, 0, []byte("seig"), be32(1), be32(2), be32(0x10007))
			sgpd := mkFull("sgpd", 1, 0, []byte("seig"), be32(20), be32(1), []byte{0, 0, 1, 8}, make([]byte, 16))
			return mkBox("moof", mMfhd(1), mkBox("traf", tfhd, tfdt, trun, sbgp, sgpd, senc))
		case "trun-bigcount":
			tb := mkFull("trun", 1, 0xf01, be32(0x0fffffff), be32(off), make([]byte, 32))
			return mkBox("moof", mMfhd(1), mkBox("traf", tfhd, tfdt, tb))
		}
		return mkBox("moof", mMfhd(1), mkBox("traf", tfhd, tfdt, trun))
	}
	m := build(0)
	return build(int64(len(m) + 8))
}

func shapeBytes(v string, at int, total *[]byte) []byte {
	switch v {
	case "ftyp":
		return mFtyp("iso6", 0, "iso6", "cmfc")
	case "ftyp-p0":
		return mkBox("ftyp")
	case "ftyp-p4":
		return mkBox("ftyp", []byte("iso6"))
	case "ftyp-p7":
		return mkBox("ftyp", []byte("iso6\x00\x00\x00"))
	case "styp":
		return mStyp("msdh", 0, "msdh")
	case "moov-prog":
		return mkBox("moov", mMvhd(1000, 20, 2), shapeTrak(1, "prog"))
	case "moov-frag":
		return mkBox("moov", mMvhd(1000, 0, 2), shapeTrak(1, ""), mkBox("mvex", mTrex(1, 0, 0, 0)))
	case "moov-enc":
		return mkBox("moov", mMvhd(1000, 0, 2), shapeTrak(1, "enc"), mkBox("mvex", mTrex(1, 0, 0, 0)))
	case "moov-notrak":
		return mkBox("moov", mMvhd(1000, 0, 2), mkBox("mvex", mTrex(1, 0, 0, 0)))
	case "moov-trak-nomdia", "moov-trak-nominf", "moov-trak-nostbl", "moov-trak-nostts", "moov-trak-nohdlr", "moov-trak-notkhd":
		return mkBox("moov", mMvhd(1000, 0, 2), shapeTrak(1, v[len("moov-trak-"):]), mkBox("mvex", mTrex(1, 0, 0, 0)))
	case "moov-nomvex":
		return mkBox("moov", mMvhd(1000, 0, 2), shapeTrak(1, ""))
	case "moov-twomvhd":
		return mkBox("moov", mMvhd(1000, 0, 2), mMvhd(90000, 0, 3), shapeTrak(1, ""), mkBox("mvex", mTrex(1, 0, 0, 0)))
	case "moov-twotraks":
		return mkBox("moov", mMvhd(1000, 0, 3), shapeTrak(1, ""), shapeTrak(2, ""), mkBox("mvex", mTrex(1, 0, 0, 0), mTrex(2, 0, 0, 0)))
	case "moof":
		return shapeMoof("", at)
	case "mdat":
		return mMdat(mkPayload(7), false)
	case "mdat-empty":
		return mMdat(nil, false)
	case "mdat-large":
		return mMdat(mkPayload(7), true)
	case "mdat-beyond":
		b := mMdat(mkPayload(7), false)
		copy(b[0:4], be32(1000))
		return b
	case "sidx0":
		return mSidx(1, 1000, 0, 0, nil)
	case "sidx1":
		return mSidx(1, 1000, 0, 0, []sidxRefM{{160, 20}})
	case "sidx2":
		return mSidx(1, 1000, 0, 0, []sidxRefM{{160, 20}, {15, 10}})
	case "sidx-type1":
		b := mSidx(1, 1000, 0, 0, []sidxRefM{{160, 20}})
		b[len(b)-12] |= 0x80
		return b
	case "mfra":
		return mMfra([]int64{1}, []int64{int64(at)})
	case "mfra-notfra":
		return mkBox("mfra", mkFull("mfro", 0, 0, be32(24)))
	case "mfra-count":
		b := mMfra([]int64{1, 2}, []int64{int64(at), int64(at) + 10})
		return b
	case "mfra-offset":
		return mMfra([]int64{1}, []int64{7, 9, 1 << 30})
	case "mfro":
		return mkFull("mfro", 0, 0, be32(16))
	case "emsg0":
		return mkFull("emsg", 0, 0, []byte("urn:x"), []byte{0}, []byte("v"), []byte{0}, be32(1000), be32(5), be32(7), be32(1), []byte{1, 2})
	case "emsg1":
		return mEmsg(3)
	case "prft":
		return mkFull("prft", 1, 0, be32(1), be64(0x1122334455667788), be64(1234))
	case "free":
		return mkBox("free", []byte{1, 2, 3})
	case "skip":
		return mkBox("skip")
	case "uuid-tfxd":
		return mkBox("uuid", []byte{0x6d, 0x1d, 0x9b, 0x05, 0x42, 0xd5, 0x44, 0xe6, 0x80, 0xe2, 0x14, 0x1d, 0xaf, 0xf7, 0x57, 0xb2}, []byte{1, 0, 0, 0}, be64(100), be64(20))
	case "uuid-tfrf":
		return mkBox("uuid", []byte{0xd4, 0x80, 0x7e, 0xf2, 0xca, 0x39, 0x46, 0x95, 0x8e, 0x54, 0x26, 0xcb, 0x9e, 0x46, 0xa7, 0x9f}, []byte{1, 0, 0, 0, 1}, be64(100), be64(20))
	case "uuid-senc":
		return mkBox("uuid", []byte{0xa2, 0x39, 0x4f, 0x52, 0x5a, 0x9b, 0x4f, 0x14, 0xa2, 0x44, 0x6c, 0x42, 0x7c, 0x64, 0x8d, 0xf4}, []byte{0, 0, 0, 0}, be32(1), make([]byte, 8))
	case "uuid-unknown":
		return mkBox("uuid", []byte("0123456789abcdef"), []byte{9, 9})
	case "unknown":
		return mkBox("zzzz", []byte{7})
	case "mfhd-toplevel":
		return mMfhd(9)
	case "trak-toplevel":
		return shapeTrak(1, "")
	}
	if len(v) > 5 && v[:5] == "moof-" {
		return shapeMoof(v[5:], at)
	}
	panic("unknown variant " + v)
}

func c04Shapes(args []string) error {
	n := 0
	err := readLines(argValue(args, "-in", "-"), func(line []byte) error {
		var c struct {
			Shape []string `json:"shape"`
		}
		if err := json.Unmarshal(line, &c); err != nil {
			return err
		}
		var file []byte
		for _, v := range c.Shape {
			file = append(file, shapeBytes(v, len(file), &file)...)
		}
		n++
		emit(J{"id": fmt.Sprintf("G1/%d:%v", n, c.Shape), "kind": "file", "hex": hex.EncodeToString(file)})
		return nil
	})
	return err
}
