package main

// C04: materialiser of the G1 shape grammar (ContainerShapes.tla). Turns each abstract variant
// into bytes with the harness's own box writer.

import (
	"bytes"
	"encoding/hex"
	"encoding/json"
	"fmt"

	"github.com/Eyevinn/mp4ff/mp4"
)

func init() {
	register("c04-shapes", c04Shapes)
}

func shapeTrak(id int64, variant string) []byte {
	stbl := [][]byte{mStsd(), mStts(nil), mStsc(nil), mStsz(0, nil), mStco(nil)}
	switch variant {
	case "prog":
		stbl = [][]byte{mStsd(mVisualEntry("avc1", 16, 16)), mStts([]runEntry{{2, 10}}), mStsc([]stscEntry{{1, 2, 1}}), mStsz(0, []int{3, 4}), mStco([]int64{400}), mStss([]int{1})}
	case "nostts":
		stbl = [][]byte{mStsd(), mStsc(nil), mStsz(0, nil), mStco(nil)}
	case "enc":
		sinf := mkBox("sinf", mkBox("frma", []byte("avc1")), mkFull("schm", 0, 0, []byte("cenc"), be32(0x10000)),
			mkBox("schi", mkFull("tenc", 0, 0, []byte{0, 0, 1, 8}, make([]byte, 16))))
		stbl[0] = mStsd(mVisualEntry("encv", 16, 16, sinf))
	}
	hd := mHdlr("vide", "v")
	minf := mkBox("minf", mVmhd(), mDinf(), mkBox("stbl", stbl...))
	mdiaKids := [][]byte{mMdhd(1000, 0), hd, minf}
	switch variant {
	case "nomdia":
		return mkBox("trak", mTkhd(id, 0, false, 16, 16))
	case "nominf":
		mdiaKids = [][]byte{mMdhd(1000, 0), hd}
	case "nostbl":
		mdiaKids = [][]byte{mMdhd(1000, 0), hd, mkBox("minf", mVmhd(), mDinf())}
	case "nohdlr":
		mdiaKids = [][]byte{mMdhd(1000, 0), minf}
	case "notkhd":
		return mkBox("trak", mkBox("mdia", mdiaKids...))
	}
	return mkBox("trak", mTkhd(id, 0, false, 16, 16), mkBox("mdia", mdiaKids...))
}

func shapeMoof(variant string, at int) []byte {
	samples := []mSample{{10, 3, 0x02000000, 0}, {10, 4, 0x01010000, 2}}
	tfhd := mTfhd(0x20000, 1, 0, 0, 0, 0, 0)
	tfdt := mTfdt(1, 100)
	build := func(off int64) []byte {
		trun := mTrun(1, 0xf01, off, 0, samples)
		senc := mkFull("senc", 0, 2, be32(2), make([]byte, 8), be16(1), be16(1), be32(2), make([]byte, 8), be16(1), be16(1), be32(3))
		saiz := mkFull("saiz", 0, 0, []byte{16}, be32(2))
		saio := func(senc []byte, before int) []byte { return mkFull("saio", 0, 0, be32(1), be32(int64(before))) }
		_ = saio
		switch variant {
		case "notraf":
			return mkBox("moof", mMfhd(1))
		case "nomfhd":
			return mkBox("moof", mkBox("traf", tfhd, tfdt, trun))
		case "traf-notfhd":
			return mkBox("moof", mMfhd(1), mkBox("traf", tfdt, trun))
		case "traf-notrun":
			return mkBox("moof", mMfhd(1), mkBox("traf", tfhd, tfdt))
		case "trun-offset0":
			return mkBox("moof", mMfhd(1), mkBox("traf", tfhd, tfdt, mTrun(1, 0xf01, 0, 0, samples)))
		case "twotrafs":
			return mkBox("moof", mMfhd(1), mkBox("traf", tfhd, tfdt, trun), mkBox("traf", mTfhd(0x20000, 2, 0, 0, 0, 0, 0), tfdt, trun))
		case "track2":
			return mkBox("moof", mMfhd(1), mkBox("traf", mTfhd(0x20000, 2, 0, 0, 0, 0, 0), tfdt, trun))
		case "senc-nosaio":
			return mkBox("moof", mMfhd(1), mkBox("traf", tfhd, tfdt, trun, senc))
		case "saio0":
			return mkBox("moof", mMfhd(1), mkBox("traf", tfhd, tfdt, trun, saiz, mkFull("saio", 0, 0, be32(0)), senc))
		case "senc-bigcount":
			big := mkFull("senc", 0, 2, be32(0x7fffffff), make([]byte, 20))
			return mkBox("moof", mMfhd(1), mkBox("traf", tfhd, tfdt, trun, saiz, mkFull("saio", 0, 0, be32(1), be32(100)), big))
		case "seig-badidx":
			sbgp := mkFull("sbgp", 0, 0, []byte("seig"), be32(1), be32(2), be32(0x10007))
			sgpd := mkFull("sgpd", 1, 0, []byte("seig"), be32(20), be32(1), []byte{0, 0, 1, 8}, make([]byte, 16))
			return mkBox("moof", mMfhd(1), mkBox("traf", tfhd, tfdt, trun, sbgp, sgpd, senc))
		case "trun-bigcount":
			tb := mkFull("trun", 1, 0xf01, be32(0x0fffffff), be32(off), make([]byte, 32))
			return mkBox("moof", mMfhd(1), mkBox("traf", tfhd, tfdt, tb))
		}
		return mkBox("moof", mMfhd(1), mkBox("traf", tfhd, tfdt, trun))
	}
	m := build(0)
	return build(int64(len(m) + 8))
}

func shapeBytes(v string, at int, total *[]byte) []byte {
	switch v {
	case "ftyp":
		return mFtyp("iso6", 0, "iso6", "cmfc")
	case "ftyp-p0":
		return mkBox("ftyp")
	case "ftyp-p4":
		return mkBox("ftyp", []byte("iso6"))
	case "ftyp-p7":
		return mkBox("ftyp", []byte("iso6\x00\x00\x00"))
	case "styp":
		return mStyp("msdh", 0, "msdh")
	case "moov-prog":
		return mkBox("moov", mMvhd(1000, 20, 2), shapeTrak(1, "prog"))
	case "moov-frag":
		return mkBox("moov", mMvhd(1000, 0, 2), shapeTrak(1, ""), mkBox("mvex", mTrex(1, 0, 0, 0)))
	case "moov-enc":
		return mkBox("moov", mMvhd(1000, 0, 2), shapeTrak(1, "enc"), mkBox("mvex", mTrex(1, 0, 0, 0)))
	case "moov-notrak":
		return mkBox("moov", mMvhd(1000, 0, 2), mkBox("mvex", mTrex(1, 0, 0, 0)))
	case "moov-trak-nomdia", "moov-trak-nominf", "moov-trak-nostbl", "moov-trak-nostts", "moov-trak-nohdlr", "moov-trak-notkhd":
		return mkBox("moov", mMvhd(1000, 0, 2), shapeTrak(1, v[len("moov-trak-"):]), mkBox("mvex", mTrex(1, 0, 0, 0)))
	case "moov-nomvex":
		return mkBox("moov", mMvhd(1000, 0, 2), shapeTrak(1, ""))
	case "moov-twomvhd":
		return mkBox("moov", mMvhd(1000, 0, 2), mMvhd(90000, 0, 3), shapeTrak(1, ""), mkBox("mvex", mTrex(1, 0, 0, 0)))
	case "moov-twotraks":
		return mkBox("moov", mMvhd(1000, 0, 3), shapeTrak(1, ""), shapeTrak(2, ""), mkBox("mvex", mTrex(1, 0, 0, 0), mTrex(2, 0, 0, 0)))
	case "moof":
		return shapeMoof("", at)
	case "mdat":
		return mMdat(mkPayload(7), false)
	case "mdat-empty":
		return mMdat(nil, false)
	case "mdat-large":
		return mMdat(mkPayload(7), true)
	case "mdat-beyond":
		b := mMdat(mkPayload(7), false)
		copy(b[0:4], be32(1000))
		return b
	case "sidx0":
		return mSidx(1, 1000, 0, 0, nil)
	case "sidx1":
		return mSidx(1, 1000, 0, 0, []sidxRefM{{160, 20}})
	case "sidx2":
		return mSidx(1, 1000, 0, 0, []sidxRefM{{160, 20}, {15, 10}})
	case "sidx-type1":
		b := mSidx(1, 1000, 0, 0, []sidxRefM{{160, 20}})
		b[len(b)-12] |= 0x80
		return b
	case "mfra":
		return mMfra([]int64{1}, []int64{int64(at)})
	case "mfra-notfra":
		return mkBox("mfra", mkFull("mfro", 0, 0, be32(24)))
	case "mfra-count":
		b := mMfra([]int64{1, 2}, []int64{int64(at), int64(at) + 10})
		return b
	case "mfra-offset":
		return mMfra([]int64{1}, []int64{7, 9, 1 << 30})
	case "mfro":
		return mkFull("mfro", 0, 0, be32(16))
	case "emsg0":
		return mkFull("emsg", 0, 0, []byte("urn:x"), []byte{0}, []byte("v"), []byte{0}, be32(1000), be32(5), be32(7), be32(1), []byte{1, 2})
	case "emsg1":
		return mEmsg(3)
	case "prft":
		return mkFull("prft", 1, 0, be32(1), be64(0x1122334455667788), be64(1234))
	case "free":
		return mkBox("free", []byte{1, 2, 3})
	case "skip":
		return mkBox("skip")
	case "uuid-tfxd":
		return mkBox("uuid", []byte{0x6d, 0x1d, 0x9b, 0x05, 0x42, 0xd5, 0x44, 0xe6, 0x80, 0xe2, 0x14, 0x1d, 0xaf, 0xf7, 0x57, 0xb2}, []byte{1, 0, 0, 0}, be64(100), be64(20))
	case "uuid-tfrf":
		return mkBox("uuid", []byte{0xd4, 0x80, 0x7e, 0xf2, 0xca, 0x39, 0x46, 0x95, 0x8e, 0x54, 0x26, 0xcb, 0x9e, 0x46, 0xa7, 0x9f}, []byte{1, 0, 0, 0, 1}, be64(100), be64(20))
	case "uuid-senc":
		return mkBox("uuid", []byte{0xa2, 0x39, 0x4f, 0x52, 0x5a, 0x9b, 0x4f, 0x14, 0xa2, 0x44, 0x6c, 0x42, 0x7c, 0x64, 0x8d, 0xf4}, []byte{0, 0, 0, 0}, be32(1), make([]byte, 8))
	case "uuid-unknown":
		return mkBox("uuid", []byte("0123456789abcdef"), []byte{9, 9})
	case "unknown":
		return mkBox("zzzz", []byte{7})
	case "mfhd-toplevel":
		return mMfhd(9)
	case "trak-toplevel":
		return shapeTrak(1, "")
	}
	if len(v) > 5 && v[:5] == "moof-" {
		return shapeMoof(v[5:], at)
	}
	panic("unknown variant " + v)
}

func c04Shapes(args []string) error {
	n := 0
	err := readLines(argValue(args, "-in", "-"), func(line []byte) error {
		var c struct {
			Shape []string `json:"shape"`
		}
		if err := json.Unmarshal(line, &c); err != nil {
			return err
		}
		var file []byte
		for _, v := range c.Shape {
			file = append(file, shapeBytes(v, len(file), &file)...)
		}
		n++
		emit(J{"id": fmt.Sprintf("G1/%d:%v", n, c.Shape), "kind": "file", "hex": hex.EncodeToString(file)})
		return nil
	})
	return err
}

// ---- G7: cross-referencing combinations (CrossRefs.tla)

func init() {
	register("c04-crossrefs", c04CrossRefs)
}

var piffSencUUID = []byte{0xa2, 0x39, 0x4f, 0x52, 0x5a, 0x9b, 0x4f, 0x14, 0xa2, 0x44, 0x6c, 0x42, 0x7c, 0x64, 0x8d, 0xf4}

func crossMoov(v string) []byte {
	switch v {
	case "none":
		return nil
	case "frag":
		return mkBox("moov", mMvhd(1000, 0, 2), shapeTrak(1, ""), mkBox("mvex", mTrex(1, 0, 0, 0)))
	case "enc0": // cbcs style: per-sample IV size 0, constant IV of 8 bytes, pattern 1:9
		sinf := mkBox("sinf", mkBox("frma", []byte("avc1")), mkFull("schm", 0, 0, []byte("cbcs"), be32(0x10000)),
			mkBox("schi", mkFull("tenc", 1, 0, []byte{0, 0x19, 1, 0}, make([]byte, 16), []byte{8}, []byte{1, 2, 3, 4, 5, 6, 7, 8})))
		stbl := [][]byte{mStsd(mVisualEntry("encv", 16, 16, sinf)), mStts(nil), mStsc(nil), mStsz(0, nil), mStco(nil)}
		trak := mkBox("trak", mTkhd(1, 0, false, 16, 16), mkBox("mdia", mMdhd(1000, 0), mHdlr("vide", "v"), mkBox("minf", mVmhd(), mDinf(), mkBox("stbl", stbl...))))
		return mkBox("moov", mMvhd(1000, 0, 2), trak, mkBox("mvex", mTrex(1, 0, 0, 0)))
	}
	return mkBox("moov", mMvhd(1000, 0, 2), shapeTrak(1, "enc"), mkBox("mvex", mTrex(1, 0, 0, 0)))
}

func crossTraf(c map[string]string, at int) []byte {
	samples := []mSample{{10, 3, 0x02000000, 0}, {10, 4, 0x01010000, 2}}
	build := func(dataOff, sencOff int64) ([]byte, int64) {
		var kids [][]byte
		switch c["tfhd"] {
		case "t1":
			kids = append(kids, mTfhd(0x20000, 1, 0, 0, 0, 0, 0))
		case "t9":
			kids = append(kids, mTfhd(0x20000, 9, 0, 0, 0, 0, 0))
		case "sdi":
			kids = append(kids, mTfhd(0x2003a, 1, 0, 1, 10, 3, 0x01010000))
		}
		kids = append(kids, mTfdt(1, 100))
		switch c["trun"] {
		case "n2":
			kids = append(kids, mTrun(1, 0xf01, dataOff, 0, samples))
		case "n0":
			kids = append(kids, mTrun(1, 0xf01, dataOff, 0, nil))
		case "two":
			kids = append(kids, mTrun(1, 0xf01, dataOff, 0, samples[:1]), mTrun(1, 0xf01, dataOff+3, 0, samples[1:]))
		case "nosize":
			kids = append(kids, mTrun(0, 0x001, dataOff, 0, samples))
		}
		switch c["sbgp"] {
		case "in1":
			kids = append(kids, mkFull("sbgp", 0, 0, []byte("seig"), be32(1), be32(2), be32(0x10001)))
		case "in2":
			kids = append(kids, mkFull("sbgp", 0, 0, []byte("seig"), be32(1), be32(2), be32(0x10002)))
		case "gl1":
			kids = append(kids, mkFull("sbgp", 0, 0, []byte("seig"), be32(1), be32(2), be32(1)))
		case "two":
			kids = append(kids, mkFull("sbgp", 0, 0, []byte("seig"), be32(2), be32(1), be32(0x10001), be32(1), be32(0)))
		case "roll":
			kids = append(kids, mkFull("sbgp", 0, 0, []byte("roll"), be32(1), be32(2), be32(0x10001)))
		case "zero":
			kids = append(kids, mkFull("sbgp", 0, 0, []byte("seig"), be32(0)))
		}
		seig := func(iv byte, constIV []byte) []byte {
			e := cat([]byte{0, 0, 1, iv}, make([]byte, 16))
			if constIV != nil {
				e = cat(e, []byte{byte(len(constIV))}, constIV)
			}
			return e
		}
		switch c["sgpd"] {
		case "seig0":
			kids = append(kids, mkFull("sgpd", 1, 0, []byte("seig"), be32(20), be32(0)))
		case "seig1":
			kids = append(kids, mkFull("sgpd", 1, 0, []byte("seig"), be32(20), be32(1), seig(8, nil)))
		case "seig1c":
			kids = append(kids, mkFull("sgpd", 1, 0, []byte("seig"), be32(29), be32(1), seig(0, []byte{1, 2, 3, 4, 5, 6, 7, 8})))
		case "seig2":
			kids = append(kids, mkFull("sgpd", 1, 0, []byte("seig"), be32(20), be32(2), seig(8, nil), seig(16, nil)))
		case "roll1":
			kids = append(kids, mkFull("sgpd", 1, 0, []byte("roll"), be32(2), be32(1), be16(0xffff)))
		case "v0":
			kids = append(kids, mkFull("sgpd", 0, 0, []byte("seig"), be32(1), seig(8, nil)))
		}
		switch c["saiz"] {
		case "def8n2":
			kids = append(kids, mkFull("saiz", 0, 0, []byte{8}, be32(2)))
		case "def16n2":
			kids = append(kids, mkFull("saiz", 0, 0, []byte{16}, be32(2)))
		case "tab2":
			kids = append(kids, mkFull("saiz", 0, 0, []byte{0}, be32(2), []byte{8, 8}))
		case "def0n0":
			kids = append(kids, mkFull("saiz", 0, 0, []byte{0}, be32(0)))
		case "n3":
			kids = append(kids, mkFull("saiz", 0, 0, []byte{8}, be32(3)))
		}
		switch c["saio"] {
		case "match":
			kids = append(kids, mkFull("saio", 0, 0, be32(1), be32(sencOff)))
		case "v1match":
			kids = append(kids, mkFull("saio", 1, 0, be32(1), be64(sencOff)))
		case "e0":
			kids = append(kids, mkFull("saio", 0, 0, be32(0)))
		case "off0":
			kids = append(kids, mkFull("saio", 0, 0, be32(1), be32(0)))
		case "two":
			kids = append(kids, mkFull("saio", 0, 0, be32(2), be32(sencOff), be32(sencOff+8)))
		}
		iv := func(n int, b byte) []byte { x := make([]byte, n); x[n-1] = b; return x }
		var senc []byte
		hdr := int64(16)
		switch c["senc"] {
		case "n2":
			senc = mkFull("senc", 0, 0, be32(2), iv(8, 1), iv(8, 2))
		case "n2s":
			senc = mkFull("senc", 0, 2, be32(2), iv(8, 1), be16(1), be16(1), be32(2), iv(8, 2), be16(1), be16(1), be32(3))
		case "n0":
			senc = mkFull("senc", 0, 0, be32(0))
		case "n3":
			senc = mkFull("senc", 0, 0, be32(3), iv(8, 1), iv(8, 2), iv(8, 3))
		case "iv16":
			senc = mkFull("senc", 0, 0, be32(2), iv(16, 1), iv(16, 2))
		case "short":
			senc = mkFull("senc", 0, 0, be32(2), iv(8, 1))
		case "uuid":
			senc = mkBox("uuid", piffSencUUID, []byte{0, 0, 0, 0}, be32(2), iv(8, 1), iv(8, 2))
			hdr = 32
		}
		traf := mkBox("traf", cat(kids...), senc)
		moof := mkBox("moof", mMfhd(1), traf)
		return moof, int64(len(moof)-len(senc)) + hdr
	}
	m, so := build(0, 0)
	m, _ = build(int64(len(m)+8), so)
	return cat(m, mMdat(mkPayload(7), false))
}

func crossStbl(c map[string]string) []byte {
	var kids [][]byte
	add := func(b []byte) { kids = append(kids, b) }
	switch c["stsd"] {
	case "avc1":
		add(mStsd(mVisualEntry("avc1", 16, 16)))
	case "e0":
		add(mStsd())
	case "two":
		add(mStsd(mVisualEntry("avc1", 16, 16), mVisualEntry("avc1", 32, 32)))
	}
	switch c["stts"] {
	case "n2":
		add(mStts([]runEntry{{2, 10}}))
	case "n3":
		add(mStts([]runEntry{{3, 10}}))
	case "e0":
		add(mStts(nil))
	case "zerocount":
		add(mStts([]runEntry{{0, 10}, {2, 10}}))
	}
	switch c["ctts"] {
	case "n2":
		add(mCtts(0, []runEntry{{2, 5}}))
	case "n1":
		add(mCtts(0, []runEntry{{1, 5}}))
	}
	switch c["stsc"] {
	case "one":
		add(mStsc([]stscEntry{{1, 2, 1}}))
	case "e0":
		add(mStsc(nil))
	case "fc0":
		add(mStsc([]stscEntry{{0, 2, 1}}))
	case "fc2":
		add(mStsc([]stscEntry{{2, 2, 1}}))
	case "spc0":
		add(mStsc([]stscEntry{{1, 0, 1}}))
	case "desc":
		add(mStsc([]stscEntry{{2, 1, 1}, {1, 1, 1}}))
	case "sdi9":
		add(mStsc([]stscEntry{{1, 2, 9}}))
	}
	switch c["stsz"] {
	case "tab2":
		add(mStsz(0, []int{3, 4}))
	case "uni2":
		add(mStsz(3, []int{0, 0}))
	case "tab1":
		add(mStsz(0, []int{3}))
	case "cnt0":
		add(mStsz(0, nil))
	}
	moovLen := func(stco []byte) int {
		return len(crossProg(append(append([][]byte{}, kids...), stco), c["stss"]))
	}
	var stco []byte
	switch c["stco"] {
	case "c1":
		off := int64(24 + moovLen(mStco([]int64{0})) + 8)
		stco = mStco([]int64{off})
	case "e0":
		stco = mStco(nil)
	case "co64":
		off := int64(24 + moovLen(mCo64([]int64{0})) + 8)
		stco = mCo64([]int64{off})
	case "c2":
		off := int64(24 + moovLen(mStco([]int64{0, 0})) + 8)
		stco = mStco([]int64{off, off + 3})
	}
	if stco != nil {
		kids = append(kids, stco)
	}
	return cat(mFtyp("isom", 0, "isom", "mp41"), crossProg(kids, c["stss"]), mMdat(mkPayload(7), false))
}

func crossProg(stblKids [][]byte, stss string) []byte {
	kids := append([][]byte{}, stblKids...)
	switch stss {
	case "s1":
		kids = append(kids, mStss([]int{1}))
	case "s9":
		kids = append(kids, mStss([]int{1, 9}))
	case "e0":
		kids = append(kids, mStss(nil))
	case "s0":
		kids = append(kids, mStss([]int{0}))
	}
	trak := mkBox("trak", mTkhd(1, 20, false, 16, 16), mkBox("mdia", mMdhd(1000, 20), mHdlr("vide", "v"), mkBox("minf", mVmhd(), mDinf(), mkBox("stbl", kids...))))
	return mkBox("moov", mMvhd(1000, 20, 2), trak)
}

// crossMfra: ftyp moov (moof mdat) x 2 followed by the mfra the combination describes
func crossMfra(c map[string]string) []byte {
	ini := cat(mFtyp("iso6", 0, "iso6", "cmfc"), mkBox("moov", mMvhd(1000, 0, 3), shapeTrak(1, ""), shapeTrak(2, ""), mkBox("mvex", mTrex(1, 0, 0, 0), mTrex(2, 0, 0, 0))))
	f1 := mSimpleFragment(1, 1, 0, []mSample{{10, 3, 0x02000000, 0}}, mkPayload(3), false)
	f2 := mSimpleFragment(2, 1, 10, []mSample{{10, 4, 0x02000000, 0}}, mkPayload(4), false)
	file := cat(ini, f1, f2)
	real := []int64{int64(len(ini)), int64(len(ini) + len(f1)), int64(len(file))}
	offsets := func(n int, later bool) []int64 {
		var o []int64
		for i := 0; i < n; i++ {
			v := real[i%len(real)]
			switch c["offs"] {
			case "eof":
				v = int64(len(file)) + 1000 + int64(i)
			case "zero":
				v = 0
			case "desc":
				v = real[(n-1-i)%len(real)]
			}
			if later {
				v += 8
			}
			o = append(o, v)
		}
		return o
	}
	tfra := func(id int64, offs []int64) []byte {
		p := cat(be32(id), be32(0), be32(int64(len(offs))))
		for i, o := range offs {
			p = cat(p, be32(int64(i*10)), be32(o), []byte{1, 1, 1})
		}
		return mkFull("tfra", 0, 0, p)
	}
	id2 := int64(2)
	if c["ids"] == "1-1" {
		id2 = 1
	}
	var kids []byte
	switch c["tfra1"] {
	case "e2":
		kids = cat(kids, tfra(1, offsets(2, false)))
	case "e1":
		kids = cat(kids, tfra(1, offsets(1, false)))
	case "e0":
		kids = cat(kids, tfra(1, nil))
	}
	switch c["tfra2"] {
	case "e2":
		kids = cat(kids, tfra(id2, offsets(2, false)))
	case "e3":
		kids = cat(kids, tfra(id2, offsets(3, false)))
	case "e1":
		kids = cat(kids, tfra(id2, offsets(1, false)))
	case "e2later":
		kids = cat(kids, tfra(id2, offsets(2, true)))
	}
	size := int64(8 + len(kids) + 16)
	switch c["mfro"] {
	case "zero":
		size = 0
	case "big":
		size = int64(len(file)) + 5000
	case "short":
		size = 20
	}
	if c["mfro"] == "none" {
		return cat(file, mkBox("mfra", kids))
	}
	return cat(file, mkBox("mfra", kids, mkFull("mfro", 0, 0, be32(size))))
}

func c04CrossRefs(args []string) error {
	return readLines(argValue(args, "-in", "-"), func(line []byte) error {
		var c struct {
			Mode       string            `json:"mode"`
			Combo      map[string]string `json:"combo"`
			Dev        int               `json:"dev"`
			Consistent bool              `json:"consistent"`
		}
		if err := json.Unmarshal(line, &c); err != nil {
			return err
		}
		var file []byte
		var id string
		if c.Mode == "traf" {
			ini := cat(mFtyp("iso6", 0, "iso6", "cmfc"), crossMoov(c.Combo["moov"]))
			file = cat(ini, crossTraf(c.Combo, len(ini)))
			id = fmt.Sprintf("G7/traf/moov=%s,tfhd=%s,trun=%s,senc=%s,saiz=%s,saio=%s,sbgp=%s,sgpd=%s", c.Combo["moov"], c.Combo["tfhd"], c.Combo["trun"], c.Combo["senc"], c.Combo["saiz"], c.Combo["saio"], c.Combo["sbgp"], c.Combo["sgpd"])
		} else if c.Mode == "mfra" {
			file = crossMfra(c.Combo)
			id = fmt.Sprintf("G7/mfra/tfra1=%s,tfra2=%s,ids=%s,offs=%s,mfro=%s", c.Combo["tfra1"], c.Combo["tfra2"], c.Combo["ids"], c.Combo["offs"], c.Combo["mfro"])
		} else {
			file = crossStbl(c.Combo)
			id = fmt.Sprintf("G7/stbl/stsd=%s,stts=%s,ctts=%s,stsc=%s,stsz=%s,stco=%s,stss=%s", c.Combo["stsd"], c.Combo["stts"], c.Combo["ctts"], c.Combo["stsc"], c.Combo["stsz"], c.Combo["stco"], c.Combo["stss"])
		}
		// a combination the model calls consistent must be accepted by the plain decoder; otherwise model and materialiser disagree
		accepted := true
		func() {
			defer func() {
				if r := recover(); r != nil {
					accepted = true // panics are the monitor's business
				}
			}()
			var err error
			if c.Mode == "mfra" {
				_, err = mp4.DecodeFile(bytes.NewReader(file), mp4.WithDecodeFlags(mp4.DecISMFlag))
			} else {
				_, err = mp4.DecodeFile(bytes.NewReader(file))
			}
			accepted = err == nil
		}()
		emit(J{"id": id, "kind": "file", "hex": hex.EncodeToString(file), "consistent": c.Consistent, "accepted": accepted})
		return nil
	})
}
