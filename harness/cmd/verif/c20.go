package main

// C20: independent objects used from concurrent goroutines. Replays the call-level schedules
// enumerated by Conc.tla deterministically, measuring footprints (digests of the shared inputs, of the
// decoder registries and of every live object), and runs the same programs on real goroutines
// (meant to be built with -race).

import (
	"bytes"
	"encoding/json"
	"fmt"
	"hash/fnv"
	"io"
	"io/ioutil"
	"math/rand"
	"os"
	"os/exec"
	"path/filepath"
	"strings"
	"sync"

	"github.com/Eyevinn/mp4ff/bits"
	"github.com/Eyevinn/mp4ff/mp4"
)

func init() {
	register("c20-replay", c20Replay)
	register("c20-race", c20Race)
	register("c20-solo", c20Solo)
}

func dig(b []byte) int {
	h := fnv.New32a()
	h.Write(b)
	return int(h.Sum32() & 0x3fffffff)
}

// c20Inputs: 0 clear fragmented file, 1 the same encrypted with cenc, 2 a progressive corpus file.
func c20Inputs() ([][]byte, error) {
	ini, err := clearInit("avc")
	if err != nil {
		return nil, err
	}
	var payload []byte
	var infos []mSample
	for i := 0; i < 3; i++ {
		b := sampleBytes("avc", []cencNal{{Kind: "n", Len: 9}, {Kind: "v", Len: 150 + 30*i}}, i+1)
		payload = append(payload, b...)
		infos = append(infos, mSample{Dur: 3000, Size: int64(len(b)), Flags: 0x02000000})
	}
	clear := cat(ini, mStyp("msdh", 0, "msdh"), mFragmentX(1, 0, infos, payload, "none"), mFragmentX(2, 9000, infos, payload, "none"))
	f, err := mp4.DecodeFile(bytes.NewReader(clear))
	if err != nil {
		return nil, err
	}
	key, iv := c20Key, ivClasses[6]
	ipd, err := mp4.InitProtect(f.Init, key, iv, "cenc", mp4.UUID(bytes.Repeat([]byte{7}, 16)), nil)
	if err != nil {
		return nil, err
	}
	for _, fr := range f.Segments[0].Fragments {
		if err := mp4.EncryptFragment(fr, key, iv, ipd); err != nil {
			return nil, err
		}
	}
	var eb bytes.Buffer
	if err := f.Encode(&eb); err != nil {
		return nil, err
	}
	prog, err := ioutil.ReadFile(filepath.Join("/repo/mp4/testdata", "init_prog.mp4"))
	if err != nil {
		return nil, err
	}
	prog8, err := ioutil.ReadFile(filepath.Join("/repo/mp4/testdata", "prog_8s.mp4"))
	if err != nil {
		return nil, err
	}
	inputs := [][]byte{clear, eb.Bytes(), prog}
	// the kitchen sinks are expensive to build: the solo processes reuse what the first builder stored next to the instances
	cache := ""
	if c20InstancePath != "" {
		cache = c20InstancePath + ".inputs.json"
		if b, err := ioutil.ReadFile(cache); err == nil {
			var all [][]byte
			if json.Unmarshal(b, &all) == nil && len(all) >= 7 {
				return all, nil
			}
		}
	}
	if c20InstancePath != "" {
		a, b, err := c20Sinks(c20InstancePath)
		if err != nil {
			return nil, err
		}
		inputs = append(inputs, a, b)
	}
	// last input: key material as an application keeps it - an 8-byte IV directly followed by the 16-byte key and 8 more
	// bytes in ONE buffer; op K passes buf[:8] (a slice with spare capacity) and buf[8:24] to the library
	ivkey := append(append(append([]byte{}, ivClasses[5][:8]...), c20Key1...), 1, 2, 3, 4, 5, 6, 7, 8)
	// last but one: a progressive file with media data, for the lazy decode (op L) and CopySampleData (op P)
	inputs = append(inputs, prog8, ivkey)
	if cache != "" {
		if b, err := json.Marshal(inputs); err == nil {
			_ = ioutil.WriteFile(cache+".tmp", b, 0o644)
			_ = os.Rename(cache+".tmp", cache)
		}
	}
	return inputs, nil
}

// c20-solo: one program on private inputs in a process of its own - the reference for Q2. A fresh process has pristine
// package-level state, so state that an EARLIER call of the replay process left behind in the library shows up as a difference.
func c20Solo(args []string) error {
	c20InstancePath = argValue(args, "-instances", "")
	in, err := c20Inputs()
	if err != nil {
		return err
	}
	st := &c20State{}
	var r []int
	for _, op := range strings.Split(argValue(args, "-prog", ""), ",") {
		r = append(r, c20Op(st, op, in))
	}
	emit(J{"type": "solo", "res": r})
	return nil
}

func c20SoloFresh(p []string) ([]int, error) {
	a := []string{"c20-solo", "-prog", strings.Join(p, ",")}
	if c20InstancePath != "" {
		a = append(a, "-instances", c20InstancePath)
	}
	out, err := exec.Command(os.Args[0], a...).Output()
	if err != nil {
		return nil, fmt.Errorf("c20-solo %v: %v", p, err)
	}
	for _, line := range bytes.Split(out, []byte("\n")) {
		var o struct {
			Type string `json:"type"`
			Res  []int  `json:"res"`
		}
		if json.Unmarshal(line, &o) == nil && o.Type == "solo" {
			return o.Res, nil
		}
	}
	return nil, fmt.Errorf("c20-solo %v: no result", p)
}

// c20InstancePath: NDJSON export of BoxLayouts.tla (set from -instances).
var c20InstancePath string

// c20Sinks builds two "kitchen sink" files holding one instance of every box shape of BoxLayouts.tla that the
// file decoder accepts as a top-level box: sink A with the spec's fillers, sink B with every value field
// altered. Two objects decoded from A and B are independent; hidden shared decoder state (caches, pools,
// retained buffers) shows as a change of the first object when the second is decoded.
func c20Sinks(path string) (a, b []byte, err error) {
	accepts := func(data []byte) bool {
		f, err := safeDecodeFile(data)
		return err == nil && f != nil
	}
	seen := map[string]bool{}
	err = readLines(path, func(line []byte) error {
		var in c01Inst
		if err := json.Unmarshal(line, &in); err != nil {
			return err
		}
		idx, _ := in.Pick[0].(float64)
		if idx != 0 || in.Hdr != "s32" || in.Wrap != "none" || in.Cnt != 2 || seen[in.Layout] {
			return nil
		}
		switch in.Type {
		case "moov", "moof", "mdat", "ftyp", "styp", "sidx", "mfra", "emsg": // grouped specially by File.AddChild
			return nil
		}
		va := toBytes(in.Bytes)
		vb := append([]byte{}, va...)
		for _, f := range in.Fields {
			if f.T != "u" {
				continue
			}
			for k := 0; k < f.W; k++ {
				vb[in.Body+f.O+k] ^= 0x15
			}
		}
		if !accepts(va) || !accepts(vb) || !accepts(cat(a, va)) || !accepts(cat(b, vb)) {
			return nil
		}
		seen[in.Layout] = true
		a, b = cat(a, va), cat(b, vb)
		return nil
	})
	if err == nil && len(seen) < 60 {
		err = fmt.Errorf("kitchen sink holds only %d box shapes", len(seen))
	}
	return a, b, err
}

var c20Key = []byte{1, 2, 3, 4, 5, 6, 7, 8, 9, 10, 11, 12, 13, 14, 15, 16}

// c20State: the objects one goroutine holds.
type c20State struct {
	f      *mp4.File
	keybuf []byte // one key buffer per goroutine, refilled before every crypto call (as a caller may do)
}

var c20Key1 = []byte{0xf0, 0xe1, 0xd2, 0xc3, 0xb4, 0xa5, 0x96, 0x87, 0x78, 0x69, 0x5a, 0x4b, 0x3c, 0x2d, 0x1e, 0x0f}

func (st *c20State) key(k []byte) []byte {
	if st.keybuf == nil {
		st.keybuf = make([]byte, 16)
	}
	copy(st.keybuf, k)
	return st.keybuf
}

func fileDigest(f *mp4.File) int {
	if f == nil {
		return 0
	}
	var b bytes.Buffer
	_ = f.Info(&b, "all:1", "", " ")
	h := fnv.New32a()
	h.Write(b.Bytes())
	var walk func(bx mp4.Box)
	walk = func(bx mp4.Box) {
		if m, ok := bx.(*mp4.MdatBox); ok {
			h.Write(m.Data)
		}
	}
	for _, c := range f.Children {
		walk(c)
	}
	return int(h.Sum32() & 0x3fffffff)
}

// c20Op executes one call of a program; returns a digest of its result.
func c20Op(st *c20State, op string, inputs [][]byte) (res int) {
	defer func() {
		if r := recover(); r != nil {
			res = dig([]byte(fmt.Sprint("panic:", r)))
		}
	}()
	if (op[0] == 'D' || op[0] == 'S') && int(op[1]-'0') >= len(inputs) {
		return -4
	}
	switch op[0] {
	case 'D':
		f, err := mp4.DecodeFile(bytes.NewReader(inputs[int(op[1]-'0')]))
		st.f = f
		return dig([]byte(fmt.Sprint(err))) ^ fileDigest(f)
	case 'S':
		f, err := mp4.DecodeFileSR(bits.NewFixedSliceReader(inputs[int(op[1]-'0')]))
		st.f = f
		return dig([]byte(fmt.Sprint(err))) ^ fileDigest(f)
	}
	if op == "L" { // lazy decode of the progressive file: the mdat payload stays in the source
		f, err := mp4.DecodeFile(bytes.NewReader(inputs[len(inputs)-2]), mp4.WithDecodeMode(mp4.DecModeLazyMdat))
		st.f = f
		return dig([]byte(fmt.Sprint(err))) ^ fileDigest(f)
	}
	if st.f == nil {
		return -1
	}
	switch op {
	case "P": // copy the first samples of the first track out of the source into a writer that is a plain io.Writer
		if st.f.Moov == nil || st.f.Moov.Trak == nil {
			return -2
		}
		trak := st.f.Moov.Trak
		n := trak.Mdia.Minf.Stbl.Stsz.SampleNumber
		if n > 60 {
			n = 60
		}
		h := fnv.New64a()
		err := st.f.CopySampleData(struct{ io.Writer }{h}, bytes.NewReader(inputs[len(inputs)-2]), trak, 1, n, nil)
		return dig(h.Sum(nil)) ^ dig([]byte(fmt.Sprint(err)))
	case "I":
		var b bytes.Buffer
		err := st.f.Info(&b, "all:1", "", "  ")
		return dig(b.Bytes()) ^ dig([]byte(fmt.Sprint(err)))
	case "E":
		var b bytes.Buffer
		err := st.f.Encode(&b)
		return dig(b.Bytes()) ^ dig([]byte(fmt.Sprint(err)))
	case "W":
		sw := bits.NewFixedSliceWriter(int(st.f.Size()) + 64)
		err := st.f.EncodeSW(sw)
		return dig(sw.Bytes()) ^ dig([]byte(fmt.Sprint(err)))
	case "G":
		h := fnv.New32a()
		if st.f.Init != nil && st.f.Init.Moov.Mvex != nil {
			trex := st.f.Init.Moov.Mvex.Trex
			for _, seg := range st.f.Segments {
				for _, fr := range seg.Fragments {
					fs, err := fr.GetFullSamples(trex)
					fmt.Fprint(h, err)
					for _, s := range fs {
						fmt.Fprint(h, s.Dur, s.Size, s.Flags, s.DecodeTime)
						h.Write(s.Data)
					}
				}
			}
		}
		return int(h.Sum32() & 0x3fffffff)
	case "R":
		// remux: every other sample of the first fragment goes into a new fragment (trick-play style extraction)
		if st.f.Init == nil || st.f.Init.Moov.Mvex == nil || len(st.f.Segments) == 0 || len(st.f.Segments[0].Fragments) == 0 {
			return -2
		}
		trex := st.f.Init.Moov.Mvex.Trex
		fs, err := st.f.Segments[0].Fragments[0].GetFullSamples(trex)
		if err != nil {
			return dig([]byte(err.Error()))
		}
		nf, err := mp4.CreateFragment(77, trex.TrackID)
		if err != nil {
			return dig([]byte(err.Error()))
		}
		for i := 0; i < len(fs); i += 2 {
			nf.AddFullSample(fs[i])
		}
		var b bytes.Buffer
		err = nf.Encode(&b)
		return dig(b.Bytes()) ^ dig([]byte(fmt.Sprint(err)))
	case "X":
		if st.f.Init == nil {
			return -2
		}
		di, err := mp4.DecryptInit(st.f.Init)
		if err != nil {
			return dig([]byte(err.Error()))
		}
		for _, seg := range st.f.Segments {
			if err := mp4.DecryptSegment(seg, di, st.key(c20Key)); err != nil {
				return dig([]byte(err.Error()))
			}
		}
		return fileDigest(st.f)
	case "B": // a mutating accessor of a decoded box: append brands to ftyp (and to the styp of every segment)
		if st.f.Ftyp != nil {
			st.f.Ftyp.AddCompatibleBrands([]string{"aaaa", "bbbb", "cccc"})
		}
		for _, seg := range st.f.Segments {
			if seg.Styp != nil {
				seg.Styp.AddCompatibleBrands([]string{"dddd"})
			}
		}
		return fileDigest(st.f)
	case "K": // encrypt with key material taken from the shared buffer (8-byte IV with spare capacity)
		if st.f.Init == nil {
			return -2
		}
		buf := inputs[len(inputs)-1]
		iv8, key := buf[:8], buf[8:24]
		ipd, err := mp4.InitProtect(st.f.Init, key, iv8, "cenc", mp4.UUID(bytes.Repeat([]byte{9}, 16)), nil)
		if err != nil {
			return dig([]byte(err.Error()))
		}
		for _, seg := range st.f.Segments {
			for _, fr := range seg.Fragments {
				if err := mp4.EncryptFragment(fr, key, iv8, ipd); err != nil {
					return dig([]byte(err.Error()))
				}
			}
		}
		return fileDigest(st.f)
	case "C":
		if st.f.Init == nil {
			return -2
		}
		ipd, err := mp4.InitProtect(st.f.Init, st.key(c20Key1), ivClasses[2], "cenc", mp4.UUID(bytes.Repeat([]byte{9}, 16)), nil)
		if err != nil {
			return dig([]byte(err.Error()))
		}
		for _, seg := range st.f.Segments {
			for _, fr := range seg.Fragments {
				if err := mp4.EncryptFragment(fr, st.key(c20Key1), ivClasses[2], ipd); err != nil {
					return dig([]byte(err.Error()))
				}
			}
		}
		return fileDigest(st.f)
	}
	return -3
}

func registryDigest() int {
	a, b := mp4.VerifRegisteredBoxTypes()
	return dig([]byte(strings.Join(a, ",") + "|" + strings.Join(b, ",")))
}

type c20Sched struct {
	Progs [][]string `json:"progs"`
	Sched []int      `json:"sched"`
}

func inputDigests(inputs [][]byte) []int {
	d := make([]int, len(inputs))
	for i, b := range inputs {
		d[i] = dig(b)
	}
	return d
}

func c20Replay(args []string) error {
	c20InstancePath = argValue(args, "-instances", "")
	pristine, err := c20Inputs()
	if err != nil {
		return err
	}
	tw, err := newTraceWriter(argValue(args, "-trace", "trace.ndjson"))
	if err != nil {
		return err
	}
	rep := newReport()
	fresh := func() [][]byte {
		out := make([][]byte, len(pristine))
		for i, b := range pristine {
			out[i] = append([]byte{}, b...)
		}
		return out
	}
	// solo results per program (computed on private copies of the inputs)
	solo := map[string][]int{}
	var soloErr error
	soloOf := func(p []string) []int {
		k := strings.Join(p, " ")
		if r, ok := solo[k]; ok {
			return r
		}
		r, err := c20SoloFresh(p)
		if err != nil {
			soloErr = err
		}
		solo[k] = r
		return r
	}
	err = readLines(argValue(args, "-in", "-"), func(line []byte) error {
		var s c20Sched
		if err := json.Unmarshal(line, &s); err != nil {
			return err
		}
		shared := fresh()
		sl := make([][]int, len(s.Progs))
		for g := range s.Progs {
			sl[g] = soloOf(s.Progs[g])
		}
		aliasing := false
		for _, p := range s.Progs {
			if p[0][0] == 'S' && (p[1] == "X" || p[1] == "C" || p[1] == "K") {
				aliasing = true
			}
		}
		tw.Reset(J{"progs": s.Progs, "sched": s.Sched, "solo": sl, "inputs": inputDigests(shared), "registry": registryDigest(), "sr_decode_then_in_place_crypt": aliasing})
		states := make([]*c20State, len(s.Progs))
		for g := range states {
			states[g] = &c20State{}
		}
		pc := make([]int, len(s.Progs))
		for _, g1 := range s.Sched {
			g := g1 - 1
			before := make([]int, len(states))
			for o := range states {
				before[o] = fileDigest(states[o].f)
			}
			res := c20Op(states[g], s.Progs[g][pc[g]], shared)
			same := true
			for o := range states {
				if o != g && fileDigest(states[o].f) != before[o] {
					same = false
				}
			}
			tw.Ev(J{"ev": "step", "g": g1, "k": pc[g] + 1, "op": s.Progs[g][pc[g]], "res": res, "inputs": inputDigests(shared), "registry": registryDigest(), "others_same": same})
			pc[g]++
		}
		var smp interface{}
		if len(s.Sched) > 3 && s.Sched[0] != s.Sched[1] {
			smp = s
		}
		rep.Count(string(line), true, smp)
		return nil
	})
	rep.Extra["events"] = tw.N
	rep.Extra["traces"] = tw.T
	rep.Done()
	if soloErr != nil {
		return soloErr
	}
	if err != nil {
		return err
	}
	return tw.Close()
}

// c20Race runs program tuples on real goroutines sharing the input slices; meant for a -race build.
// The race detector reports to stderr; result mismatches against the solo digests are counted here.
func c20Race(args []string) error {
	c20InstancePath = argValue(args, "-instances", "")
	pristine, err := c20Inputs()
	if err != nil {
		return err
	}
	rng := rand.New(rand.NewSource(seedFromEnv()))
	n := argInt(args, "-n", 200)
	withAlias := argValue(args, "-alias", "no") == "yes"
	var progs [][]string
	_ = readLines(argValue(args, "-in", "-"), func(line []byte) error {
		var s c20Sched
		if err := json.Unmarshal(line, &s); err != nil {
			return err
		}
		for _, p := range s.Progs {
			k := strings.Join(p, " ")
			dup := false
			for _, q := range progs {
				if strings.Join(q, " ") == k {
					dup = true
				}
			}
			alias := p[0][0] == 'S' && (p[1] == "X" || p[1] == "C" || p[1] == "K")
			if !dup && (withAlias || !alias) {
				progs = append(progs, p)
			}
		}
		return nil
	})
	mismatches := 0
	runs := 0
	soloCache := map[string][]int{}
	for r := 0; r < n; r++ {
		shared := make([][]byte, len(pristine))
		for i, b := range pristine {
			shared[i] = append([]byte{}, b...)
		}
		g := 2 + rng.Intn(3)
		if r < len(progs) {
			g = 2 // first every program against itself: two goroutines on the same code path, each with its own objects
		}
		sel := make([][]string, g)
		want := make([][]int, g)
		for i := range sel {
			sel[i] = progs[rng.Intn(len(progs))]
			if r < len(progs) {
				sel[i] = progs[r]
			}
			key := strings.Join(sel[i], " ")
			if _, ok := soloCache[key]; !ok {
				w, err := c20SoloFresh(sel[i]) // in a process of its own: pristine package-level state
				if err != nil {
					return err
				}
				soloCache[key] = w
			}
			want[i] = soloCache[key]
		}
		var wg sync.WaitGroup
		var mu sync.Mutex
		start := make(chan struct{})
		// lockstep (the self-pairs and every second run): a barrier before each call, so that the k-th calls of all
		// goroutines really overlap - without it a goroutine often finishes before the next one starts, and the
		// sync.Pool inside fmt then orders their memory accesses for the race detector
		lockstep := r < len(progs) || r%2 == 0
		maxLen := 0
		for i := range sel {
			if len(sel[i]) > maxLen {
				maxLen = len(sel[i])
			}
		}
		barriers := make([]sync.WaitGroup, maxLen)
		for k := range barriers {
			for i := range sel {
				if k < len(sel[i]) {
					barriers[k].Add(1)
				}
			}
		}
		for i := range sel {
			wg.Add(1)
			go func(i int) {
				defer wg.Done()
				<-start
				st := &c20State{}
				for k, op := range sel[i] {
					if lockstep {
						barriers[k].Done()
						barriers[k].Wait()
					}
					if got := c20Op(st, op, shared); got != want[i][k] {
						mu.Lock()
						mismatches++
						mu.Unlock()
					}
				}
			}(i)
		}
		close(start)
		wg.Wait()
		runs++
	}
	emit(J{"type": "race-summary", "runs": runs, "mismatches": mismatches, "programs": len(progs)})
	return nil
}
