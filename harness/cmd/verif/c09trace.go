package main

// C09, code -> spec: sample-table queries on real progressive files, recorded for SampleTablesTrace.tla.
// The tables are read by the harness's own box walk; the answers come from the library's API.

import (
	"bytes"
	"encoding/binary"
	"fmt"
	"io/ioutil"

	"github.com/Eyevinn/mp4ff/mp4"
)

func init() {
	register("c09-trace", c09Trace)
}

type rawTables struct {
	stts, ctts [][2]int64
	stsc       [][3]int64
	uniform    int64
	count      int64
	sizes      []int64
	offs       []int64
	hasStss    bool
	stss       []int64
}

func be32at(p []byte, o int) int64 { return int64(binary.BigEndian.Uint32(p[o:])) }

// rawTablesOf walks moov/trak/mdia/minf/stbl of every track.
func rawTablesOf(file []byte) []rawTables {
	var out []rawTables
	top, err := walkBoxes(file, 0)
	if err != nil {
		return nil
	}
	for _, b := range top {
		if b.Type != "moov" {
			continue
		}
		kids, _ := walkBoxes(b.Payload, 0)
		for _, trak := range kids {
			if trak.Type != "trak" {
				continue
			}
			cur := trak.Payload
			okp := true
			for _, want := range []string{"mdia", "minf", "stbl"} {
				xs, _ := walkBoxes(cur, 0)
				found := false
				for _, x := range xs {
					if x.Type == want {
						cur, found = x.Payload, true
						break
					}
				}
				if !found {
					okp = false
					break
				}
			}
			if !okp {
				continue
			}
			var t rawTables
			xs, _ := walkBoxes(cur, 0)
			for _, x := range xs {
				p := x.Payload
				if len(p) < 8 {
					continue
				}
				switch x.Type {
				case "stts", "ctts":
					n := int(be32at(p, 4))
					for i := 0; i < n && 8+8*i+8 <= len(p); i++ {
						v := be32at(p, 12+8*i)
						if x.Type == "ctts" && p[0] == 1 {
							v = int64(int32(binary.BigEndian.Uint32(p[12+8*i:])))
						}
						e := [2]int64{be32at(p, 8+8*i), v}
						if x.Type == "stts" {
							t.stts = append(t.stts, e)
						} else {
							t.ctts = append(t.ctts, e)
						}
					}
				case "stsc":
					n := int(be32at(p, 4))
					for i := 0; i < n && 8+12*i+12 <= len(p); i++ {
						t.stsc = append(t.stsc, [3]int64{be32at(p, 8+12*i), be32at(p, 12+12*i), be32at(p, 16+12*i)})
					}
				case "stsz":
					t.uniform, t.count = be32at(p, 4), be32at(p, 8)
					if t.uniform == 0 {
						for i := 0; i < int(t.count) && 12+4*i+4 <= len(p); i++ {
							t.sizes = append(t.sizes, be32at(p, 12+4*i))
						}
					}
				case "stco":
					n := int(be32at(p, 4))
					for i := 0; i < n && 8+4*i+4 <= len(p); i++ {
						t.offs = append(t.offs, be32at(p, 8+4*i))
					}
				case "co64":
					n := int(be32at(p, 4))
					for i := 0; i < n && 8+8*i+8 <= len(p); i++ {
						t.offs = append(t.offs, int64(binary.BigEndian.Uint64(p[8+8*i:])))
					}
				case "stss":
					t.hasStss = true
					n := int(be32at(p, 4))
					for i := 0; i < n && 8+4*i+4 <= len(p); i++ {
						t.stss = append(t.stss, be32at(p, 8+4*i))
					}
				}
			}
			out = append(out, t)
		}
	}
	return out
}

func c09Trace(args []string) error {
	rep := newReport()
	tw, err := newTraceWriter(argValue(args, "-trace", "trace.ndjson"))
	if err != nil {
		return err
	}
	per := argInt(args, "-per", 40)
	tracks := 0
	var files []string
	for _, dir := range []string{"/repo/mp4/testdata", "/repo/examples/testdata", "/repo/cmd/mp4ff-crop/testdata", "/repo/cmd/mp4ff-info/testdata"} {
		files = append(files, corpusFiles(dir)...)
	}
	for _, p := range files {
		data, err := ioutil.ReadFile(p)
		if err != nil {
			continue
		}
		raws := rawTablesOf(data)
		if len(raws) == 0 {
			continue
		}
		f, err := mp4.DecodeFile(bytes.NewReader(data))
		if err != nil || f.Moov == nil || f.IsFragmented() || len(f.Moov.Traks) != len(raws) {
			continue
		}
		for ti, trak := range f.Moov.Traks {
			rt := raws[ti]
			stbl := trak.Mdia.Minf.Stbl
			n := 0
			for _, e := range rt.stts {
				n += int(e[0])
			}
			if n == 0 || n > 4000 || stbl.Stts == nil || stbl.Stsc == nil || stbl.Stsz == nil || (stbl.Stco == nil && stbl.Co64 == nil) {
				continue
			}
			big := false
			for _, o := range rt.offs {
				if o >= 1<<31 {
					big = true
				}
			}
			if big {
				continue
			}
			name := fmt.Sprintf("%s#trak%d", p[len("/repo/"):], ti)
			sizes := rt.sizes
			if sizes == nil {
				sizes = []int64{}
			}
			stss := rt.stss
			if stss == nil {
				stss = []int64{}
			}
			ctts := rt.ctts
			if ctts == nil {
				ctts = [][2]int64{}
			}
			tw.Reset(J{"obj": name, "stts": rt.stts, "ctts": ctts, "stsc": rt.stsc, "uniform": rt.uniform, "count": rt.count, "sizes": sizes, "offs": rt.offs,
				"hasstss": rt.hasStss, "stss": stss})
			q := func(kv J) {
				kv["ev"] = "q"
				tw.Ev(kv)
			}
			safe := func(fn func()) {
				defer func() {
					if r := recover(); r != nil {
						q(J{"q": "panic", "what": fmt.Sprint(r)})
					}
				}()
				fn()
			}
			step := n/per + 1
			var picks []int
			for s := 1; s <= n; s += step {
				picks = append(picks, s)
			}
			if picks[len(picks)-1] != n {
				picks = append(picks, n)
			}
			var total uint64
			for _, s := range picks {
				s := s
				safe(func() {
					dts, dur := stbl.Stts.GetDecodeTime(uint32(s))
					q(J{"q": "dts", "s": s, "got": []int64{int64(dts), int64(dur)}})
					q(J{"q": "dur", "s": s, "got": int64(stbl.Stts.GetDur(uint32(s)))})
					if stbl.Ctts != nil {
						q(J{"q": "cto", "s": s, "got": int64(stbl.Ctts.GetCompositionTimeOffset(uint32(s)))})
					}
					q(J{"q": "size", "s": s, "got": int64(stbl.Stsz.GetSampleSize(s))})
					cnr, first, err := stbl.Stsc.ChunkNrFromSampleNr(s)
					if err == nil {
						q(J{"q": "chunk", "s": s, "got": []int{cnr, first}})
					} else {
						q(J{"q": "chunk", "s": s, "got": []int{-1, -1}})
					}
					if stbl.Stss != nil {
						q(J{"q": "sync", "s": s, "got": stbl.Stss.IsSyncSample(uint32(s))})
					}
					if nr, err := stbl.Stts.GetSampleNrAtTime(dts); err == nil {
						q(J{"q": "attime", "t": int64(dts), "got": int64(nr)})
					}
					if dur > 1 {
						if nr, err := stbl.Stts.GetSampleNrAtTime(dts + 1); err == nil {
							q(J{"q": "attime", "t": int64(dts) + 1, "got": int64(nr)})
						}
					}
				})
			}
			safe(func() {
				var terr error
				total, terr = stbl.Stsz.GetTotalSampleSize(1, uint32(n))
				if terr == nil {
					q(J{"q": "total", "got": int64(total)})
				}
			})
			// intervals: around chunk boundaries of the picked samples
			for k := 0; k+1 < len(picks); k += 3 {
				a, b := picks[k], picks[k+1]
				safe(func() {
					rs, err := trak.GetRangesForSampleInterval(uint32(a), uint32(b))
					got := [][2]int64{}
					if err == nil {
						for _, r := range rs {
							got = append(got, [2]int64{int64(r.Offset), int64(r.Size)})
						}
					}
					q(J{"q": "ranges", "a": a, "b": b, "got": got})
				})
			}
			tracks++
			rep.Count(name, true, J{"track": name, "samples": n, "queries_at": len(picks)})
		}
	}
	rep.Extra["tracks"] = tracks
	rep.Extra["events"] = tw.N
	rep.Done()
	return tw.Close()
}
