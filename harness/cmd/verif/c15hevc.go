package main

// C15 (HEVC): replays HevcSyntax.tla value vectors - NAL units produced by the TLA+ serialiser - through
// hevc.ParseSPSNALUnit / ParsePPSNALUnit / ParseSliceHeader and compares field by field with the coded
// values and the quantities the standard derives (picture size, inter-predicted reference picture
// sets, NumPicTotalCurr-dependent syntax, header size).

import (
	"bytes"
	"encoding/json"
	"fmt"
	"strconv"
	"strings"

	"github.com/Eyevinn/mp4ff/hevc"
)

func init() {
	register("c15-hevc-replay", c15HevcReplay)
}

type hvLayer struct {
	Space  int   `json:"space"`
	Tier   bool  `json:"tier"`
	Idc    int   `json:"idc"`
	Compat []int `json:"compat"`
	Flags4 []int `json:"flags4"`
	Cons   []int `json:"cons"`
	Level  int   `json:"level"`
}

type hvSub struct {
	Pp bool    `json:"pp"`
	Lp bool    `json:"lp"`
	L  hvLayer `json:"l"`
}

type hvHrdLayer struct {
	Fixedgen, Fixedcvs bool
	Elem               int
	Lowdelay           bool
	Cpbcnt             int
}

type hvHrd struct {
	Nal, Vcl, Subpic                                             bool
	Tick, Dulen                                                  int
	Insei                                                        bool
	Dpbdulen, Brscale, Cpbscale, Duscale, Initlen, Aulen, Dpblen int
	Br, Cpb, Cpbdu, Brdu                                         int
	Layers                                                       []hvHrdLayer
}

type hvVui struct {
	On, Arflag                          bool
	Aridc, Sarw, Sarh                   int
	Overscan, Overscanapp, Vsig         bool
	Vformat                             int
	Fullrange, Colourdesc               bool
	Prim, Transfer, Matrix              int
	Chromaloc                           bool
	Loctop, Locbot                      int
	Neutral, Fieldseq, Framefield, Ddw  bool
	Dl, Dr, Dt, Db                      int
	Timing                              bool
	Units, Timescale                    []int
	Pocprop                             bool
	Ticks                               int
	Hrdon                               bool
	Hrd                                 hvHrd
	Bsr, Tilesfixed, Mvover, Restricted bool
	Minseg, Maxbytes, Maxbits, Mvh, Mvv int
}

type hvLt struct {
	Poc int  `json:"poc"`
	U   bool `json:"u"`
}

type hvSpsV struct {
	Vps, Maxsub                                          int
	Nesting                                              bool
	Ptl                                                  hvLayer
	ID, Chroma                                           int
	Sepcol                                               bool
	W, H                                                 int
	Conf                                                 bool
	Cl, Cr, Ct, Cb, Bdl, Bdc, Log2poc                    int
	Subord                                               bool
	Dpb, Reorder, Latency                                int
	Mincb, Diffcb, Mintb, Difftb, Depthinter, Depthintra int
	Scaling                                              string
	Amp, Sao, Pcm                                        bool
	Pcml, Pcmc, Pcmmin, Pcmdiff                          int
	Pcmloop                                              bool
	Rps                                                  string
	Ltpresent                                            bool
	Lt                                                   []hvLt
	Tmvp, Strong                                         bool
	Vui                                                  hvVui
	Ext                                                  bool
	Rext                                                 []int
}

type hvDerivedEntry struct {
	P int  `json:"p"`
	U bool `json:"u"`
}

type hvDerived struct {
	S0 []hvDerivedEntry `json:"s0"`
	S1 []hvDerivedEntry `json:"s1"`
}

type hvRx struct {
	Log2skip           int
	Ccp, Cqlist        bool
	Cqdepth            int
	Cblist             []int
	Saoluma, Saochroma int
}

type hvLoc struct {
	ID                    int
	Scaled, Region, Phase []int
}

type hvMl struct {
	On, Poc, Infer bool
	Inferid        int
	Locs           []hvLoc
	Cm             bool
	Cmlayers       []int
	Cmbd           []int
	Cmres, Cmflc   int
	Cmcoded        bool
}

type hvD3 struct {
	On, Dlts      bool
	Layers, Depth int
	Dlt           string
}

type hvScc struct {
	On, Currpic, Ract, Actpresent bool
	Actoff                        []int
	Palon                         bool
	Pal                           []int
	Mono                          bool
	Lbd, Cbd                      int
}

type hvPpsV struct {
	ID, Spsid                                     int
	Depslices, Outflag                            bool
	Extrabits                                     int
	Signhide, Cabacinit                           bool
	L0, L1, Qp                                    int
	Cintra, Tskip, Cuqp                           bool
	Cuqpdepth, Cbqp, Crqp                         int
	Slicecq, Wpred, Wbipred, Tqbypass, Tiles, Wpp bool
	Cols, Rows                                    []int
	Uniform, Lftiles, Lfslices                    bool
	Dbctrl, Dboverride, Dboff                     bool
	Beta, Tc                                      int
	Scaling                                       string
	Listsmod                                      bool
	Pmerge                                        int
	Shext, Ext, Rxon                              bool
	Rx                                            hvRx
	Mlx                                           hvMl
	D3x                                           hvD3
	Sccx                                          hvScc
}

type hvSliceV struct {
	First, Nooutprior, Dependent       bool
	Addr, Type                         int
	Picout                             bool
	Colourplane, Poclsb                int
	Strpssps                           bool
	Strpsidx                           int
	Nltsps                             int
	Ltidx                              []int
	Ltpics                             []hvLt
	Tmvp, Saoluma, Saochroma, Override bool
	L0, L1                             int
	Mod0, Mod1, Mvdl1zero, Cabacinit   bool
	Colfroml0                          bool
	Colrefidx, Lumadenom               int
	Chromadenomdelta, Fiveminus        int
	Qpdelta, Cbqp, Crqp                int
	Cuchromaqp, Dboverride, Dboff      bool
	Beta, Tc                           int
	Lfslices                           bool
	Entries                            []int
	Offlen                             int
	Extbytes                           []int
}

func c15HevcReplay(args []string) error {
	rep := newReport()
	err := readLines(argValue(args, "-in", "-"), func(line []byte) error {
		var hd struct {
			Struct string `json:"struct"`
		}
		if err := json.Unmarshal(line, &hd); err != nil {
			return err
		}
		switch hd.Struct {
		case "sps":
			return hvSps(rep, line)
		case "pps":
			return hvPps(rep, line)
		case "slice":
			return hvSlice(rep, line)
		}
		return nil
	})
	rep.Done()
	return err
}

func hvLayerEq(k *cmp, name string, spaceG byte, tierG bool, idcG byte, compatG uint32, consG uint64, pG, iG, nG, fG bool, w hvLayer) {
	k.eq(name+"_profile_space", spaceG, w.Space)
	k.eq(name+"_tier_flag", tierG, w.Tier)
	k.eq(name+"_profile_idc", idcG, w.Idc)
	k.eq(name+"_profile_compatibility_flags", compatG, bitsToU(w.Compat))
	all48 := append(append([]int{}, w.Flags4...), w.Cons...)
	var want uint64
	for _, b := range all48 {
		want = want<<1 | uint64(b)
	}
	k.eq(name+"_constraint_indicator_flags", consG, want)
	k.eq(name+"_progressive_source_flag", pG, w.Flags4[0] == 1)
	k.eq(name+"_interlaced_source_flag", iG, w.Flags4[1] == 1)
	k.eq(name+"_non_packed_constraint_flag", nG, w.Flags4[2] == 1)
	k.eq(name+"_frame_only_constraint_flag", fG, w.Flags4[3] == 1)
}

// hvRpsEq compares a parsed short-term RPS with the standard's derived set. The library stores, per entry,
// the distance to the previous entry (delta_poc_sX_minus1 + 1 for explicitly coded sets), so the
// accumulated values of the specification are turned into distances before comparing.
func hvRpsEq(k *cmp, name string, got hevc.ShortTermRPS, want hvDerived) {
	k.eq(name+".NumNegativePics", got.NumNegativePics, len(want.S0))
	k.eq(name+".NumPositivePics", got.NumPositivePics, len(want.S1))
	k.eq(name+".NumDeltaPocs", got.NumDeltaPocs, len(want.S0)+len(want.S1))
	var g0, g1, w0, w1 []string
	for i := range got.DeltaPocS0 {
		g0 = append(g0, fmt.Sprint(got.DeltaPocS0[i], i < len(got.UsedByCurrPicS0) && got.UsedByCurrPicS0[i]))
	}
	for i := range got.DeltaPocS1 {
		g1 = append(g1, fmt.Sprint(got.DeltaPocS1[i], i < len(got.UsedByCurrPicS1) && got.UsedByCurrPicS1[i]))
	}
	prev := 0
	for _, e := range want.S0 {
		w0 = append(w0, fmt.Sprint(e.P-prev, e.U))
		prev = e.P
	}
	prev = 0
	for _, e := range want.S1 {
		w1 = append(w1, fmt.Sprint(e.P-prev, e.U))
		prev = e.P
	}
	if fmt.Sprint(g0) != fmt.Sprint(w0) {
		k.m = append(k.m, mism{name + ".DeltaPocS0/UsedByCurrPicS0", g0, w0})
	}
	if fmt.Sprint(g1) != fmt.Sprint(w1) {
		k.m = append(k.m, mism{name + ".DeltaPocS1/UsedByCurrPicS1", g1, w1})
	}
}

func hvSps(rep *Report, line []byte) error {
	var c struct {
		V       hvSpsV      `json:"v"`
		Nal     []int       `json:"nal"`
		Width   int         `json:"width"`
		Height  int         `json:"height"`
		Derived []hvDerived `json:"derived"`
		Rps     []struct {
			Inter bool `json:"inter"`
		} `json:"rps"`
		Subs []hvSub `json:"subs"`
	}
	if err := json.Unmarshal(line, &c); err != nil {
		return err
	}
	v := c.V
	cs := J{"v": v, "nal": c.Nal}
	defer func() {
		if r := recover(); r != nil {
			rep.Violation("hevc/sps/panic", fmt.Sprintf("ParseSPSNALUnit panics on a valid SPS: %v", r), cs)
		}
	}()
	sps, err := hevc.ParseSPSNALUnit(ints2bytes(c.Nal))
	if err != nil {
		key := "hevc/sps/rejected"
		if v.Vui.On && v.Vui.Arflag && (v.Vui.Aridc == 0 || (v.Vui.Aridc > 16 && v.Vui.Aridc != 255)) {
			key = fmt.Sprintf("hevc/sps/rejected/aspect_ratio_idc-%d", v.Vui.Aridc)
		}
		rep.Violation(key, "valid SPS rejected: "+err.Error(), cs)
		rep.Count(string(line), true, nil)
		return nil
	}
	k := &cmp{}
	k.eq("sps_video_parameter_set_id", sps.VpsID, v.Vps)
	k.eq("sps_max_sub_layers_minus1", sps.MaxSubLayersMinus1, v.Maxsub)
	k.eq("sps_temporal_id_nesting_flag", sps.TemporalIDNestingFlag, v.Nesting)
	p := sps.ProfileTierLevel
	hvLayerEq(k, "general", p.GeneralProfileSpace, p.GeneralTierFlag, p.GeneralProfileIDC, p.GeneralProfileCompatibilityFlags, p.GeneralConstraintIndicatorFlags,
		p.GeneralProgressiveSourceFlag, p.GeneralInterlacedSourceFlag, p.GeneralNonPackedConstraintFlag, p.GeneralFrameOnlyConstraintFlag, v.Ptl)
	k.eq("general_level_idc", p.GeneralLevelIDC, v.Ptl.Level)
	if len(p.SubLayers) != len(c.Subs) {
		k.m = append(k.m, mism{"sub_layers", len(p.SubLayers), len(c.Subs)})
	} else {
		for i, w := range c.Subs {
			g := p.SubLayers[i]
			n := fmt.Sprintf("sub_layer[%d]", i)
			k.eq(n+"_profile_present_flag", g.ProfilePresentFlag, w.Pp)
			k.eq(n+"_level_present_flag", g.LevelPresentFlag, w.Lp)
			if w.Pp {
				hvLayerEq(k, n, g.ProfileSpace, g.TierFlag, g.ProfileIDC, g.ProfileCompatibilityFlags, g.ConstraintFlags,
					g.ProgressiveSourceFlag, g.InterlacedSourceFlag, g.NonPackedConstraintFlag, g.FrameOnlyConstraintFlag, w.L)
			}
			if w.Lp {
				k.eq(n+"_level_idc", g.LayerIDC, w.L.Level)
			}
		}
	}
	k.eq("sps_seq_parameter_set_id", sps.SpsID, v.ID)
	k.eq("chroma_format_idc", sps.ChromaFormatIDC, v.Chroma)
	if v.Chroma == 3 {
		k.eq("separate_colour_plane_flag", sps.SeparateColourPlaneFlag, v.Sepcol)
	}
	k.eq("pic_width_in_luma_samples", sps.PicWidthInLumaSamples, v.W)
	k.eq("pic_height_in_luma_samples", sps.PicHeightInLumaSamples, v.H)
	k.eq("conformance_window_flag", sps.ConformanceWindowFlag, v.Conf)
	if v.Conf {
		k.eq("conf_win_left_offset", sps.ConformanceWindow.LeftOffset, v.Cl)
		k.eq("conf_win_right_offset", sps.ConformanceWindow.RightOffset, v.Cr)
		k.eq("conf_win_top_offset", sps.ConformanceWindow.TopOffset, v.Ct)
		k.eq("conf_win_bottom_offset", sps.ConformanceWindow.BottomOffset, v.Cb)
	}
	gw, gh := sps.ImageSize()
	k.eq("ImageSize.width", gw, c.Width)
	k.eq("ImageSize.height", gh, c.Height)
	k.eq("bit_depth_luma_minus8", sps.BitDepthLumaMinus8, v.Bdl)
	k.eq("bit_depth_chroma_minus8", sps.BitDepthChromaMinus8, v.Bdc)
	k.eq("log2_max_pic_order_cnt_lsb_minus4", sps.Log2MaxPicOrderCntLsbMinus4, v.Log2poc)
	k.eq("sps_sub_layer_ordering_info_present_flag", sps.SubLayerOrderingInfoPresentFlag, v.Subord)
	first := v.Maxsub
	if v.Subord {
		first = 0
	}
	if len(sps.SubLayeringOrderingInfos) != v.Maxsub-first+1 {
		k.m = append(k.m, mism{"sub_layer_ordering_info entries", len(sps.SubLayeringOrderingInfos), v.Maxsub - first + 1})
	} else {
		for j, o := range sps.SubLayeringOrderingInfos {
			i := first + j
			k.eq("sps_max_dec_pic_buffering_minus1", o.MaxDecPicBufferingMinus1, v.Dpb+i)
			k.eq("sps_max_num_reorder_pics", o.MaxNumReorderPics, v.Reorder+i)
			k.eq("sps_max_latency_increase_plus1", o.MaxLatencyIncreasePlus1, v.Latency+2*i)
		}
	}
	k.eq("log2_min_luma_coding_block_size_minus3", sps.Log2MinLumaCodingBlockSizeMinus3, v.Mincb)
	k.eq("log2_diff_max_min_luma_coding_block_size", sps.Log2DiffMaxMinLumaCodingBlockSize, v.Diffcb)
	k.eq("log2_min_luma_transform_block_size_minus2", sps.Log2MinLumaTransformBlockSizeMinus2, v.Mintb)
	k.eq("log2_diff_max_min_luma_transform_block_size", sps.Log2DiffMaxMinLumaTransformBlockSize, v.Difftb)
	k.eq("max_transform_hierarchy_depth_inter", sps.MaxTransformHierarchyDepthInter, v.Depthinter)
	k.eq("max_transform_hierarchy_depth_intra", sps.MaxTransformHierarchyDepthIntra, v.Depthintra)
	k.eq("scaling_list_enabled_flag", sps.ScalingListEnabledFlag, v.Scaling != "none")
	if v.Scaling != "none" {
		k.eq("sps_scaling_list_data_present_flag", sps.ScalingListDataPresentFlag, v.Scaling != "default")
	}
	k.eq("amp_enabled_flag", sps.AmpEnabledFlag, v.Amp)
	k.eq("sample_adaptive_offset_enabled_flag", sps.SampleAdaptiveOffsetEnabledFlag, v.Sao)
	k.eq("pcm_enabled_flag", sps.PCMEnabledFlag, v.Pcm)
	if v.Pcm {
		k.eq("pcm_sample_bit_depth_luma_minus1", sps.PcmSampleBitDepthLumaMinus1, v.Pcml)
		k.eq("pcm_sample_bit_depth_chroma_minus1", sps.PcmSampleBitDepthChromaMinus1, v.Pcmc)
		k.eq("log2_min_pcm_luma_coding_block_size_minus3", sps.Log2MinPcmLumaCodingBlockSize, v.Pcmmin)
		k.eq("log2_diff_max_min_pcm_luma_coding_block_size", sps.Log2DiffMaxMinPcmLumaCodingBlockSize, v.Pcmdiff)
		k.eq("pcm_loop_filter_disabled_flag", sps.PcmLoopFilterDisabledFlag, v.Pcmloop)
	}
	k.eq("num_short_term_ref_pic_sets", sps.NumShortTermRefPicSets, len(c.Derived))
	if len(sps.ShortTermRefPicSets) == len(c.Derived) {
		for i := range c.Derived {
			n := fmt.Sprintf("st_ref_pic_set[%d]", i)
			if c.Rps[i].Inter {
				n = fmt.Sprintf("st_ref_pic_set[%d](inter-predicted)", i)
			}
			hvRpsEq(k, n, sps.ShortTermRefPicSets[i], c.Derived[i])
		}
	}
	k.eq("long_term_ref_pics_present_flag", sps.LongTermRefPicsPresentFlag, v.Ltpresent)
	if v.Ltpresent {
		k.eq("num_long_term_ref_pics_sps", sps.NumLongTermRefPics, len(v.Lt))
		if len(sps.LongTermRefPicSets) == len(v.Lt) {
			for i, w := range v.Lt {
				k.eq("lt_ref_pic_poc_lsb_sps", sps.LongTermRefPicSets[i].PocLsbLt, w.Poc%(1<<uint(v.Log2poc+4)))
				k.eq("used_by_curr_pic_lt_sps_flag", sps.LongTermRefPicSets[i].UsedByCurrPicLtFlag, w.U)
			}
		}
	}
	k.eq("sps_temporal_mvp_enabled_flag", sps.SpsTemporalMvpEnabledFlag, v.Tmvp)
	k.eq("strong_intra_smoothing_enabled_flag", sps.StrongIntraSmoothingEnabledFlag, v.Strong)
	k.eq("vui_parameters_present_flag", sps.VUIParametersPresentFlag, v.Vui.On)
	if v.Vui.On && sps.VUI != nil {
		hvVuiEq(k, sps.VUI, v.Vui, v.Maxsub)
	} else if v.Vui.On {
		k.m = append(k.m, mism{"vui", nil, "present"})
	}
	k.eq("sps_extension_present_flag", sps.ExtensionPresentFlag, v.Ext)
	if v.Ext {
		k.eq("sps_range_extension_flag", sps.RangeExtensionFlag, len(v.Rext) > 0)
		if len(v.Rext) > 0 && sps.RangeExtension != nil {
			x := sps.RangeExtension
			got := []bool{x.TransformSkipRotationEnabledFlag, x.TransformSkipContextEnabledFlag, x.ImplicitRdpcmEnabledFlag, x.ExplicitRdpcmEnabledFlag,
				x.ExtendedPrecisionProcessingFlag, x.IntraSmoothingDisabledFlag, x.HighPrecisionOffsetsEnabledFlag, x.PersistentRiceAdaptationEnabledFlag, x.CabacBypassAlignmentEnabledFlag}
			for i, g := range got {
				k.eq(fmt.Sprintf("sps_range_extension.flag[%d]", i), g, v.Rext[i] == 1)
			}
		}
	}
	hvConfRec(k, ints2bytes(c.Nal), sps, v)
	reportMism(rep, "hevc/sps", k, cs)
	var smp interface{}
	if v.Rps == "interpos" && v.Ltpresent {
		smp = J{"struct": "hevc sps", "v": v}
	}
	rep.Count(string(line), true, smp)
	return nil
}

// hvConfRec: the decoder configuration record and the codec string built from the SPS carry its profile, tier,
// compatibility and constraint flags, level, chroma format, bit depths, and the parameter sets verbatim.
func hvConfRec(k *cmp, spsNal []byte, sps *hevc.SPS, v hvSpsV) {
	vps := []byte{0x40, 0x01, 0x0c, 0x01, 0xff, 0xff, 0x01, 0x60}
	pps := []byte{0x44, 0x01, 0xc1, 0x72, 0xb4, 0x62, 0x40}
	rec, err := hevc.CreateHEVCDecConfRec([][]byte{vps}, [][]byte{spsNal}, [][]byte{pps}, true, true, true, true)
	if err != nil {
		k.m = append(k.m, mism{"CreateHEVCDecConfRec", err.Error(), "success"})
		return
	}
	var cons uint64
	for _, b := range append(append([]int{}, v.Ptl.Flags4...), v.Ptl.Cons...) {
		cons = cons<<1 | uint64(b)
	}
	k.eq("hvcC.general_profile_space", rec.GeneralProfileSpace, v.Ptl.Space)
	k.eq("hvcC.general_tier_flag", rec.GeneralTierFlag, v.Ptl.Tier)
	k.eq("hvcC.general_profile_idc", rec.GeneralProfileIDC, v.Ptl.Idc)
	k.eq("hvcC.general_profile_compatibility_flags", rec.GeneralProfileCompatibilityFlags, bitsToU(v.Ptl.Compat))
	k.eq("hvcC.general_constraint_indicator_flags", rec.GeneralConstraintIndicatorFlags, cons)
	k.eq("hvcC.general_level_idc", rec.GeneralLevelIDC, v.Ptl.Level)
	k.eq("hvcC.chroma_format_idc", rec.ChromaFormatIDC, v.Chroma)
	k.eq("hvcC.bit_depth_luma_minus8", rec.BitDepthLumaMinus8, v.Bdl)
	k.eq("hvcC.bit_depth_chroma_minus8", rec.BitDepthChromaMinus8, v.Bdc)
	// encode / decode keeps everything, NAL units verbatim
	var buf bytes.Buffer
	if err := rec.Encode(&buf); err != nil {
		k.m = append(k.m, mism{"hvcC.Encode", err.Error(), "success"})
		return
	}
	k.eq("hvcC.Size", rec.Size(), buf.Len())
	rec2, err := hevc.DecodeHEVCDecConfRec(buf.Bytes())
	if err != nil {
		k.m = append(k.m, mism{"hvcC decode", err.Error(), "success"})
		return
	}
	for _, x := range []struct {
		t    hevc.NaluType
		want []byte
	}{{hevc.NALU_VPS, vps}, {hevc.NALU_SPS, spsNal}, {hevc.NALU_PPS, pps}} {
		got := rec2.GetNalusForType(x.t)
		if len(got) != 1 || !bytes.Equal(got[0], x.want) {
			k.m = append(k.m, mism{"hvcC parameter set NAL units (" + x.t.String() + ")", len(got), "the input NAL unit verbatim"})
		}
	}
	k.eq("hvcC.general_constraint_indicator_flags after encode/decode", rec2.GeneralConstraintIndicatorFlags, cons)
	k.eq("hvcC.general_profile_compatibility_flags after encode/decode", rec2.GeneralProfileCompatibilityFlags, bitsToU(v.Ptl.Compat))
	k.eq("hvcC.chroma_format_idc after encode/decode", rec2.ChromaFormatIDC, v.Chroma)
	// the record has 3-bit fields for the bit depths: 16-bit video (minus8 = 8) cannot be carried (14496-15 8.3.3.1.2)
	if v.Bdl <= 7 {
		k.eq("hvcC.bit_depth_luma_minus8 after encode/decode", rec2.BitDepthLumaMinus8, v.Bdl)
	}
	if v.Bdc <= 7 {
		k.eq("hvcC.bit_depth_chroma_minus8 after encode/decode", rec2.BitDepthChromaMinus8, v.Bdc)
	}
	// codec string (ISO/IEC 14496-15 Annex E): entry . [A|B|C]profile . reversed compatibility flags in hex . L|H level { . constraint byte }
	parts := strings.Split(hevc.CodecString("hvc1", sps), ".")
	if len(parts) < 4 {
		k.m = append(k.m, mism{"codec string", strings.Join(parts, "."), "at least 4 parts"})
		return
	}
	k.eq("codec string sample entry", parts[0], "hvc1")
	k.eq("codec string profile", parts[1], []string{"", "A", "B", "C"}[v.Ptl.Space]+fmt.Sprint(v.Ptl.Idc))
	var rev uint32
	for j, b := range v.Ptl.Compat {
		rev |= uint32(b) << uint(j)
	}
	k.eq("codec string compatibility flags", strings.ToUpper(parts[2]), fmt.Sprintf("%X", rev))
	tier := "L"
	if v.Ptl.Tier {
		tier = "H"
	}
	k.eq("codec string tier and level", parts[3], tier+fmt.Sprint(v.Ptl.Level))
	var gotCons uint64
	n := 0
	for _, x := range parts[4:] {
		b, err := strconv.ParseUint(x, 16, 8)
		if err != nil {
			k.m = append(k.m, mism{"codec string constraint byte", x, "hex byte"})
			return
		}
		gotCons = gotCons<<8 | b
		n++
	}
	for ; n < 6; n++ {
		gotCons <<= 8
	}
	k.eq("codec string constraint bytes", gotCons, cons)
}

func hvVuiEq(k *cmp, u *hevc.VUIParameters, w hvVui, maxsub int) {
	if w.Arflag {
		sw, sh := w.Sarw, w.Sarh
		if w.Aridc != 255 && w.Aridc < len(sarTable) {
			sw, sh = sarTable[w.Aridc][0], sarTable[w.Aridc][1]
		}
		k.eq("sar_width", u.SampleAspectRatioWidth, sw)
		k.eq("sar_height", u.SampleAspectRatioHeight, sh)
	}
	k.eq("overscan_info_present_flag", u.OverscanInfoPresentFlag, w.Overscan)
	if w.Overscan {
		k.eq("overscan_appropriate_flag", u.OverscanAppropriateFlag, w.Overscanapp)
	}
	k.eq("video_signal_type_present_flag", u.VideoSignalTypePresentFlag, w.Vsig)
	if w.Vsig {
		k.eq("video_format", u.VideoFormat, w.Vformat)
		k.eq("video_full_range_flag", u.VideoFullRangeFlag, w.Fullrange)
		k.eq("colour_description_present_flag", u.ColourDescriptionFlag, w.Colourdesc)
		if w.Colourdesc {
			k.eq("colour_primaries", u.ColourPrimaries, w.Prim)
			k.eq("transfer_characteristics", u.TransferCharacteristics, w.Transfer)
			k.eq("matrix_coeffs", u.MatrixCoefficients, w.Matrix)
		}
	}
	k.eq("chroma_loc_info_present_flag", u.ChromaLocInfoPresentFlag, w.Chromaloc)
	if w.Chromaloc {
		k.eq("chroma_sample_loc_type_top_field", u.ChromaSampleLocTypeTopField, w.Loctop)
		k.eq("chroma_sample_loc_type_bottom_field", u.ChromaSampleLocTypeBottomField, w.Locbot)
	}
	k.eq("neutral_chroma_indication_flag", u.NeutralChromaIndicationFlag, w.Neutral)
	k.eq("field_seq_flag", u.FieldSeqFlag, w.Fieldseq)
	k.eq("frame_field_info_present_flag", u.FrameFieldInfoPresentFlag, w.Framefield)
	k.eq("default_display_window_flag", u.DefaultDisplayWindowFlag, w.Ddw)
	if w.Ddw {
		k.eq("def_disp_win_left_offset", u.DefDispWinLeftOffset, w.Dl)
		k.eq("def_disp_win_right_offset", u.DefDispWinRightOffset, w.Dr)
		k.eq("def_disp_win_top_offset", u.DefDispWinTopOffset, w.Dt)
		k.eq("def_disp_win_bottom_offset", u.DefDispWinBottomOffset, w.Db)
	}
	k.eq("vui_timing_info_present_flag", u.TimingInfoPresentFlag, w.Timing)
	if w.Timing {
		k.eq("vui_num_units_in_tick", u.NumUnitsInTick, bitsToU(w.Units))
		k.eq("vui_time_scale", u.TimeScale, bitsToU(w.Timescale))
		k.eq("vui_poc_proportional_to_timing_flag", u.PocProportionalToTimingFlag, w.Pocprop)
		if w.Pocprop {
			k.eq("vui_num_ticks_poc_diff_one_minus1", u.NumTicksPocDiffOneMinus1, w.Ticks)
		}
		k.eq("vui_hrd_parameters_present_flag", u.HrdParametersPresentFlag, w.Hrdon)
		if w.Hrdon && u.HrdParameters != nil {
			hvHrdEq(k, u.HrdParameters, w.Hrd, maxsub)
		} else if w.Hrdon {
			k.m = append(k.m, mism{"hrd_parameters", nil, "present"})
		}
	}
	k.eq("bitstream_restriction_flag", u.BitstreamRestrictionFlag, w.Bsr)
	if w.Bsr && u.BitstreamResctrictions != nil {
		b := u.BitstreamResctrictions
		k.eq("tiles_fixed_structure_flag", b.TilesFixedStructureFlag, w.Tilesfixed)
		k.eq("motion_vectors_over_pic_boundaries_flag", b.MVOverPicBoundariesFlag, w.Mvover)
		k.eq("restricted_ref_pic_lists_flag", b.RestrictedRefsPicsListsFlag, w.Restricted)
		k.eq("min_spatial_segmentation_idc", b.MinSpatialSegmentationIDC, w.Minseg)
		k.eq("max_bytes_per_pic_denom", b.MaxBytesPerPicDenom, w.Maxbytes)
		k.eq("max_bits_per_min_cu_denom", b.MaxBitsPerMinCuDenom, w.Maxbits)
		k.eq("log2_max_mv_length_horizontal", b.Log2MaxMvLengthHorizontal, w.Mvh)
		k.eq("log2_max_mv_length_vertical", b.Log2MaxMvLengthVertical, w.Mvv)
	}
}

func hvHrdEq(k *cmp, h *hevc.HrdParameters, w hvHrd, maxsub int) {
	k.eq("nal_hrd_parameters_present_flag", h.NalHrdParametersPresentFlag, w.Nal)
	k.eq("vcl_hrd_parameters_present_flag", h.VclHrdParametersPresentFlag, w.Vcl)
	if w.Nal || w.Vcl {
		k.eq("sub_pic_hrd_params_present_flag", h.SubPicHrdParamsPresentFlag, w.Subpic)
		if w.Subpic {
			k.eq("tick_divisor_minus2", h.TickDivisorMinus2, w.Tick)
			k.eq("du_cpb_removal_delay_increment_length_minus1", h.DuCpbRemovalDelayIncrementLengthMinus1, w.Dulen)
			k.eq("sub_pic_cpb_params_in_pic_timing_sei_flag", h.SubPicCpbParamsInPicTimingSeiFlag, w.Insei)
			k.eq("dpb_output_delay_du_length_minus1", h.DpbOutputDelayDuLengthMinus1, w.Dpbdulen)
			k.eq("cpb_size_du_scale", h.CpbSizeDuScale, w.Duscale)
		}
		k.eq("bit_rate_scale", h.BitRateScale, w.Brscale)
		k.eq("cpb_size_scale", h.CpbSizeScale, w.Cpbscale)
		k.eq("initial_cpb_removal_delay_length_minus1", h.InitialCpbRemovalDelayLengthMinus1, w.Initlen)
		k.eq("au_cpb_removal_delay_length_minus1", h.AuCpbRemovalDelayLengthMinus1, w.Aulen)
		k.eq("dpb_output_delay_length_minus1", h.DpbOutputDelayLengthMinus1, w.Dpblen)
	}
	if len(h.SubLayerHrd) != maxsub+1 {
		k.m = append(k.m, mism{"hrd sub-layers", len(h.SubLayerHrd), maxsub + 1})
		return
	}
	subpic := w.Subpic && (w.Nal || w.Vcl)
	for i := 0; i <= maxsub; i++ {
		g, s := h.SubLayerHrd[i], w.Layers[i%3]
		fixed := s.Fixedgen || s.Fixedcvs
		k.eq("fixed_pic_rate_general_flag", g.FixedPicRateGeneralFlag, s.Fixedgen)
		k.eq("fixed_pic_rate_within_cvs_flag", g.FixedPicRateWithinCvsFlag, fixed)
		low := false
		if fixed {
			k.eq("elemental_duration_in_tc_minus1", g.ElementalDurationInTcMinus1, s.Elem)
		} else {
			k.eq("low_delay_hrd_flag", g.LowDelayHrdFlag, s.Lowdelay)
			low = s.Lowdelay
		}
		cnt := s.Cpbcnt
		if low {
			cnt = 0
		}
		k.eq("cpb_cnt_minus1", g.CpbCntMinus1, cnt)
		chk := func(name string, es []hevc.SubLayerHrdParameters, present bool, ii int) {
			if !present {
				return
			}
			if len(es) != cnt+1 {
				k.m = append(k.m, mism{name + " entries", len(es), cnt + 1})
				return
			}
			for kk, e := range es {
				j := kk + 1
				k.eq(name+".bit_rate_value_minus1", e.BitRateValueMinus1, w.Br+7*ii+j)
				k.eq(name+".cpb_size_value_minus1", e.CpbSizeValueMinus1, w.Cpb+3*ii+j)
				if subpic {
					k.eq(name+".cpb_size_du_value_minus1", e.CpbSizeDuValueMinus1, w.Cpbdu+ii+5*j)
					k.eq(name+".bit_rate_du_value_minus1", e.BitRateDuValueMinus1, w.Brdu+11*ii+j)
				}
				k.eq(name+".cbr_flag", e.CbrFlag, (ii+j)%2 == 0)
			}
		}
		chk("nal_sub_layer_hrd", g.NalHrdParameters, w.Nal, i)
		chk("vcl_sub_layer_hrd", g.VclHrdParameters, w.Vcl, i+3)
	}
}

func hvPpsEq(k *cmp, pps *hevc.PPS, p hvPpsV) {
	k.eq("pps_pic_parameter_set_id", pps.PicParameterSetID, p.ID)
	k.eq("pps_seq_parameter_set_id", pps.SeqParameterSetID, p.Spsid)
	k.eq("dependent_slice_segments_enabled_flag", pps.DependentSliceSegmentsEnabledFlag, p.Depslices)
	k.eq("output_flag_present_flag", pps.OutputFlagPresentFlag, p.Outflag)
	k.eq("num_extra_slice_header_bits", pps.NumExtraSliceHeaderBits, p.Extrabits)
	k.eq("sign_data_hiding_enabled_flag", pps.SignDataHidingEnabledFlag, p.Signhide)
	k.eq("cabac_init_present_flag", pps.CabacInitPresentFlag, p.Cabacinit)
	k.eq("num_ref_idx_l0_default_active_minus1", pps.NumRefIdxL0DefaultActiveMinus1, p.L0)
	k.eq("num_ref_idx_l1_default_active_minus1", pps.NumRefIdxL1DefaultActiveMinus1, p.L1)
	k.eq("init_qp_minus26", pps.InitQpMinus26, p.Qp)
	k.eq("constrained_intra_pred_flag", pps.ConstrainedIntraPredFlag, p.Cintra)
	k.eq("transform_skip_enabled_flag", pps.TransformSkipEnabledFlag, p.Tskip)
	k.eq("cu_qp_delta_enabled_flag", pps.CuQpDeltaEnabledFlag, p.Cuqp)
	if p.Cuqp {
		k.eq("diff_cu_qp_delta_depth", pps.DiffCuQpDeltaDepth, p.Cuqpdepth)
	}
	k.eq("pps_cb_qp_offset", pps.CbQpOffset, p.Cbqp)
	k.eq("pps_cr_qp_offset", pps.CrQpOffset, p.Crqp)
	k.eq("pps_slice_chroma_qp_offsets_present_flag", pps.SliceChromaQpOffsetsPresentFlag, p.Slicecq)
	k.eq("weighted_pred_flag", pps.WeightedPredFlag, p.Wpred)
	k.eq("weighted_bipred_flag", pps.WeightedBipredFlag, p.Wbipred)
	k.eq("transquant_bypass_enabled_flag", pps.TransquantBypassEnabledFlag, p.Tqbypass)
	k.eq("tiles_enabled_flag", pps.TilesEnabledFlag, p.Tiles)
	k.eq("entropy_coding_sync_enabled_flag", pps.EntropyCodingSyncEnabledFlag, p.Wpp)
	if p.Tiles {
		k.eq("num_tile_columns_minus1", pps.NumTileColumnsMinus1, len(p.Cols))
		k.eq("num_tile_rows_minus1", pps.NumTileRowsMinus1, len(p.Rows))
		k.eq("uniform_spacing_flag", pps.UniformSpacingFlag, p.Uniform)
		if !p.Uniform {
			if fmt.Sprint(pps.ColumnWidthMinus1) != fmt.Sprint(p.Cols) && !(len(p.Cols) == 0 && len(pps.ColumnWidthMinus1) == 0) {
				k.m = append(k.m, mism{"column_width_minus1", pps.ColumnWidthMinus1, p.Cols})
			}
			if fmt.Sprint(pps.RowHeightMinus1) != fmt.Sprint(p.Rows) && !(len(p.Rows) == 0 && len(pps.RowHeightMinus1) == 0) {
				k.m = append(k.m, mism{"row_height_minus1", pps.RowHeightMinus1, p.Rows})
			}
		}
		k.eq("loop_filter_across_tiles_enabled_flag", pps.LoopFilterAcrossTilesEnabledFlag, p.Lftiles)
	}
	k.eq("pps_loop_filter_across_slices_enabled_flag", pps.LoopFilterAcrossSlicesEnabledFlag, p.Lfslices)
	k.eq("deblocking_filter_control_present_flag", pps.DeblockingFilterControlPresentFlag, p.Dbctrl)
	if p.Dbctrl {
		k.eq("deblocking_filter_override_enabled_flag", pps.DeblockingFilterOverrideEnabledFlag, p.Dboverride)
		k.eq("pps_deblocking_filter_disabled_flag", pps.DeblockingFilterDisabledFlag, p.Dboff)
		if !p.Dboff {
			k.eq("pps_beta_offset_div2", pps.BetaOffsetDiv2, p.Beta)
			k.eq("pps_tc_offset_div2", pps.TcOffsetDiv2, p.Tc)
		}
	}
	k.eq("pps_scaling_list_data_present_flag", pps.ScalingListDataPresentFlag, p.Scaling != "none")
	k.eq("lists_modification_present_flag", pps.ListsModificationPresentFlag, p.Listsmod)
	k.eq("log2_parallel_merge_level_minus2", pps.Log2ParallelMergeLevelMinus2, p.Pmerge)
	k.eq("slice_segment_header_extension_present_flag", pps.SliceSegmentHeaderExtensionPresentFlag, p.Shext)
	k.eq("pps_extension_present_flag", pps.ExtensionPresentFlag, p.Ext)
	if p.Ext {
		k.eq("pps_range_extension_flag", pps.RangeExtensionFlag, p.Rxon)
		if p.Rxon && pps.RangeExtension != nil {
			x := pps.RangeExtension
			if p.Tskip {
				k.eq("log2_max_transform_skip_block_size_minus2", x.Log2MaxTransformSkipBlockSizeMinus2, p.Rx.Log2skip)
			}
			k.eq("cross_component_prediction_enabled_flag", x.CrossComponentPredictionEnabledFlag, p.Rx.Ccp)
			k.eq("chroma_qp_offset_list_enabled_flag", x.ChromaQpOffsetListEnabledFlag, p.Rx.Cqlist)
			if p.Rx.Cqlist {
				k.eq("diff_cu_chroma_qp_offset_depth", x.DiffCuChromaQpOffsetDepth, p.Rx.Cqdepth)
				k.eq("chroma_qp_offset_list_len_minus1", x.ChromaQpOffsetListLenMinus1, len(p.Rx.Cblist)-1)
				if len(x.CbQpOffsetList) == len(p.Rx.Cblist) && len(x.CrQpOffsetList) == len(p.Rx.Cblist) {
					for i, w := range p.Rx.Cblist {
						k.eq("cb_qp_offset_list", x.CbQpOffsetList[i], w)
						k.eq("cr_qp_offset_list", x.CrQpOffsetList[i], -w)
					}
				} else {
					k.m = append(k.m, mism{"chroma qp offset lists", len(x.CbQpOffsetList), len(p.Rx.Cblist)})
				}
			}
			k.eq("log2_sao_offset_scale_luma", x.Log2SaoOffsetScaleLuma, p.Rx.Saoluma)
			k.eq("log2_sao_offset_scale_chroma", x.Log2SaoOffsetScaleChroma, p.Rx.Saochroma)
		} else if p.Rxon {
			k.m = append(k.m, mism{"pps_range_extension", nil, "present"})
		}
		hvPpsExtEq(k, pps, p)
	}
}

// hvPpsExtEq compares the multilayer (with colour mapping table), 3D and SCC extensions of a PPS with the vector.
func hvPpsExtEq(k *cmp, pps *hevc.PPS, p hvPpsV) {
	k.eq("pps_multilayer_extension_flag", pps.MultilayerExtensionFlag, p.Mlx.On)
	k.eq("pps_3d_extension_flag", pps.D3ExtensionFlag, p.D3x.On)
	k.eq("pps_scc_extension_flag", pps.SccExtensionFlag, p.Sccx.On)
	k.eq("pps_extension_4bits", pps.Extension4bits, 0)
	if p.Mlx.On {
		x := pps.MultilayerExtension
		if x == nil {
			k.m = append(k.m, mism{"pps_multilayer_extension", nil, "present"})
		} else {
			k.eq("poc_reset_info_present_flag", x.PocResetInfoPresentFlag, p.Mlx.Poc)
			k.eq("pps_infer_scaling_list_flag", x.InferScalingListFlag, p.Mlx.Infer)
			if p.Mlx.Infer {
				k.eq("pps_scaling_list_ref_layer_id", x.ScalingListRefLayerId, p.Mlx.Inferid)
			}
			k.eq("num_ref_loc_offsets", x.NumRefLocOffsets, len(p.Mlx.Locs))
			k.eq("number of ref_loc_offset_layer_id", len(x.RefLocOffsetLayerIds), len(p.Mlx.Locs))
			for i, l := range p.Mlx.Locs {
				if i >= len(x.RefLocOffsetLayerIds) {
					break
				}
				k.eq("ref_loc_offset_layer_id", x.RefLocOffsetLayerIds[i], l.ID)
				o, ok := x.RefLocOffsets[uint8(l.ID)]
				if !ok {
					k.m = append(k.m, mism{"ref loc offsets of layer", nil, l.ID})
					continue
				}
				k.eq("scaled_ref_layer_offset_present_flag", o.ScaledRefLayerOffsetPresentFlag, len(l.Scaled) > 0)
				if len(l.Scaled) == 4 {
					k.eq("scaled_ref_layer_left_offset", o.ScaledRefLayerLeftOffset, l.Scaled[0])
					k.eq("scaled_ref_layer_top_offset", o.ScaledRefLayerTopOffset, l.Scaled[1])
					k.eq("scaled_ref_layer_right_offset", o.ScaledRefLayerRightOffset, l.Scaled[2])
					k.eq("scaled_ref_layer_bottom_offset", o.ScaledRefLayerBottomOffset, l.Scaled[3])
				}
				k.eq("ref_region_offset_present_flag", o.RefRegionOffsetPresentFlag, len(l.Region) > 0)
				if len(l.Region) == 4 {
					k.eq("ref_region_left_offset", o.RefRegionLeftOffset, l.Region[0])
					k.eq("ref_region_top_offset", o.RefRegionTopOffset, l.Region[1])
					k.eq("ref_region_right_offset", o.RefRegionRightOffset, l.Region[2])
					k.eq("ref_region_bottom_offset", o.RefRegionBottomOffset, l.Region[3])
				}
				k.eq("resample_phase_set_present_flag", o.ResamplePhaseSetPresentFlag, len(l.Phase) > 0)
				if len(l.Phase) == 4 {
					k.eq("phase_hor_luma", o.PhaseHorLuma, l.Phase[0])
					k.eq("phase_ver_luma", o.PhaseVerLuma, l.Phase[1])
					k.eq("phase_hor_chroma_plus8", o.PhaseHorChromaPlus8, l.Phase[2])
					k.eq("phase_ver_chroma_plus8", o.PhaseVerChromaPlus8, l.Phase[3])
				}
			}
			k.eq("colour_mapping_enabled_flag", x.ColourMappingEnabledFlag, p.Mlx.Cm)
			if p.Mlx.Cm && x.ColourMappingTable != nil {
				c := x.ColourMappingTable
				k.eq("num_cm_ref_layers_minus1", c.NumCmRefLayersMinus1, len(p.Mlx.Cmlayers)-1)
				k.eq("number of cm_ref_layer_id", len(c.RefLayerId), len(p.Mlx.Cmlayers))
				for i, w := range p.Mlx.Cmlayers {
					if i < len(c.RefLayerId) {
						k.eq("cm_ref_layer_id", c.RefLayerId[i], w)
					}
				}
				k.eq("cm_octant_depth", c.OctantDepth, 0)
				k.eq("cm_y_part_num_log2", c.YPartNumLog2, 0)
				k.eq("luma_bit_depth_cm_input_minus8", c.LumaBitDepthCmInputMinus8, p.Mlx.Cmbd[0])
				k.eq("chroma_bit_depth_cm_input_minus8", c.ChromaBitDepthCmInputMinus8, p.Mlx.Cmbd[1])
				k.eq("luma_bit_depth_cm_output_minus8", c.LumaBitDepthCmOutputMinus8, p.Mlx.Cmbd[2])
				k.eq("chroma_bit_depth_cm_output_minus8", c.ChromaBitDepthCmOutputMinus8, p.Mlx.Cmbd[3])
				k.eq("cm_res_quant_bits", c.ResQuantBits, p.Mlx.Cmres)
				k.eq("cm_delta_flc_bits_minus1", c.DeltaFlcBitsMinus1, p.Mlx.Cmflc)
				k.eq("number of octants", len(c.Octants), 1)
				for _, oct := range c.Octants {
					k.eq("coded_res_flag[0]", oct[0].CodedResFlag, p.Mlx.Cmcoded)
					for j := 1; j < 4; j++ {
						k.eq("coded_res_flag[j]", oct[j].CodedResFlag, false)
					}
					if p.Mlx.Cmcoded {
						for cidx := 0; cidx < 3; cidx++ {
							k.eq("res_coeff_q", oct[0].CodedRes[cidx].ResCoeffQ, cidx)
						}
						k.eq("res_coeff_s[1]", oct[0].CodedRes[1].ResCoeffS, true)
					}
				}
			} else if p.Mlx.Cm {
				k.m = append(k.m, mism{"colour_mapping_table", nil, "present"})
			}
		}
	}
	if p.D3x.On {
		x := pps.D3Extension
		if x == nil {
			k.m = append(k.m, mism{"pps_3d_extension", nil, "present"})
		} else {
			k.eq("dlts_present_flag", x.DltsPresentFlag, p.D3x.Dlts)
			if p.D3x.Dlts {
				k.eq("pps_depth_layers_minus1", x.NumDepthLayersMinus1, p.D3x.Layers)
				k.eq("pps_bit_depth_for_depth_layers_minus8", x.BitDepthForDepthLayersMinus8, p.D3x.Depth)
				k.eq("number of depth layers", len(x.DepthLayers), p.D3x.Layers+1)
				for _, l := range x.DepthLayers {
					k.eq("dlt_flag", l.DltFlag, p.D3x.Dlt != "off")
					k.eq("dlt_pred_flag", l.DltPredFlag, false)
					k.eq("dlt_val_flags_present_flag", l.DltValFlagsPresentFlag, false)
					if p.D3x.Dlt != "off" && l.DeltaDlt != nil {
						k.eq("num_val_delta_dlt", l.DeltaDlt.NumValDeltaDlt, 0)
					} else if p.D3x.Dlt != "off" {
						k.m = append(k.m, mism{"delta_dlt", nil, "present"})
					}
				}
			}
		}
	}
	if p.Sccx.On {
		x := pps.SccExtension
		if x == nil {
			k.m = append(k.m, mism{"pps_scc_extension", nil, "present"})
		} else {
			k.eq("pps_curr_pic_ref_enabled_flag", x.CurrPicRefEnabledFlag, p.Sccx.Currpic)
			k.eq("residual_adaptive_colour_transform_enabled_flag", x.ResidualAdaptiveColourTransformEnabledFlag, p.Sccx.Ract)
			if p.Sccx.Ract {
				k.eq("pps_slice_act_qp_offsets_present_flag", x.SliceActQpOffsetsPresentFlag, p.Sccx.Actpresent)
				k.eq("pps_act_y_qp_offset_plus5", x.ActYQpOffsetPlus5, p.Sccx.Actoff[0])
				k.eq("pps_act_cb_qp_offset_plus5", x.ActCbQpOffsetPlus5, p.Sccx.Actoff[1])
				k.eq("pps_act_cr_qp_offset_plus3", x.ActCrQpOffsetPlus3, p.Sccx.Actoff[2])
			}
			k.eq("pps_palette_predictor_initializers_present_flag", x.PalettePredictorInitializersPresentFlag, p.Sccx.Palon)
			if p.Sccx.Palon {
				k.eq("pps_num_palette_predictor_initializers", x.NumPalettePredictorInitializers, len(p.Sccx.Pal))
				if len(p.Sccx.Pal) > 0 {
					k.eq("monochrome_palette_flag", x.MonochromePaletteFlag, p.Sccx.Mono)
					k.eq("luma_bit_depth_entry_minus8", x.LumaBitDepthEntryMinus8, p.Sccx.Lbd)
					comps := 3
					if p.Sccx.Mono {
						comps = 1
					} else {
						k.eq("chroma_bit_depth_entry_minus8", x.ChromaBitDepthEntryMinus8, p.Sccx.Cbd)
					}
					k.eq("number of palette components", len(x.PalettePredictorInitializer), comps)
					for ci, comp := range x.PalettePredictorInitializer {
						k.eq("number of palette entries", len(comp), len(p.Sccx.Pal))
						for i, v := range comp {
							if i >= len(p.Sccx.Pal) {
								break
							}
							want := p.Sccx.Pal[i]
							if ci == 2 {
								want = len(p.Sccx.Pal) - 1 - i
							}
							k.eq("pps_palette_predictor_initializer", v, want)
						}
					}
				}
			}
		}
	}
}

func hvPps(rep *Report, line []byte) error {
	var c struct {
		P      hvPpsV `json:"p"`
		Nal    []int  `json:"nal"`
		Spsnal []int  `json:"spsnal"`
	}
	if err := json.Unmarshal(line, &c); err != nil {
		return err
	}
	cs := J{"p": c.P, "nal": c.Nal}
	defer func() {
		if r := recover(); r != nil {
			rep.Violation("hevc/pps/panic", fmt.Sprintf("ParsePPSNALUnit panics on a valid PPS: %v", r), cs)
		}
	}()
	sps, err := hevc.ParseSPSNALUnit(ints2bytes(c.Spsnal))
	if err != nil {
		rep.Drift("hevc/pps/context-sps", "context SPS rejected: "+err.Error(), cs)
		return nil
	}
	pps, err := hevc.ParsePPSNALUnit(ints2bytes(c.Nal), map[uint32]*hevc.SPS{uint32(sps.SpsID): sps})
	if err != nil {
		rep.Violation("hevc/pps/rejected", "valid PPS rejected: "+err.Error(), cs)
		rep.Count(string(line), true, nil)
		return nil
	}
	k := &cmp{}
	hvPpsEq(k, pps, c.P)
	reportMism(rep, "hevc/pps", k, cs)
	var smp interface{}
	if c.P.Tiles && !c.P.Uniform && c.P.ID == 7 {
		smp = J{"struct": "hevc pps", "p": c.P}
	}
	rep.Count(string(line), true, smp)
	return nil
}

func hvSlice(rep *Report, line []byte) error {
	var c struct {
		S               hvSliceV `json:"s"`
		P               hvPpsV   `json:"p"`
		Spsid           int      `json:"spsid"`
		Nt              int      `json:"nt"`
		Spsnal          []int    `json:"spsnal"`
		Ppsnal          []int    `json:"ppsnal"`
		Othersps        []int    `json:"othersps"`
		Nal             []int    `json:"nal"`
		Size            int      `json:"size"`
		Numpictotalcurr int      `json:"numpictotalcurr"`
		Idr, Irap       bool
		Cat             int       `json:"cat"`
		Sepcol          bool      `json:"sepcol"`
		Spssao          bool      `json:"spssao"`
		Spstmvp         bool      `json:"spstmvp"`
		Spslt           bool      `json:"spslt"`
		Nspslt          int       `json:"nspslt"`
		Nrps            int       `json:"nrps"`
		Full            bool      `json:"full"`
		Rpsderived      hvDerived `json:"rpsderived"`
		N0              int       `json:"n0"`
		N1              int       `json:"n1"`
		Dbdisabled      bool      `json:"dbdisabled"`
	}
	if err := json.Unmarshal(line, &c); err != nil {
		return err
	}
	s, p := c.S, c.P
	cs := J{"s": s, "pps": p, "sps_id": c.Spsid, "nal_unit_type": c.Nt, "nal": c.Nal, "NumPicTotalCurr": c.Numpictotalcurr}
	defer func() {
		if r := recover(); r != nil {
			rep.Violation("hevc/slice/panic", fmt.Sprintf("ParseSliceHeader panics on a valid slice: %v", r), cs)
		}
	}()
	sps, err := hevc.ParseSPSNALUnit(ints2bytes(c.Spsnal))
	if err != nil {
		rep.Drift("hevc/slice/context-sps", "context SPS rejected: "+err.Error(), cs)
		return nil
	}
	spsMap := map[uint32]*hevc.SPS{uint32(sps.SpsID): sps}
	pps, err := hevc.ParsePPSNALUnit(ints2bytes(c.Ppsnal), spsMap)
	if err != nil {
		rep.Drift("hevc/slice/context-pps", "context PPS rejected: "+err.Error(), cs)
		return nil
	}
	// a different SPS stored under the PPS's own id: the slice must resolve its SPS through pps_seq_parameter_set_id
	if p.ID != c.Spsid {
		if o, err := hevc.ParseSPSNALUnit(ints2bytes(c.Othersps)); err == nil {
			spsMap[uint32(o.SpsID)] = o
		}
	}
	sh, err := hevc.ParseSliceHeader(ints2bytes(c.Nal), spsMap, map[uint32]*hevc.PPS{pps.PicParameterSetID: pps})
	ctx := ""
	if !s.Strpssps && c.Full && !c.Idr {
		ctx = "/slice-level-st_ref_pic_set"
	}
	if err != nil {
		rep.Violation("hevc/slice/rejected"+ctx, "valid slice segment header rejected: "+err.Error(), cs)
		rep.Count(string(line), true, nil)
		return nil
	}
	k := &cmp{}
	k.eq("first_slice_segment_in_pic_flag", sh.FirstSliceSegmentInPicFlag, s.First)
	if c.Irap {
		k.eq("no_output_of_prior_pics_flag", sh.NoOutputOfPriorPicsFlag, s.Nooutprior)
	}
	k.eq("slice_pic_parameter_set_id", sh.PicParameterSetId, p.ID)
	if !s.First {
		if p.Depslices {
			k.eq("dependent_slice_segment_flag", sh.DependentSliceSegmentFlag, s.Dependent)
		}
		ctb := 1 << uint(sps.Log2MinLumaCodingBlockSizeMinus3+3+sps.Log2DiffMaxMinLumaCodingBlockSize)
		n := ((int(sps.PicWidthInLumaSamples) + ctb - 1) / ctb) * ((int(sps.PicHeightInLumaSamples) + ctb - 1) / ctb)
		k.eq("slice_segment_address", sh.SegmentAddress, s.Addr%n)
	}
	if c.Full {
		k.eq("slice_type", int(sh.SliceType), s.Type)
		if p.Outflag {
			k.eq("pic_output_flag", sh.PicOutputFlag, s.Picout)
		}
		if c.Sepcol {
			k.eq("colour_plane_id", sh.ColourPlaneId, s.Colourplane)
		}
		if !c.Idr {
			bitsN := uint(sps.Log2MaxPicOrderCntLsbMinus4 + 4)
			k.eq("slice_pic_order_cnt_lsb", sh.PicOrderCntLsb, s.Poclsb%(1<<bitsN))
			k.eq("short_term_ref_pic_set_sps_flag", sh.ShortTermRefPicSetSpsFlag, s.Strpssps)
			if s.Strpssps && c.Nrps > 1 {
				k.eq("short_term_ref_pic_set_idx", sh.ShortTermRefPicSetIdx, s.Strpsidx)
			}
			hvRpsEq(k, "slice st_ref_pic_set", sh.ShortTermRefPicSet, c.Rpsderived)
			if c.Spslt {
				if c.Nspslt > 0 {
					k.eq("num_long_term_sps", sh.NumLongTermSps, s.Nltsps)
				}
				k.eq("num_long_term_pics", sh.NumLongTermPics, len(s.Ltpics))
				if len(sh.LongTermRefPicSets) == s.Nltsps+len(s.Ltpics) {
					for i := range sh.LongTermRefPicSets {
						g := sh.LongTermRefPicSets[i]
						if i >= s.Nltsps {
							w := s.Ltpics[i-s.Nltsps]
							k.eq("poc_lsb_lt", g.PocLsbLt, w.Poc%(1<<bitsN))
							k.eq("used_by_curr_pic_lt_flag", g.UsedByCurrPicLtFlag, w.U)
						}
						k.eq("delta_poc_msb_present_flag", g.DeltaPocMsbPresentFlag, (i+1)%2 == 0)
						if (i+1)%2 == 0 {
							k.eq("delta_poc_msb_cycle_lt", g.DeltaPocMsbCycleLt, i+1+4)
						}
					}
				} else {
					k.m = append(k.m, mism{"long-term entries", len(sh.LongTermRefPicSets), s.Nltsps + len(s.Ltpics)})
				}
			}
			if c.Spstmvp {
				k.eq("slice_temporal_mvp_enabled_flag", sh.TemporalMvpEnabledFlag, s.Tmvp)
			}
		}
		if c.Spssao {
			k.eq("slice_sao_luma_flag", sh.SaoLumaFlag, s.Saoluma)
			if c.Cat != 0 {
				k.eq("slice_sao_chroma_flag", sh.SaoChromaFlag, s.Saochroma)
			}
		}
		if s.Type != 2 {
			k.eq("num_ref_idx_active_override_flag", sh.NumRefIdxActiveOverrideFlag, s.Override)
			k.eq("num_ref_idx_l0_active_minus1", sh.NumRefIdxL0ActiveMinus1, c.N0)
			if s.Type == 0 {
				k.eq("num_ref_idx_l1_active_minus1", sh.NumRefIdxL1ActiveMinus1, c.N1)
			}
			if p.Listsmod && c.Numpictotalcurr > 1 {
				if sh.RefPicListsModification == nil {
					k.m = append(k.m, mism{"ref_pic_lists_modification", nil, "present (NumPicTotalCurr > 1)"})
				} else {
					m := sh.RefPicListsModification
					k.eq("ref_pic_list_modification_flag_l0", m.RefPicListModificationFlagL0, s.Mod0)
					if s.Mod0 {
						var w []uint8
						for i := 0; i <= c.N0; i++ {
							w = append(w, uint8(i%c.Numpictotalcurr))
						}
						if fmt.Sprint(m.ListEntryL0) != fmt.Sprint(w) {
							k.m = append(k.m, mism{"list_entry_l0", m.ListEntryL0, w})
						}
					}
					if s.Type == 0 {
						k.eq("ref_pic_list_modification_flag_l1", m.RefPicListModificationFlagL1, s.Mod1)
						if s.Mod1 {
							var w []uint8
							for i := 0; i <= c.N1; i++ {
								w = append(w, uint8((i+1)%c.Numpictotalcurr))
							}
							if fmt.Sprint(m.ListEntryL1) != fmt.Sprint(w) {
								k.m = append(k.m, mism{"list_entry_l1", m.ListEntryL1, w})
							}
						}
					}
				}
			} else if sh.RefPicListsModification != nil {
				k.m = append(k.m, mism{"ref_pic_lists_modification", "present", "absent"})
			}
			if s.Type == 0 {
				k.eq("mvd_l1_zero_flag", sh.MvdL1ZeroFlag, s.Mvdl1zero)
			}
			if p.Cabacinit {
				k.eq("cabac_init_flag", sh.CabacInitFlag, s.Cabacinit)
			}
			if !c.Idr && c.Spstmvp && s.Tmvp {
				col0 := true
				if s.Type == 0 {
					col0 = s.Colfroml0
				}
				k.eq("collocated_from_l0_flag", sh.CollocatedFromL0Flag, col0)
				if (col0 && c.N0 > 0) || (!col0 && c.N1 > 0) {
					k.eq("collocated_ref_idx", sh.CollocatedRefIdx, s.Colrefidx)
				}
			}
			if (p.Wpred && s.Type == 1) || (p.Wbipred && s.Type == 0) {
				if sh.PredWeightTable == nil {
					k.m = append(k.m, mism{"pred_weight_table", nil, "present"})
				} else {
					t := sh.PredWeightTable
					k.eq("luma_log2_weight_denom", t.LumaLog2WeightDenom, s.Lumadenom)
					if c.Cat != 0 {
						k.eq("delta_chroma_log2_weight_denom", t.DeltaChromaLog2WeightDenom, s.Chromadenomdelta)
					}
					chk := func(name string, ws []hevc.WeightingFactors, n, shf int) {
						if len(ws) != n+1 {
							k.m = append(k.m, mism{name + " entries", len(ws), n + 1})
							return
						}
						for i, w := range ws {
							k.eq(name+".luma_weight_flag", w.LumaWeightFlag, i%2 == 0)
							if c.Cat != 0 {
								k.eq(name+".chroma_weight_flag", w.ChromaWeightFlag, i%3 == 0)
							}
							if i%2 == 0 {
								k.eq(name+".delta_luma_weight", w.DeltaLumaWeight, shf+i-3)
								k.eq(name+".luma_offset", w.LumaOffset, -100-i)
							}
							if c.Cat != 0 && i%3 == 0 {
								k.eq(name+".delta_chroma_weight[0]", w.DeltaChromaWeight[0], i+1)
								k.eq(name+".delta_chroma_offset[0]", w.DeltaChromaOffset[0], -200)
								k.eq(name+".delta_chroma_weight[1]", w.DeltaChromaWeight[1], -128)
								k.eq(name+".delta_chroma_offset[1]", w.DeltaChromaOffset[1], 511)
							}
						}
					}
					chk("pred_weight_l0", t.WeightsL0, c.N0, 0)
					if s.Type == 0 {
						chk("pred_weight_l1", t.WeightsL1, c.N1, 7)
					}
				}
			}
			k.eq("five_minus_max_num_merge_cand", sh.FiveMinusMaxNumMergeCand, s.Fiveminus)
		}
		k.eq("slice_qp_delta", sh.QpDelta, s.Qpdelta)
		if p.Slicecq {
			k.eq("slice_cb_qp_offset", sh.CbQpOffset, s.Cbqp)
			k.eq("slice_cr_qp_offset", sh.CrQpOffset, s.Crqp)
		}
		if p.Ext && p.Rxon && p.Rx.Cqlist {
			k.eq("cu_chroma_qp_offset_enabled_flag", sh.CuChromaQpOffsetEnabledFlag, s.Cuchromaqp)
		}
		if p.Dbctrl && p.Dboverride {
			k.eq("deblocking_filter_override_flag", sh.DeblockingFilterOverrideFlag, s.Dboverride)
			if s.Dboverride {
				k.eq("slice_deblocking_filter_disabled_flag", sh.DeblockingFilterDisabledFlag, s.Dboff)
				if !s.Dboff {
					k.eq("slice_beta_offset_div2", sh.BetaOffsetDiv2, s.Beta)
					k.eq("slice_tc_offset_div2", sh.TcOffsetDiv2, s.Tc)
				}
			}
		}
		sao := c.Spssao && (s.Saoluma || (c.Cat != 0 && s.Saochroma))
		if p.Lfslices && (sao || !c.Dbdisabled) {
			k.eq("slice_loop_filter_across_slices_enabled_flag", sh.LoopFilterAcrossSlicesEnabledFlag, s.Lfslices)
		}
	}
	if p.Tiles || p.Wpp {
		k.eq("num_entry_point_offsets", sh.NumEntryPointOffsets, len(s.Entries))
		if len(s.Entries) > 0 {
			k.eq("offset_len_minus1", sh.OffsetLenMinus1, s.Offlen)
			if len(sh.EntryPointOffsetMinus1) == len(s.Entries) {
				for i, e := range s.Entries {
					w := e
					if s.Offlen < 8 {
						w = e % (1 << uint(s.Offlen+1))
					}
					k.eq("entry_point_offset_minus1", sh.EntryPointOffsetMinus1[i], w)
				}
			}
		}
	}
	if p.Shext {
		k.eq("slice_segment_header_extension_length", sh.SegmentHeaderExtensionLength, len(s.Extbytes))
		if fmt.Sprint(bytes2ints(sh.SegmentHeaderExtensionDataByte)) != fmt.Sprint(s.Extbytes) && len(s.Extbytes) > 0 {
			k.m = append(k.m, mism{"slice_segment_header_extension_data_byte", sh.SegmentHeaderExtensionDataByte, s.Extbytes})
		}
	}
	k.eq("header size in bytes", sh.Size, c.Size)
	for _, m := range k.m {
		rep.Violation("hevc/slice/"+m.field+ctx, fmt.Sprintf("parsed %s = %v, coded value %v", m.field, m.got, m.want), cs)
	}
	var smp interface{}
	if p.ID == 5 && s.Type == 0 && c.Spsid == 1 && !s.First {
		smp = J{"struct": "hevc slice", "s": s, "pps_id": p.ID, "sps_id": c.Spsid}
	}
	rep.Count(string(line), true, smp)
	return nil
}
