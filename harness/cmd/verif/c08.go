package main

// C08: lazy-mdat mode vs in-memory mode. Replays Mdat.tla behaviours on materialised files.

import (
	"bytes"
	"encoding/json"
	"fmt"
	"io"
	"io/ioutil"
	"math/rand"
	"os"
	"os/exec"
	"path/filepath"
	"sort"

	"github.com/Eyevinn/mp4ff/bits"
	"github.com/Eyevinn/mp4ff/mp4"
)

func init() {
	register("c08-replay", c08Replay)
	register("c08-drive", c08Drive)
	register("c08-segmenter", c08Segmenter)
}

type c08Case struct {
	Kind string `json:"kind"`
	Lay  struct {
		Pre     int    `json:"pre"`
		X       int64  `json:"x"`
		Lead    string `json:"lead"`
		Hdr     int    `json:"hdr"`
		L       int    `json:"L"`
		Post    int    `json:"post"`
		Order   string `json:"order"`
		Emd     string `json:"emd"`
		Spc     []int  `json:"spc"`
		Uniform bool   `json:"uniform"`
		Gap     int    `json:"gap"`
		N       int    `json:"N"`
	} `json:"lay"`
	Op struct {
		Tail  int `json:"tail"`
		Start int `json:"start"`
		Size  int `json:"size"`
		A     int `json:"a"`
		B     int `json:"b"`
		W     int `json:"W"`
	} `json:"op"`
	Want   json.RawMessage `json:"want"`
	Header []int           `json:"header"`
	Sizes  []int           `json:"sizes"`
	Offs   []int           `json:"offs"`
	Stsc   []stscEntry     `json:"stsc"`
	Plen   int             `json:"plen"`
}

func payloadByte(rel int) byte { return byte((rel*37 + 11) & 0xff) }

func mkPayload(n int) []byte {
	p := make([]byte, n)
	for i := range p {
		p[i] = payloadByte(i)
	}
	return p
}

// infoOf renders the Info dump of a file at the given level.
func infoOf(f *mp4.File, level string) (string, error) {
	var b bytes.Buffer
	err := f.Info(&b, level, "", "  ")
	return b.String(), err
}

func mdatOf(f *mp4.File) *mp4.MdatBox {
	if f.Mdat != nil {
		return f.Mdat
	}
	if len(f.Segments) > 0 && len(f.Segments[0].Fragments) > 0 {
		return f.Segments[0].Fragments[0].Mdat
	}
	return nil
}

func c08Replay(args []string) error {
	rep := newReport()
	type built struct {
		file  []byte
		start int // absolute payload start
	}
	cache := map[string]built{}
	err := readLines(argValue(args, "-in", "-"), func(line []byte) error {
		var c c08Case
		if err := json.Unmarshal(line, &c); err != nil {
			return err
		}
		specPS := c.Lay.Pre + c.Lay.Hdr
		var emdB, emdA []byte // optional empty mdat box before / after the data mdat
		if c.Lay.Emd == "before" {
			specPS += 8
			emdB = mkBox("mdat")
		} else if c.Lay.Emd == "after" {
			emdA = mkBox("mdat")
		}
		if c.Kind == "big" {
			c08Big(rep, &c, string(line))
			return nil
		}
		large := c.Lay.Hdr == 16
		if c.Kind == "range" {
			key := fmt.Sprint(c.Lay)
			b, ok := cache[key]
			if !ok {
				payload := mkPayload(c.Lay.L)
				var post []byte
				if c.Lay.Post > 0 {
					post = mkBox("free", zeros(c.Lay.Post-8))
				}
				stbl := [][]byte{mStsd(), mStts([]runEntry{{1, 1}}), mStsc([]stscEntry{{1, 1, 1}}), mStsz(0, []int{c.Lay.L})}
				var lead []byte
				if c.Lay.Lead == "free64" {
					lead = mkBoxLarge("free", []byte{1, 2, 3, 4})
				}
				switch c.Lay.Order {
				case "moov-mdat":
					f, base := buildProgFile(stbl, []int{0}, false, payload, nil, 1000, 1, large)
					b = built{cat(f, emdA, post), base}
				case "mdat-moov":
					ftyp := mFtyp("isom", 0x200, "isom")
					base := len(ftyp) + len(lead) + len(emdB) + c.Lay.Hdr
					trak := mTrak(1, 1000, 1, true, nil, append(stbl, mStco([]int64{int64(base)}))...)
					moov := mkBox("moov", mMvhd(1000, 1, 2), trak)
					b = built{cat(ftyp, lead, emdB, mMdat(payload, large), emdA, moov, post), base}
				case "frag":
					ini := mFragInit([]int64{1}, 1000)
					frag := mSimpleFragment(1, 1, 0, []mSample{{1, int64(c.Lay.L), 0, 0}}, payload, large)
					base := len(ini) + len(lead) + len(frag) - c.Lay.L
					b = built{cat(ini, lead, frag, post), base}
				}
				cache[key] = b
			}
			c08Range(rep, &c, b.file, b.start, specPS)
			var smp interface{}
			if c.Op.Start+c.Op.Size == specPS+c.Lay.L && c.Op.Size == 2 {
				smp = J{"lay": c.Lay, "op": J{"start": c.Op.Start, "size": c.Op.Size}, "want": c.Want}
			}
			rep.Count(string(line), true, smp)
			return nil
		}
		// ---- copy
		var want []int
		if err := json.Unmarshal(c.Want, &want); err != nil {
			return err
		}
		payload := mkPayload(c.Plen)
		uni := 0
		if c.Lay.Uniform {
			uni = c.Sizes[0]
		}
		rel := make([]int, len(c.Offs))
		for i, o := range c.Offs {
			rel[i] = o - specPS
		}
		stbl := [][]byte{mStsd(), mStts([]runEntry{{c.Lay.N, 1}}), mStsc(c.Stsc), mStsz(uni, c.Sizes)}
		file, _ := buildProgFile(stbl, rel, false, payload, nil, 1000, int64(c.Lay.N), large)
		wantBytes := make([]byte, len(want))
		for i, t := range want {
			wantBytes[i] = payloadByte(t - specPS)
		}
		cs := J{"lay": c.Lay, "a": c.Op.A, "b": c.Op.B, "work": c.Op.W}
		for _, mode := range []string{"normal", "lazy"} {
			var f *mp4.File
			var err error
			if mode == "normal" {
				f, err = mp4.DecodeFile(bytes.NewReader(file))
			} else {
				f, err = mp4.DecodeFile(bytes.NewReader(file), mp4.WithDecodeMode(mp4.DecModeLazyMdat))
			}
			if err != nil {
				rep.Violation("decode/"+mode, "valid progressive file rejected: "+err.Error(), cs)
				continue
			}
			mode := mode
			query(rep, "File.CopySampleData", cs, func() {
				var out bytes.Buffer
				var ws []byte
				if c.Op.W > 0 {
					ws = make([]byte, c.Op.W)
				}
				err := f.CopySampleData(&out, bytes.NewReader(file), f.Moov.Trak, uint32(c.Op.A), uint32(c.Op.B), ws)
				if err != nil || !bytes.Equal(out.Bytes(), wantBytes) {
					rep.Violation("copy-sample-data/"+mode, "CopySampleData does not return the bytes of the samples of the interval",
						J{"case": cs, "err": fmt.Sprint(err), "observed": bytes2ints(out.Bytes()), "expected": bytes2ints(wantBytes)})
				}
			})
		}
		var smp interface{}
		if c.Op.W == 2 && len(c.Lay.Spc) == 2 {
			smp = cs
		}
		rep.Count(string(line), true, smp)
		return nil
	})
	rep.Done()
	return err
}

func c08Range(rep *Report, c *c08Case, file []byte, realPS, specPS int) {
	cs := J{"lay": c.Lay, "start_rel": c.Op.Start - specPS, "size": c.Op.Size}
	fN, errN := mp4.DecodeFile(bytes.NewReader(file))
	fL, errL := mp4.DecodeFile(bytes.NewReader(file), mp4.WithDecodeMode(mp4.DecModeLazyMdat))
	fS, errS := mp4.DecodeFileSR(bits.NewFixedSliceReader(file))
	if errN != nil || errL != nil || errS != nil {
		rep.Violation("decode/range-file", fmt.Sprintf("valid file rejected: normal=%v lazy=%v sr=%v", errN, errL, errS), cs)
		return
	}
	// L1: same tree, sizes and positions
	iN, _ := infoOf(fN, "all:1")
	iL, _ := infoOf(fL, "all:1")
	if iN != iL {
		rep.Violation("tree/info-differs", "Info dump of lazily decoded file differs from the fully decoded one", cs)
	}
	mN, mL, mS := mdatOf(fN), mdatOf(fL), mdatOf(fS)
	if mN == nil || mL == nil || mS == nil {
		rep.Violation("tree/no-mdat", "decoded file has no mdat", cs)
		return
	}
	if fN.Size() != fL.Size() || mN.Size() != mL.Size() || mN.StartPos != mL.StartPos || mN.HeaderSize() != mL.HeaderSize() ||
		mN.PayloadAbsoluteOffset() != mL.PayloadAbsoluteOffset() || int(mL.PayloadAbsoluteOffset()) != realPS || int(mL.Size()) != c.Lay.Hdr+c.Lay.L {
		rep.Violation("tree/size-or-position", "sizes / positions differ between lazy and full decode (or from the file layout)",
			J{"case": cs, "normal": []uint64{fN.Size(), mN.Size(), mN.StartPos, mN.PayloadAbsoluteOffset()}, "lazy": []uint64{fL.Size(), mL.Size(), mL.StartPos, mL.PayloadAbsoluteOffset()}, "real_payload_start": realPS})
	}
	start := int64(realPS + c.Op.Start - specPS)
	size := int64(c.Op.Size)
	want := file[start : start+size]
	for _, m := range []struct {
		name string
		box  *mp4.MdatBox
	}{{"normal", mN}, {"lazy", mL}, {"sr", mS}} {
		m := m
		query(rep, "MdatBox.ReadData", cs, func() {
			got, err := m.box.ReadData(start, size, bytes.NewReader(file))
			if err != nil || !bytes.Equal(got, want) {
				key := "readdata/" + m.name
				if c.Op.Start+c.Op.Size == specPS+c.Lay.L {
					key += "/range-ends-at-last-byte"
				}
				rep.Violation(key, "ReadData of a valid range fails or returns other bytes", J{"case": cs, "err": fmt.Sprint(err), "observed": bytes2ints(got), "expected": bytes2ints(want)})
			}
		})
		query(rep, "MdatBox.CopyData", cs, func() {
			var out bytes.Buffer
			n, err := m.box.CopyData(start, size, bytes.NewReader(file), &out)
			if err != nil || n != size || !bytes.Equal(out.Bytes(), want) {
				key := "copydata/" + m.name
				if c.Op.Start+c.Op.Size == specPS+c.Lay.L {
					key += "/range-ends-at-last-byte"
				}
				rep.Violation(key, "CopyData of a valid range fails or returns other bytes", J{"case": cs, "err": fmt.Sprint(err), "n": n})
			}
		})
	}
	// L4: lazy box encodes to exactly its header
	var hb bytes.Buffer
	if err := mL.Encode(&hb); err != nil || !bytes.Equal(hb.Bytes(), ints2bytes(c.Header)) {
		rep.Violation("lazy-encode/header", "Encode of a lazily decoded mdat does not write exactly the original header", J{"case": cs, "observed": bytes2ints(hb.Bytes()), "expected": c.Header})
	}
	sw := bits.NewFixedSliceWriter(c.Lay.Hdr)
	if err := mL.EncodeSW(sw); err != nil || !bytes.Equal(sw.Bytes(), ints2bytes(c.Header)) {
		rep.Violation("lazy-encode/header-sw", "EncodeSW of a lazily decoded mdat does not write exactly the original header", J{"case": cs, "err": fmt.Sprint(err)})
	}
	if !bytes.Equal(hb.Bytes(), file[realPS-c.Lay.Hdr:realPS]) {
		rep.Violation("lazy-encode/not-original", "lazy header differs from the header bytes in the file", cs)
	}
}

// c08Drive: corpus files; every chunk-aligned and +-1 range in both modes; events validated by MdatTrace.tla.
func c08Drive(args []string) error {
	rng := rand.New(rand.NewSource(seedFromEnv()))
	tw, err := newTraceWriter(argValue(args, "-trace", "trace.ndjson"))
	if err != nil {
		return err
	}
	rep := newReport()
	dir := argValue(args, "-corpus", "/repo/mp4/testdata")
	names := []string{"prog_8s.mp4", "bbb_prog_10s.mp4", "1.m4s", "bbb5s_aac.isma", "prog_8s_dec_dashinit.mp4"}
	nPer := argInt(args, "-n", 60)
	for _, name := range names {
		data, err := ioutil.ReadFile(filepath.Join(dir, name))
		if err != nil {
			continue
		}
		fN, e1 := mp4.DecodeFile(bytes.NewReader(data))
		fL, e2 := mp4.DecodeFile(bytes.NewReader(data), mp4.WithDecodeMode(mp4.DecModeLazyMdat))
		if e1 != nil || e2 != nil {
			continue
		}
		mN, mL := mdatOf(fN), mdatOf(fL)
		if mN == nil || mL == nil {
			continue
		}
		ps := int64(mL.PayloadAbsoluteOffset())
		plen := int64(mL.Size() - mL.HeaderSize())
		tw.Reset(J{"file": name, "ps": ps, "plen": plen, "same_tree": fN.Size() == fL.Size() && mN.StartPos == mL.StartPos && mN.Size() == mL.Size()})
		for i := 0; i < nPer; i++ {
			var start, size int64
			switch i % 4 {
			case 0: // ends at the last byte
				size = 1 + rng.Int63n(minI64(plen, 5000))
				start = ps + plen - size
			case 1: // starts at the first byte
				start = ps
				size = 1 + rng.Int63n(minI64(plen, 5000))
			case 2: // whole payload
				start, size = ps, plen
			default:
				start = ps + rng.Int63n(plen)
				size = 1 + rng.Int63n(minI64(ps+plen-start, 5000))
			}
			want := data[start : start+size]
			for _, m := range []struct {
				name string
				box  *mp4.MdatBox
			}{{"normal", mN}, {"lazy", mL}} {
				got, err := m.box.ReadData(start, size, bytes.NewReader(data))
				var out bytes.Buffer
				n, err2 := m.box.CopyData(start, size, bytes.NewReader(data), &out)
				tw.Ev(J{"ev": "range", "mode": m.name, "start": start, "size": size,
					"read_ok": err == nil && bytes.Equal(got, want), "copy_ok": err2 == nil && n == size && bytes.Equal(out.Bytes(), want)})
			}
		}
		rep.Count(name, true, J{"file": name, "payload_start": ps, "payload_len": plen})
	}
	rep.Extra["events"] = tw.N
	rep.Extra["traces"] = tw.T
	rep.Done()
	return tw.Close()
}

func minI64(a, b int64) int64 {
	if a < b {
		return a
	}
	return b
}

// sparseFile: prefix bytes, a gap of gapLen bytes whose byte at gap offset o is payloadByte(o mod 2^20), suffix bytes - a
// file of more than 4 GiB that needs no memory
type sparseFile struct {
	prefix, suffix []byte
	gapLen         int64
	pos            int64
}

func (f *sparseFile) size() int64 { return int64(len(f.prefix)) + f.gapLen + int64(len(f.suffix)) }

func (f *sparseFile) Seek(off int64, whence int) (int64, error) {
	switch whence {
	case io.SeekStart:
		f.pos = off
	case io.SeekCurrent:
		f.pos += off
	case io.SeekEnd:
		f.pos = f.size() + off
	}
	if f.pos < 0 {
		return 0, fmt.Errorf("negative position")
	}
	return f.pos, nil
}

func (f *sparseFile) Read(p []byte) (int, error) {
	if f.pos >= f.size() {
		return 0, io.EOF
	}
	n := 0
	for n < len(p) && f.pos < f.size() {
		switch {
		case f.pos < int64(len(f.prefix)):
			p[n] = f.prefix[f.pos]
		case f.pos < int64(len(f.prefix))+f.gapLen:
			p[n] = payloadByte(int((f.pos - int64(len(f.prefix))) & 0xfffff))
		default:
			p[n] = f.suffix[f.pos-int64(len(f.prefix))-f.gapLen]
		}
		n++
		f.pos++
		if n >= 1<<16 {
			break
		}
	}
	return n, nil
}

// c08Big: an mdat of 2^32 + x payload bytes, lazily decoded from a sparse file. What the in-memory mode would report is known
// without building it: box size = header + payload, header form as the spec says, the next box right behind the payload.
func c08Big(rep *Report, c *c08Case, raw string) {
	L := int64(1)<<32 + c.Lay.X
	var want int
	_ = json.Unmarshal(c.Want, &want)
	ftyp := mFtyp("isom", 0x200, "isom")
	stbl := [][]byte{mStsd(), mStts([]runEntry{{1, 1}}), mStsc([]stscEntry{{1, 1, 1}}), mStsz(0, []int{7}), mStco([]int64{int64(len(ftyp)) + 400})}
	moov := mkBox("moov", mMvhd(1000, 1, 2), mTrak(1, 1000, 1, true, nil, stbl...))
	var hdr []byte
	if want == 8 {
		hdr = cat(be32(int64(8)+L), []byte("mdat"))
	} else {
		hdr = cat(be32(1), []byte("mdat"), be64(16+L))
	}
	var post []byte
	if c.Lay.Post > 0 {
		post = mkBox("free", zeros(c.Lay.Post-8))
	}
	sf := &sparseFile{prefix: cat(ftyp, moov, hdr), gapLen: L, suffix: post}
	cs := J{"payload": fmt.Sprintf("2^32%+d", c.Lay.X), "header_bytes": want, "post": c.Lay.Post}
	defer func() {
		if r := recover(); r != nil {
			rep.Violation("big/panic", fmt.Sprintf("lazy decoding / reading of a > 4 GiB mdat panics: %v", r), cs)
		}
	}()
	f, err := mp4.DecodeFile(sf, mp4.WithDecodeMode(mp4.DecModeLazyMdat))
	if err != nil {
		rep.Violation("big/decode", "lazy decode of a well-formed file with a large mdat fails: "+err.Error(), cs)
		return
	}
	mdatStart := int64(len(ftyp) + len(moov))
	if f.Mdat == nil || int64(f.Mdat.StartPos) != mdatStart {
		rep.Violation("big/mdat-start", "mdat start position wrong", cs)
		return
	}
	if int64(f.Mdat.Size()) != int64(want)+L || int(f.Mdat.HeaderSize()) != want {
		rep.Violation("big/mdat-size", fmt.Sprintf("lazily decoded mdat reports size %d / header %d, the file has %d / %d", f.Mdat.Size(), f.Mdat.HeaderSize(), int64(want)+L, want), cs)
	}
	if c.Lay.Post > 0 {
		last := f.Children[len(f.Children)-1]
		found := false
		for _, ch := range f.Children {
			if ch.Type() == "free" {
				found = true
			}
		}
		if !found || last.Type() != "free" {
			rep.Violation("big/following-box", "the box behind the large mdat is not found where the file has it", cs)
		}
	}
	// the last bytes of the payload, read through the lazy box
	tail := int64(c.Op.Tail)
	start := mdatStart + int64(want) + L - tail
	got, err := f.Mdat.ReadData(start, tail, sf)
	ok := err == nil && int64(len(got)) == tail
	for i := int64(0); ok && i < tail; i++ {
		ok = got[i] == payloadByte(int((L-tail+i)&0xfffff))
	}
	if !ok {
		rep.Violation("big/readdata", fmt.Sprintf("ReadData of the last %d payload bytes fails or returns other bytes (%v)", tail, err), cs)
	}
	// a lazy box encodes to exactly its header
	var w bytes.Buffer
	if err := f.Mdat.Encode(&w); err != nil || !bytes.Equal(w.Bytes(), hdr) {
		rep.Violation("big/header", fmt.Sprintf("lazy mdat encodes to %x (%v), the file has %x", w.Bytes(), err, hdr), cs)
	}
	rep.Count(raw, true, nil)
}

// c08Segmenter: the segmenter example on the progressive inputs of Segmenter.tla, with and without -lazy: every output
// file of the lazy run is byte-identical to the file of the in-memory run (one file per track, and multiplexed).
func c08Segmenter(args []string) error {
	rep := newReport()
	segBin := argValue(args, "-segmenter", "")
	tmp, err := ioutil.TempDir("", "c08seg.")
	if err != nil {
		return err
	}
	defer os.RemoveAll(tmp)
	idx := 0
	compared := 0
	err = readLines(argValue(args, "-in", "-"), func(line []byte) error {
		var c segCase
		if err := json.Unmarshal(line, &c); err != nil {
			return err
		}
		idx++
		if c.Mode != "prog" {
			return nil
		}
		dir := filepath.Join(tmp, fmt.Sprint("c", idx))
		_ = os.MkdirAll(dir, 0755)
		defer os.RemoveAll(dir)
		inPath := filepath.Join(dir, "in.mp4")
		if err := ioutil.WriteFile(inPath, buildMultiProg(c.Tracks, idx%3 == 1, false, false, false, false), 0644); err != nil {
			return err
		}
		kinds := make([]string, len(c.Tracks))
		for t, tr := range c.Tracks {
			kinds[t] = fmt.Sprintf("%s n=%d spc=%v", tr.Kind, len(tr.Durs), tr.Spc)
		}
		judged := false
		for _, mux := range []bool{false, true} {
			outs := map[bool]map[string][]byte{}
			okBoth := true
			for _, lazy := range []bool{false, true} {
				a := []string{"-d", fmt.Sprint(c.D)}
				if mux {
					a = append(a, "-m")
				}
				if lazy {
					a = append(a, "-lazy")
				}
				sub := filepath.Join(dir, fmt.Sprintf("m%v_l%v", mux, lazy))
				_ = os.MkdirAll(sub, 0755)
				cmd := exec.Command(segBin, append(a, inPath, "out")...)
				cmd.Dir = sub
				if err := cmd.Run(); err != nil {
					okBoth = false
					break
				}
				files, _ := filepath.Glob(filepath.Join(sub, "out*"))
				m := map[string][]byte{}
				for _, f := range files {
					b, _ := ioutil.ReadFile(f)
					m[filepath.Base(f)] = b
				}
				outs[lazy] = m
			}
			if !okBoth {
				continue
			}
			judged = true
			compared++
			cs := J{"tool": "segmenter", "multiplexed": mux, "d": c.D, "tracks": kinds}
			if len(outs[true]) != len(outs[false]) {
				rep.Violation("segmenter/lazy-vs-memory/files", fmt.Sprintf("-lazy writes %d files, without it %d", len(outs[true]), len(outs[false])), cs)
				continue
			}
			names := []string{}
			for name := range outs[false] {
				names = append(names, name)
			}
			sort.Strings(names)
			for _, name := range names {
				if !bytes.Equal(outs[false][name], outs[true][name]) {
					rep.Violation("segmenter/lazy-vs-memory/bytes", fmt.Sprintf("%s written with -lazy differs from the file written from memory", name), cs)
					break
				}
			}
		}
		rep.Count(string(line), judged, nil)
		return nil
	})
	if err != nil {
		return err
	}
	rep.Extra["compared"] = compared
	rep.Done()
	return nil
}
