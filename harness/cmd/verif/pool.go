package main

// Object pool shared by C02, C03 (and the corpus traces of C01): structures obtained from the real
// decoders (every box of every corpus file at every nesting level, materialised FileAsm layouts) and
// structures built through the public constructors (fragments, media segments, init segments).

import (
	"bytes"
	"fmt"
	"io"
	"io/ioutil"
	"path/filepath"
	"sort"
	"strings"

	"github.com/Eyevinn/mp4ff/bits"
	"github.com/Eyevinn/mp4ff/mp4"
)

type sizedObj interface {
	Size() uint64
	Encode(w io.Writer) error
	EncodeSW(sw bits.SliceWriter) error
	Info(w io.Writer, specificBoxLevels, indent, indentStep string) error
}

type poolObj struct {
	Name string // origin, e.g. "prog_8s.mp4:moov/trak/mdia"
	Kind string // box | fragment | segment | init | file
	Type string // box type or kind
	// fresh returns a new instance of the object (histories mutate objects, e.g. trun optimisation)
	fresh func() (sizedObj, error)
	// setOpt switches trun optimisation on for objects that support it (nil otherwise)
	setOpt func(o sizedObj)
	// raw bytes the object was decoded from (nil for API-built objects)
	raw []byte
}

func corpusFiles(dir string) []string {
	var out []string
	for _, pat := range []string{"*.mp4", "*.m4s", "*.cmfv", "*.isma", "*.dat", "*.bin"} {
		m, _ := filepath.Glob(filepath.Join(dir, pat))
		out = append(out, m...)
	}
	sort.Strings(out)
	return out
}

type childrenBox interface {
	GetChildren() []mp4.Box
}

// collectBoxes walks a decoded box tree and calls f for every box with its path.
func collectBoxes(b mp4.Box, path string, f func(b mp4.Box, path string)) {
	f(b, path)
	if cb, ok := b.(childrenBox); ok {
		for k, c := range cb.GetChildren() {
			if c != nil {
				collectBoxes(c, fmt.Sprintf("%s/%s%d", path, c.Type(), k), f)
			}
		}
	}
}

// boxBytesFromFile: locate box bytes by re-walking the file with the independent walker along
// the same path index sequence is fragile; instead encode-independent raw bytes are taken from the
// top-level boxes only, and nested boxes are re-decoded from their own Encode() output (only used as
// "structure reachable by decoding", which they are).
func buildPool(corpusDir string, withLayouts bool) ([]poolObj, error) {
	var pool []poolObj
	type namedData struct {
		name string
		data []byte
	}
	var inputs []namedData
	for _, path := range corpusFiles(corpusDir) {
		data, err := ioutil.ReadFile(path)
		if err != nil {
			continue
		}
		inputs = append(inputs, namedData{filepath.Base(path), data})
	}
	for _, m := range materialisedFiles() {
		inputs = append(inputs, namedData{m.name, m.data})
	}
	for _, in := range inputs {
		data := in.data
		name := in.name
		f, err := safeDecodeFile(data)
		if err != nil {
			continue // not a decodable file (e.g. raw fragments of boxes): skipped
		}
		data0 := data
		pool = append(pool, poolObj{Name: name, Kind: "file", Type: "file", raw: data0,
			fresh:  func() (sizedObj, error) { return safeDecodeFile(data0) },
			setOpt: func(o sizedObj) { o.(*mp4.File).EncOptimize = mp4.OptimizeTrun }})
		pool = append(pool, poolObj{Name: name + "(boxtree)", Kind: "file", Type: "file", raw: data0,
			fresh: func() (sizedObj, error) {
				f, err := safeDecodeFile(data0)
				if err == nil {
					f.FragEncMode = mp4.EncModeBoxTree
				}
				return f, err
			}})
		// top-level boxes with their raw bytes; nested boxes via path
		top, werr := walkBoxes(data, 0)
		if werr == nil && len(top) == len(f.Children) {
			for i, ch := range f.Children {
				raw := data[top[i].Start : top[i].Start+top[i].Size]
				topPath := fmt.Sprintf("%s#%d/%s", name, i, ch.Type())
				collectBoxes(ch, topPath, func(b mp4.Box, p string) {
					obj := poolObj{Name: p, Kind: "box", Type: b.Type(),
						fresh: func() (sizedObj, error) {
							tb, err := mp4.DecodeBox(0, bytes.NewReader(raw))
							if err != nil {
								return nil, err
							}
							return findByPath(tb, topPath, p)
						}}
					if p == topPath {
						obj.raw = raw
					}
					pool = append(pool, obj)
				})
			}
		}
		// segments / fragments / init of fragmented files
		if f.IsFragmented() {
			if f.Init != nil {
				pool = append(pool, poolObj{Name: name + ":init", Kind: "init", Type: "init", fresh: func() (sizedObj, error) {
					f, err := safeDecodeFile(data0)
					if err != nil {
						return nil, err
					}
					return f.Init, nil
				}})
			}
			for si := range f.Segments {
				si := si
				pool = append(pool, poolObj{Name: fmt.Sprintf("%s:seg%d", name, si), Kind: "segment", Type: "segment",
					fresh: func() (sizedObj, error) {
						f, err := safeDecodeFile(data0)
						if err != nil {
							return nil, err
						}
						return f.Segments[si], nil
					},
					setOpt: func(o sizedObj) { o.(*mp4.MediaSegment).EncOptimize = mp4.OptimizeTrun }})
				if si < 3 {
					for fi := range f.Segments[si].Fragments {
						fi := fi
						if fi >= 3 {
							break
						}
						pool = append(pool, poolObj{Name: fmt.Sprintf("%s:seg%d:frag%d", name, si, fi), Kind: "fragment", Type: "fragment",
							fresh: func() (sizedObj, error) {
								f, err := safeDecodeFile(data0)
								if err != nil {
									return nil, err
								}
								return f.Segments[si].Fragments[fi], nil
							},
							setOpt: func(o sizedObj) { o.(*mp4.Fragment).EncOptimize = mp4.OptimizeTrun }})
					}
				}
			}
		}
	}
	pool = append(pool, apiBuiltObjects()...)
	return pool, nil
}

func safeDecodeFile(data []byte) (f *mp4.File, err error) {
	defer func() {
		if r := recover(); r != nil {
			err = fmt.Errorf("panic: %v", r)
		}
	}()
	return mp4.DecodeFile(bytes.NewReader(data))
}

// findByPath finds the box with the given path inside the re-decoded top-level box.
func findByPath(top mp4.Box, prefix, want string) (sizedObj, error) {
	var found mp4.Box
	seen := map[string]int{}
	collectBoxes(top, prefix, func(b mp4.Box, p string) {
		seen[p]++
		if p == want && found == nil {
			found = b
		}
	})
	if found == nil {
		return nil, fmt.Errorf("path %s not found", want)
	}
	return found, nil
}

// materialisedFiles: files written by the harness's own box writer with shapes the corpus lacks
// (64-bit mdat headers, mdat before moov, several tracks, extra top-level boxes).
// mixedProtectionFiles: two-track fragmented files whose tracks have DIFFERENT protection parameters, written by
// the harness's own box writer: (a) clear video + protected audio, (b) video with 16-byte IVs and sub-samples +
// audio with 8-byte IVs. A decoder that looks up the protection parameters per moof instead of per traf
// parses the second track's senc with the first track's parameters.
func mixedProtectionFiles() []struct {
	name string
	data []byte
} {
	type nd = struct {
		name string
		data []byte
	}
	sinf := func(orig string, ivSize int) []byte {
		tenc := mkFull("tenc", 0, 0, []byte{0, 0, 1, byte(ivSize)}, bytes.Repeat([]byte{0x33}, 16))
		return mkBox("sinf", mkBox("frma", []byte(orig)), mkFull("schm", 0, 0, []byte("cenc"), be32(0x10000)), mkBox("schi", tenc))
	}
	build := func(videoIV, audioIV int) []byte {
		var vEntry, aEntry []byte
		if videoIV > 0 {
			vEntry = mVisualEntry("encv", 640, 360, sinf("avc1", videoIV))
		} else {
			vEntry = mVisualEntry("avc1", 640, 360)
		}
		aEntry = mAudioEntry("enca", 2, 16, 48000, sinf("mp4a", audioIV))
		empty := [][]byte{mStts(nil), mStsc(nil), mStsz(0, nil), mStco(nil)}
		trakV := mTrak(1, 90000, 0, true, nil, append([][]byte{mStsd(vEntry)}, empty...)...)
		trakA := mTrak(2, 48000, 0, false, nil, append([][]byte{mStsd(aEntry)}, empty...)...)
		ini := cat(mFtyp("iso6", 0, "iso6", "cmfc"), mkBox("moov", mMvhd(1000, 0, 3), trakV, trakA, mkBox("mvex", mTrex(1, 0, 0, 0), mTrex(2, 0, 0, 0))))
		vs := []mSample{{3000, 40, 0x02000000, 0}, {3000, 30, 0x01010000, 0}}
		as := []mSample{{1024, 11, 0x02000000, 0}, {1024, 12, 0x02000000, 0}, {1024, 13, 0x02000000, 0}}
		sencOf := func(ivSize int, samples []mSample, subs bool) []byte {
			var p []byte
			for i, sm := range samples {
				iv := bytes.Repeat([]byte{byte(0xa0 + i)}, ivSize)
				p = cat(p, iv)
				if subs {
					p = cat(p, []byte{0, 1}, []byte{0, 5}, be32(sm.Size-5))
				}
			}
			fl := 0
			if subs {
				fl = 2
			}
			return mkFull("senc", 0, fl, be32(int64(len(samples))), p)
		}
		var payload []byte
		for i, sm := range vs {
			payload = cat(payload, tokenBytes(1, i+1, int(sm.Size)))
		}
		vlen := len(payload)
		for i, sm := range as {
			payload = cat(payload, tokenBytes(2, i+1, int(sm.Size)))
		}
		mk := func(offV, offA int64) []byte {
			kidsV := [][]byte{mTfhd(0x20000, 1, 0, 0, 0, 0, 0), mTfdt(1, 9000), mTrun(1, 0xf01, offV, 0, vs)}
			if videoIV > 0 {
				kidsV = append(kidsV, sencOf(videoIV, vs, true))
			}
			kidsA := [][]byte{mTfhd(0x20000, 2, 0, 0, 0, 0, 0), mTfdt(1, 4800), mTrun(1, 0xf01, offA, 0, as), sencOf(audioIV, as, false)}
			return mkBox("moof", mMfhd(1), mkBox("traf", kidsV...), mkBox("traf", kidsA...))
		}
		moof := mk(0, 0)
		base := int64(len(moof) + 8)
		return cat(ini, mk(base, base+int64(vlen)), mMdat(payload, false))
	}
	return []nd{{"mat:mixed-protection/clear-video+enca-iv8", build(0, 8)}, {"mat:mixed-protection/encv-iv16-subsamples+enca-iv8", build(16, 8)},
		{"mat:mixed-protection/encv-iv8-subsamples+enca-iv16", build(8, 16)}}
}

func materialisedFiles() []struct {
	name string
	data []byte
} {
	type nd = struct {
		name string
		data []byte
	}
	var out []nd
	stbl := func(n int) [][]byte {
		return [][]byte{mStsd(), mStts([]runEntry{{1, 1}}), mStsc([]stscEntry{{1, 1, 1}}), mStsz(0, []int{n})}
	}
	for _, large := range []bool{false, true} {
		f, _ := buildProgFile(stbl(7), []int{0}, false, mkPayload(7), nil, 1000, 1, large)
		out = append(out, nd{fmt.Sprintf("matter:prog(large=%v)", large), f})
		ini := mFragInit([]int64{1}, 1000)
		fr1 := mSimpleFragment(1, 1, 0, []mSample{{10, 4, 0x02000000, 0}, {10, 5, 0x01010000, 2}}, mkPayload(9), large)
		fr2 := mSimpleFragment(2, 1, 20, []mSample{{10, 3, 0x01010000, 0}}, mkPayload(3), large)
		out = append(out, nd{fmt.Sprintf("matter:frag(large=%v)", large), cat(ini, mStyp("msdh", 0, "msdh"), fr1, fr2)})
		out = append(out, nd{fmt.Sprintf("matter:segment-only(large=%v)", large), cat(mStyp("msdh", 0, "msdh"), fr1, fr2)})
		ftyp := mFtyp("isom", 0x200, "isom")
		hdr := 8
		if large {
			hdr = 16
		}
		trak := mTrak(1, 1000, 1, true, nil, append(stbl(7), mStco([]int64{int64(len(ftyp) + hdr)}))...)
		out = append(out, nd{fmt.Sprintf("matter:mdat-first(large=%v)", large), cat(ftyp, mMdat(mkPayload(7), large), mkBox("moov", mMvhd(1000, 1, 2), trak), mkBox("free", zeros(3)))})
	}
	// fragments whose trun carries NO data offset (8.8.8: the data then starts at the tfhd base data offset, or at the
	// moof start with default-base-is-moof, or follows the previous track fragment's data): an encoder that "fixes up"
	// trun offsets must not grow such a trun
	{
		ini := mFragInit([]int64{1}, 1000)
		smp := []mSample{{10, 4, 0x02000000, 0}, {10, 5, 0x01010000, 2}}
		for _, form := range []string{"base-data-offset", "default-base-is-moof", "neither"} {
			build := func(base int64) []byte {
				tfhd := mTfhd(0, 1, 0, 0, 0, 0, 0)
				switch form {
				case "base-data-offset":
					tfhd = mTfhd(0x1, 1, base, 0, 0, 0, 0)
				case "default-base-is-moof":
					tfhd = mTfhd(0x20000, 1, 0, 0, 0, 0, 0)
				}
				return mkBox("moof", mMfhd(1), mkBox("traf", tfhd, mTfdt(1, 0), mTrun(1, 0xf00, 0, 0, smp)))
			}
			moof := build(int64(len(ini) + len(build(0)) + 8))
			out = append(out, nd{"matter:frag-trun-without-data-offset(" + form + ")", cat(ini, moof, mMdat(mkPayload(9), false))})
			out = append(out, nd{"matter:segment-trun-without-data-offset(" + form + ")", cat(mStyp("msdh", 0, "msdh"), build(int64(24+len(build(0))+8)), mMdat(mkPayload(9), false))})
		}
	}
	out = append(out, encryptedSegments()...)
	out = append(out, mixedProtectionFiles()...)
	return out
}

// apiBuiltObjects: fragments, media segments and init segments built through the public constructors.
func apiBuiltObjects() []poolObj {
	var pool []poolObj
	mkFrag := func(kind string, hist []struct {
		t   int
		cls int
	}, seq uint32) func() (*mp4.Fragment, error) {
		return func() (*mp4.Fragment, error) {
			var frag *mp4.Fragment
			var err error
			if kind == "single" {
				frag, err = mp4.CreateFragment(seq, 1)
			} else {
				frag, err = mp4.CreateMultiTrackFragment(seq, []uint32{1, 2})
			}
			if err != nil {
				return nil, err
			}
			classes := []mp4.Sample{{Flags: 0x02000000, Dur: 10, Size: 3}, {Flags: 0x01010000, Dur: 10, Size: 3},
				{Flags: 0x01010000, Dur: 20, Size: 4, CompositionTimeOffset: 5}, {Flags: 0x01010000, Dur: 10, Size: 0}}
			dts := map[int]uint64{1: 1000, 2: 2000}
			for k, h := range hist {
				s := classes[h.cls]
				if err := frag.AddFullSampleToTrack(mp4.FullSample{Sample: s, DecodeTime: dts[h.t], Data: tokenBytes(h.t, k+1, int(s.Size))}, uint32(h.t)); err != nil {
					return nil, err
				}
				dts[h.t] += uint64(s.Dur)
			}
			return frag, nil
		}
	}
	type tc = struct {
		t   int
		cls int
	}
	hists := map[string][]tc{
		"single-1":       {{1, 0}},
		"single-eq":      {{1, 0}, {1, 1}, {1, 1}},
		"single-mixed":   {{1, 0}, {1, 2}, {1, 3}, {1, 1}},
		"multi-va":       {{1, 0}, {2, 1}},
		"multi-vav":      {{1, 0}, {2, 1}, {1, 1}},
		"multi-only2":    {{2, 1}, {2, 1}},
		"multi-vvaavv":   {{1, 0}, {1, 1}, {2, 1}, {2, 1}, {1, 2}, {1, 1}},
		"single-allsame": {{1, 1}, {1, 1}, {1, 1}, {1, 1}},
	}
	names := make([]string, 0, len(hists))
	for n := range hists {
		names = append(names, n)
	}
	sort.Strings(names)
	for _, n := range names {
		h := hists[n]
		kind := "multi"
		if strings.HasPrefix(n, "single") {
			kind = "single"
		}
		mk := mkFrag(kind, h, 1)
		pool = append(pool, poolObj{Name: "api:frag:" + n, Kind: "fragment", Type: "fragment",
			fresh:  func() (sizedObj, error) { return mk() },
			setOpt: func(o sizedObj) { o.(*mp4.Fragment).EncOptimize = mp4.OptimizeTrun }})
		mk2 := mkFrag(kind, h, 2)
		pool = append(pool, poolObj{Name: "api:seg:" + n, Kind: "segment", Type: "segment",
			fresh: func() (sizedObj, error) {
				seg := mp4.NewMediaSegment()
				f1, err := mk()
				if err != nil {
					return nil, err
				}
				f2, err := mk2()
				if err != nil {
					return nil, err
				}
				seg.AddFragment(f1)
				seg.AddFragment(f2)
				return seg, nil
			},
			setOpt: func(o sizedObj) { o.(*mp4.MediaSegment).EncOptimize = mp4.OptimizeTrun }})
	}
	// mdat boxes and fragments whose payload is held as DataParts (the exported field is also set directly by callers)
	pool = append(pool, poolObj{Name: "api:mdat:dataparts-literal", Kind: "box", Type: "mdat", fresh: func() (sizedObj, error) {
		return &mp4.MdatBox{DataParts: [][]byte{{1, 2, 3}, {4, 5}, {}}}, nil
	}})
	pool = append(pool, poolObj{Name: "api:mdat:dataparts-added-and-appended", Kind: "box", Type: "mdat", fresh: func() (sizedObj, error) {
		m := &mp4.MdatBox{}
		m.AddSampleDataPart([]byte{9, 8, 7, 6})
		m.DataParts = append(m.DataParts, []byte{5, 4})
		return m, nil
	}})
	pool = append(pool, poolObj{Name: "api:mdat:dataparts-reset-and-refilled", Kind: "box", Type: "mdat", fresh: func() (sizedObj, error) {
		m := &mp4.MdatBox{}
		m.AddSampleDataPart(make([]byte, 100))
		m.DataParts = m.DataParts[:0]
		m.AddSampleDataPart([]byte{1, 2, 3})
		return m, nil
	}})
	pool = append(pool, poolObj{Name: "api:frag:sample-intervals-reused", Kind: "fragment", Type: "fragment", fresh: func() (sizedObj, error) {
		frag, err := mp4.CreateFragment(7, 1)
		if err != nil {
			return nil, err
		}
		smp := []mp4.Sample{{Flags: 0x02000000, Dur: 10, Size: 5}, {Flags: 0x01010000, Dur: 10, Size: 6}}
		if err := frag.AddSampleInterval(mp4.SampleInterval{FirstDecodeTime: 100, Samples: smp, Size: 11, Data: tokenBytes(1, 1, 11)}); err != nil {
			return nil, err
		}
		// reuse the fragment object for the next interval, as a segmenter that recycles its fragment does
		frag.Mdat.DataParts = frag.Mdat.DataParts[:0]
		frag.Moof.Traf.Trun.Samples = frag.Moof.Traf.Trun.Samples[:0]
		if err := frag.AddSampleInterval(mp4.SampleInterval{FirstDecodeTime: 120, Samples: smp[:1], Size: 5, Data: tokenBytes(1, 2, 5)}); err != nil {
			return nil, err
		}
		return frag, nil
	}})
	// init segments through the API
	for _, desc := range []string{"avc1", "hvc1", "aac2", "aac29", "ac3", "ec3", "wvtt", "stpp", "none"} {
		desc := desc
		pool = append(pool, poolObj{Name: "api:init:" + desc, Kind: "init", Type: "init", fresh: func() (sizedObj, error) {
			ini := mp4.CreateEmptyInit()
			mt := map[string]string{"avc1": "video", "hvc1": "video", "aac2": "audio", "aac29": "audio", "ac3": "audio", "ec3": "audio", "wvtt": "wvtt", "stpp": "stpp", "none": "video"}[desc]
			ini.AddEmptyTrack(1000, mt, "en")
			tr := ini.Moov.Trak
			var err error
			switch desc {
			case "avc1":
				err = tr.SetAVCDescriptor("avc1", [][]byte{unhex(avcSPSnalu)}, [][]byte{unhex(avcPPSnalu)}, true)
			case "hvc1":
				err = tr.SetHEVCDescriptor("hvc1", [][]byte{unhex(hevcVPSnalu)}, [][]byte{unhex(hevcSPSnalu)}, [][]byte{unhex(hevcPPSnalu)}, nil, true)
			case "aac2":
				err = tr.SetAACDescriptor(2, 48000)
			case "aac29":
				err = tr.SetAACDescriptor(29, 24000)
			case "ac3":
				err = tr.SetAC3Descriptor(&mp4.Dac3Box{BSID: 8, ACMod: 7, LFEOn: 1, BitRateCode: 10})
			case "ec3":
				err = tr.SetEC3Descriptor(&mp4.Dec3Box{DataRate: 448, EC3Subs: []mp4.EC3Sub{{BSID: 16, ACMod: 7, LFEOn: 1}}})
			case "wvtt":
				err = tr.SetWvttDescriptor("WEBVTT")
			case "stpp":
				err = tr.SetStppDescriptor("", "", "")
			}
			return ini, err
		}})
	}
	return pool
}

// wellSized checks with the independent walker that every box header's size equals the box length
// and that known containers are exactly header + sum of children.
var pureContainers = map[string]bool{"moov": true, "trak": true, "mdia": true, "minf": true, "stbl": true, "dinf": true, "edts": true,
	"mvex": true, "moof": true, "traf": true, "mfra": true, "udta": true, "sinf": true, "schi": true}

func wellSized(data []byte) bool {
	bs, err := walkBoxes(data, 0)
	if err != nil {
		return false
	}
	for _, b := range bs {
		if pureContainers[b.Type] && !wellSized(b.Payload) {
			return false
		}
	}
	return true
}

func fnvDigest(b []byte) int {
	h := uint32(2166136261)
	for _, c := range b {
		h ^= uint32(c)
		h *= 16777619
	}
	return int(h & 0x3fffffff)
}

func init() {
	register("pool-list", func(args []string) error {
		pool, err := buildPool(argValue(args, "-corpus", "/repo/mp4/testdata"), true)
		if err != nil {
			return err
		}
		for _, p := range pool {
			if p.Kind != "box" || argValue(args, "-all", "") != "" {
				emit(J{"name": p.Name, "kind": p.Kind, "type": p.Type})
			}
		}
		return nil
	})
}
