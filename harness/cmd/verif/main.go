// Command verif is the Go side of the model-based verification framework: it replays
// behaviours exported by TLC into the real mp4ff code, drives seeded random executions and
// records NDJSON traces that the TLA+ trace specifications validate.
package main

import (
	"bufio"
	"encoding/json"
	"fmt"
	"os"
	"sort"
	"strconv"
	"sync"
)

type cmdFunc func(args []string) error

var commands = map[string]cmdFunc{}

func register(name string, f cmdFunc) { commands[name] = f }

func main() {
	if len(os.Args) < 2 {
		names := make([]string, 0, len(commands))
		for n := range commands {
			names = append(names, n)
		}
		sort.Strings(names)
		fmt.Fprintln(os.Stderr, "usage: verif <command> [args]; commands:", names)
		os.Exit(2)
	}
	f, ok := commands[os.Args[1]]
	if !ok {
		fmt.Fprintln(os.Stderr, "unknown command", os.Args[1])
		os.Exit(2)
	}
	if err := f(os.Args[2:]); err != nil {
		fmt.Fprintln(os.Stderr, "error:", err)
		os.Exit(2)
	}
	flushOut()
}

// ---------------------------------------------------------------- output protocol

var (
	outMu sync.Mutex
	outW  = bufio.NewWriterSize(os.Stdout, 1<<20)
)

func emit(v interface{}) {
	b, err := json.Marshal(v)
	if err != nil {
		panic(err)
	}
	outMu.Lock()
	outW.Write(b)
	outW.WriteByte('\n')
	outMu.Unlock()
}

func flushOut() {
	outMu.Lock()
	outW.Flush()
	outMu.Unlock()
}

// J is a JSON object.
type J map[string]interface{}

// Report collects verdicts of one replay/drive run.
type Report struct {
	mu          sync.Mutex
	Evaluations int
	Nontrivial  int
	distinct    map[string]bool
	Samples     []interface{}
	vioCount    map[string]int
	Extra       J
}

func newReport() *Report {
	return &Report{distinct: map[string]bool{}, vioCount: map[string]int{}, Extra: J{}}
}

// Violation records a Prop violation observed on real code. key is a structural signature.
func (r *Report) Violation(key, what string, c interface{}) {
	r.mu.Lock()
	n := r.vioCount[key]
	r.vioCount[key] = n + 1
	r.mu.Unlock()
	if n < 3 { // keep output bounded: first cases per key, the rest only counted
		emit(J{"type": "violation", "key": key, "what": what, "case": c})
	} else {
		emit(J{"type": "violation", "key": key, "what": what, "case": nil})
	}
}

// Drift records a mismatch between real code and the Impl model that does not break Prop.
func (r *Report) Drift(key, what string, c interface{}) {
	r.mu.Lock()
	n := r.vioCount["drift:"+key]
	r.vioCount["drift:"+key] = n + 1
	r.mu.Unlock()
	if n < 2 {
		emit(J{"type": "drift", "key": key, "what": what, "case": c})
	}
}

// Count registers one evaluated case; id identifies distinct cases, nontrivial says the judged
// branch was reached.
func (r *Report) Count(id string, nontrivial bool, sample interface{}) {
	r.mu.Lock()
	r.Evaluations++
	if nontrivial && !r.distinct[id] {
		r.distinct[id] = true
		r.Nontrivial++
	}
	if sample != nil && len(r.Samples) < 3 {
		r.Samples = append(r.Samples, sample)
	}
	r.mu.Unlock()
}

func (r *Report) Done() {
	emit(J{"type": "summary", "evaluations": r.Evaluations, "nontrivial": r.Nontrivial,
		"samples": r.Samples, "extra": r.Extra})
}

// ---------------------------------------------------------------- input helpers

// readLines calls f for every NDJSON line of the file (or stdin when path is "-").
func readLines(path string, f func(line []byte) error) error {
	var in *os.File
	if path == "-" || path == "" {
		in = os.Stdin
	} else {
		var err error
		in, err = os.Open(path)
		if err != nil {
			return err
		}
		defer in.Close()
	}
	sc := bufio.NewScanner(in)
	sc.Buffer(make([]byte, 1<<20), 1<<28)
	for sc.Scan() {
		b := sc.Bytes()
		if len(b) == 0 {
			continue
		}
		cp := make([]byte, len(b))
		copy(cp, b)
		if err := f(cp); err != nil {
			return err
		}
	}
	return sc.Err()
}

// ---------------------------------------------------------------- trace writer

type TraceWriter struct {
	f *os.File
	w *bufio.Writer
	N int // events
	T int // traces (resets)
}

func newTraceWriter(path string) (*TraceWriter, error) {
	f, err := os.Create(path)
	if err != nil {
		return nil, err
	}
	return &TraceWriter{f: f, w: bufio.NewWriterSize(f, 1<<20)}, nil
}

func (t *TraceWriter) Reset(kv J) {
	if kv == nil {
		kv = J{}
	}
	kv["ev"] = "reset"
	t.T++
	t.Ev(kv)
}

func (t *TraceWriter) Ev(kv J) {
	b, err := json.Marshal(kv)
	if err != nil {
		panic(err)
	}
	t.w.Write(b)
	t.w.WriteByte('\n')
	t.N++
}

func (t *TraceWriter) Close() error {
	if err := t.w.Flush(); err != nil {
		return err
	}
	return t.f.Close()
}

// ---------------------------------------------------------------- misc

func seedFromEnv() int64 {
	s, err := strconv.ParseInt(os.Getenv("VERIF_SEED"), 10, 64)
	if err != nil {
		return 1
	}
	return s
}

func argValue(args []string, name, def string) string {
	for i := 0; i < len(args)-1; i++ {
		if args[i] == name {
			return args[i+1]
		}
	}
	return def
}

func argInt(args []string, name string, def int) int {
	v := argValue(args, name, "")
	if v == "" {
		return def
	}
	n, err := strconv.Atoi(v)
	if err != nil {
		return def
	}
	return n
}

func ints2bytes(a []int) []byte {
	b := make([]byte, len(a))
	for i, v := range a {
		b[i] = byte(v)
	}
	return b
}

func bytes2ints(b []byte) []int {
	a := make([]int, len(b))
	for i, v := range b {
		a[i] = int(v)
	}
	return a
}
