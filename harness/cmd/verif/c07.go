package main

// C06 / C07: Common Encryption. Replays Cenc.tla samples through the real InitProtect /
// EncryptFragment / DecryptInit / DecryptSegment, observes the encrypted output with the harness's
// own walker and an independent cipher schedule built on the raw AES block function only, and
// records the events that CencTrace.tla validates.

import (
	"bytes"
	"crypto/aes"
	"encoding/binary"
	"encoding/hex"
	"encoding/json"
	"fmt"
	"io/ioutil"
	"math/rand"
	"os"
	"os/exec"
	"path/filepath"
	"strings"

	"github.com/Eyevinn/mp4ff/avc"
	"github.com/Eyevinn/mp4ff/mp4"
)

func init() {
	register("cenc-drive", cencDrive)
}

type cencNal struct {
	Kind string `json:"kind"`
	Len  int    `json:"len"`
	Shl  int    `json:"shl"`
}

type cencCase struct {
	Codec  string    `json:"codec"`
	Scheme string    `json:"scheme"`
	Nals   []cencNal `json:"nals"`
	Size   int       `json:"size"`
}

// ---- clear content

var corpusSPS, corpusPPS [][]byte

func loadCorpusPS() {
	if corpusSPS != nil {
		return
	}
	if ib, err := ioutil.ReadFile(filepath.Join("/repo/mp4/testdata", "init.mp4")); err == nil {
		if f, err := mp4.DecodeFile(bytes.NewReader(ib)); err == nil && f.Init != nil {
			if ve, ok := f.Init.Moov.Trak.Mdia.Minf.Stbl.Stsd.Children[0].(*mp4.VisualSampleEntryBox); ok && ve.AvcC != nil {
				corpusSPS, corpusPPS = ve.AvcC.SPSnalus, ve.AvcC.PPSnalus
			}
		}
	}
}

func clearInit(codec string) ([]byte, error) {
	loadCorpusPS()
	ini := mp4.CreateEmptyInit()
	var err error
	switch codec {
	case "avc":
		ini.AddEmptyTrack(90000, "video", "und")
		sps, pps := [][]byte{unhex(avcSPSnalu)}, [][]byte{unhex(avcPPSnalu)}
		if corpusSPS != nil {
			sps, pps = corpusSPS, corpusPPS
		}
		err = ini.Moov.Trak.SetAVCDescriptor("avc1", sps, pps, true)
	case "hevc":
		ini.AddEmptyTrack(90000, "video", "und")
		err = ini.Moov.Trak.SetHEVCDescriptor("hvc1", [][]byte{unhex(hevcVPSnalu)}, [][]byte{unhex(hevcSPSnalu)}, [][]byte{unhex(hevcPPSnalu)}, nil, true)
	case "audio":
		ini.AddEmptyTrack(48000, "audio", "und")
		err = ini.Moov.Trak.SetAACDescriptor(2, 48000)
	}
	if err != nil {
		return nil, err
	}
	var b bytes.Buffer
	err = ini.Encode(&b)
	return b.Bytes(), err
}

func sampleBytes(codec string, nals []cencNal, id int) []byte {
	var out []byte
	for k, n := range nals {
		if codec == "audio" {
			return tokenBytes(1, id, n.Len)
		}
		if n.Len == 0 { // a bare length field
			out = append(out, be32(0)...)
			continue
		}
		body := tokenBytes(1, id*8+k, n.Len)
		switch codec {
		case "avc":
			if n.Kind == "v" {
				body[0] = 0x65
			} else {
				body[0] = 0x06
			}
		case "hevc":
			if n.Kind == "v" {
				body[0], body[1] = 0x26, 0x01
			} else {
				body[0], body[1] = 0x4e, 0x01
			}
		}
		out = append(out, be32(int64(n.Len))...)
		out = append(out, body...)
	}
	return out
}

var extraVndr = mkBox("vndr", []byte{1, 2, 3, 4, 5})
var extraUUIDTraf = mkBox("uuid", []byte("verif-uuid-traf!"), []byte{0xAA, 0xBB, 0xCC})
var extraZzzz = mkBox("zzzz", []byte{9, 8, 7})
var extraUUIDMoof = mkBox("uuid", []byte("verif-uuid-moof!"), []byte{0x11})

// mFragmentX: moof(mfhd,[vndr],traf(tfhd,tfdt,[uuid],trun,[zzzz]),[uuid]) + mdat
func mFragmentX(seq, base int64, samples []mSample, payload []byte, extras string) []byte {
	build := func(off int64) []byte {
		kids := [][]byte{mTfhd(0x20000, 1, 0, 0, 0, 0, 0), mTfdt(1, base)}
		if extras == "all" {
			kids = append(kids, extraUUIDTraf)
		}
		kids = append(kids, mTrun(1, 0xf01, off, 0, samples))
		if extras == "all" || extras == "nouuid-in-traf" {
			kids = append(kids, extraZzzz)
		}
		if extras == "all" {
			// a roll-recovery sample group: sample groups other than seig are not protection signalling
			kids = append(kids, mkBox("sbgp", []byte{0, 0, 0, 0}, []byte("roll"), be32(1), be32(int64(len(samples))), be32(1)),
				mkBox("sgpd", []byte{1, 0, 0, 0}, []byte("roll"), be32(2), be32(1), []byte{0xff, 0xfe}))
		}
		mk := [][]byte{mMfhd(seq)}
		if extras != "none" && extras != "seg-sidx" {
			mk = append(mk, extraVndr)
		}
		mk = append(mk, mkBox("traf", kids...))
		if extras != "none" && extras != "seg-sidx" {
			mk = append(mk, extraUUIDMoof)
		}
		return mkBox("moof", mk...)
	}
	moof := build(0)
	moof = build(int64(len(moof) + 8))
	frag := cat(moof, mMdat(payload, false))
	if extras == "seg-sidx" {
		// a media segment with its own index: styp sidx moof mdat (the sidx is not protection signalling)
		var dur int64
		for _, sm := range samples {
			dur += sm.Dur
		}
		return cat(mStyp("msdh", 0, "msdh", "msix"), mSidx(1, 90000, base, 0, []sidxRefM{{int64(len(frag)), dur}}), frag)
	}
	return frag
}

// ---- independent observation of the encrypted fragment

type obsSample struct {
	IV   []byte
	Subs [][2]int
}

type obsFrag struct {
	Samples       []obsSample
	Saiz          []int
	SaioAbs       int
	SencFirstAbs  int
	MoofKids      []string
	TrafKids      []string
	ExtraBytesOK  bool
	TrunOffsetAbs int
	MdatPayload   []byte
}

func observeFragment(file []byte, moofIdx int, ivSize int) (*obsFrag, error) {
	top, err := walkBoxes(file, 0)
	if err != nil {
		return nil, err
	}
	o := &obsFrag{ExtraBytesOK: true}
	seen := -1
	for bi, b := range top {
		if b.Type != "moof" {
			continue
		}
		seen++
		if seen != moofIdx {
			continue
		}
		if bi+1 < len(top) && top[bi+1].Type == "mdat" {
			o.MdatPayload = top[bi+1].Payload
		}
		kids, err := walkBoxes(b.Payload, b.Start+b.HdrLen)
		if err != nil {
			return nil, err
		}
		for _, k := range kids {
			o.MoofKids = append(o.MoofKids, k.Type)
			if k.Type == "vndr" && !bytes.Equal(file[k.Start:k.Start+k.Size], extraVndr) {
				o.ExtraBytesOK = false
			}
			if k.Type == "uuid" && !bytes.Equal(file[k.Start:k.Start+k.Size], extraUUIDMoof) {
				o.ExtraBytesOK = false
			}
			if k.Type != "traf" {
				continue
			}
			tk, err := walkBoxes(k.Payload, k.Start+k.HdrLen)
			if err != nil {
				return nil, err
			}
			for _, x := range tk {
				o.TrafKids = append(o.TrafKids, x.Type)
				p := x.Payload
				switch x.Type {
				case "uuid":
					if !bytes.Equal(file[x.Start:x.Start+x.Size], extraUUIDTraf) {
						o.ExtraBytesOK = false
					}
				case "zzzz":
					if !bytes.Equal(file[x.Start:x.Start+x.Size], extraZzzz) {
						o.ExtraBytesOK = false
					}
				case "trun":
					o.TrunOffsetAbs = b.Start + int(int32(binary.BigEndian.Uint32(p[8:])))
				case "saio":
					fl := int(binary.BigEndian.Uint32(p)) & 0xffffff
					q := p[4:]
					if fl&1 != 0 {
						q = q[8:]
					}
					if binary.BigEndian.Uint32(q) >= 1 {
						if p[0] == 0 {
							o.SaioAbs = b.Start + int(binary.BigEndian.Uint32(q[4:]))
						} else {
							o.SaioAbs = b.Start + int(binary.BigEndian.Uint64(q[4:]))
						}
					}
				case "saiz":
					fl := int(binary.BigEndian.Uint32(p)) & 0xffffff
					q := p[4:]
					if fl&1 != 0 {
						q = q[8:]
					}
					def := int(q[0])
					n := int(binary.BigEndian.Uint32(q[1:]))
					for i := 0; i < n; i++ {
						if def != 0 {
							o.Saiz = append(o.Saiz, def)
						} else {
							o.Saiz = append(o.Saiz, int(q[5+i]))
						}
					}
				case "senc":
					fl := int(binary.BigEndian.Uint32(p)) & 0xffffff
					n := int(binary.BigEndian.Uint32(p[4:]))
					o.SencFirstAbs = x.Start + x.HdrLen + 8
					q := p[8:]
					for i := 0; i < n; i++ {
						var s obsSample
						s.IV = append([]byte{}, q[:ivSize]...)
						q = q[ivSize:]
						if fl&2 != 0 {
							c := int(binary.BigEndian.Uint16(q))
							q = q[2:]
							for j := 0; j < c; j++ {
								s.Subs = append(s.Subs, [2]int{int(binary.BigEndian.Uint16(q)), int(binary.BigEndian.Uint32(q[2:]))})
								q = q[6:]
							}
						}
						o.Samples = append(o.Samples, s)
					}
				}
			}
		}
	}
	if seen < moofIdx {
		return nil, fmt.Errorf("moof %d not found", moofIdx)
	}
	return o, nil
}

// ---- independent cipher schedule (raw AES block function only)

func addIV(iv []byte, n uint64) []byte {
	out := append([]byte{}, iv...)
	for i := len(out) - 1; i >= 0 && n > 0; i-- {
		s := uint64(out[i]) + (n & 0xff)
		out[i] = byte(s)
		n = (n >> 8) + (s >> 8)
	}
	return out
}

// refCenc: AES-CTR over the concatenation of the protected ranges; counter block j = IV + j
func refCenc(clear []byte, key, iv []byte, subs [][2]int) []byte {
	blk, _ := aes.NewCipher(key)
	out := append([]byte{}, clear...)
	ranges := subs
	if len(subs) == 0 {
		ranges = [][2]int{{0, len(clear)}}
	}
	k := 0
	ks := make([]byte, 16)
	pos := 0
	for _, r := range ranges {
		pos += r[0]
		for i := 0; i < r[1]; i++ {
			if k%16 == 0 {
				blk.Encrypt(ks, addIV(iv, uint64(k/16)))
			}
			out[pos] ^= ks[k%16]
			pos++
			k++
		}
	}
	return out
}

// refCbcs: per protected range CBC from the constant IV; crypt:skip pattern in 16-byte blocks (skip 0 = all whole blocks)
func refCbcs(clear []byte, key, iv []byte, subs [][2]int, crypt, skip int) []byte {
	blk, _ := aes.NewCipher(key)
	out := append([]byte{}, clear...)
	ranges := subs
	if len(subs) == 0 {
		ranges = [][2]int{{0, len(clear)}}
	}
	pos := 0
	for _, r := range ranges {
		pos += r[0]
		prev := append([]byte{}, iv...)
		nblocks := r[1] / 16
		for b := 0; b < nblocks; b++ {
			enc := true
			if skip > 0 {
				enc = b%(crypt+skip) < crypt
			}
			if enc {
				o := pos + 16*b
				x := make([]byte, 16)
				for i := 0; i < 16; i++ {
					x[i] = out[o+i] ^ prev[i]
				}
				blk.Encrypt(x, x)
				copy(out[o:], x)
				prev = x
			}
		}
		pos += r[1]
	}
	return out
}

// refCbcsDec: inverse of refCbcs (CBC decryption of the pattern's crypt blocks of every protected range).
func refCbcsDec(enc []byte, key, iv []byte, subs [][2]int, crypt, skip int) []byte {
	blk, _ := aes.NewCipher(key)
	out := append([]byte{}, enc...)
	ranges := subs
	if len(subs) == 0 {
		ranges = [][2]int{{0, len(enc)}}
	}
	pos := 0
	for _, r := range ranges {
		pos += r[0]
		prev := append([]byte{}, iv...)
		for b := 0; b < r[1]/16; b++ {
			if skip > 0 && b%(crypt+skip) >= crypt {
				continue
			}
			o := pos + 16*b
			c := append([]byte{}, out[o:o+16]...)
			x := make([]byte, 16)
			blk.Decrypt(x, c)
			for i := 0; i < 16; i++ {
				out[o+i] = x[i] ^ prev[i]
			}
			prev = c
		}
		pos += r[1]
	}
	return out
}

// c06Corpus (R5): encrypted files of the corpus that were produced by other tools. The library's decryption is
// compared sample by sample with the harness's own decryption (senc entries read by the own walker, raw AES block
// function), and must leave a clear sample entry behind.
func c06Corpus(rep *Report, tw6 *TraceWriter) int {
	cases := []struct{ name, init, file, key string }{
		{"prog_8s_enc_dashinit.mp4", "", "/repo/mp4/testdata/prog_8s_enc_dashinit.mp4", "63cb5f7184dd4b689a5c5ff11ee6a328"},
		{"cbcs.mp4", "", "/repo/mp4/testdata/cbcs.mp4", "22bdb0063805260307ee5045c0f3835a"},
		{"cbcs_audio.mp4", "", "/repo/mp4/testdata/cbcs_audio.mp4", "5ffd93861fa776e96cccd934898fc1c8"},
		{"PIFF/audio", "/repo/cmd/mp4ff-decrypt/testdata/PIFF/audio/init.mp4", "/repo/cmd/mp4ff-decrypt/testdata/PIFF/audio/segment-1.0001.m4s", "602a9289bfb9b1995b75ac63f123fc86"},
		{"PIFF/video", "", "/repo/cmd/mp4ff-decrypt/testdata/PIFF/video/complseg-1.0001.mp4", "602a9289bfb9b1995b75ac63f123fc86"},
	}
	done := 0
	for _, c := range cases {
		enc, err := ioutil.ReadFile(c.file)
		if err != nil {
			continue
		}
		if c.init != "" {
			ini, err := ioutil.ReadFile(c.init)
			if err != nil {
				continue
			}
			enc = cat(ini, enc)
		}
		key, _ := hex.DecodeString(c.key)
		cs := J{"corpus": c.name}
		rt := J{"ev": "roundtrip", "samples_ok": false, "entry_restored": false, "sinf_gone": false, "boxes_kept": true, "offsets_ok": true, "err": ""}
		changed := 0
		func() {
			defer func() {
				if r := recover(); r != nil {
					rt["err"] = fmt.Sprintf("panic: %v", r)
				}
			}()
			f, err := mp4.DecodeFile(bytes.NewReader(enc))
			if err != nil || f.Init == nil {
				rt["err"] = "decode: " + fmt.Sprint(err)
				return
			}
			// protection parameters per track (from the tenc box)
			type prot struct {
				scheme      string
				ivSize      int
				constIV     []byte
				crypt, skip int
			}
			prots := map[int]prot{}
			for _, trak := range f.Init.Moov.Traks {
				stsd := trak.Mdia.Minf.Stbl.Stsd
				var sinf *mp4.SinfBox
				for _, ch := range stsd.Children {
					switch e := ch.(type) {
					case *mp4.VisualSampleEntryBox:
						sinf = e.Sinf
					case *mp4.AudioSampleEntryBox:
						sinf = e.Sinf
					}
				}
				if sinf == nil || sinf.Schi == nil || sinf.Schi.Tenc == nil || sinf.Schm == nil {
					continue
				}
				t := sinf.Schi.Tenc
				prots[int(trak.Tkhd.TrackID)] = prot{sinf.Schm.SchemeType, int(t.DefaultPerSampleIVSize), t.DefaultConstantIV, int(t.DefaultCryptByteBlock), int(t.DefaultSkipByteBlock)}
			}
			encRead, err := isoReadFragments(enc)
			if err != nil {
				rt["err"] = "encrypted file unreadable: " + err.Error()
				return
			}
			// own decryption: every traf of every moof, senc entries read by the own walker
			want := map[int][][]byte{}
			idx := map[int]int{}
			top, _ := walkBoxes(enc, 0)
			for _, b := range top {
				if b.Type != "moof" {
					continue
				}
				kids, _ := walkBoxes(b.Payload, b.Start+b.HdrLen)
				for _, k := range kids {
					if k.Type != "traf" {
						continue
					}
					tk, _ := walkBoxes(k.Payload, k.Start+k.HdrLen)
					track, nsamp := 0, 0
					var senc []byte
					for _, x := range tk {
						switch x.Type {
						case "tfhd":
							track = int(binary.BigEndian.Uint32(x.Payload[4:]))
						case "trun":
							nsamp += int(binary.BigEndian.Uint32(x.Payload[4:]))
						case "senc":
							senc = x.Payload
						case "uuid":
							if len(x.Payload) > 24 && hex.EncodeToString(x.Payload[:16]) == "a2394f525a9b4f14a2446c427c648df4" { // PIFF sample encryption box
								senc = x.Payload[16:]
							}
						}
					}
					pr, protected := prots[track]
					if !protected || senc == nil {
						for k := 0; k < nsamp; k++ {
							want[track] = append(want[track], encRead[track][idx[track]+k].Data)
						}
						idx[track] += nsamp
						continue
					}
					fl := int(binary.BigEndian.Uint32(senc)) & 0xffffff
					n := int(binary.BigEndian.Uint32(senc[4:]))
					if n != nsamp {
						rt["err"] = fmt.Sprintf("senc has %d entries, truns %d samples: not handled by the reference", n, nsamp)
						return
					}
					q := senc[8:]
					for k := 0; k < n; k++ {
						iv := make([]byte, 16)
						if pr.ivSize > 0 {
							copy(iv, q[:pr.ivSize])
							q = q[pr.ivSize:]
						} else {
							copy(iv, pr.constIV)
						}
						var subs [][2]int
						if fl&2 != 0 {
							c := int(binary.BigEndian.Uint16(q))
							q = q[2:]
							for j := 0; j < c; j++ {
								subs = append(subs, [2]int{int(binary.BigEndian.Uint16(q)), int(binary.BigEndian.Uint32(q[2:]))})
								q = q[6:]
							}
						}
						smp := encRead[track][idx[track]+k]
						var dec []byte
						if pr.scheme == "cenc" {
							dec = refCenc(smp.Data, key, iv, subs)
						} else {
							dec = refCbcsDec(smp.Data, key, iv, subs, pr.crypt, pr.skip)
						}
						if !bytes.Equal(dec, smp.Data) {
							changed++
						}
						want[track] = append(want[track], dec)
					}
					idx[track] += n
				}
			}
			// the library
			di, err := mp4.DecryptInit(f.Init)
			if err != nil {
				rt["err"] = "DecryptInit: " + err.Error()
				return
			}
			for _, seg := range f.Segments {
				if err := mp4.DecryptSegment(seg, di, key); err != nil {
					rt["err"] = "DecryptSegment: " + err.Error()
					return
				}
			}
			var db bytes.Buffer
			if err := f.Encode(&db); err != nil {
				rt["err"] = "encode decrypted: " + err.Error()
				return
			}
			got, err := isoReadFragments(db.Bytes())
			if err != nil {
				rt["err"] = "decrypted output unreadable: " + err.Error()
				return
			}
			ok := true
			for track, ws := range want {
				if len(got[track]) != len(ws) {
					ok = false
					rt["diff"] = fmt.Sprintf("track %d: %d samples, reference %d", track, len(got[track]), len(ws))
					break
				}
				for i := range ws {
					if !bytes.Equal(got[track][i].Data, ws[i]) {
						ok = false
						rt["diff"] = fmt.Sprintf("track %d sample %d differs from the reference decryption", track, i)
						break
					}
				}
			}
			rt["samples_ok"] = ok
			f3, err := mp4.DecodeFile(bytes.NewReader(db.Bytes()))
			if err == nil && f3.Init != nil {
				var ib bytes.Buffer
				_ = f3.Init.Info(&ib, "", "", " ")
				rt["sinf_gone"] = !bytes.Contains(ib.Bytes(), []byte("[sinf]"))
				rt["entry_restored"] = !bytes.Contains(ib.Bytes(), []byte("[encv]")) && !bytes.Contains(ib.Bytes(), []byte("[enca]"))
			}
		}()
		if e, _ := rt["err"].(string); e != "" && (strings.Contains(e, "not handled by the reference") || strings.Contains(e, "no protection parameters")) {
			rep.Drift("corpus/"+c.name, e, cs)
			continue
		}
		tw6.Reset(J{"name": "corpus:" + c.name, "codec": "corpus", "scheme": "corpus", "extras": "none"})
		tw6.Ev(rt)
		if changed == 0 && rt["err"] == "" {
			rep.Drift("corpus/"+c.name, "the reference decryption changed no sample: nothing compared", cs)
			continue
		}
		rep.Count("corpus-decrypt:"+c.name, true, J{"corpus_decrypt": c.name})
		done++
	}
	return done
}

// ---- driver

type cencJob struct {
	codec, scheme string
	samples       [][]cencNal
	ivLen         int
	iv            []byte
	extras        string
	optimize      bool   // encode the encrypted file with trun optimisation
	corpus        bool
	raw           [][]byte // corpus: clear sample bytes
	initBytes     []byte
	segBytes      []byte
	infos         []mSample
	rawSamples    [][]byte    // ready-made clear samples (slices serialised by AvcSyntax.tla)
	specNals      [][]cencNal // their NAL units with the header size the syntax spec gives
	perFrag       bool        // one fragment per sample
	tool          bool   // encrypt / decrypt with the built mp4ff-encrypt / mp4ff-decrypt binaries instead of the API
	sliceHead     []byte // generated cbcs video: head of a real slice copied into every video NAL unit
}

var ivClasses = [][]byte{
	make([]byte, 16),
	append(make([]byte, 15), 1),
	append(make([]byte, 14), 0x00, 0xff),
	append(bytes.Repeat([]byte{0xff}, 15), 0xfe),
	bytes.Repeat([]byte{0xff}, 16),
	append(append(make([]byte, 7), 0x12), bytes.Repeat([]byte{0xff}, 8)...),
	{0x10, 0x32, 0x54, 0x76, 0x98, 0xba, 0xdc, 0xfe, 0x00, 0x00, 0x00, 0x00, 0xff, 0xff, 0xff, 0xf0},
}

func cencDrive(args []string) error {
	rng := rand.New(rand.NewSource(seedFromEnv()))
	tw7, err := newTraceWriter(argValue(args, "-trace07", "trace07.ndjson"))
	if err != nil {
		return err
	}
	tw6, err := newTraceWriter(argValue(args, "-trace06", "trace06.ndjson"))
	if err != nil {
		return err
	}
	rep := newReport()
	c07EncBin, c07DecBin = argValue(args, "-encbin", ""), argValue(args, "-decbin", "")
	toolRuns := 0
	key := []byte{0x00, 0x11, 0x22, 0x33, 0x44, 0x55, 0x66, 0x77, 0x88, 0x99, 0xaa, 0xbb, 0xcc, 0xdd, 0xee, 0xff}
	var cases []cencCase
	if err := readLines(argValue(args, "-in", "-"), func(line []byte) error {
		var c cencCase
		if err := json.Unmarshal(line, &c); err != nil {
			return err
		}
		cases = append(cases, c)
		return nil
	}); err != nil {
		return err
	}
	inits := map[string][]byte{}
	for _, codec := range []string{"avc", "hevc", "audio"} {
		b, err := clearInit(codec)
		if err != nil {
			return err
		}
		inits[codec] = b
	}
	small := map[string][]cencNal{"avc": {{Kind: "n", Len: 9}, {Kind: "v", Len: 130}}, "hevc": {{Kind: "v", Len: 200}}, "audio": {{Kind: "a", Len: 37}}}
	for ci, c := range cases {
		schemes := []string{"cenc"}
		if c.Codec == "audio" {
			schemes = []string{"cenc", "cbcs"}
		}
		for _, scheme := range schemes {
			job := cencJob{codec: c.Codec, scheme: scheme, initBytes: inits[c.Codec]}
			switch ci % 3 {
			case 0:
				job.samples = [][]cencNal{c.Nals}
			case 1:
				job.samples = [][]cencNal{c.Nals, small[c.Codec]}
			default:
				job.samples = [][]cencNal{small[c.Codec], c.Nals, c.Nals}
			}
			iv := ivClasses[(ci+int(seedFromEnv()))%len(ivClasses)]
			if ci%11 == 10 {
				iv = make([]byte, 16)
				rng.Read(iv)
			}
			job.ivLen = 16
			if ci%4 == 3 {
				job.ivLen = 8
				iv = append(append([]byte{}, iv[8:]...), make([]byte, 8)...)
			}
			job.iv = iv
			job.extras = []string{"none", "nouuid-in-traf", "all", "none", "seg-sidx", "all", "nouuid-in-traf"}[ci%7]
			job.optimize = ci%5 == 2
			job.perFrag = ci%2 == 1
			cencRun(rep, tw7, tw6, &job, key, fmt.Sprintf("case%d", ci))
			if c07EncBin != "" && ci%3 == int(seedFromEnv())%3 {
				tj := job
				tj.tool, tj.infos, tj.perFrag = true, nil, true
				cencRun(rep, tw7, tw6, &tj, key, fmt.Sprintf("tool:case%d", ci))
				toolRuns++
			}
		}
		rep.Count(fmt.Sprint(c.Codec, c.Nals), true, nil)
	}
	// cbcs video on generated samples: every video NAL unit starts with the head of a real slice of the corpus
	// (so that the slice header parses against the init's SPS/PPS), followed by token bytes; several
	// protected ranges per sample (multi-slice pictures), each of which restarts the CBC chain from the constant IV
	if head := corpusSliceHead(argValue(args, "-corpus", "/repo/mp4/testdata")); head != nil {
		n := 0
		for ci, c := range cases {
			if c.Codec != "avc" {
				continue
			}
			ok, nv := true, 0
			for _, nl := range c.Nals {
				if nl.Kind == "v" {
					nv++
					if nl.Len < len(head)+8 {
						ok = false
					}
				}
			}
			if !ok || nv == 0 {
				continue
			}
			job := cencJob{codec: "avc", scheme: "cbcs", initBytes: inits["avc"], sliceHead: head, iv: ivClasses[(ci+2)%len(ivClasses)], ivLen: 16,
				extras: []string{"none", "nouuid-in-traf", "all"}[ci%3]}
			job.samples = [][]cencNal{c.Nals, c.Nals}
			cencRun(rep, tw7, tw6, &job, key, fmt.Sprintf("cbcs-video-case%d", ci))
			if c07EncBin != "" && ci%2 == 0 {
				tj := job
				tj.tool, tj.infos = true, nil
				cencRun(rep, tw7, tw6, &tj, key, fmt.Sprintf("tool:cbcs-video-case%d", ci))
				toolRuns++
			}
			rep.Count(fmt.Sprint("cbcs-video", c.Nals), true, nil)
			n++
		}
		rep.Extra["cbcs_video_generated"] = n
	}
	// cbcs on slices serialised by AvcSyntax.tla (every header variation): the clear range must end where the
	// syntax spec says the slice header ends
	if sp := argValue(args, "-slices", ""); sp != "" {
		n, used := 0, 0
		stride := argInt(args, "-slicestride", 9)
		_ = readLines(sp, func(line []byte) error {
			var c struct {
				Spsnal, Ppsnal, Nal []int
				Size                int
			}
			if err := json.Unmarshal(line, &c); err != nil {
				return err
			}
			n++
			if n%stride != int(seedFromEnv())%stride {
				return nil
			}
			ini := mp4.CreateEmptyInit()
			ini.AddEmptyTrack(90000, "video", "und")
			if err := ini.Moov.Trak.SetAVCDescriptor("avc1", [][]byte{ints2bytes(c.Spsnal)}, [][]byte{ints2bytes(c.Ppsnal)}, true); err != nil {
				return nil // the SPS of this context is not accepted by the sample entry builder: not this check's business
			}
			var ib bytes.Buffer
			if err := ini.Encode(&ib); err != nil {
				return nil
			}
			mk := func(id, extra int) ([]byte, []cencNal) {
				nal := append(ints2bytes(c.Nal), tokenBytes(1, id, extra)...)
				aud := []byte{0x09, 0x10}
				smp := cat(be32(int64(len(aud))), aud, be32(int64(len(nal))), nal, be32(int64(len(nal))), nal)
				return smp, []cencNal{{Kind: "n", Len: len(aud)}, {Kind: "v", Len: len(nal), Shl: c.Size}, {Kind: "v", Len: len(nal), Shl: c.Size}}
			}
			s1, n1 := mk(1, 200)
			s2, n2 := mk(2, 37)
			job := cencJob{codec: "avc", scheme: "cbcs", initBytes: ib.Bytes(), rawSamples: [][]byte{s1, s2}, specNals: [][]cencNal{n1, n2},
				iv: ivClasses[(n+1)%len(ivClasses)], ivLen: 16, extras: "none"}
			cencRun(rep, tw7, tw6, &job, key, fmt.Sprintf("cbcs-spec-slice%d", n))
			rep.Count(fmt.Sprint("cbcs-spec-slice", n), true, nil)
			used++
			return nil
		})
		rep.Extra["cbcs_spec_slices"] = used
	}
	// corpus: clear AVC content with real slice headers, both schemes
	dir := argValue(args, "-corpus", "/repo/mp4/testdata")
	ini, e1 := ioutil.ReadFile(filepath.Join(dir, "init.mp4"))
	seg, e2 := ioutil.ReadFile(filepath.Join(dir, "1.m4s"))
	if e1 == nil && e2 == nil {
		for _, scheme := range []string{"cenc", "cbcs"} {
			job := cencJob{codec: "avc", scheme: scheme, corpus: true, initBytes: ini, segBytes: seg, iv: ivClasses[3], ivLen: 16, extras: "none"}
			cencRun(rep, tw7, tw6, &job, key, "corpus:init.mp4+1.m4s")
			if c07EncBin != "" {
				tj := job
				tj.tool = true
				cencRun(rep, tw7, tw6, &tj, key, "tool:corpus:init.mp4+1.m4s")
				toolRuns++
			}
			rep.Count("corpus"+scheme, true, J{"corpus": "init.mp4+1.m4s", "scheme": scheme})
		}
	}
	rep.Extra["corpus_decrypted"] = c06Corpus(rep, tw6)
	rep.Extra["tool_runs"] = toolRuns
	rep.Extra["events07"] = tw7.N
	rep.Extra["traces07"] = tw7.T
	rep.Extra["events06"] = tw6.N
	rep.Extra["traces06"] = tw6.T
	rep.Done()
	if err := tw7.Close(); err != nil {
		return err
	}
	return tw6.Close()
}

// corpusSliceHead returns the first bytes of the first slice NAL unit of the corpus segment 1.m4s.
func corpusSliceHead(dir string) []byte {
	ini, e1 := ioutil.ReadFile(filepath.Join(dir, "init.mp4"))
	seg, e2 := ioutil.ReadFile(filepath.Join(dir, "1.m4s"))
	if e1 != nil || e2 != nil {
		return nil
	}
	rd, err := isoReadFragments(cat(ini, seg))
	if err != nil {
		return nil
	}
	for _, ss := range rd {
		for _, s := range ss {
			pos := 0
			for pos+4 <= len(s.Data) {
				n := int(binary.BigEndian.Uint32(s.Data[pos:]))
				if pos+4+n > len(s.Data) || n == 0 {
					break
				}
				if t := s.Data[pos+4] & 0x1f; t == 5 && n >= 32 {
					return append([]byte{}, s.Data[pos+4:pos+4+32]...)
				}
				pos += 4 + n
			}
		}
	}
	return nil
}

var c07EncBin, c07DecBin string
var c07ToolMode int

// runTool writes in to a temporary file, runs bin [args] infile outfile and returns the output file.
func runTool(bin string, in []byte, args ...string) ([]byte, error) {
	dir, err := ioutil.TempDir("", "c07tool")
	if err != nil {
		return nil, err
	}
	defer os.RemoveAll(dir)
	ip, op := filepath.Join(dir, "in.mp4"), filepath.Join(dir, "out.mp4")
	if err := ioutil.WriteFile(ip, in, 0o644); err != nil {
		return nil, err
	}
	cmd := exec.Command(bin, append(args, ip, op)...)
	var stderr bytes.Buffer
	cmd.Stderr = &stderr
	if err := cmd.Run(); err != nil {
		return nil, fmt.Errorf("%v: %s", err, strings.TrimSpace(stderr.String()))
	}
	return ioutil.ReadFile(op)
}

// beyondSaiz: a sample with 40 or more protected NAL units needs more than 255 bytes of auxiliary information with a 16-byte
// IV (16 + 2 + 6n), 43 or more with a constant IV: saiz cannot describe it, refusing to encrypt is the right answer
func (j *cencJob) beyondSaiz() bool {
	for _, smp := range j.samples {
		n := 0
		for _, nal := range smp {
			if nal.Kind == "v" && nal.Len+4 >= 112 {
				n++
			}
		}
		if (j.scheme == "cenc" && 16+2+6*n > 255) || 2+6*n > 255 {
			return true
		}
	}
	return false
}

func nalsOfSample(s []byte) []cencNal {
	out := []cencNal{}
	pos := 0
	for pos+4 <= len(s) {
		n := int(binary.BigEndian.Uint32(s[pos:]))
		if pos+4+n > len(s) {
			break
		}
		if n == 0 { // a bare length field
			out = append(out, cencNal{Kind: "n", Len: 0})
			pos += 4
			continue
		}
		k := "n"
		if s[pos+4]&0x1f <= 5 && s[pos+4]&0x1f >= 1 {
			k = "v"
		}
		out = append(out, cencNal{Kind: k, Len: n})
		pos += 4 + n
	}
	return out
}

func subsJ(s [][2]int) [][]int {
	out := make([][]int, len(s))
	for i, x := range s {
		out[i] = []int{x[0], x[1]}
	}
	return out
}

func cencRun(rep *Report, tw7, tw6 *TraceWriter, job *cencJob, key []byte, name string) {
	cs := J{"name": name, "codec": job.codec, "scheme": job.scheme, "iv": bytes2ints(job.iv), "ivlen": job.ivLen, "extras": job.extras}
	defer func() {
		if r := recover(); r != nil {
			rep.Violation("panic", fmt.Sprintf("encrypt/decrypt pipeline panics: %v", r), cs)
		}
	}()
	// ---- clear file
	var clearSamples [][]byte
	var clearFile []byte
	if job.corpus {
		clearFile = cat(job.initBytes, job.segBytes)
	} else {
		var payload []byte
		if job.rawSamples != nil {
			job.samples = job.specNals
		}
		for i, nl := range job.samples {
			b := sampleBytes(job.codec, nl, i+1)
			if job.rawSamples != nil {
				b = job.rawSamples[i]
			}
			if job.sliceHead != nil {
				at := 0
				for _, n := range nl {
					if n.Kind == "v" {
						copy(b[at+4:], job.sliceHead)
					}
					at += 4 + n.Len
				}
			}
			clearSamples = append(clearSamples, b)
			payload = append(payload, b...)
			job.infos = append(job.infos, mSample{Dur: int64(3000 + i), Size: int64(len(b)), Flags: 0x02000000, Cto: int64(i)})
		}
		if job.perFrag && len(job.infos) > 1 {
			// one fragment per sample: several fragments encrypted with the same key / iv arguments
			clearFile = append([]byte{}, job.initBytes...)
			at, base := 0, int64(9000)
			for k, inf := range job.infos {
				clearFile = cat(clearFile, mFragmentX(int64(k+1), base, job.infos[k:k+1], payload[at:at+int(inf.Size)], job.extras))
				at += int(inf.Size)
				base += inf.Dur
			}
		} else {
			clearFile = cat(job.initBytes, mFragmentX(1, 9000, job.infos, payload, job.extras))
		}
	}
	clearRead, err := isoReadFragments(clearFile)
	if err != nil {
		rep.Violation("machinery/clear-unreadable", err.Error(), cs)
		return
	}
	trackID := 1
	for t := range clearRead {
		trackID = t
	}
	if job.corpus {
		for _, s := range clearRead[trackID] {
			clearSamples = append(clearSamples, append([]byte{}, s.Data...))
		}
	}
	f, err := mp4.DecodeFile(bytes.NewReader(clearFile))
	if err != nil || f.Init == nil || len(f.Segments) == 0 {
		rep.Violation("clear/decode", "clear input does not decode: "+fmt.Sprint(err), cs)
		return
	}
	origEntry := f.Init.Moov.Trak.Mdia.Minf.Stbl.Stsd.Children[0].Type()
	// ---- encrypt
	ivArg := job.iv
	if job.ivLen == 8 {
		ivArg = job.iv[:8]
	}
	kid := mp4.UUID(bytes.Repeat([]byte{0x42}, 16))
	var enc []byte
	nfr := 0
	if job.tool {
		// the shipped command line tool, built from the working tree
		out, err := runTool(c07EncBin, clearFile, "-kid", hex.EncodeToString(kid), "-key", hex.EncodeToString(key), "-iv", hex.EncodeToString(ivArg), "-scheme", job.scheme)
		if err != nil {
			if job.beyondSaiz() {
				rep.Count(name+"/refused", true, J{"refused": err.Error()})
				return
			}
			rep.Violation("encrypt/tool-error", "mp4ff-encrypt fails: "+err.Error(), cs)
			return
		}
		enc = out
		top, _ := walkBoxes(enc, 0)
		for _, b := range top {
			if b.Type == "moof" {
				nfr++
			}
		}
	} else {
		ipd, err := mp4.InitProtect(f.Init, key, ivArg, job.scheme, kid, nil)
		if err != nil {
			rep.Violation("encrypt/initprotect-error", "InitProtect fails: "+err.Error(), cs)
			return
		}
		for _, seg := range f.Segments {
			for _, fr := range seg.Fragments {
				if err := mp4.EncryptFragment(fr, key, ivArg, ipd); err != nil {
					if job.beyondSaiz() {
						rep.Count(name+"/refused", true, J{"refused": err.Error()}) // 23001-7: the aux info of such a sample does not fit sample_info_size (8 bits)
						return
					}
					rep.Violation("encrypt/error", "EncryptFragment fails: "+err.Error(), cs)
					return
				}
				nfr++
			}
		}
		// a share of the jobs is written with trun / tfhd optimisation: the encoder then shrinks boxes that precede senc
		// AFTER EncryptFragment has computed the saio offset
		if job.optimize {
			f.EncOptimize = mp4.OptimizeTrun
			for _, seg := range f.Segments {
				seg.EncOptimize = mp4.OptimizeTrun
				for _, fr := range seg.Fragments {
					fr.EncOptimize = mp4.OptimizeTrun
				}
			}
			cs["optimize_trun"] = true
		}
		var eb bytes.Buffer
		if err := f.Encode(&eb); err != nil {
			rep.Violation("encrypt/encode-error", "encrypted file does not encode: "+err.Error(), cs)
			return
		}
		enc = eb.Bytes()
	}
	// ---- C07: observe
	ivSize := 16
	crypt, skip := 0, 0
	if job.scheme == "cbcs" {
		ivSize = 0
		if job.codec != "audio" {
			crypt, skip = 1, 9
		}
	}
	var spsMap map[uint32]*avc.SPS
	var ppsMap map[uint32]*avc.PPS
	realSlices := job.corpus || job.sliceHead != nil
	if realSlices {
		avcC := f.Init.Moov.Trak.Mdia.Minf.Stbl.Stsd.Children[0].(*mp4.VisualSampleEntryBox).AvcC
		spsMap, ppsMap = map[uint32]*avc.SPS{}, map[uint32]*avc.PPS{}
		for _, n := range avcC.SPSnalus {
			if s, err := avc.ParseSPSNALUnit(n, true); err == nil {
				spsMap[s.ParameterID] = s
			}
		}
		for _, n := range avcC.PPSnalus {
			if p, err := avc.ParsePPSNALUnit(n, spsMap); err == nil {
				ppsMap[p.PicParameterSetID] = p
			}
		}
	}
	si := 0
	for fi := 0; fi < nfr; fi++ {
		tw7.Reset(J{"name": name, "codec": job.codec, "scheme": job.scheme, "fragment": fi})
		obs, err := observeFragment(enc, fi, ivSize)
		if err != nil {
			rep.Violation("observe/malformed", "encrypted fragment not walkable: "+err.Error(), cs)
			return
		}
		pos := 0
		for k, os := range obs.Samples {
			if si >= len(clearSamples) {
				break
			}
			clear := clearSamples[si]
			if pos+len(clear) > len(obs.MdatPayload) {
				rep.Violation("observe/mdat-short", "mdat shorter than the samples", cs)
				return
			}
			got := obs.MdatPayload[pos : pos+len(clear)]
			pos += len(clear)
			iv := os.IV
			if job.scheme == "cbcs" {
				iv = make([]byte, 16)
				copy(iv, ivArg)
			}
			var want []byte
			if job.scheme == "cenc" {
				want = refCenc(clear, key, iv, os.Subs)
			} else {
				want = refCbcs(clear, key, iv, os.Subs, crypt, skip)
			}
			// W8: bytes outside the protected ranges unchanged; W7: protected bytes = reference
			clearOK, cipherOK := true, bytes.Equal(got, want)
			p := 0
			for _, r := range os.Subs {
				if p+r[0] > len(clear) || !bytes.Equal(got[p:p+r[0]], clear[p:p+r[0]]) {
					clearOK = false
					break
				}
				p += r[0] + r[1]
			}
			var nals []cencNal
			if job.specNals != nil {
				nals = job.specNals[si]
			} else if realSlices {
				nals = nalsOfSample(clear)
				at := 0
				for i := range nals {
					if nals[i].Kind == "v" {
						if sh, err := avc.ParseSliceHeader(clear[at+4:at+4+nals[i].Len], spsMap, ppsMap); err == nil {
							nals[i].Shl = int(sh.Size)
						}
					}
					at += 4 + nals[i].Len
				}
			} else {
				nals = job.samples[si]
			}
			if job.codec == "audio" {
				nals = []cencNal{}
			}
			ivj := bytes2ints(iv)
			tw7.Ev(J{"ev": "sample", "k": k, "nals": nals, "subs": subsJ(os.Subs), "iv": ivj, "size": len(clear), "cipher_ok": cipherOK, "clear_ok": clearOK})
			si++
		}
		saiz := obs.Saiz
		if saiz == nil {
			saiz = []int{}
		}
		tw7.Ev(J{"ev": "fragment", "nsamples": len(obs.Samples), "saiz": saiz, "saio_abs": obs.SaioAbs, "senc_first_entry_abs": obs.SencFirstAbs})
	}
	// ---- C06: decrypt round trip
	tw6.Reset(J{"name": name, "codec": job.codec, "scheme": job.scheme, "extras": job.extras})
	rt := J{"ev": "roundtrip", "samples_ok": false, "entry_restored": false, "sinf_gone": false, "boxes_kept": false, "offsets_ok": false, "err": ""}
	func() {
		defer func() {
			if r := recover(); r != nil {
				rt["err"] = fmt.Sprintf("panic: %v", r)
			}
		}()
		var dec []byte
		if job.tool {
			// three ways to hand the tool its init segment (rotating): inside the input; inside the input AND as -init file;
			// only as -init file with the media segments as input (the output then has no init: the clear one is put in front)
			c07ToolMode++
			initLen := 0
			if top, err := walkBoxes(enc, 0); err == nil {
				for _, b := range top {
					if b.Type == "moov" {
						initLen = b.Start + b.Size
					}
				}
			}
			args := []string{"-key", hex.EncodeToString(key)}
			in := enc
			mode := c07ToolMode % 3
			if mode != 0 && initLen > 0 {
				dir, err := ioutil.TempDir("", "c07init")
				if err != nil {
					rt["err"] = err.Error()
					return
				}
				defer os.RemoveAll(dir)
				ip := filepath.Join(dir, "init.mp4")
				if err := ioutil.WriteFile(ip, enc[:initLen], 0o644); err != nil {
					rt["err"] = err.Error()
					return
				}
				args = append([]string{"-init", ip}, args...)
				if mode == 2 {
					in = enc[initLen:]
				}
			}
			out, err := runTool(c07DecBin, in, args...)
			if err != nil {
				rt["err"] = fmt.Sprintf("mp4ff-decrypt (init mode %d): %v", mode, err)
				return
			}
			dec = out
			if mode == 2 && initLen > 0 {
				dec = cat(job.initBytes, out)
			}
			rt["tool_init_mode"] = mode
		} else {
			f2, err := mp4.DecodeFile(bytes.NewReader(enc))
			if err != nil {
				rt["err"] = "decode encrypted: " + err.Error()
				return
			}
			di, err := mp4.DecryptInit(f2.Init)
			if err != nil {
				rt["err"] = "DecryptInit: " + err.Error()
				return
			}
			for _, seg := range f2.Segments {
				if err := mp4.DecryptSegment(seg, di, key); err != nil {
					rt["err"] = "DecryptSegment: " + err.Error()
					return
				}
			}
			var db bytes.Buffer
			if err := f2.Encode(&db); err != nil {
				rt["err"] = "encode decrypted: " + err.Error()
				return
			}
			dec = db.Bytes()
		}
		f3, err := mp4.DecodeFile(bytes.NewReader(dec))
		if err != nil {
			rt["err"] = "decode decrypted: " + err.Error()
			return
		}
		entry := f3.Init.Moov.Trak.Mdia.Minf.Stbl.Stsd.Children[0]
		rt["entry_restored"] = entry.Type() == origEntry
		var ib bytes.Buffer
		_ = f3.Init.Info(&ib, "", "", " ")
		rt["sinf_gone"] = !bytes.Contains(ib.Bytes(), []byte("[sinf]"))
		got, err := isoReadFragments(dec)
		if err != nil {
			rt["err"] = "decrypted output unreadable: " + err.Error()
			return
		}
		d := diffSamples(got[trackID], clearRead[trackID])
		rt["samples_ok"] = d == ""
		rt["offsets_ok"] = d == "" || !bytes.Contains([]byte(d), []byte("bytes"))
		if d != "" {
			rt["diff"] = d
		}
		// R3: non-protection boxes kept, in order, byte-identical
		kept := true
		for fi := 0; fi < nfr; fi++ {
			o2, err := observeFragment(dec, fi, 0)
			o1, _ := observeFragment(clearFile, fi, 0)
			if err != nil || o1 == nil || fmt.Sprint(o2.MoofKids) != fmt.Sprint(o1.MoofKids) || fmt.Sprint(o2.TrafKids) != fmt.Sprint(o1.TrafKids) || !o2.ExtraBytesOK {
				kept = false
				if o1 != nil && o2 != nil {
					rt["kids"] = J{"moof": o2.MoofKids, "traf": o2.TrafKids, "want_moof": o1.MoofKids, "want_traf": o1.TrafKids}
				}
			}
		}
		// top-level boxes: the decrypted file has the box sequence of the clear file (styp, sidx ... are not protection signalling)
		seq := func(b []byte) string {
			top, _ := walkBoxes(b, 0)
			t, media := "", false
			for _, x := range top {
				if x.Type == "styp" || x.Type == "sidx" || x.Type == "moof" {
					media = true // the media part; what happens to boxes around the init segment is the file encoder's business (C02)
				}
				if media {
					t += x.Type + " "
				}
			}
			return t
		}
		if a, b := seq(dec), seq(clearFile); a != b {
			kept = false
			rt["top_level"] = J{"decrypted": a, "clear": b}
		}
		rt["boxes_kept"] = kept
	}()
	tw6.Ev(rt)
}

// encryptedSegments: encrypted fragments (with and without their init segment) for the object pool of
// C02/C03: senc boxes parsed with known and with unknown per-sample IV size.
func encryptedSegments() []struct {
	name string
	data []byte
} {
	type nd = struct {
		name string
		data []byte
	}
	var out []nd
	key := bytes.Repeat([]byte{0x5a}, 16)
	for _, codec := range []string{"avc", "audio"} {
		ini, err := clearInit(codec)
		if err != nil {
			continue
		}
		for ivk, iv := range [][]byte{ivClasses[0], ivClasses[2], ivClasses[6]} {
			for nsamp := 1; nsamp <= 2; nsamp++ {
				func() {
					defer func() { _ = recover() }()
					var payload []byte
					var infos []mSample
					for i := 0; i < nsamp; i++ {
						nl := []cencNal{{Kind: "n", Len: 9}, {Kind: "v", Len: 130 + 40*i}}
						if codec == "audio" {
							nl = []cencNal{{Kind: "a", Len: 37 + i}}
						}
						b := sampleBytes(codec, nl, i+1)
						payload = append(payload, b...)
						infos = append(infos, mSample{Dur: 1000, Size: int64(len(b)), Flags: 0x02000000})
					}
					clear := cat(ini, mFragmentX(1, 0, infos, payload, "none"))
					f, err := mp4.DecodeFile(bytes.NewReader(clear))
					if err != nil {
						return
					}
					ipd, err := mp4.InitProtect(f.Init, key, iv, "cenc", mp4.UUID(bytes.Repeat([]byte{7}, 16)), nil)
					if err != nil {
						return
					}
					if err := mp4.EncryptFragment(f.Segments[0].Fragments[0], key, iv, ipd); err != nil {
						return
					}
					var ib, sb bytes.Buffer
					if f.Init.Encode(&ib) != nil || f.Segments[0].Encode(&sb) != nil {
						return
					}
					out = append(out, nd{fmt.Sprintf("matter:enc(%s,iv%d,n%d)", codec, ivk, nsamp), cat(ib.Bytes(), sb.Bytes())})
					out = append(out, nd{fmt.Sprintf("matter:enc-segment-only(%s,iv%d,n%d)", codec, ivk, nsamp), cat(mStyp("msdh", 0, "msdh"), sb.Bytes())})
				}()
			}
		}
	}
	return out
}
