package main

// C01: decode -> encode is lossless outside the don't-care mask, and a fixed point.
// c01-replay takes the instances enumerated by BoxLayouts.tla (input bytes, canonical expected
// bytes, don't-care mask, field map) and pushes each through the four decode paths and both
// encoders of the real code. c01-corpus runs the same pipeline over every box of the corpus
// files and the object pool and records a trace for BoxLayouts' trace mode.

import (
	"bytes"
	"encoding/json"
	"fmt"
	"io/ioutil"
	"path/filepath"
	"reflect"
	"sort"
	"strings"

	"github.com/Eyevinn/mp4ff/bits"
	"github.com/Eyevinn/mp4ff/mp4"
)

func init() {
	register("c01-replay", c01Replay)
	register("c01-corpus", c01Corpus)
}

type c01Field struct {
	N string `json:"n"`
	T string `json:"t"`
	I int    `json:"i"`
	O int    `json:"o"`
	W int    `json:"w"`
}

type c01Inst struct {
	Layout string        `json:"layout"`
	Type   string        `json:"type"`
	Ver    int           `json:"ver"`
	Flags  int           `json:"flags"`
	Cnt    int           `json:"cnt"`
	Pick   []interface{} `json:"pick"`
	Hdr    string        `json:"hdr"`
	Wrap   string        `json:"wrap"`
	Ord    []string      `json:"ord"`
	Bytes  []int         `json:"bytes"`
	Expect []int         `json:"expect"`
	Mask   []int         `json:"mask"`
	Fields []c01Field    `json:"fields"`
	Body   int           `json:"body"`
}

func toBytes(a []int) []byte {
	b := make([]byte, len(a))
	for i, v := range a {
		b[i] = byte(v)
	}
	return b
}

// decoded: result of one decode path.
type decoded struct {
	obj sizedObj
	err error
}

var c01Paths = []string{"DecodeBox", "DecodeBoxSR", "DecodeFile", "DecodeFileSR"}

func c01Decode(path string, in []byte) (d decoded) {
	defer func() {
		if r := recover(); r != nil {
			d = decoded{nil, fmt.Errorf("panic: %v", r)}
		}
	}()
	switch path {
	case "DecodeBox":
		b, err := mp4.DecodeBox(0, bytes.NewReader(in))
		if err != nil || b == nil {
			return decoded{nil, errOr(err, "nil box")}
		}
		return decoded{b, nil}
	case "DecodeBoxSR":
		b, err := mp4.DecodeBoxSR(0, bits.NewFixedSliceReader(in))
		if err != nil || b == nil {
			return decoded{nil, errOr(err, "nil box")}
		}
		return decoded{b, nil}
	case "DecodeFile":
		f, err := mp4.DecodeFile(bytes.NewReader(in))
		if err != nil {
			return decoded{nil, err}
		}
		f.FragEncMode = mp4.EncModeBoxTree
		return decoded{f, nil}
	default:
		f, err := mp4.DecodeFileSR(bits.NewFixedSliceReader(in))
		if err != nil {
			return decoded{nil, err}
		}
		f.FragEncMode = mp4.EncModeBoxTree
		return decoded{f, nil}
	}
}

func errOr(err error, s string) error {
	if err != nil {
		return err
	}
	return fmt.Errorf("%s", s)
}

func fieldAt(in *c01Inst, k int) string {
	for _, f := range in.Fields {
		if k >= in.Body+f.O && k < in.Body+f.O+f.W {
			return f.N
		}
	}
	if k < in.Body {
		return "header"
	}
	return "child-or-tail"
}

type fieldDiff struct {
	typ, field string
	off        int
}

// diffFields: the fields (innermost box type + field name) in which got differs from want outside the mask.
func diffFields(in *c01Inst, got, want []byte, mask []int) []fieldDiff {
	if len(got) != len(want) {
		return []fieldDiff{{"", "length", -2}}
	}
	var out []fieldDiff
	seen := map[string]bool{}
	for k := range got {
		m := byte(0)
		if mask != nil {
			m = byte(mask[k])
		}
		if (got[k]^want[k])&^m == 0 {
			continue
		}
		d := fieldDiff{"", "offset", k}
		if in != nil {
			d.field = fieldAt(in, k)
			// nested field "a.b.type.field": key on the innermost box type
			if parts := strings.Split(d.field, "."); len(parts) >= 2 {
				d.typ, d.field = parts[len(parts)-2], parts[len(parts)-1]
			}
		}
		if !seen[d.typ+"/"+d.field] && len(out) < 8 {
			seen[d.typ+"/"+d.field] = true
			out = append(out, d)
		}
	}
	return out
}

func maskedDigest(b []byte, mask []int) int {
	if mask == nil || len(mask) != len(b) {
		return dig(b)
	}
	c := make([]byte, len(b))
	for k := range b {
		c[k] = b[k] &^ byte(mask[k])
	}
	return dig(c)
}

// c01Obj: one byte string with its canonical re-encoding and don't-care mask.
type c01Obj struct {
	name, typ string
	in        *c01Inst // nil for corpus objects
	input     []byte
	expect    []byte
	mask      []int
	paths     []string
}

type c01Stats struct {
	accepted, rejected map[string]int
	rejectSample       map[string]string
}

// c01Pipeline runs decode -> encode -> decode -> encode for every decode path and both encoders,
// judges P1 (masked equality with the canonical bytes), P2 (re-decode succeeds with an equal structure)
// and P3 (fixed point), and records the observations as one trace per decode path for BoxRoundTrip.tla.
func c01Pipeline(rep *Report, tw *TraceWriter, st *c01Stats, o c01Obj) bool {
	cs := J{"instance": o.name, "input": fmt.Sprintf("%x", o.input)}
	if len(o.input) > 4096 {
		cs["input"] = fmt.Sprintf("%d bytes", len(o.input))
	}
	group := o.typ
	if o.in != nil {
		group = o.in.Layout
	}
	any := false
	for _, path := range o.paths {
		var evs []J
		var keys []string
		vio := func(key, what string, c interface{}) {
			rep.Violation(key, what, c)
			keys = append(keys, key)
		}
		d := c01Decode(path, o.input)
		evs = append(evs, J{"ev": "decode", "ok": d.err == nil})
		if d.err != nil {
			st.rejected[group+"/"+path]++
			if _, ok := st.rejectSample[group+"/"+path]; !ok {
				st.rejectSample[group+"/"+path] = o.name + ": " + d.err.Error()
			}
		} else {
			any = true
			st.accepted[group+"/"+path]++
			w, errW, s, errSW := encBoth(d.obj)
			for _, e := range []struct {
				name string
				out  []byte
				err  error
			}{{"Encode", w, errW}, {"EncodeSW", s, errSW}} {
				where := fmt.Sprintf("%s/%s", path, e.name)
				ev := J{"ev": "encode", "enc": e.name, "ok": e.err == nil, "out": maskedDigest(e.out, o.mask), "want": maskedDigest(o.expect, o.mask),
					"len": len(e.out), "wantlen": len(o.expect), "exact": dig(e.out)}
				evs = append(evs, ev)
				if e.err != nil {
					k := fmt.Sprintf("encode-fails/%s/%s", o.typ, pickName(o.in))
					vio(k, "decoder accepted the input but "+e.name+" fails: "+e.err.Error(), cs)
					ev["key"] = k
					continue
				}
				if diffs := diffFields(o.in, e.out, o.expect, o.mask); len(diffs) > 0 {
					for _, df := range diffs {
						c2 := J{"path": where, "offset": df.off}
						if len(e.out) <= 4096 {
							c2["got"], c2["want"] = fmt.Sprintf("%x", e.out), fmt.Sprintf("%x", o.expect)
						}
						for a, b := range cs {
							c2[a] = b
						}
						t := df.typ
						if t == "" {
							t = o.typ
						}
						k := fmt.Sprintf("lossy/%s/%s", t, df.field)
						if o.in == nil {
							k = fmt.Sprintf("lossy-corpus/%s/%s", o.typ, o.name)
						}
						vio(k, fmt.Sprintf("%s output differs from the input outside the don't-care mask at offset %d (%s)", where, df.off, df.field), c2)
						ev["key"] = k
					}
					continue
				}
				// P2: decode the output again through the same path
				d2 := c01Decode(path, e.out)
				ev2 := J{"ev": "redecode", "enc": e.name, "ok": d2.err == nil, "info1": 0, "info2": 0}
				evs = append(evs, ev2)
				if d2.err != nil {
					k := fmt.Sprintf("redecode-fails/%s/%s", o.typ, path)
					vio(k, where+": output of the encoder is rejected by the decoder: "+d2.err.Error(), cs)
					ev2["key"] = k
					continue
				}
				i1, i2 := infoStr(d.obj), infoStr(d2.obj)
				ev2["info1"], ev2["info2"] = dig([]byte(i1)), dig([]byte(i2))
				if i1 != i2 {
					k := fmt.Sprintf("redecode-differs/%s", o.typ)
					vio(k, where+": second decode gives a different structure", J{"case": cs, "first": i1, "second": i2})
					ev2["key"] = k
					continue
				}
				if len(e.out) == len(o.input) && len(e.out) < 1<<16 && !reflect.DeepEqual(unwrap(d.obj), unwrap(d2.obj)) {
					rep.Drift(fmt.Sprintf("deep-unequal/%s", o.typ), where+": reflect.DeepEqual of first and second decode is false although Info and bytes agree", cs)
				}
				// P3: fixed point, with both encoders
				w2, errW2, s2, errSW2 := encBoth(d2.obj)
				ev3 := J{"ev": "reencode", "enc": e.name, "ok": errW2 == nil && errSW2 == nil, "w": dig(w2), "sw": dig(s2)}
				evs = append(evs, ev3)
				if errW2 != nil || errSW2 != nil || !bytes.Equal(w2, e.out) || !bytes.Equal(s2, e.out) {
					k := fmt.Sprintf("not-fixed-point/%s", o.typ)
					c3 := J{"case": cs, "errs": fmt.Sprint(errW2, errSW2)}
					if len(e.out) <= 4096 {
						c3["first"], c3["second_w"], c3["second_sw"] = fmt.Sprintf("%x", e.out), fmt.Sprintf("%x", w2), fmt.Sprintf("%x", s2)
					}
					vio(k, where+": encoding the re-decoded structure does not give the same bytes", c3)
					ev3["key"] = k
				}
			}
		}
		if tw != nil {
			sort.Strings(keys)
			tw.Reset(J{"obj": o.name, "path": path, "group": strings.Join(keys, "+")})
			for _, e := range evs {
				tw.Ev(e)
			}
		}
	}
	return any
}

// box types whose reserved bits sit at variable positions (dontcare.json: variable_position_fields)
var dcVariable = map[string]bool{"avcC": true, "hvcC": true, "dec3": true, "sgpd": true, "colr": true, "encv": true, "hvc1": true, "ec-3": true, "tlou-v1": true}

func newC01Stats() *c01Stats {
	return &c01Stats{map[string]int{}, map[string]int{}, map[string]string{}}
}

func (st *c01Stats) into(rep *Report) {
	rep.Extra["accepted"] = st.accepted
	rep.Extra["rejected"] = st.rejected
	rep.Extra["reject_samples"] = st.rejectSample
}

func c01Replay(args []string) error {
	rep := newReport()
	st := newC01Stats()
	tw, err := newTraceWriter(argValue(args, "-trace", "trace.ndjson"))
	if err != nil {
		return err
	}
	dc, err := loadDontCare(argValue(args, "-dontcare", "/verif/dontcare.json"))
	if err != nil {
		return err
	}
	err = readLines(argValue(args, "-in", "-"), func(line []byte) error {
		var in c01Inst
		if err := json.Unmarshal(line, &in); err != nil {
			return err
		}
		id := fmt.Sprintf("%s/v%d/f%x/c%d/%v/%s/%s", in.Layout, in.Ver, in.Flags, in.Cnt, in.Pick, in.Hdr, in.Wrap)
		if len(in.Ord) > 0 {
			id += "=" + strings.Join(in.Ord, "+")
		}
		// the committed list and the spec's reserved fields must describe the same bits
		if dm := dc.mask(toBytes(in.Expect)); !dcVariable[in.Type] && !dcVariable[in.Layout] {
			for k := range dm {
				if dm[k] != in.Mask[k] {
					rep.Drift("dontcare-list-vs-spec/"+in.Type, fmt.Sprintf("dontcare.json and BoxLayouts.tla disagree at offset %d of %s: list %d, spec %d", k, id, dm[k], in.Mask[k]), nil)
					break
				}
			}
		}
		any := c01Pipeline(rep, tw, st, c01Obj{name: id, typ: in.Type, in: &in, input: toBytes(in.Bytes), expect: toBytes(in.Expect), mask: in.Mask, paths: c01Paths})
		var smp interface{}
		if any && in.Flags != 0 && in.Wrap == "parent" {
			smp = J{"instance": id, "input": fmt.Sprintf("%x", toBytes(in.Bytes)), "canonical": fmt.Sprintf("%x", toBytes(in.Expect)), "accepted_by_a_decoder": true}
		}
		rep.Count(id, any, smp)
		return nil
	})
	st.into(rep)
	rep.Extra["events"] = tw.N
	rep.Extra["traces"] = tw.T
	rep.Done()
	if err != nil {
		return err
	}
	return tw.Close()
}

// c01Corpus: every corpus / materialised file (file-level paths, box-tree mode) and every top-level box of
// them (box-level paths); the canonical output is the input itself, no mask.
func c01Corpus(args []string) error {
	rep := newReport()
	st := newC01Stats()
	tw, err := newTraceWriter(argValue(args, "-trace", "trace.ndjson"))
	if err != nil {
		return err
	}
	type nd struct {
		name string
		data []byte
	}
	var inputs []nd
	for _, dir := range []string{"/repo/mp4/testdata", "/repo/examples/testdata", "/repo/cmd/mp4ff-crop/testdata", "/repo/cmd/mp4ff-decrypt/testdata"} {
		for _, p := range corpusFiles(dir) {
			data, err := ioutil.ReadFile(p)
			if err == nil {
				inputs = append(inputs, nd{filepath.Base(p), data})
			}
		}
	}
	for _, m := range materialisedFiles() {
		inputs = append(inputs, nd{m.name, m.data})
	}
	dc, err := loadDontCare(argValue(args, "-dontcare", "/verif/dontcare.json"))
	if err != nil {
		return err
	}
	seenBox := map[int]bool{}
	for _, in := range inputs {
		fmask := dc.mask(in.data)
		any := c01Pipeline(rep, tw, st, c01Obj{name: in.name, typ: "file", input: in.data, expect: in.data, mask: fmask, paths: []string{"DecodeFile", "DecodeFileSR"}})
		rep.Count("file:"+in.name, any, nil)
		top, err := walkBoxes(in.data, 0)
		if err != nil {
			continue
		}
		for i, t := range top {
			raw := in.data[t.Start : t.Start+t.Size]
			if len(raw) > 1<<22 || seenBox[dig(raw)] {
				continue
			}
			seenBox[dig(raw)] = true
			name := fmt.Sprintf("%s#%d/%s", in.name, i, t.Type)
			any := c01Pipeline(rep, tw, st, c01Obj{name: name, typ: t.Type, input: raw, expect: raw, mask: fmask[t.Start : t.Start+t.Size], paths: []string{"DecodeBox", "DecodeBoxSR"}})
			rep.Count("box:"+name, any, nil)
		}
	}
	st.into(rep)
	rep.Extra["events"] = tw.N
	rep.Extra["traces"] = tw.T
	rep.Done()
	return tw.Close()
}

// pickName: "<field>=<boundary kind>" of the varied field of an instance ("shape" when none).
func pickName(in *c01Inst) string {
	if in == nil || len(in.Pick) != 2 {
		return "corpus"
	}
	idx, _ := in.Pick[0].(float64)
	for _, f := range in.Fields {
		if f.I == int(idx) && idx > 0 {
			return fmt.Sprintf("%s=%v", f.N, in.Pick[1])
		}
	}
	return "shape"
}

func unwrap(o sizedObj) interface{} {
	if f, ok := o.(*mp4.File); ok {
		return f.Children
	}
	return o
}
