package main

// C10: mp4ff-crop. Replays Crop.tla (file, duration) pairs: the abstract progressive file is
// materialised with the harness's box writer (token-coded payloads), the BUILT mp4ff-crop binary is
// run on it, and the output is read with the harness's own table expansion.

import (
	"strings"
	"bytes"
	"encoding/binary"
	"encoding/json"
	"fmt"
	"io/ioutil"
	"os"
	"os/exec"
	"path/filepath"
	"sync"
)

func init() {
	register("c10-replay", c10Replay)
}

type cropTrack struct {
	Kind    string `json:"kind"`
	Ts      int    `json:"ts"`
	Durs    []int  `json:"durs"`
	Sizes   []int  `json:"sizes"`
	Ctos    []int  `json:"ctos"`
	HasStss bool   `json:"hasstss"`
	Sync    []bool `json:"sync"`
	Spc     []int  `json:"spc"`
	Indep   []bool `json:"-"` // C11 fragmented input: non-sync samples that are marked sample_depends_on = 2
}

type cropCase struct {
	Tracks  []cropTrack `json:"tracks"`
	D       int         `json:"d"`
	Defined bool        `json:"defined"`
	EndTime int         `json:"endtime"`
	Kept    []int       `json:"kept"`
}

func rle(vals []int) []runEntry {
	var out []runEntry
	for _, v := range vals {
		if len(out) > 0 && out[len(out)-1].V == v {
			out[len(out)-1].N++
		} else {
			out = append(out, runEntry{1, v})
		}
	}
	return out
}

func stscOf(spc []int) []stscEntry {
	var out []stscEntry
	for c, n := range spc {
		if len(out) == 0 || out[len(out)-1].Spc != n {
			out = append(out, stscEntry{c + 1, n, 1})
		}
	}
	return out
}

// buildMultiProg lays out ftyp, moov, mdat (or ftyp, mdat, moov) with the chunks of all tracks interleaved
// round-robin (revChunks: in reverse trak order, so that the first chunk in mdat is not the first trak's). co64 selects 64-bit chunk offsets; edts adds an edit list to every track.
func buildMultiProg(tracks []cropTrack, co64, mdatFirst, edts, cropMdat64, revChunks bool) []byte {
	ftyp := mFtyp("isom", 0x200, "isom", "iso2", "mp41")
	// chunk order: round robin over tracks
	type ck struct{ t, c int }
	var order []ck
	for c := 0; ; c++ {
		any := false
		for k := range tracks {
			t := k
			if revChunks { // the chunk of the last trak of the moov comes first in every round
				t = len(tracks) - 1 - k
			}
			if c < len(tracks[t].Spc) {
				order = append(order, ck{t, c})
				any = true
			}
		}
		if !any {
			break
		}
	}
	var payload []byte
	rel := make([][]int, len(tracks))
	first := make([][]int, len(tracks)) // first sample (1-based) of each chunk
	for t := range tracks {
		s := 1
		for _, n := range tracks[t].Spc {
			first[t] = append(first[t], s)
			s += n
		}
		rel[t] = make([]int, len(tracks[t].Spc))
	}
	for _, o := range order {
		rel[o.t][o.c] = len(payload)
		for s := first[o.t][o.c]; s < first[o.t][o.c]+tracks[o.t].Spc[o.c]; s++ {
			payload = append(payload, tokenBytes(o.t+1, s, tracks[o.t].Sizes[s-1])...)
		}
	}
	build := func(base int64) []byte {
		var traks []byte
		var maxDurMs int64
		for _, tr := range tracks {
			var total int64
			for _, d := range tr.Durs {
				total += int64(d)
			}
			if ms := total * 1000 / int64(tr.Ts); ms > maxDurMs {
				maxDurMs = ms
			}
		}
		for t, tr := range tracks {
			var total int64
			for _, d := range tr.Durs {
				total += int64(d)
			}
			offs := make([]int64, len(rel[t]))
			for i, o := range rel[t] {
				offs[i] = base + int64(o)
			}
			kids := [][]byte{mStsd(), mStts(rle(tr.Durs))}
			if len(tr.Ctos) > 0 {
				kids = append(kids, mCtts(0, rle(tr.Ctos)))
			}
			kids = append(kids, mStsc(stscOf(tr.Spc)), mStsz(0, tr.Sizes))
			if co64 {
				kids = append(kids, mCo64(offs))
			} else {
				kids = append(kids, mStco(offs))
			}
			if tr.HasStss {
				var nums []int
				for s, b := range tr.Sync {
					if b {
						nums = append(nums, s+1)
					}
				}
				kids = append(kids, mStss(nums))
			}
			var extra []byte
			if edts {
				extra = mElst(total*1000/int64(tr.Ts), 0)
			}
			// tkhd duration in movie timescale (1000)
			trak := mTrakD(int64(t+1), int64(tr.Ts), total, total*1000/int64(tr.Ts), tr.Kind == "video", extra, kids...)
			traks = append(traks, trak...)
		}
		return mkBox("moov", mMvhd(1000, maxDurMs, int64(len(tracks)+1)), traks)
	}
	moov := build(0)
	hdr := 8
	if cropMdat64 {
		hdr = 16 // cropMdat64: the mdat box uses the 64-bit largesize header form
	}
	if mdatFirst {
		base := len(ftyp) + hdr
		return cat(ftyp, mMdat(payload, cropMdat64), build(int64(base)))
	}
	base := len(ftyp) + len(moov) + hdr
	return cat(ftyp, build(int64(base)), mMdat(payload, cropMdat64))
}


// mTrakD is mTrak with separate media and track (movie timescale) durations.
func mTrakD(trackID, timescale, mediaDur, trackDur int64, video bool, extraTrakChildren []byte, stblChildren ...[]byte) []byte {
	mh := mSmhd()
	hd := mHdlr("soun", "s")
	if video {
		mh = mVmhd()
		hd = mHdlr("vide", "v")
	}
	stbl := mkBox("stbl", stblChildren...)
	minf := mkBox("minf", mh, mDinf(), stbl)
	mdia := mkBox("mdia", mMdhd(timescale, mediaDur), hd, minf)
	return mkBox("trak", mTkhd(trackID, trackDur, !video, 16, 16), extraTrakChildren, mdia)
}

// ---- independent reader of a progressive file (ISO/IEC 14496-12 table expansion)

type expSample struct {
	Dur, Size, Cto int
	Sync           bool
	Data           []byte
}

type expTrack struct {
	Samples                []expSample
	MdhdDur, TkhdDur       int64
	OffsetsInsideMdat      bool
}

type expFile struct {
	Tracks      []expTrack
	MvhdDur     int64
	MdatPayload int
	Covered     int // bytes of mdat referenced by samples
}

func u32s(p []byte, at, n int) []int {
	out := make([]int, n)
	for i := 0; i < n; i++ {
		out[i] = int(binary.BigEndian.Uint32(p[at+4*i:]))
	}
	return out
}

func expandProgressive(file []byte) (*expFile, error) {
	top, err := walkBoxes(file, 0)
	if err != nil {
		return nil, err
	}
	moov := findBox(top, "moov")
	mdat := findBox(top, "mdat")
	if moov == nil || mdat == nil {
		return nil, fmt.Errorf("moov or mdat missing")
	}
	ef := &expFile{MdatPayload: len(mdat.Payload)}
	mk, err := walkBoxes(moov.Payload, moov.Start+moov.HdrLen)
	if err != nil {
		return nil, err
	}
	for _, b := range mk {
		if b.Type == "mvhd" {
			ef.MvhdDur = int64(binary.BigEndian.Uint32(b.Payload[16:]))
		}
		if b.Type != "trak" {
			continue
		}
		var et expTrack
		tk, err := walkBoxes(b.Payload, b.Start+b.HdrLen)
		if err != nil {
			return nil, err
		}
		if th := findBox(tk, "tkhd"); th != nil {
			et.TkhdDur = int64(binary.BigEndian.Uint32(th.Payload[20:]))
		}
		stbl, err := walkPath(b.Payload, b.Start+b.HdrLen, "mdia", "minf", "stbl")
		if err != nil {
			return nil, err
		}
		if mdhd, err := walkPath(b.Payload, b.Start+b.HdrLen, "mdia", "mdhd"); err == nil {
			et.MdhdDur = int64(binary.BigEndian.Uint32(mdhd.Payload[16:]))
		}
		sk, err := walkBoxes(stbl.Payload, stbl.Start+stbl.HdrLen)
		if err != nil {
			return nil, err
		}
		var durs, ctos, sizes, offs []int
		var syncSet map[int]bool
		var stsc [][3]int
		for _, x := range sk {
			p := x.Payload
			switch x.Type {
			case "stts", "ctts":
				n := int(binary.BigEndian.Uint32(p[4:]))
				for i := 0; i < n; i++ {
					cnt := int(binary.BigEndian.Uint32(p[8+8*i:]))
					v := int(int32(binary.BigEndian.Uint32(p[12+8*i:])))
					for k := 0; k < cnt; k++ {
						if x.Type == "stts" {
							durs = append(durs, v)
						} else {
							ctos = append(ctos, v)
						}
					}
				}
			case "stsz":
				uni := int(binary.BigEndian.Uint32(p[4:]))
				n := int(binary.BigEndian.Uint32(p[8:]))
				for i := 0; i < n; i++ {
					if uni != 0 {
						sizes = append(sizes, uni)
					} else {
						sizes = append(sizes, int(binary.BigEndian.Uint32(p[12+4*i:])))
					}
				}
			case "stco":
				offs = u32s(p, 8, int(binary.BigEndian.Uint32(p[4:])))
			case "co64":
				n := int(binary.BigEndian.Uint32(p[4:]))
				for i := 0; i < n; i++ {
					offs = append(offs, int(binary.BigEndian.Uint64(p[8+8*i:])))
				}
			case "stss":
				syncSet = map[int]bool{}
				for _, s := range u32s(p, 8, int(binary.BigEndian.Uint32(p[4:]))) {
					syncSet[s] = true
				}
			case "stsc":
				n := int(binary.BigEndian.Uint32(p[4:]))
				for i := 0; i < n; i++ {
					stsc = append(stsc, [3]int{int(binary.BigEndian.Uint32(p[8+12*i:])), int(binary.BigEndian.Uint32(p[12+12*i:])), int(binary.BigEndian.Uint32(p[16+12*i:]))})
				}
			}
		}
		// 8.7.4: first_chunk starts at 1 and increases from entry to entry, no chunk is empty
		for i, e := range stsc {
			if (i == 0 && e[0] != 1) || (i > 0 && e[0] <= stsc[i-1][0]) || e[1] == 0 {
				return nil, fmt.Errorf("stsc is not well formed: entry %d has first_chunk %d, samples_per_chunk %d (previous first_chunk %d)", i+1, e[0], e[1], func() int {
					if i > 0 {
						return stsc[i-1][0]
					}
					return 0
				}())
			}
		}
		n := len(sizes)
		if len(durs) != n || (len(ctos) != 0 && len(ctos) != n) {
			return nil, fmt.Errorf("table lengths disagree: stts %d ctts %d stsz %d", len(durs), len(ctos), n)
		}
		// samples -> chunks
		et.OffsetsInsideMdat = true
		s := 0
		for c := 1; c <= len(offs) && s < n; c++ {
			spc := 0
			for _, e := range stsc {
				if e[0] <= c {
					spc = e[1]
				}
			}
			pos := offs[c-1]
			for k := 0; k < spc && s < n; k++ {
				smp := expSample{Dur: durs[s], Size: sizes[s], Sync: syncSet == nil || syncSet[s+1]}
				if len(ctos) > 0 {
					smp.Cto = ctos[s]
				}
				lo, hi := mdat.Start+mdat.HdrLen, mdat.Start+mdat.Size
				if pos < lo || pos+sizes[s] > hi {
					et.OffsetsInsideMdat = false
				} else {
					smp.Data = file[pos : pos+sizes[s]]
					ef.Covered += sizes[s]
				}
				et.Samples = append(et.Samples, smp)
				pos += sizes[s]
				s++
			}
		}
		if s != n {
			return nil, fmt.Errorf("chunks hold %d samples, tables %d", s, n)
		}
		ef.Tracks = append(ef.Tracks, et)
	}
	return ef, nil
}

func c10Replay(args []string) error {
	rep := newReport()
	cropBin := argValue(args, "-crop", "")
	if cropBin == "" {
		return fmt.Errorf("-crop <binary> required")
	}
	tmp, err := ioutil.TempDir("", "c10.")
	if err != nil {
		return err
	}
	defer os.RemoveAll(tmp)
	var cases []cropCase
	var raws []string
	if err := readLines(argValue(args, "-in", "-"), func(line []byte) error {
		var c cropCase
		if err := json.Unmarshal(line, &c); err != nil {
			return err
		}
		cases = append(cases, c)
		raws = append(raws, string(line))
		return nil
	}); err != nil {
		return err
	}
	var wg sync.WaitGroup
	sem := make(chan struct{}, 16)
	stats := struct {
		sync.Mutex
		ok, fail, undefinedOK, definedFail int
	}{}
	for i := range cases {
		wg.Add(1)
		sem <- struct{}{}
		go func(i int) {
			defer wg.Done()
			defer func() { <-sem }()
			c := &cases[i]
			variant := i % 7
			in := buildMultiProg(c.Tracks, variant == 1, variant == 2 || variant == 5, variant == 3, variant == 4 || variant == 5, variant == 6)
			inPath := filepath.Join(tmp, fmt.Sprintf("in%d.mp4", i))
			outPath := filepath.Join(tmp, fmt.Sprintf("out%d.mp4", i))
			_ = ioutil.WriteFile(inPath, in, 0644)
			defer os.Remove(inPath)
			defer os.Remove(outPath)
			cmd := exec.Command(cropBin, "-d", fmt.Sprint(c.D), inPath, outPath)
			var stderr bytes.Buffer
			cmd.Stderr = &stderr
			err := cmd.Run()
			kinds := make([]string, len(c.Tracks))
			for t, tr := range c.Tracks {
				kinds[t] = fmt.Sprintf("%s n=%d ts=%d stss=%v ctts=%v spc=%v", tr.Kind, len(tr.Durs), tr.Ts, tr.HasStss, len(tr.Ctos) > 0, tr.Spc)
			}
			cs := J{"tracks": c.Tracks, "d": c.D, "variant": []string{"stco", "co64", "mdat-first", "edts", "mdat-largesize", "mdat-largesize-first", "reverse-interleave"}[variant], "expected_kept": c.Kept, "endtime": c.EndTime}
			if err != nil {
				if strings.Contains(stderr.String(), "goroutine ") && strings.Contains(stderr.String(), "panic") {
					first := strings.SplitN(stderr.String(), "\n", 2)[0]
					rep.Violation("crop/tool-panics", "mp4ff-crop panics on a well-formed progressive file: "+first, cs)
				}
				stats.Lock()
				stats.fail++
				if c.Defined {
					stats.definedFail++
				}
				stats.Unlock()
				if c.Defined {
					rep.Drift("crop/fails-where-defined", "tool exits non-zero although an end time inside every track exists", J{"case": cs, "stderr": stderr.String()})
				}
				rep.Count(raws[i], false, nil)
				return
			}
			stats.Lock()
			stats.ok++
			stats.Unlock()
			out, rerr := ioutil.ReadFile(outPath)
			if rerr != nil {
				rep.Violation("crop/no-output", "tool exits 0 but wrote no output", cs)
				return
			}
			ef, perr := expandProgressive(out)
			if perr != nil {
				rep.Violation("crop/output-not-decodable", "output is not a decodable progressive file: "+perr.Error(), cs)
				rep.Count(raws[i], true, nil)
				return
			}
			refNoStss := !c.Tracks[0].HasStss
			sfx := ""
			if refNoStss {
				sfx = "/reference-track-without-stss"
			}
			if !c.Defined {
				stats.Lock()
				stats.undefinedOK++
				stats.Unlock()
				rep.Drift("crop/succeeds-where-undefined", "tool succeeds although the spec finds no end time inside every track", cs)
				rep.Count(raws[i], false, nil)
				return
			}
			if len(ef.Tracks) != len(c.Tracks) {
				rep.Violation("crop/track-count", "output has a different number of tracks", cs)
				return
			}
			total := 0
			countsOK := true
			for t, tr := range c.Tracks {
				et := ef.Tracks[t]
				k := c.Kept[t]
				if len(et.Samples) != k {
					rep.Violation("crop/sample-count"+sfx, fmt.Sprintf("track %d (%s) has %d samples, expected the first %d", t+1, tr.Kind, len(et.Samples), k),
						J{"case": cs, "track": t + 1})
					countsOK = false
					continue
				}
				if !et.OffsetsInsideMdat {
					rep.Violation("crop/offsets-outside-mdat", "a chunk offset points outside the new mdat", J{"case": cs, "track": t + 1})
				}
				for s := 0; s < k; s++ {
					g := et.Samples[s]
					wantCto := 0
					if len(tr.Ctos) > 0 {
						wantCto = tr.Ctos[s]
					}
					switch {
					case g.Dur != tr.Durs[s]:
						rep.Violation("crop/duration", fmt.Sprintf("track %d sample %d duration %d, expected %d", t+1, s+1, g.Dur, tr.Durs[s]), J{"case": cs})
					case g.Size != tr.Sizes[s] || !bytes.Equal(g.Data, tokenBytes(t+1, s+1, tr.Sizes[s])):
						rep.Violation("crop/bytes", fmt.Sprintf("track %d sample %d does not hold the bytes of input sample %d", t+1, s+1, s+1), J{"case": cs})
					case g.Cto != wantCto:
						rep.Violation("crop/composition-offset", fmt.Sprintf("track %d sample %d composition offset %d, expected %d", t+1, s+1, g.Cto, wantCto), J{"case": cs})
					case g.Sync != tr.Sync[s]:
						rep.Violation("crop/sync-flag", fmt.Sprintf("track %d sample %d sync %v, expected %v", t+1, s+1, g.Sync, tr.Sync[s]), J{"case": cs})
					}
					total += tr.Sizes[s]
				}
				var origMedia int64
				for _, d := range tr.Durs {
					origMedia += int64(d)
				}
				if et.TkhdDur > origMedia*1000/int64(tr.Ts) {
					rep.Violation("crop/header-duration", "tkhd duration exceeds the original", J{"case": cs, "track": t + 1, "tkhd": et.TkhdDur})
				}
			}
			if countsOK && ef.MdatPayload != total {
				rep.Violation("crop/mdat-size", fmt.Sprintf("new mdat holds %d bytes, the kept samples have %d", ef.MdatPayload, total), cs)
			}
			var smp interface{}
			if len(c.Tracks) == 2 && c.Kept[0] >= 2 {
				smp = J{"tracks": kinds, "d": c.D, "kept": c.Kept}
			}
			rep.Count(raws[i], true, smp)
		}(i)
	}
	wg.Wait()
	rep.Extra["tool_ok"] = stats.ok
	rep.Extra["tool_failed"] = stats.fail
	rep.Extra["undefined_but_ok"] = stats.undefinedOK
	rep.Extra["defined_but_failed"] = stats.definedFail
	rep.Done()
	return nil
}
