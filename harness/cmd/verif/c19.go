package main

// C19: init segments built through the API. Replays Init.tla histories through the real
// CreateEmptyInit / AddEmptyTrack / Set*Descriptor API, projects the real object (before and after an
// encode/decode round trip) and compares with the spec's expectation; then creates a fragment per
// track and reads it back against the decoded init.

import (
	"bytes"
	"encoding/hex"
	"encoding/json"
	"fmt"

	"github.com/Eyevinn/mp4ff/aac"
	"github.com/Eyevinn/mp4ff/avc"
	"github.com/Eyevinn/mp4ff/bits"
	"github.com/Eyevinn/mp4ff/hevc"
	"github.com/Eyevinn/mp4ff/mp4"
)

func init() {
	register("c19-replay", c19Replay)
}

const (
	avcSPSnalu  = "67640020accac05005bb0169e0000003002000000c9c4c000432380008647c12401cb1c31380"
	avcPPSnalu  = "68b5df20"
	hevcVPSnalu = "40010c01ffff022000000300b0000003000003007b18b024"
	hevcSPSnalu = "420101022000000300b0000003000003007ba0078200887db6718b92448053888892cf24a69272c9124922dc91aa48fca223ff000100016a02020201"
	hevcPPSnalu = "4401c0252f053240"
)

func unhex(s string) []byte {
	b, err := hex.DecodeString(s)
	if err != nil {
		panic(err)
	}
	return b
}

type c19Trak struct {
	ID       int    `json:"id"`
	Mt       string `json:"mt"`
	Ts       int    `json:"ts"`
	Lang     string `json:"lang"`
	Desc     string `json:"desc"`
	Hdlr     string `json:"hdlr"`
	Mh       string `json:"mh"`
	MdhdLang string `json:"mdhdlang"`
	Elng     string `json:"elng"`
	Entry    string `json:"entry"`
	Volume   int    `json:"volume"`
}

type c19Case struct {
	Next  int       `json:"next"`
	Trex  []int     `json:"trex"`
	Traks []c19Trak `json:"traks"`
}

// projectInit projects the real moov onto the abstract init segment.
func projectInit(moov *mp4.MoovBox) (c19Case, []string) {
	var p c19Case
	var notes []string
	if moov.Mvhd != nil {
		p.Next = int(moov.Mvhd.NextTrackID)
	}
	if moov.Mvex != nil {
		for _, t := range moov.Mvex.Trexs {
			p.Trex = append(p.Trex, int(t.TrackID))
		}
	}
	for _, tr := range moov.Traks {
		var t c19Trak
		if tr.Tkhd != nil {
			t.ID = int(tr.Tkhd.TrackID)
			t.Volume = int(tr.Tkhd.Volume)
		}
		if tr.Mdia != nil {
			if tr.Mdia.Mdhd != nil {
				t.Ts = int(tr.Mdia.Mdhd.Timescale)
				t.MdhdLang = tr.Mdia.Mdhd.GetLanguage()
			}
			if tr.Mdia.Hdlr != nil {
				t.Hdlr = tr.Mdia.Hdlr.HandlerType
			}
			if tr.Mdia.Elng != nil {
				t.Elng = tr.Mdia.Elng.Language
			}
			if tr.Mdia.Minf != nil {
				for _, c := range tr.Mdia.Minf.Children {
					switch c.Type() {
					case "vmhd", "smhd", "sthd", "nmhd":
						t.Mh = c.Type()
					}
				}
				if tr.Mdia.Minf.Stbl != nil && tr.Mdia.Minf.Stbl.Stsd != nil {
					t.Entry = "none"
					for _, c := range tr.Mdia.Minf.Stbl.Stsd.Children {
						t.Entry = c.Type()
					}
				}
			}
		}
		p.Traks = append(p.Traks, t)
	}
	return p, notes
}

func c19Replay(args []string) error {
	rep := newReport()
	err := readLines(argValue(args, "-in", "-"), func(line []byte) error {
		var c c19Case
		if err := json.Unmarshal(line, &c); err != nil {
			return err
		}
		hist := make([]string, len(c.Traks))
		for i, t := range c.Traks {
			hist[i] = t.Mt + "/" + t.Lang + "/" + t.Desc
		}
		cs := J{"history": hist}
		c19One(rep, &c, cs)
		var smp interface{}
		if len(c.Traks) == 2 && c.Traks[0].Desc == "avc1" {
			smp = cs
		}
		rep.Count(string(line), true, smp)
		return nil
	})
	rep.Done()
	return err
}

func c19One(rep *Report, c *c19Case, cs J) {
	step := "CreateEmptyInit"
	defer func() {
		if r := recover(); r != nil {
			key := "api/panic"
			if step == "AddEmptyTrack" {
				key = "api/panic/AddEmptyTrack-" + fmt.Sprint(cs["mt"])
			}
			rep.Violation(key, fmt.Sprintf("%s panics: %v", step, r), cs)
		}
	}()
	ini := mp4.CreateEmptyInit()
	for _, t := range c.Traks {
		step = "AddEmptyTrack"
		cs["mt"] = t.Mt
		ini.AddEmptyTrack(uint32(t.Ts), t.Mt, t.Lang)
	}
	delete(cs, "mt")
	type want struct {
		w, h       int
		sps, pps   [][]byte
		vps        [][]byte
		asc        *ascRec
		entryCheck bool
	}
	wants := make([]want, len(c.Traks))
	for i, t := range c.Traks {
		trak := ini.Moov.Traks[i]
		step = "SetDescriptor " + t.Desc
		var err error
		switch t.Desc {
		case "avc1", "avc3":
			sps, pps := [][]byte{unhex(avcSPSnalu)}, [][]byte{unhex(avcPPSnalu)}
			err = trak.SetAVCDescriptor(t.Desc, sps, pps, true)
			p, e2 := avc.ParseSPSNALUnit(sps[0], false)
			if e2 == nil {
				wants[i] = want{w: int(p.Width), h: int(p.Height), sps: sps, pps: pps, entryCheck: true}
			}
		case "hvc1", "hev1":
			vps, sps, pps := [][]byte{unhex(hevcVPSnalu)}, [][]byte{unhex(hevcSPSnalu)}, [][]byte{unhex(hevcPPSnalu)}
			err = trak.SetHEVCDescriptor(t.Desc, vps, sps, pps, nil, true)
			p, e2 := hevc.ParseSPSNALUnit(sps[0])
			if e2 == nil {
				w, h := p.ImageSize()
				wants[i] = want{w: int(w), h: int(h), vps: vps, sps: sps, pps: pps, entryCheck: true}
			}
		case "aac2", "aac5", "aac29":
			ot := map[string]int{"aac2": 2, "aac5": 5, "aac29": 29}[t.Desc]
			// every second audio track: a base rate whose doubled (SBR extension) rate is NOT one of the 13 table
			// frequencies, so that the extension frequency is coded explicitly in the AudioSpecificConfig
			sf := 24000
			if i%2 == 1 {
				sf = 7350
			}
			err = trak.SetAACDescriptor(byte(ot), sf)
			a := ascRec{Ot: ot, Sf: sf, Ch: 2}
			if ot != 2 {
				a.Ef, a.Sbr = 2*sf, true
			}
			if ot == 29 {
				a.Ch, a.Ps = 1, true
			}
			wants[i] = want{asc: &a}
		case "ac3":
			err = trak.SetAC3Descriptor(&mp4.Dac3Box{FSCod: 0, BSID: 8, ACMod: 7, LFEOn: 1, BitRateCode: 10})
		case "ec3":
			err = trak.SetEC3Descriptor(&mp4.Dec3Box{DataRate: 448, NumIndSub: 0, EC3Subs: []mp4.EC3Sub{{FSCod: 0, BSID: 16, ACMod: 7, LFEOn: 1}}})
		case "wvtt":
			err = trak.SetWvttDescriptor("WEBVTT")
		case "stpp":
			err = trak.SetStppDescriptor("http://www.w3.org/ns/ttml", "", "")
		}
		if err != nil {
			rep.Violation("api/descriptor-error", "Set"+t.Desc+"Descriptor fails: "+err.Error(), cs)
			return
		}
	}
	step = "project"
	check := func(stage string, moov *mp4.MoovBox) {
		got, _ := projectInit(moov)
		if got.Next != c.Next || fmt.Sprint(got.Trex) != fmt.Sprint(c.Trex) {
			rep.Violation("ids/"+stage, "track ids / trex ids / next track id inconsistent", J{"case": cs, "observed": got, "expected": c})
		}
		if len(got.Traks) != len(c.Traks) {
			rep.Violation("traks/count/"+stage, "wrong number of tracks", J{"case": cs})
			return
		}
		for i, w := range c.Traks {
			g := got.Traks[i]
			if g.ID != w.ID || g.Ts != w.Ts {
				rep.Violation("trak/id-timescale/"+stage, "track id or timescale differs", J{"case": cs, "observed": g, "expected": w})
			}
			if g.Hdlr != w.Hdlr {
				rep.Violation("trak/handler/"+w.Mt+"/"+stage, fmt.Sprintf("handler type %q does not match media type %q (expected %q)", g.Hdlr, w.Mt, w.Hdlr), J{"case": cs})
			}
			if g.Mh != w.Mh {
				rep.Violation("trak/media-header/"+w.Mt+"/"+stage, fmt.Sprintf("media header %q does not match media type %q (expected %q)", g.Mh, w.Mt, w.Mh), J{"case": cs})
			}
			if g.Volume != w.Volume {
				rep.Violation("trak/volume/"+stage, "tkhd volume does not match media type", J{"case": cs, "observed": g.Volume})
			}
			if g.MdhdLang != w.MdhdLang || g.Elng != w.Elng {
				rep.Violation("trak/language/"+stage, fmt.Sprintf("language: mdhd %q elng %q, expected mdhd %q elng %q", g.MdhdLang, g.Elng, w.MdhdLang, w.Elng), J{"case": cs})
			}
			if g.Entry != w.Entry {
				rep.Violation("trak/sample-entry/"+stage, fmt.Sprintf("sample entry %q, expected %q", g.Entry, w.Entry), J{"case": cs})
			}
			// I5: configuration equals what was supplied
			stsd := moov.Traks[i].Mdia.Minf.Stbl.Stsd
			wt := wants[i]
			switch {
			case wt.entryCheck && stsd.AvcX != nil:
				e := stsd.AvcX
				ok := int(e.Width) == wt.w && int(e.Height) == wt.h && e.AvcC != nil && eqNalus(e.AvcC.SPSnalus, wt.sps) && eqNalus(e.AvcC.PPSnalus, wt.pps)
				if !ok {
					rep.Violation("entry/avc-config/"+stage, "AVC sample entry dimensions / parameter sets differ from those supplied", J{"case": cs})
				}
			case wt.entryCheck && stsd.HvcX != nil:
				e := stsd.HvcX
				ok := int(e.Width) == wt.w && int(e.Height) == wt.h && e.HvcC != nil &&
					eqNalus(e.HvcC.GetNalusForType(hevc.NALU_VPS), wt.vps) && eqNalus(e.HvcC.GetNalusForType(hevc.NALU_SPS), wt.sps) && eqNalus(e.HvcC.GetNalusForType(hevc.NALU_PPS), wt.pps)
				if !ok {
					rep.Violation("entry/hevc-config/"+stage, "HEVC sample entry dimensions / parameter sets differ from those supplied", J{"case": cs})
				}
			case wt.entryCheck:
				rep.Violation("entry/missing/"+stage, "video sample entry missing", J{"case": cs})
			case wt.asc != nil:
				if stsd.Mp4a == nil || stsd.Mp4a.Esds == nil {
					rep.Violation("entry/missing/"+stage, "mp4a/esds missing", J{"case": cs})
				} else if a, err := ascFromEsds(stsd.Mp4a.Esds); err != nil || ascOf(a) != *wt.asc {
					rep.Violation("entry/aac-config/"+stage, "AAC configuration differs from the one supplied", J{"case": cs})
				}
			}
		}
	}
	check("built", ini.Moov)
	// I6/I7: encode -> decode -> equal tree, equal bytes on re-encode, recognised as fragmented init
	step = "Encode"
	var buf bytes.Buffer
	if err := ini.Encode(&buf); err != nil {
		rep.Violation("encode/error", "init segment does not encode: "+err.Error(), cs)
		return
	}
	if uint64(buf.Len()) != ini.Size() {
		rep.Violation("encode/size", "init segment Size() differs from bytes written", cs)
	}
	step = "DecodeFile"
	for _, dn := range []string{"reader", "sr"} {
		var f *mp4.File
		var err error
		if dn == "reader" {
			f, err = mp4.DecodeFile(bytes.NewReader(buf.Bytes()))
		} else {
			f, err = mp4.DecodeFileSR(bits.NewFixedSliceReader(buf.Bytes()))
		}
		if err != nil {
			rep.Violation("decode/error", "encoded init segment does not decode ("+dn+"): "+err.Error(), cs)
			return
		}
		if !f.IsFragmented() || f.Init == nil {
			rep.Violation("decode/not-fragmented-init", "decoded file is not recognised as a fragmented init segment", cs)
			return
		}
		check("decoded-"+dn, f.Init.Moov)
		var b2 bytes.Buffer
		if err := f.Encode(&b2); err != nil || !bytes.Equal(b2.Bytes(), buf.Bytes()) {
			rep.Violation("reencode/bytes", "re-encoding the decoded init segment does not give the same bytes", cs)
		}
		var i1, i2 bytes.Buffer
		_ = ini.Info(&i1, "all:1", "", "  ")
		_ = f.Init.Info(&i2, "all:1", "", "  ")
		if i1.String() != i2.String() {
			rep.Violation("decode/tree-differs", "decoded tree differs from the built tree (Info dump)", cs)
		}
		// I8: a fragment for each track id decodes against this init
		step = "fragment"
		for _, t := range c.Traks {
			frag, err := mp4.CreateFragment(1, uint32(t.ID))
			if err != nil {
				rep.Violation("fragment/create", "CreateFragment fails: "+err.Error(), cs)
				continue
			}
			var exp []rdSample
			for k := 0; k < 3; k++ {
				d := tokenBytes(t.ID, k+1, 4+k)
				s := mp4.FullSample{Sample: mp4.Sample{Flags: 0x02000000, Dur: uint32(100 + k), Size: uint32(len(d)), CompositionTimeOffset: int32(k)}, DecodeTime: uint64(5000 + 100*k + k*(k-1)/2), Data: d}
				frag.AddFullSample(s)
				exp = append(exp, rdSample{int64(s.Dur), int64(s.Size), int64(s.Flags), int64(s.CompositionTimeOffset), int64(s.DecodeTime), d})
			}
			seg := mp4.NewMediaSegment()
			seg.AddFragment(frag)
			var sb bytes.Buffer
			if err := seg.Encode(&sb); err != nil {
				rep.Violation("fragment/encode", "segment encode fails: "+err.Error(), cs)
				continue
			}
			f2, err := mp4.DecodeFile(bytes.NewReader(cat(buf.Bytes(), sb.Bytes())))
			if err != nil || len(f2.Segments) != 1 {
				rep.Violation("fragment/decode", "init + segment does not decode: "+fmt.Sprint(err), cs)
				continue
			}
			trex, ok := f2.Init.Moov.Mvex.GetTrex(uint32(t.ID))
			if !ok {
				rep.Violation("fragment/no-trex", "no trex for track id", cs)
				continue
			}
			fs, err := f2.Segments[0].Fragments[0].GetFullSamples(trex)
			var got []rdSample
			for _, s := range fs {
				got = append(got, rdSample{int64(s.Dur), int64(s.Size), int64(s.Flags), int64(s.CompositionTimeOffset), int64(s.DecodeTime), s.Data})
			}
			if d := diffSamples(got, exp); err != nil || d != "" {
				rep.Violation("fragment/readback", "fragment for track does not read back against the init: "+d+" "+fmt.Sprint(err), cs)
			}
		}
	}
	_ = aac.AAClc
}

func eqNalus(a [][]byte, b [][]byte) bool {
	if len(a) != len(b) {
		return false
	}
	for i := range a {
		if !bytes.Equal(a[i], b[i]) {
			return false
		}
	}
	return true
}

// ---- descriptors built from parameter sets that the syntax specs serialised (AvcSyntax.tla / HevcSyntax.tla):
// the sample entry and its configuration record must state the coded values, before and after encode / decode.

func init() {
	register("c19-psets", c19Psets)
}

type c19Entry struct {
	Type                string
	Width, Height       int
	Profile, Level      int
	Compat              int
	Chroma, Bdl, Bdc    int
	SpsVerbatim, HasRec bool
}

func c19ProjectEntry(ini *mp4.InitSegment, sps []byte) (c19Entry, error) {
	var e c19Entry
	if ini == nil || ini.Moov == nil || ini.Moov.Trak == nil {
		return e, fmt.Errorf("no trak")
	}
	stsd := ini.Moov.Trak.Mdia.Minf.Stbl.Stsd
	if len(stsd.Children) != 1 {
		return e, fmt.Errorf("%d sample entries", len(stsd.Children))
	}
	v, ok := stsd.Children[0].(*mp4.VisualSampleEntryBox)
	if !ok {
		return e, fmt.Errorf("entry is %T", stsd.Children[0])
	}
	e.Type, e.Width, e.Height = v.Type(), int(v.Width), int(v.Height)
	switch {
	case v.AvcC != nil:
		r := v.AvcC.DecConfRec
		e.HasRec = true
		e.Profile, e.Compat, e.Level = int(r.AVCProfileIndication), int(r.ProfileCompatibility), int(r.AVCLevelIndication)
		e.Chroma, e.Bdl, e.Bdc = int(r.ChromaFormat), int(r.BitDepthLumaMinus1), int(r.BitDepthChromaMinus1)
		e.SpsVerbatim = len(r.SPSnalus) == 1 && bytes.Equal(r.SPSnalus[0], sps)
	case v.HvcC != nil:
		r := v.HvcC.DecConfRec
		e.HasRec = true
		e.Profile, e.Level = int(r.GeneralProfileIDC), int(r.GeneralLevelIDC)
		e.Chroma, e.Bdl, e.Bdc = int(r.ChromaFormatIDC), int(r.BitDepthLumaMinus8), int(r.BitDepthChromaMinus8)
		got := r.GetNalusForType(hevc.NALU_SPS)
		e.SpsVerbatim = len(got) == 1 && bytes.Equal(got[0], sps)
	}
	return e, nil
}

func c19Psets(args []string) error {
	rep := newReport()
	avcPps := []byte{0x68, 0xce, 0x38, 0x80}
	hvVps := []byte{0x40, 0x01, 0x0c, 0x01, 0xff, 0xff, 0x01, 0x60}
	hvPps := []byte{0x44, 0x01, 0xc1, 0x72, 0xb4, 0x62, 0x40}
	err := readLines(argValue(args, "-in", "-"), func(line []byte) error {
		var c struct {
			Codec  string          `json:"codec"`
			V      json.RawMessage `json:"v"`
			Nal    []int           `json:"nal"`
			Width  int             `json:"width"`
			Height int             `json:"height"`
			Chroma int             `json:"chroma"`
		}
		if err := json.Unmarshal(line, &c); err != nil {
			return err
		}
		sps := ints2bytes(c.Nal)
		var want c19Entry
		var entryTypes []string
		high := false
		if c.Codec == "avc" {
			var v avcSpsV
			if err := json.Unmarshal(c.V, &v); err != nil {
				return err
			}
			high = highProfiles[v.Profile]
			want = c19Entry{Profile: v.Profile, Compat: v.Compat, Level: v.Level, Chroma: v.Chroma, Bdl: v.Bdl, Bdc: v.Bdc}
			entryTypes = []string{"avc1", "avc3"}
		} else {
			var v hvSpsV
			if err := json.Unmarshal(c.V, &v); err != nil {
				return err
			}
			if v.Bdl > 7 || v.Bdc > 7 {
				rep.Count(string(line), false, nil) // hvcC has 3-bit depth fields
				return nil
			}
			want = c19Entry{Profile: v.Ptl.Idc, Level: v.Ptl.Level, Chroma: v.Chroma, Bdl: v.Bdl, Bdc: v.Bdc}
			entryTypes = []string{"hvc1", "hev1"}
		}
		if c.Width > 65535 || c.Height > 65535 {
			rep.Count(string(line), false, nil)
			return nil
		}
		want.Width, want.Height, want.SpsVerbatim, want.HasRec = c.Width, c.Height, true, true
		for _, et := range entryTypes {
			cs := J{"codec": c.Codec, "entry": et, "sps": fmt.Sprintf("%x", sps), "width": c.Width, "height": c.Height}
			func() {
				defer func() {
					if r := recover(); r != nil {
						rep.Violation("psets/"+c.Codec+"/panic", fmt.Sprintf("building the init segment panics: %v", r), cs)
					}
				}()
				ini := mp4.CreateEmptyInit()
				ini.AddEmptyTrack(90000, "video", "und")
				var err error
				if c.Codec == "avc" {
					err = ini.Moov.Trak.SetAVCDescriptor(et, [][]byte{sps}, [][]byte{avcPps}, true)
				} else {
					err = ini.Moov.Trak.SetHEVCDescriptor(et, [][]byte{hvVps}, [][]byte{sps}, [][]byte{hvPps}, nil, true)
				}
				if err != nil {
					rep.Violation("psets/"+c.Codec+"/descriptor-error", "descriptor cannot be set from a valid SPS: "+err.Error(), cs)
					return
				}
				w := want
				w.Type = et
				judge := func(stage string, ini *mp4.InitSegment) {
					got, err := c19ProjectEntry(ini, sps)
					if err != nil {
						rep.Violation("psets/"+c.Codec+"/"+stage+"/unreadable", err.Error(), cs)
						return
					}
					if c.Codec == "avc" && !high {
						got.Chroma, got.Bdl, got.Bdc = w.Chroma, w.Bdl, w.Bdc // not carried by avcC outside the high profiles
					}
					if got != w {
						field := "other"
						switch {
						case got.Width != w.Width || got.Height != w.Height:
							field = "dimensions"
						case got.Chroma != w.Chroma || got.Bdl != w.Bdl || got.Bdc != w.Bdc:
							field = "chroma-or-bit-depth"
						case got.Profile != w.Profile || got.Level != w.Level || got.Compat != w.Compat:
							field = "profile-or-level"
						case !got.SpsVerbatim:
							field = "sps-not-verbatim"
						}
						rep.Violation("psets/"+c.Codec+"/"+stage+"/"+field, fmt.Sprintf("sample entry says %+v, the supplied SPS codes %+v", got, w), cs)
					}
					if tk := ini.Moov.Trak.Tkhd; int(tk.Width>>16) != w.Width || int(tk.Height>>16) != w.Height {
						rep.Violation("psets/"+c.Codec+"/"+stage+"/tkhd-dimensions", fmt.Sprintf("tkhd %dx%d, SPS %dx%d", tk.Width>>16, tk.Height>>16, w.Width, w.Height), cs)
					}
				}
				judge("built", ini)
				var buf bytes.Buffer
				if err := ini.Encode(&buf); err != nil {
					rep.Violation("psets/"+c.Codec+"/encode-error", err.Error(), cs)
					return
				}
				if f, err := mp4.DecodeFile(bytes.NewReader(buf.Bytes())); err != nil || f.Init == nil {
					rep.Violation("psets/"+c.Codec+"/decode-error", fmt.Sprint(err), cs)
				} else {
					judge("decoded", f.Init)
				}
				if f, err := mp4.DecodeFileSR(bits.NewFixedSliceReader(buf.Bytes())); err != nil || f.Init == nil {
					rep.Violation("psets/"+c.Codec+"/decode-error-sr", fmt.Sprint(err), cs)
				} else {
					judge("decoded-sr", f.Init)
				}
			}()
		}
		rep.Count(string(line), true, nil)
		return nil
	})
	rep.Done()
	return err
}
