package main

// C19: init segments built through the API. Replays Init.tla histories through the real
// CreateEmptyInit / AddEmptyTrack / Set*Descriptor API, projects the real object (before and after an
// encode/decode round trip) and compares with the spec's expectation; then creates a fragment per
// track and reads it back against the decoded init.

import (
	"bytes"
	"encoding/hex"
	"encoding/json"
	"fmt"

	"github.com/Eyevinn/mp4ff/aac"
	"github.com/Eyevinn/mp4ff/avc"
	"github.com/Eyevinn/mp4ff/bits"
	"github.com/Eyevinn/mp4ff/hevc"
	"github.com/Eyevinn/mp4ff/mp4"
)

func init() {
	register("c19-replay", c19Replay)
}

const (
	avcSPSnalu  = "67640020accac05005bb0169e0000003002000000c9c4c000432380008647c12401cb1c31380"
	avcPPSnalu  = "68b5df20"
	hevcVPSnalu = "40010c01ffff022000000300b0000003000003007b18b024"
	hevcSPSnalu = "420101022000000300b0000003000003007ba0078200887db6718b92448053888892cf24a69272c9124922dc91aa48fca223ff000100016a02020201"
	hevcPPSnalu = "4401c0252f053240"
)

func unhex(s string) []byte {
	b, err := hex.DecodeString(s)
	if err != nil {
		panic(err)
	}
	return b
}

type c19Trak struct {
	ID       int    `json:"id"`
	Mt       string `json:"mt"`
	Ts       int    `json:"ts"`
	Lang     string `json:"lang"`
	Desc     string `json:"desc"`
	Hdlr     string `json:"hdlr"`
	Mh       string `json:"mh"`
	MdhdLang string `json:"mdhdlang"`
	Elng     string `json:"elng"`
	Entry    string `json:"entry"`
	Volume   int    `json:"volume"`
}

type c19Case struct {
	Next  int       `json:"next"`
	Trex  []int     `json:"trex"`
	Traks []c19Trak `json:"traks"`
}

// projectInit projects the real moov onto the abstract init segment.
func projectInit(moov *mp4.MoovBox) (c19Case, []string) {
	var p c19Case
	var notes []string
	if moov.Mvhd != nil {
		p.Next = int(moov.Mvhd.NextTrackID)
	}
	if moov.Mvex != nil {
		for _, t := range moov.Mvex.Trexs {
			p.Trex = append(p.Trex, int(t.TrackID))
		}
	}
	for _, tr := range moov.Traks {
		var t c19Trak
		if tr.Tkhd != nil {
			t.ID = int(tr.Tkhd.TrackID)
			t.Volume = int(tr.Tkhd.Volume)
		}
		if tr.Mdia != nil {
			if tr.Mdia.Mdhd != nil {
				t.Ts = int(tr.Mdia.Mdhd.Timescale)
				t.MdhdLang = tr.Mdia.Mdhd.GetLanguage()
			}
			if tr.Mdia.Hdlr != nil {
				t.Hdlr = tr.Mdia.Hdlr.HandlerType
			}
			if tr.Mdia.Elng != nil {
				t.Elng = tr.Mdia.Elng.Language
			}
			if tr.Mdia.Minf != nil {
				for _, c := range tr.Mdia.Minf.Children {
					switch c.Type() {
					case "vmhd", "smhd", "sthd", "nmhd":
						t.Mh = c.Type()
					}
				}
				if tr.Mdia.Minf.Stbl != nil && tr.Mdia.Minf.Stbl.Stsd != nil {
					t.Entry = "none"
					for _, c := range tr.Mdia.Minf.Stbl.Stsd.Children {
						t.Entry = c.Type()
					}
				}
			}
		}
		p.Traks = append(p.Traks, t)
	}
	return p, notes
}

func c19Replay(args []string) error {
	rep := newReport()
	err := readLines(argValue(args, "-in", "-"), func(line []byte) error {
		var c c19Case
		if err := json.Unmarshal(line, &c); err != nil {
			return err
		}
		hist := make([]string, len(c.Traks))
		for i, t := range c.Traks {
			hist[i] = t.Mt + "/" + t.Lang + "/" + t.Desc
		}
		cs := J{"history": hist}
		c19One(rep, &c, cs)
		var smp interface{}
		if len(c.Traks) == 2 && c.Traks[0].Desc == "avc1" {
			smp = cs
		}
		rep.Count(string(line), true, smp)
		return nil
	})
	rep.Done()
	return err
}

func c19One(rep *Report, c *c19Case, cs J) {
	step := "CreateEmptyInit"
	defer func() {
		if r := recover(); r != nil {
			key := "api/panic"
			if step == "AddEmptyTrack" {
				key = "api/panic/AddEmptyTrack-" + fmt.Sprint(cs["mt"])
			}
			rep.Violation(key, fmt.Sprintf("%s panics: %v", step, r), cs)
		}
	}()
	ini := mp4.CreateEmptyInit()
	for _, t := range c.Traks {
		step = "AddEmptyTrack"
		cs["mt"] = t.Mt
		ini.AddEmptyTrack(uint32(t.Ts), t.Mt, t.Lang)
	}
	delete(cs, "mt")
	type want struct {
		w, h       int
		sps, pps   [][]byte
		vps        [][]byte
		asc        *ascRec
		entryCheck bool
	}
	wants := make([]want, len(c.Traks))
	for i, t := range c.Traks {
		trak := ini.Moov.Traks[i]
		step = "SetDescriptor " + t.Desc
		var err error
		switch t.Desc {
		case "avc1", "avc3":
			sps, pps := [][]byte{unhex(avcSPSnalu)}, [][]byte{unhex(avcPPSnalu)}
			err = trak.SetAVCDescriptor(t.Desc, sps, pps, true)
			p, e2 := avc.ParseSPSNALUnit(sps[0], false)
			if e2 == nil {
				wants[i] = want{w: int(p.Width), h: int(p.Height), sps: sps, pps: pps, entryCheck: true}
			}
		case "hvc1", "hev1":
			vps, sps, pps := [][]byte{unhex(hevcVPSnalu)}, [][]byte{unhex(hevcSPSnalu)}, [][]byte{unhex(hevcPPSnalu)}
			err = trak.SetHEVCDescriptor(t.Desc, vps, sps, pps, nil, true)
			p, e2 := hevc.ParseSPSNALUnit(sps[0])
			if e2 == nil {
				w, h := p.ImageSize()
				wants[i] = want{w: int(w), h: int(h), vps: vps, sps: sps, pps: pps, entryCheck: true}
			}
		case "aac2", "aac5", "aac29":
			ot := map[string]int{"aac2": 2, "aac5": 5, "aac29": 29}[t.Desc]
			err = trak.SetAACDescriptor(byte(ot), 24000)
			a := ascRec{Ot: ot, Sf: 24000, Ch: 2}
			if ot != 2 {
				a.Ef, a.Sbr = 48000, true
			}
			if ot == 29 {
				a.Ch, a.Ps = 1, true
			}
			wants[i] = want{asc: &a}
		case "ac3":
			err = trak.SetAC3Descriptor(&mp4.Dac3Box{FSCod: 0, BSID: 8, ACMod: 7, LFEOn: 1, BitRateCode: 10})
		case "ec3":
			err = trak.SetEC3Descriptor(&mp4.Dec3Box{DataRate: 448, NumIndSub: 0, EC3Subs: []mp4.EC3Sub{{FSCod: 0, BSID: 16, ACMod: 7, LFEOn: 1}}})
		case "wvtt":
			err = trak.SetWvttDescriptor("WEBVTT")
		case "stpp":
			err = trak.SetStppDescriptor("http://www.w3.org/ns/ttml", "", "")
		}
		if err != nil {
			rep.Violation("api/descriptor-error", "Set"+t.Desc+"Descriptor fails: "+err.Error(), cs)
			return
		}
	}
	step = "project"
	check := func(stage string, moov *mp4.MoovBox) {
		got, _ := projectInit(moov)
		if got.Next != c.Next || fmt.Sprint(got.Trex) != fmt.Sprint(c.Trex) {
			rep.Violation("ids/"+stage, "track ids / trex ids / next track id inconsistent", J{"case": cs, "observed": got, "expected": c})
		}
		if len(got.Traks) != len(c.Traks) {
			rep.Violation("traks/count/"+stage, "wrong number of tracks", J{"case": cs})
			return
		}
		for i, w := range c.Traks {
			g := got.Traks[i]
			if g.ID != w.ID || g.Ts != w.Ts {
				rep.Violation("trak/id-timescale/"+stage, "track id or timescale differs", J{"case": cs, "observed": g, "expected": w})
			}
			if g.Hdlr != w.Hdlr {
				rep.Violation("trak/handler/"+w.Mt+"/"+stage, fmt.Sprintf("handler type %q does not match media type %q (expected %q)", g.Hdlr, w.Mt, w.Hdlr), J{"case": cs})
			}
			if g.Mh != w.Mh {
				rep.Violation("trak/media-header/"+w.Mt+"/"+stage, fmt.Sprintf("media header %q does not match media type %q (expected %q)", g.Mh, w.Mt, w.Mh), J{"case": cs})
			}
			if g.Volume != w.Volume {
				rep.Violation("trak/volume/"+stage, "tkhd volume does not match media type", J{"case": cs, "observed": g.Volume})
			}
			if g.MdhdLang != w.MdhdLang || g.Elng != w.Elng {
				rep.Violation("trak/language/"+stage, fmt.Sprintf("language: mdhd %q elng %q, expected mdhd %q elng %q", g.MdhdLang, g.Elng, w.MdhdLang, w.Elng), J{"case": cs})
			}
			if g.Entry != w.Entry {
				rep.Violation("trak/sample-entry/"+stage, fmt.Sprintf("sample entry %q, expected %q", g.Entry, w.Entry), J{"case": cs})
			}
			// I5: configuration equals what was supplied
			stsd := moov.Traks[i].Mdia.Minf.Stbl.Stsd
			wt := wants[i]
			switch {
			case wt.entryCheck && stsd.AvcX != nil:
				e := stsd.AvcX
				ok := int(e.Width) == wt.w && int(e.Height) == wt.h && e.AvcC != nil && eqNalus(e.AvcC.SPSnalus, wt.sps) && eqNalus(e.AvcC.PPSnalus, wt.pps)
				if !ok {
					rep.Violation("entry/avc-config/"+stage, "AVC sample entry dimensions / parameter sets differ from those supplied", J{"case": cs})
				}
			case wt.entryCheck && stsd.HvcX != nil:
				e := stsd.HvcX
				ok := int(e.Width) == wt.w && int(e.Height) == wt.h && e.HvcC != nil &&
					eqNalus(e.HvcC.GetNalusForType(hevc.NALU_VPS), wt.vps) && eqNalus(e.HvcC.GetNalusForType(hevc.NALU_SPS), wt.sps) && eqNalus(e.HvcC.GetNalusForType(hevc.NALU_PPS), wt.pps)
				if !ok {
					rep.Violation("entry/hevc-config/"+stage, "HEVC sample entry dimensions / parameter sets differ from those supplied", J{"case": cs})
				}
			case wt.entryCheck:
				rep.Violation("entry/missing/"+stage, "video sample entry missing", J{"case": cs})
			case wt.asc != nil:
				if stsd.Mp4a == nil || stsd.Mp4a.Esds == nil {
					rep.Violation("entry/missing/"+stage, "mp4a/esds missing", J{"case": cs})
				} else if a, err := ascFromEsds(stsd.Mp4a.Esds); err != nil || ascOf(a) != *wt.asc {
					rep.Violation("entry/aac-config/"+stage, "AAC configuration differs from the one supplied", J{"case": cs})
				}
			}
		}
	}
	check("built", ini.Moov)
	// I6/I7: encode -> decode -> equal tree, equal bytes on re-encode, recognised as fragmented init
	step = "Encode"
	var buf bytes.Buffer
	if err := ini.Encode(&buf); err != nil {
		rep.Violation("encode/error", "init segment does not encode: "+err.Error(), cs)
		return
	}
	if uint64(buf.Len()) != ini.Size() {
		rep.Violation("encode/size", "init segment Size() differs from bytes written", cs)
	}
	step = "DecodeFile"
	for _, dn := range []string{"reader", "sr"} {
		var f *mp4.File
		var err error
		if dn == "reader" {
			f, err = mp4.DecodeFile(bytes.NewReader(buf.Bytes()))
		} else {
			f, err = mp4.DecodeFileSR(bits.NewFixedSliceReader(buf.Bytes()))
		}
		if err != nil {
			rep.Violation("decode/error", "encoded init segment does not decode ("+dn+"): "+err.Error(), cs)
			return
		}
		if !f.IsFragmented() || f.Init == nil {
			rep.Violation("decode/not-fragmented-init", "decoded file is not recognised as a fragmented init segment", cs)
			return
		}
		check("decoded-"+dn, f.Init.Moov)
		var b2 bytes.Buffer
		if err := f.Encode(&b2); err != nil || !bytes.Equal(b2.Bytes(), buf.Bytes()) {
			rep.Violation("reencode/bytes", "re-encoding the decoded init segment does not give the same bytes", cs)
		}
		var i1, i2 bytes.Buffer
		_ = ini.Info(&i1, "all:1", "", "  ")
		_ = f.Init.Info(&i2, "all:1", "", "  ")
		if i1.String() != i2.String() {
			rep.Violation("decode/tree-differs", "decoded tree differs from the built tree (Info dump)", cs)
		}
		// I8: a fragment for each track id decodes against this init
		step = "fragment"
		for _, t := range c.Traks {
			frag, err := mp4.CreateFragment(1, uint32(t.ID))
			if err != nil {
				rep.Violation("fragment/create", "CreateFragment fails: "+err.Error(), cs)
				continue
			}
			var exp []rdSample
			for k := 0; k < 3; k++ {
				d := tokenBytes(t.ID, k+1, 4+k)
				s := mp4.FullSample{Sample: mp4.Sample{Flags: 0x02000000, Dur: uint32(100 + k), Size: uint32(len(d)), CompositionTimeOffset: int32(k)}, DecodeTime: uint64(5000 + 100*k + k*(k-1)/2), Data: d}
				frag.AddFullSample(s)
				exp = append(exp, rdSample{int64(s.Dur), int64(s.Size), int64(s.Flags), int64(s.CompositionTimeOffset), int64(s.DecodeTime), d})
			}
			seg := mp4.NewMediaSegment()
			seg.AddFragment(frag)
			var sb bytes.Buffer
			if err := seg.Encode(&sb); err != nil {
				rep.Violation("fragment/encode", "segment encode fails: "+err.Error(), cs)
				continue
			}
			f2, err := mp4.DecodeFile(bytes.NewReader(cat(buf.Bytes(), sb.Bytes())))
			if err != nil || len(f2.Segments) != 1 {
				rep.Violation("fragment/decode", "init + segment does not decode: "+fmt.Sprint(err), cs)
				continue
			}
			trex, ok := f2.Init.Moov.Mvex.GetTrex(uint32(t.ID))
			if !ok {
				rep.Violation("fragment/no-trex", "no trex for track id", cs)
				continue
			}
			fs, err := f2.Segments[0].Fragments[0].GetFullSamples(trex)
			var got []rdSample
			for _, s := range fs {
				got = append(got, rdSample{int64(s.Dur), int64(s.Size), int64(s.Flags), int64(s.CompositionTimeOffset), int64(s.DecodeTime), s.Data})
			}
			if d := diffSamples(got, exp); err != nil || d != "" {
				rep.Violation("fragment/readback", "fragment for track does not read back against the init: "+d+" "+fmt.Sprint(err), cs)
			}
		}
	}
	_ = aac.AAClc
}

func eqNalus(a [][]byte, b [][]byte) bool {
	if len(a) != len(b) {
		return false
	}
	for i := range a {
		if !bytes.Equal(a[i], b[i]) {
			return false
		}
	}
	return true
}
